#!/bin/sh
# run.sh <outdir> <go test args…>: regenerate the instrumented overlay of /repo into <outdir>
# (fresh; the working tree is re-read every time) and run `go test` on the harness module with it.
# Environment: VERIF_YIELDS=all instruments every statement (default: filtered); VERIF_REPO=<tree>.
set -e
[ $# -ge 1 ] || { echo "usage: $0 <outdir> <go test args…>" >&2; exit 2; }
out=$1; shift
export GOFLAGS=-mod=mod GOPROXY=off GOSUMDB=off GOTOOLCHAIN=local CGO_ENABLED=0
here=$(cd "$(dirname "$0")" && pwd)
verif=$(cd "$here/../.." && pwd)
mkdir -p "$verif/tools/bin"
(cd "$verif/tools/instr" && go1.26.8 build -o "$verif/tools/bin/instr" .)
rm -rf "$out"
"$verif/tools/bin/instr" -repo "${VERIF_REPO:-/repo}" -out "$out" -yields "${VERIF_YIELDS:-filtered}" \
	-rt "$verif/harness/verifrt_src/rt.go" -exports "$verif/harness/overlay/exports.json"
cd "$verif/harness"
exec go1.26.8 test -overlay "$out/overlay.json" -vet=off "$@"
