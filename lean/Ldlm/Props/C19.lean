import Ldlm.Proofs.ClientAlive
import Ldlm.Proofs.ClientConc
/-!
C19 — Go client: auto-renew keeps holds alive, stops at Unlock, handles many holds.

Sequential semantics: model M5 (`Ldlm.Client`) = the client's renew map and renew timers over the
lock-server model M2, zero-latency RPCs, tied to `client/client.go` by the `clientmodel` stream.
Constants and comparison operators of the interval rule and of the retry rule are regenerated from
the source (`rules_pinned`), every RPC call site is inside `rpcWithRetry` (`all_rpcs_retried`).

* `interval_below_timeout` — for every lock timeout above the minimum renew interval the renew
  interval is strictly below the timeout (and at least the minimum); `interval_too_long` — at or
  below the minimum it is not (the property's stated limit).
* `keeps_alive` — **for every history** of TryLock (timeouts 0 or above the minimum) / Unlock / time
  advance on an auto-renewing client: the client is either dead of the out-of-sync panic (K19a) or
  every hold that has a renewer is held at the server with its lease deadline after its next Renew,
  no renewer has failed, and (`advance_only_good_renews`) every RPC sent during an advance is a
  Renew that succeeds.  Holds on different names are independent (`unlock_leaves_others`).
* `second_hold_same_name_panics` — K19a (known finding): the renew map is keyed by the lock name
  alone, so a second granted auto-renewed hold of one counting lock panics in the caller.
* retry rule (`retry_*`): at most MaxRetries + 1 attempts; every attempt but the last was answered
  Unavailable; the outcome returned is the last attempt's; any other answer is returned at once.

Races: model M5c (`Ldlm.ClientConc`), one step per channel operation of the repaired `Stop`
(repair 9e742fe; bodies pinned), Unlock thread ‖ Close thread ‖ renew goroutine, any schedule.
* `no_renew_after_return`, `no_panic_from_race` — in every reachable state no Renew was sent after
  Unlock or Close returned and the goroutine has not panicked; `stop_never_stuck`.
* `old_stop_misses_busy_renewer` — the `Stop` before the repair: a schedule on which the Renew is
  sent after Unlock returned and the goroutine panics (kernel-checked witness; the defect the
  interleaving stream found on the original tree).
-/
namespace Ldlm.Props.C19
open Ldlm.Core Ldlm.Client Ldlm.AMap

theorem interval_below_timeout (lt : Int) (h : 10 < lt) : interval 10 lt < lt ∧ 10 ≤ interval 10 lt :=
  interval_lt 10 lt (by decide) h

theorem interval_too_long (lt : Int) (h : lt ≤ 10) : ¬ interval 10 lt < lt := interval_not_lt 10 lt h

/-- the rule as the source states it (regenerated): threshold 30, subtract 30, minimum 10; retry on
Unavailable only, while retries < maxRetries, 3 s apart -/
theorem rules_pinned :
    Facts.minRenewSeconds = some 10 ∧ Facts.renewThreshold = some ("<=", 30) ∧ Facts.renewSubtract = some 30 ∧
    Facts.retryCode = some "Unavailable" ∧ Facts.retryBudgetCmp = some ("retries", ">=", "maxRetries") ∧
    Facts.retryDelaySeconds = some 3 ∧ Facts.renewMapKey = some "r.Name" := by
  refine ⟨rfl, rfl, rfl, rfl, rfl, rfl, rfl⟩

/-- every RPC the client sends goes through `rpcWithRetry` (so does the renewer's: it calls `Client.Renew`) -/
theorem all_rpcs_retried : Facts.clientPbcCalls.all (fun e => e.2.2) = true ∧
    Facts.clientPbcCalls.map (fun e => e.2.1) = ["Lock", "TryLock", "Unlock", "Renew"] := by
  exact ⟨rfl, rfl⟩

section seq
variable {M : Type} (o : MapOps M) (c : Cfg) (cc : CCfg)

theorem keeps_alive (ho : o.Lawful) (hinj : KeysInjective c)
    (hmin : 0 < cc.minRenew)
    (hauto : cc.noAutoRenew = false) (sid : Sid) (ops : List COp) (hs : ∀ op ∈ ops, op.inScope cc) :
    let s := crun o c cc (cinit o c sid) ops
    s.panicked = some .outOfSync ∨
    (s.panicked = none ∧ ∀ name ρ, get s.rs name = some ρ →
      held o s.srv name ρ.key ∧ ∃ tm, get s.srv.timers (tkey name ρ.key) = some tm ∧ ρ.next < tm.deadline) := by
  intro s
  rcases crun_fine ho hinj hmin hauto ops _ (Or.inr (cinit_alive ho hinj sid)) hs with h | h
  · exact Or.inl h
  · right
    refine ⟨h.np, fun name ρ hg => ⟨alive_held h name ρ hg, ?_⟩⟩
    obtain ⟨_, _, tm, h1, h2⟩ := h.live name ρ hg
    exact ⟨tm, h1, h2⟩

theorem advance_only_good_renews (ho : o.Lawful) (hinj : KeysInjective c)
    (hmin : 0 < cc.minRenew)
    (s : CSt M) (h : Alive o c cc s) (dt : Nat) :
    ∀ rpc ∈ (cstep o c cc s (.adv dt)).2.rpcs, rpc.goodRenew := by
  simp only [cstep]
  exact (cadv_alive ho hinj hmin _ _ s h).2

/-- Unlock of one name leaves the renewers of every other name in place -/
theorem unlock_leaves_others (s : CSt M) (name key name' : Str) (hne : name ≠ name') :
    get (cstep o c cc s (.unlock name key)).1.rs name' = get s.rs name' := by
  simp only [cstep]
  split
  · rfl
  · simp [get_del, hne]

/-- … and removes the renewer registered under its own name before the RPC is sent -/
theorem unlock_removes_renewer (s : CSt M) (name key : Str) (h : cc.noAutoRenew = false) :
    get (cstep o c cc s (.unlock name key)).1.rs name = none := by
  simp [cstep, h, get_del]

/-- K19a: a second granted hold with a lock timeout on a name the client already renews panics -/
theorem second_hold_same_name_panics (s : CSt M) (name : Str) (size lt : Int) (ρ : Renewer)
    (hg : get s.rs name = some ρ) (hauto : cc.noAutoRenew = false) (hlt : lt ≠ 0)
    (hok : (Core.step o c s.srv (.tryLock (some s.sid) name (optPos size) (optPos lt))).2.ok = true) :
    (cstep o c cc s (.tryLock name size lt)).1.panicked = some .outOfSync := by
  simp [cstep, hok, hauto, hlt, hg]

end seq

theorem retry_at_most (m : Nat) (outs : List Attempt) : (retry m 0 outs).1 ≤ m + 1 := by
  have := retry_attempts_le m outs 0 (Nat.zero_le _); omega

theorem retry_only_on_unavailable (m : Nat) (outs : List Attempt) (i : Nat) (h : i + 1 < (retry m 0 outs).1) :
    outs[i]? = some .unavailable := retry_only_unavailable m outs 0 i h

theorem retry_result_is_last (m : Nat) (outs : List Attempt) (a : Attempt) (h : (retry m 0 outs).2 = some a) :
    outs[(retry m 0 outs).1 - 1]? = some a := retry_returns_last m outs 0 a h

theorem retry_other_error_final (m : Nat) (a : Attempt) (rest : List Attempt) (h : a ≠ .unavailable) :
    retry m 0 (a :: rest) = (1, some a) := retry_other_final m 0 a rest h

theorem retry_unavailable_within_budget (m n : Nat) (a : Attempt) (ha : a ≠ .unavailable) (rest : List Attempt)
    (hn : n ≤ m) : retry m 0 (List.replicate n .unavailable ++ a :: rest) = (n + 1, some a) :=
  retry_within_budget m a ha rest n 0 (by omega)

theorem retry_unavailable_over_budget (m : Nat) (rest : List Attempt) :
    retry m 0 (List.replicate (m + 1) .unavailable ++ rest) = (m + 1, some .unavailable) := by
  have := retry_over_budget m rest 0 (Nat.zero_le _)
  simpa using this

/-- any configured budget, negative ones included (`MaxRetries` is an `int`): at most `max(budget, 0)` retries … -/
theorem retry_at_most_int (m : Int) (outs : List Attempt) : ((retryInt m outs).1 : Int) ≤ max m 0 + 1 := by
  have := retry_at_most m.toNat outs
  unfold retryInt
  omega

/-- … and a budget of zero or less means exactly one attempt, whatever it answers -/
theorem retry_nonpositive_budget (m : Int) (hm : m ≤ 0) (a : Attempt) (rest : List Attempt) :
    retryInt m (a :: rest) = (1, some a) := by
  have h0 : m.toNat = 0 := by omega
  unfold retryInt
  rw [h0]
  simp [retry]

example : retryInt (-1) [.unavailable, .unavailable, .ok] = (1, some .unavailable) := by decide

section conc
open Ldlm.ClientConc

theorem no_renew_after_return (as : List Act) (s : ClientConc.St) (hr : ClientConc.run false ClientConc.init as = some s) :
    s.late = false := (ClientConc.run_inv as _ s ClientConc.init_inv hr).late

theorem no_panic_from_race (as : List Act) (s : ClientConc.St) (hr : ClientConc.run false ClientConc.init as = some s) :
    s.g ≠ .panicked := (ClientConc.run_inv as _ s ClientConc.init_inv hr).nopan

/-- Unlock's RPC and Close's `conn.Close()` happen only after the renew goroutine has exited -/
theorem rpc_after_exit (as : List Act) (s : ClientConc.St) (hr : ClientConc.run false ClientConc.init as = some s) :
    (s.u = .u2 ∨ s.u = .u3 → s.g = .exited) ∧ (s.c = .u2 ∨ s.c = .u3 → s.g = .exited) :=
  ⟨(ClientConc.run_inv as _ s ClientConc.init_inv hr).uDone, (ClientConc.run_inv as _ s ClientConc.init_inv hr).cDone⟩

theorem stop_never_stuck (as : List Act) (s : ClientConc.St) (hr : ClientConc.run false ClientConc.init as = some s)
    (hw : s.u = .u1 ∨ s.c = .u1) :
    s.g = .exited ∨ ∃ a, (a = .gTimer ∨ a = .gCheck ∨ a = .gSend ∨ a = .gAnswer ∨ a = .gStop) ∧ ClientConc.step false s a ≠ none :=
  stopper_progress s (ClientConc.run_inv as _ s ClientConc.init_inv hr) hw

/-- the `Stop` before the repair: the timer fires, Unlock's non-blocking send is dropped, Unlock
returns, the Renew is sent afterwards and the goroutine panics on its answer -/
theorem old_stop_misses_busy_renewer :
    (ClientConc.run true ClientConc.init [.gTimer, .gCheck, .uStep, .uStep, .gSend, .gAnswer]).map (fun s => (s.late, s.g, s.u))
      = some (true, .panicked, .u3) := by decide

/-- non-vacuity of the repaired model: the same race ends with the goroutine exited and no late Renew -/
example : (ClientConc.run false ClientConc.init [.gTimer, .gCheck, .uStep, .gSend, .gAnswer, .gStop, .uStep, .uStep]).map
    (fun s => (s.late, s.g, s.u, s.held)) = some (false, .exited, .u3, false) := by decide

end conc

/-! non-vacuity of `keeps_alive`: a 40 s hold is renewed at 10, 20, 30 s and still held at 35 s; a 10 s
hold is not (`interval_too_long`): its first Renew at 10 s fails -/
def cfg0 : Cfg := { gcInterval := 0, gcMinIdle := 0, dlt := 600 * sec, noClear := false, hasFile := false,
                    genKey := fun n => 75 :: natDigits n }
def c0 : CSt (List (Str × LockRec)) := cinit flatOps cfg0 [99]
example : ((cstep flatOps cfg0 {} (cstep flatOps cfg0 {} c0 (.tryLock [97] 0 40)).1 (.adv (35 * sec))).2.rpcs.length,
           (cstep flatOps cfg0 {} (cstep flatOps cfg0 {} c0 (.tryLock [97] 0 40)).1 (.adv (35 * sec))).1.panicked,
           (cstep flatOps cfg0 {} (cstep flatOps cfg0 {} c0 (.tryLock [97] 0 40)).1 (.adv (35 * sec))).1.srv.timers.length)
    = (3, none, 1) := by decide
example : (cstep flatOps cfg0 {} (cstep flatOps cfg0 {} c0 (.tryLock [97] 0 10)).1 (.adv (11 * sec))).1.panicked
    = some (.renewFailed [97]) := by decide

end Ldlm.Props.C19
