"""Registry of the per-property checks: Lean modules and theorems (the proof obligations), and the
correspondence streams that tie the hand-written models to /repo's working tree."""
import os


def tier():
    return os.environ.get("VERIF_TIER", "quick")


TRUSTED_BASE = [
    "Lean 4.33.0 kernel (thorough tier: re-checked by leanchecker)",
    "axioms allowed in any listed theorem: propext, Classical.choice, Quot.sound (audited by #print axioms on every run); no sorry/admit/axiom/native_decide/bv_decide (grep on every run)",
    "the models under lean/Ldlm/Model are hand-written; they are tied to /repo only by the correspondence streams of this check (differential execution = testing) and the regenerated facts",
    "my own tools: harness drivers and their canonicalisation, overlay instrumenter + verifrt scheduler, facts extractor, this Python driver",
    "Go 1.26.8 toolchain and testing/synctest's virtual clock (the repository's own suite uses go1.24.1)",
]
ASSUMPTIONS = [
    "process-kill crash model only (page cache survives); no power loss",
    "Go scheduler fairness; real-time promptness is observed in virtual time only",
]


def gotest(pkg, test, extra=None):
    def cmd(t):
        c = ["go1.26.8", "test", "-count=1", "-vet=off", "-timeout", "170m", "-run", "^%s$" % test, "./" + pkg]
        return c + (extra or [])
    return cmd


CODEC = dict(name="codec", cmd=gotest("codec", "TestCodec"), timeout=dict(quick=900, thorough=3600))

P = "Ldlm.Props."
PROPS = {
    "C17": dict(
        modules=[P + "C17"],
        theorems=[P + "C17." + t for t in (
            "dec_enc", "rewrite_exact", "rewrites_exact", "dec_safe_partial", "noGuard_of_encoding",
            "dec_panics_neglen", "dec_panics_past_end", "dec_panics_makeslice", "dec_overallocates",
            "dec_accepts_bad_terminator")],
        status={P + "C17.dec_safe_partial": "partial (hypothesis noGuard: no length/count guard trips)",
                P + "C17.dec_panics_neglen": "refutation witness (K5a)", P + "C17.dec_panics_past_end": "refutation witness (K5b)",
                P + "C17.dec_panics_makeslice": "refutation witness (K5c)", P + "C17.dec_overallocates": "refutation witness (K6)",
                P + "C17.dec_accepts_bad_terminator": "observation (terminator bytes never compared)"},
        streams=[CODEC],
        level_text="Round trip (any map, any rewrite sequence) and totality are proved for all inputs about the byte-level model M0 of benc+store.go; 'damaged input is rejected safely' is false of the code (known findings K5a-c, K6) and is proved only under the decidable hypothesis noGuard, with kernel-checked refutation witnesses for the unrestricted statement. The model is tied to store.Write/store.Read by a byte-exact differential run on every invocation.",
        level_note="Trusted: Lean kernel; the hand-written model of benc (third-party, modelled not verified) and its differential tie (generated maps, every truncation / 6 corruptions per byte of valid files, random bytes; large predicted allocations run in a memory-limited child); Go runtime allocation counter. The 48 B/byte bound is about allocation *requests* (slice/map make), not total heap.",
        technique="Lean 4 proof (structural induction; guarded-decoder simulation) + byte-level differential correspondence",
        trusted=["benc v1.1.8 is modelled byte-for-byte for the five functions store.go uses (not verified)",
                 "allocation is compared through the runtime's cumulative heap-allocation counter"],
    ),
}

NOT_CLAIMED = {}
ENGINES = [
    dict(name="lean", path="/verif/lean", serves_properties=sorted(PROPS), kind_free_text="Lean 4 project: models (Ldlm/Model), proofs (Ldlm/Proofs), property theorems (Ldlm/Props), compiled line-protocol model driver"),
    dict(name="codec", path="/verif/harness/codec", serves_properties=["C17"], kind_free_text="byte-level differential of store.Write/Read against the Lean codec model"),
]
NOTES = "Every check = Lean proof obligations about a model + a correspondence run that ties the model to /repo's working tree. See DESIGN.md."
