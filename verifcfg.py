"""Registry of the per-property checks: Lean modules and theorems (the proof obligations), and the
correspondence streams that tie the hand-written models to /repo's working tree."""
import os


def tier():
    return os.environ.get("VERIF_TIER", "quick")


TRUSTED_BASE = [
    "Lean 4.33.0 kernel (thorough tier: re-checked by leanchecker)",
    "axioms allowed in any listed theorem: propext, Classical.choice, Quot.sound (audited by #print axioms on every run); no sorry/admit/axiom/native_decide/bv_decide (grep on every run)",
    "the models under lean/Ldlm/Model are hand-written; they are tied to /repo only by the correspondence streams of this check (differential execution = testing) and the regenerated facts",
    "my own tools: harness drivers and their canonicalisation, overlay instrumenter + verifrt scheduler, facts extractor, this Python driver",
    "Go 1.26.8 toolchain and testing/synctest's virtual clock (the repository's own suite uses go1.24.1)",
]
ASSUMPTIONS = [
    "process-kill crash model only (page cache survives); no power loss",
    "Go scheduler fairness; real-time promptness is observed in virtual time only",
]


def gotest(pkg, test, extra=None):
    def cmd(t):
        c = ["go1.26.8", "test", "-count=1", "-vet=off", "-timeout", "170m", "-run", "^%s$" % test, "./" + pkg]
        return c + (extra or [])
    return cmd


def seqtest(extra_env=None):
    def cmd(t):
        return ["go1.26.8", "test", "-count=1", "-vet=off", "-timeout", "170m", "-overlay", "overlay/exports.json", "-run", "^TestSeq$", "./seq"]
    return dict(name="seq", cmd=cmd, timeout=dict(quick=900, thorough=7200), replayable=True, env=extra_env or {})


SEQ = seqtest()
M2_TRUST = ["M2 (lean/Ldlm/Model/Core.lean) is a hand-written sequential model of server.go + lock/*.go + timermap.go + session.go; x/sync semaphore (unit weights), time.AfterFunc/Timer, context cancellation and uuid freshness (KeysInjective) are modelled, not verified",
            "tie: random state-aware histories in virtual time (testing/synctest), canonical per-operation snapshots (response, listing, lock table via overlay accessors, decoded state file, timer keys, blocked calls) compared channel by channel; ties between order-sensitive timer events are detected by the model and the history is cut there"]
CODEC = dict(name="codec", cmd=gotest("codec", "TestCodec"), timeout=dict(quick=900, thorough=3600))

P = "Ldlm.Props."
PROPS = {
    "C01": dict(
        modules=[P + "C01"],
        theorems=[P + "C01." + t for t in ("capacity", "mutual_exclusion", "capacity_sharded", "waiter_implies_full")]
                 + ["Ldlm.Core.run_lockInv", "Ldlm.Core.shardedOps_lawful", "Ldlm.Core.flatOps_lawful"],
        streams=[SEQ],
        level_text="Sequential half: for EVERY operation sequence (grants, unlocks, renews, lease expiries, wait time-outs, session ends, GC passes, restarts, admin unlocks) and every lawful lock-table representation (sharded with any hash/shard count) the model never holds more keys than the size: proved by induction over operations, no bound. Tied to the code by seqdiff (lock-table channel) and a direct monitor on the implementation's table. Interleavings (schedules) are NOT yet covered by a theorem in this revision; see level_note.",
        level_note="PARTIAL in this revision: the schedule quantifier (concurrent requests / GC / timers) is not yet covered: the interleaved table model M1 and its concdiff tie are work in progress (DESIGN §4 M1). Known on the tree: GC racing an acquisition can double-grant (D8) — to be flagged by the concurrent check. Trusted: Lean kernel, hand-written M2 + differential tie, synctest clock.",
        technique="Lean 4 proof (inductive invariant over all operation sequences, generic in the table representation) + sequential differential correspondence",
        trusted=M2_TRUST,
    ),
    "C07": dict(
        modules=[P + "C07"],
        theorems=[P + "C07." + t for t in ("failed_inert", "timerKey_injective", "unlock_frame_locks", "renew_frame", "waitTimeout_frame")]
                 + ["Ldlm.Core.step_inv", "Ldlm.Core.inv_blocks", "Ldlm.Core.init_inv'"],
        status={"Ldlm.Core.step_inv": "reachability: invariant preserved by every operation (restart: hypothesis hr, proved separately when CoreRestart is present)"},
        streams=[SEQ],
        level_text="For every state satisfying the reachability invariant and every Lock/TryLock/Unlock/Renew/admin-unlock request that answers with an error, sizes, key lists, waiter queues, lease timers, session table, state file and blocked calls are proved unchanged (idle clock and key counter excluded and named); the lease-timer key is proved injective on byte strings, and Unlock/Renew are proved to leave other locks / other pairs' leases alone. Tied to the code by seqdiff over adversarial name/key alphabets (a, ab, b+K, …) with a model-independent 'snapshot before = snapshot after' monitor.",
        level_note="The invariant is proved preserved by every operation except restart, for which preservation is an explicit hypothesis (hr) until Proofs/CoreRestart lands; failed_inert itself is per-state. Trusted: Lean kernel, hand-written M2, uuid freshness (KeysInjective), the differential tie. D1 (timer-key collision) was found by this check on the original tree and repaired (fix: commit bb3b219).",
        technique="Lean 4 proof (per-step case analysis under an inductive invariant; injectivity of the timer-key encoding) + sequential differential correspondence + before/after monitor",
        trusted=M2_TRUST,
    ),
    "C08": dict(
        modules=[P + "C08"],
        theorems=[P + "C08." + t for t in ("listed_is_held", "held_is_listed_partial", "views_agree_partial", "listing_unique", "file_is_listing", "file_decodes", "noclear_views_differ")]
                 + ["Ldlm.Core.step_inv", "Ldlm.Core.inv_blocks"],
        status={P + "C08.held_is_listed_partial": "partial (hypothesis noClear = false)", P + "C08.views_agree_partial": "partial (hypothesis noClear = false)",
                P + "C08.noclear_views_differ": "refutation witness (K1)"},
        streams=[SEQ],
        level_text="Listing ⊆ table is proved for every reachable state and configuration; table ⊆ listing and hence the pointwise equivalence only with clearing on disconnect (with no-clear it is false of the code: known finding K1, kernel-checked counterexample). File = session table up to hold-less new sessions is proved; the file bytes decode to that table by C17's round trip. Tied to the code by seqdiff carrying all three views (listing, decoded file through a second handle, lock table) after every operation, with foreign-session unlocks, both disconnect policies, restarts.",
        level_note="Partial by K1 (no-clear-on-disconnect drops bookkeeping while capacity stays occupied). Invariant preservation by restart is hypothesis hr until Proofs/CoreRestart lands. D2 (foreign-session unlock left the hold listed) was found by this check and repaired (fix: commit e6a606e). Trusted: Lean kernel, hand-written M2, the differential tie.",
        technique="Lean 4 proof (pointwise inductive invariant booked⇔held, bookkeeping uniqueness, file/session relation) + three-view sequential differential correspondence",
        trusted=M2_TRUST,
    ),
    "C17": dict(
        modules=[P + "C17"],
        theorems=[P + "C17." + t for t in (
            "dec_enc", "rewrite_exact", "rewrites_exact", "dec_safe_partial", "noGuard_of_encoding",
            "dec_panics_neglen", "dec_panics_past_end", "dec_panics_makeslice", "dec_overallocates",
            "dec_accepts_bad_terminator")],
        status={P + "C17.dec_safe_partial": "partial (hypothesis noGuard: no length/count guard trips)",
                P + "C17.dec_panics_neglen": "refutation witness (K5a)", P + "C17.dec_panics_past_end": "refutation witness (K5b)",
                P + "C17.dec_panics_makeslice": "refutation witness (K5c)", P + "C17.dec_overallocates": "refutation witness (K6)",
                P + "C17.dec_accepts_bad_terminator": "observation (terminator bytes never compared)"},
        streams=[CODEC],
        level_text="Round trip (any map, any rewrite sequence) and totality are proved for all inputs about the byte-level model M0 of benc+store.go; 'damaged input is rejected safely' is false of the code (known findings K5a-c, K6) and is proved only under the decidable hypothesis noGuard, with kernel-checked refutation witnesses for the unrestricted statement. The model is tied to store.Write/store.Read by a byte-exact differential run on every invocation.",
        level_note="Trusted: Lean kernel; the hand-written model of benc (third-party, modelled not verified) and its differential tie (generated maps, every truncation / 6 corruptions per byte of valid files, random bytes; large predicted allocations run in a memory-limited child); Go runtime allocation counter. The 48 B/byte bound is about allocation *requests* (slice/map make), not total heap.",
        technique="Lean 4 proof (structural induction; guarded-decoder simulation) + byte-level differential correspondence",
        trusted=["benc v1.1.8 is modelled byte-for-byte for the five functions store.go uses (not verified)",
                 "allocation is compared through the runtime's cumulative heap-allocation counter"],
    ),
}

NOT_CLAIMED = {}
ENGINES = [
    dict(name="lean", path="/verif/lean", serves_properties=sorted(PROPS), kind_free_text="Lean 4 project: models (Ldlm/Model), proofs (Ldlm/Proofs), property theorems (Ldlm/Props), compiled line-protocol model driver"),
    dict(name="codec", path="/verif/harness/codec", serves_properties=["C17"], kind_free_text="byte-level differential of store.Write/Read against the Lean codec model"),
    dict(name="seq", path="/verif/harness/seq", serves_properties=["C01", "C03", "C04", "C07", "C08", "C10", "C12", "C13", "C18"], kind_free_text="sequential histories in virtual time: real LockServer (testing/synctest) vs Lean model M2 through the line protocol, plus model-independent monitors"),
]
NOTES = "Every check = Lean proof obligations about a model + a correspondence run that ties the model to /repo's working tree. See DESIGN.md."
