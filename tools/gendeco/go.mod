module gendeco

go 1.26
