"""Registry of the per-property checks: Lean modules and theorems (the proof obligations), and the
correspondence streams that tie the hand-written models to /repo's working tree."""
import os


def tier():
    return os.environ.get("VERIF_TIER", "quick")


TRUSTED_BASE = [
    "Lean 4.33.0 kernel (thorough tier: re-checked by leanchecker)",
    "axioms allowed in any listed theorem: propext, Classical.choice, Quot.sound (audited by #print axioms on every run); no sorry/admit/axiom/native_decide/bv_decide (grep on every run)",
    "the models under lean/Ldlm/Model are hand-written; they are tied to /repo only by the correspondence streams of this check (differential execution = testing) and the regenerated facts",
    "my own tools: harness drivers and their canonicalisation, overlay instrumenter + verifrt scheduler, facts extractor, this Python driver",
    "Go 1.26.8 toolchain and testing/synctest's virtual clock (the repository's own suite uses go1.24.1)",
]
ASSUMPTIONS = [
    "process-kill crash model only (page cache survives); no power loss",
    "Go scheduler fairness; real-time promptness is observed in virtual time only",
]


def gotest(pkg, test, extra=None):
    def cmd(t):
        c = ["go1.26.8", "test", "-count=1", "-vet=off", "-timeout", "170m", "-run", "^%s$" % test, "./" + pkg]
        return c + (extra or [])
    return cmd


def seqtest(extra_env=None):
    def cmd(t):
        return ["go1.26.8", "test", "-count=1", "-vet=off", "-timeout", "170m", "-overlay", "overlay/exports.json", "-run", "^TestSeq$", "./seq"]
    return dict(name="seq", cmd=cmd, timeout=dict(quick=900, thorough=7200), replayable=True, env=extra_env or {})


SEQ = seqtest()


def stacktest():
    def cmd(t):
        return ["go1.26.8", "test", "-count=1", "-vet=off", "-timeout", "170m", "-overlay", "overlay/exports.json", "-run", "^TestStack$", "./stack"]
    return dict(name="stack", cmd=cmd, timeout=dict(quick=900, thorough=7200))


def conctest(pkg="concsrv", test="TestConc", name="conc"):
    def cmd(t):
        return ["./conc/run.sh", "/dev/shm/verif-ov-%s-%d" % (name, os.getpid()), "-count=1", "-timeout", "170m", "-run", "^%s$" % test, "./" + pkg]
    return dict(name=name, cmd=cmd, timeout=dict(quick=1500, thorough=10000), cleanup="/dev/shm/verif-ov-%s-%d" % (name, os.getpid()))


def resttest(test, name):
    def cmd(t):
        return ["go1.26.8", "test", "-count=1", "-vet=off", "-timeout", "170m", "-overlay", "overlay/exports.json", "-run", "^%s$" % test, "./restc"]
    return dict(name=name, cmd=cmd, timeout=dict(quick=900, thorough=7200), replayable=(name == "restmodel"))


def restconctest():
    d = "/dev/shm/verif-ov-restconc-%d" % os.getpid()
    def cmd(t):
        return ["./conc/run.sh", d, "-tags", "verifconc", "-count=1", "-timeout", "170m", "-run", "^TestRestConc$", "./restc"]
    return dict(name="restconc", cmd=cmd, timeout=dict(quick=1500, thorough=10000), cleanup=d)


def clienttest(test, name):
    d = "/dev/shm/verif-ov-%s-%d" % (name, os.getpid())
    def cmd(t):
        return ["./conc/run.sh", d, "-count=1", "-timeout", "170m", "-run", "^%s$" % test, "./clientc"]
    return dict(name=name, cmd=cmd, timeout=dict(quick=1500, thorough=10000), cleanup=d, replayable=(name == "clientmodel"))


CLIENTMODEL = clienttest("TestClientModel", "clientmodel")
CLIENT = clienttest("TestClient", "client")
M5_TRUST = ["M5 (lean/Ldlm/Model/Client.lean) is a hand-written sequential model of client/client.go (renew map, renew timers, interval rule, rpcWithRetry) on top of M2 with zero-latency RPCs; grpc-go, sync.Map, time.Timer and select semantics are modelled, not verified",
            "tie: random histories on the real client over an in-process recording transport to the real service in virtual time against the compiled model: RPCs emitted (method, request fields, instant, answer), panics, server listing, lease timers and the renew map compared after every operation; rpcWithRetry compared with the model's retry on every script of attempt outcomes up to a bound; built with the instrumented overlay so that goroutine panics are recorded instead of killing the run"]
RESTMODEL = resttest("TestRestModel", "restmodel")
REST = resttest("TestRest", "rest")
RESTWIRE = resttest("TestRestWire", "restwire")
RESTCONC = restconctest()
M4_TRUST = ["M4 (lean/Ldlm/Model/Rest.lean) is a hand-written sequential model of net/rest/rest.go on top of M2; net/http cookie parsing, grpc-gateway routing and protojson decoding, uuid freshness of cookies (genCookie injective) are exercised or assumed, not modelled",
            "tie: random histories on the real gateway + service object in virtual time (testing/synctest) against the compiled model through the line protocol; HTTP status, decoded answer, sessions ended by idle timers, hold listing, lock table, lease timers, gateway session table and idle-timer map (overlay accessor rest.VerifSessions) compared after every operation; ties between an idle timer and another timer on the same instant are detected by the model and the history is cut there"]
STACK = stacktest()
CONC = conctest()
STACK_TRUST = ["stack stream: the real cmd/server and cmd/lock binaries built from the working tree, real gRPC/REST/Go clients over loopback; grpc-go, grpc-gateway, crypto/tls, net/rpc are exercised, not modelled"]
CONC_TRUST = ["conc stream: the working tree recompiled with yield points and scheduler-visible mutexes injected by tools/instr (overlay; /repo untouched); schedules explored exhaustively up to a preemption bound + PCT-style random; critical section = atomic step assumes data-race freedom outside the two benign races named in DESIGN §9"]
M2_TRUST = ["M2 (lean/Ldlm/Model/Core.lean) is a hand-written sequential model of server.go + lock/*.go + timermap.go + session.go; x/sync semaphore (unit weights), time.AfterFunc/Timer, context cancellation and uuid freshness (KeysInjective) are modelled, not verified",
            "tie: random state-aware histories in virtual time (testing/synctest), canonical per-operation snapshots (response, listing, lock table via overlay accessors, decoded state file, timer keys, blocked calls) compared channel by channel; ties between order-sensitive timer events are detected by the model and the history is cut there"]
CODEC = dict(name="codec", cmd=gotest("codec", "TestCodec"), timeout=dict(quick=900, thorough=3600))

P = "Ldlm.Props."
PROPS = {
    "C01": dict(
        modules=[P + "C01", P + "C02"],
        theorems=[P + "C01." + t for t in ("capacity", "mutual_exclusion", "capacity_sharded", "waiter_implies_full")]
                 + ["Ldlm.Core.run_lockInv", "Ldlm.Core.shardedOps_lawful", "Ldlm.Core.flatOps_lawful", "Ldlm.Table.run_inv", "Ldlm.Table.gc_safe", "Ldlm.Props.C02.conservation", "Ldlm.Props.C02.capacity_threads"],
        streams=[SEQ, CONC],
        level_text="Sequential half: for EVERY operation sequence (grants, unlocks, renews, lease expiries, wait time-outs, session ends, GC passes, restarts, admin unlocks) and every lawful lock-table representation (sharded with any hash/shard count) the model never holds more keys than the size: proved by induction over operations, no bound. Tied to the code by seqdiff (lock-table channel) and a direct monitor on the implementation's table. Interleaved half (M1, one action per critical section of lock.go/manager.go, any number of threads, GC steps anywhere): in every state of every schedule units taken = keys + grants in progress <= size, so acknowledged live holds never exceed the size. Tied by controlled-interleaving exploration of the instrumented real code with capacity monitors (acknowledged holders, table keys, free-unit probes).",
        level_note="The server layer above the table (session end, lease callback as concurrent threads) is covered for capacity by the conc stream only; its interleaved model M3 is work in progress. D8 (GC race: two holders of a size-1 lock) was found by this check and repaired (fix: 8781713). Trusted: Lean kernel, hand-written M1/M2, x/sync semaphore modelled, synctest, instrumented-build exploration.",
        technique="Lean 4 proof (inductive invariant over all operation sequences, generic in the table representation) + sequential differential correspondence",
        trusted=M2_TRUST,
    ),
    "C02": dict(
        modules=[P + "C02"],
        theorems=[P + "C02." + t for t in ("refines_atomic_lock", "fresh_object_inv", "conservation", "try_refused_only_when_full", "unlock_at_most_once", "unlock_exactly_once", "linearizable_real_time_partial", "handback_window_runs", "handback_window_refutes_strict", "lin_after_invocation", "no_lin_after_return", "seq_trylock_atomic", "seq_unlock_atomic", "seq_reachable_recInv")]
                 + ["Ldlm.Table.sim_obj", "Ldlm.Table.refines_obj", "Ldlm.Table.stepObj_inv", "Ldlm.Core.unlock_kills", "Ldlm.Core.Dead.forever"],
        status={P + "C02.linearizable_real_time_partial": "partial: a blocking Lock that gives up after Release has handed it the unit is linearized as grant + release inside its interval (K21)",
                P + "C02.handback_window_runs": "witness schedule (K21)", P + "C02.handback_window_refutes_strict": "refutation witness (K21): the strict reading - a failed acquisition has no effect at all - is false"},
        streams=[CONC],
        level_text="SEQUENTIAL (M2, every reachable state and every continuation of the history - requests, expiries, session ends, collections, restarts): after a successful Unlock of (name, key) the pair is never held again and every further Unlock with it fails (unlock_exactly_once, by the invariant 'a dead key stays dead'). M1 has one action per critical section of lock.go/manager.go; every action emits the atomic-specification operations that take effect at it. Proved for EVERY schedule of any number of threads on a lock object: the emitted operations, in schedule order, are an execution of the atomic counting lock (forward simulation lifted to whole schedules) - each inside its call's interval, i.e. linearizability - under the side condition that a failing Unlock does not present a key still in the middle of being granted (a key no client has been told). Conservation (units = live keys + grants in progress <= size), 'refused only when full' and 'unlocked at most once' are proved with no hypothesis. REAL-TIME ORDER (M1t = the same critical sections run by threads with a program counter, invocation and return events): for EVERY schedule of any number of TryLock/Lock/Unlock calls, refused and cancelled ones included, every specification operation is attributed to a call that has been invoked and has not returned (for a hand-over: to the waiter at the head of the queue, whose call is pending), every call returns the result of its operation, and the operations in trace order are a run of the atomic counting lock (linearizable_real_time_partial) - linearizability with explicit linearization points, real-time order included. Tied to the code by exploring all schedules up to a preemption bound (+ random) of 2-4-call programs on the instrumented real code, with a brute-force linearizability checker and capacity probes on every outcome, and by CALL-HISTORY VALIDATION of M1t: every distinct invocation/return history of the explored schedules is piped to the Lean driver (linthreads), which decides whether M1t has a schedule with these calls, this real-time order and these results (0 only through the critical sections, c only by giving up, r only by refusal).",
        level_note="The refinement hypothesis AllSide excludes guessing a key before it was returned (unobservable to clients). The tie is outcome monitoring plus call-history validation of M1t on explored schedules (inclusion of the implementation's histories in the model's), not a step-by-step comparison of critical sections. D14/W1 (double-unlock window) was found by this check and repaired (fix: 066861c); the model has Unlock as one critical section accordingly. x/sync/semaphore is modelled (unit weights), not verified.",
        technique="Lean 4 proof (forward simulation to an atomic spec, lifted to all schedules by induction) + controlled-interleaving exploration with a linearizability monitor",
        trusted=CONC_TRUST,
    ),
    "C03": dict(
        modules=[P + "C03"],
        theorems=[P + "C03." + t for t in ("no_lost_wakeup", "release_serves_head", "arrivals_at_tail", "cancelled_never_served", "cancel_keeps_invariant",
                                          "waiter_implies_full_seq", "wait_deadline", "wait_timeout_zero_is_none", "fifo_no_overtaking", "fifo_queue_order",
                                          "wait_not_early", "wait_not_early_pending", "wait_not_early_reachable", "wait_prompt", "wait_only_shrinks", "gave_up_never_granted",
                                          "abandoned_never_granted", "answered_at_most_once", "cancel_makes_gone", "disconnect_answers_waiters", "session_end_grants_no_own_waiter")]
                 + ["Ldlm.Table.run_inv", "Ldlm.Table.no_overtaking", "Ldlm.Table.queue_order", "Ldlm.Core.run_pu",
                    "Ldlm.Core.advanceTo_wait_not_early", "Ldlm.Core.advanceTo_wait_prompt", "Ldlm.Core.run_pq", "Ldlm.Core.step_evok", "Ldlm.Core.step_gone", "Ldlm.Core.step_evgone", "Ldlm.Core.step_answered_gone", "Ldlm.Core.step_nreq_mono"],
        streams=[CONC, SEQ],
        level_text="For every schedule of any number of threads (M1): a non-empty queue means every unit is taken (no lost wake-up), a release hands the unit to the head of the queue and arrivals join at the tail (FIFO), a waiter that gave up is out of the queue and cannot be served later, and giving up preserves the invariant (does not delay the others). Timed part over M2: the wait deadline is exactly now + w*10^9 iff w > 0, 0/absent = none; the sequential no-lost-wake-up holds in every reachable state. Tied to the code by conc templates (release x waiter arrival x wait time-out x cancel, 1-2 waiters, coinciding instants) and seqdiff with exact virtual return times and a FIFO / early- / late-time-out monitor.",
        level_note="PARTIAL: 'promptly' is exact only in virtual time; real-time promptness and fair scheduling are the Go runtime's (trusted). Shutdown: the manager alone dead-locks with an un-cancellable blocked waiter (observation in DESIGN §2); through cmd/server the network layer cancels waiters first (C11). A theorem that a pending call completes at exactly its deadline under `advance` (wait_timeout_exact) is not yet proved; it is checked by the seq monitor.",
        technique="Lean 4 proof (inductive invariant over all schedules; queue discipline lemmas; M2 decision lemmas) + controlled interleavings + virtual-time sequential differential",
        trusted=M2_TRUST + CONC_TRUST,
    ),
    "C04": dict(
        modules=[P + "C04", P + "C12"],
        theorems=[P + "C04." + t for t in ("grant_arms_lease", "no_timeout_no_lease", "duration_fits_int64", "lease_not_early", "lease_not_early_held", "lease_prompt", "renew_restarts",
                                          "renew_requires_lease", "dead_key_inert", "expired_is_not_held", "expired_key_dead", "dead_key_stays_dead")]
                 + ["Ldlm.Core.advanceTo_keeps_later", "Ldlm.Core.advanceTo_prompt", "Ldlm.Props.C12.lease_units_pinned", "Ldlm.Core.expiry_kills", "Ldlm.Core.Dead.step"],
        streams=[SEQ, CONC],
        level_text="After the lease callback of a hold its (name, key) is dead, and a dead pair stays dead for every continuation of the history: never held again, Unlock with it fails (expired_key_dead, dead_key_stays_dead). Over M2 in exact virtual time, for every state satisfying the reachability invariant: a grant with lock timeout t stores a lease with deadline exactly now + t*10^9 (unit pinned to time.Second by a regenerated fact); advancing to any instant before a deadline leaves that lease and its hold in place (no early release); after an advance no lease with a deadline at or before the new time is left (prompt expiry; fuel exhaustion is reported, never silent) and a fired lease's hold is gone; a successful Renew sets the deadline to exactly now + t*10^9 and touches nothing else; Renew without a lease fails; a dead key's Unlock/Renew fail and change nothing. Tied to the code by seqdiff with time steps to deadline-1ns / deadline / deadline+1ns, renew with different T, renew after expiry, and an arithmetic lease monitor on the implementation trace.",
        level_note="Since round 9 the check also runs the conc stream (templates unlock||renew||expiry and expiry||unlock): a hold still present after every lease has run out, or a unit that is not free after Unlock + expiry, is a C04 violation found under a controlled schedule. 'A hold taken without a lock timeout never expires' is proved as 'no lease is stored' (no_timeout_no_lease) + prompt/early theorems about stored leases; Renew of such a hold fails (renew_requires_lease) - the code's behaviour, stated. lease_not_early_held takes the reachability invariant InvS, which holds after every history including restarts (run_invS). Trusted: Lean kernel, time.AfterFunc/Timer semantics (modelled), synctest clock, hand-written M2.",
        technique="Lean 4 proof (induction over the event loop of `advance` under the reachability invariant) + virtual-time sequential differential + arithmetic lease monitor",
        trusted=M2_TRUST,
    ),
    "C13": dict(
        modules=[P + "C13"],
        theorems=[P + "C13." + t for t in ("gc_never_removes_busy", "gc_frame", "gc_keeps_invariant", "gc_pass_keeps_held", "gc_only_effect_is_recreation", "gc_pass_frame", "gc_changes_failing_unlock_code",
                                          "gc_step_invisible", "gc_pass_invisible", "gc_invisible_history", "reachable_recInv", "gc_allows_recreation")]
                 + ["Ldlm.Table.gc_safe", "Ldlm.Table.run_inv", "Ldlm.Core.step_rel", "Ldlm.Core.advanceTo_rel", "Ldlm.Core.gc_sim_run"],
        status={P + "C13.gc_changes_failing_unlock_code": "refutation witness of strict invisibility (K11)",
                P + "C13.gc_allows_recreation": "witness of the one effect the property allows (re-creation with another size)"},
        streams=[CONC, SEQ, STACK],
        level_text="M1 (every schedule, GC steps anywhere, any idle-clock reading): a GC step that deletes a lock deletes one nobody holds, is acquiring, waits on or has fetched, with a free semaphore; it leaves every other lock untouched; the table invariant holds in every state of every schedule with GC interleaved - so the code's deleted-lock panic and checks are unreachable. M2: a GC pass keeps every record that has a key, changes nothing but the lock table, and a removed record was unheld and idle longer than min-idle (the only effect: re-creation, possibly with another size). SIMULATION (M2, every history, every GC interval and minimum idle time, ticks and explicit passes anywhere): the server and the same server whose collector deletes nothing run in lock step - related states (equal up to records with no key and no waiter) give the same answer, events and tie flag to every operation and stay related, or the request re-creates a collected lock with another size (without GC: size mismatch; with GC: granted), which is exactly the effect C13 allows; hence along every history in which the GC-less server never answers size mismatch the two give the same answers request by request (gc_invisible_history). Strict invisibility is false of the code in one respect (K11: a failing Unlock with a stale key names a different reason after collection) - kernel-checked witness, and the simulation compares error codes up to exactly that difference. Tied by conc templates (GC pass x Lock/TryLock/Unlock, min-idle 0) and a metamorphic seq run (same history with GC off, implementation vs implementation).",
        level_note="Collection intervals of 0 s / 1 ns cannot run in virtual time (the collector would never block); they are exercised on the real binary (stack part, round 8). A lock object that was created and never locked is covered by neverLockedProbe (round 9). PARTIAL by K11. The reference of the simulation is the same model with a collector that deletes nothing (noGc: same ticks, same clock), the metamorphic stream compares the real server with GC on and off. D8 (GC racing an acquisition: double grant / panic) was found by this check and repaired (fix: 8781713). Trusted: Lean kernel, hand-written M1/M2, instrumented-build exploration.",
        technique="Lean 4 proof (GC enabling condition + invariant over all schedules; lock-step simulation GC / no GC over all histories) + controlled interleavings + metamorphic GC-on/GC-off replay",
        trusted=M2_TRUST + CONC_TRUST,
    ),
    "C05": dict(
        modules=[P + "C05", "Ldlm.Pins.C05"],
        theorems=[P + "C05." + t for t in ("reachable_inv", "unlock_truthful", "unlock_truthful_at_quiescence", "renew_truthful", "renew_after_fire_says_false", "held_only_decreases")]
                 + ["Ldlm.Lease.step_inv", "Ldlm.Pins.C05.pin_TimerReset"],
        streams=[CONC],
        level_text="M3a models one leased hold with any number of concurrent Unlock and Renew threads and the lease callback, one step per call into a manager, for EVERY schedule: an Unlock that answered unlocked=true implies the hold is out of the table or the callback stands right before its own lockMgr.Unlock; at quiescence it implies the hold is gone; a Renew answers locked=true only for a live hold with an armed lease, which stays armed; nothing puts the hold back. Proved by an inductive invariant over all schedules. The model follows the repaired TimerMap.Reset (one critical section; pinned to its source text). Tied to the code by exhaustive (preemption-bounded) + random exploration of Unlock || Renew || Renew || expiry on the instrumented real server, before and exactly at the deadline, with truth monitors and probes at quiescence and at the lease horizon.",
        level_note="One hold in isolation is justified by key uniqueness and timer-key injectivity (C07). Session end racing with Renew is C06's territory (armed timer for a dead hold between D2 and D3, recorded under K2). The tie is outcome monitoring on explored schedules plus manager-call trace validation: every distinct history of calls into the three managers for the observed hold must be a run of M3a with M3a's results (driver linlease). D7 was found by this check and repaired (fix: e566dad). time.Timer Stop/Reset semantics (Go >= 1.23) are modelled.",
        technique="Lean 4 proof (inductive invariant over all schedules of a thread-pool model) + controlled-interleaving exploration with truth monitors",
        trusted=CONC_TRUST,
    ),
    "C06": dict(
        modules=[P + "C06", "Ldlm.Pins.C06"],
        theorems=[P + "C06." + t for t in ("reachable_inv", "destroy_releases_partial", "released_once", "late_grant_leaks", "timer_for_dead_hold")]
                 + ["Ldlm.SessionEnd.step_inv", "Ldlm.SessionEnd.run_clean_back", "Ldlm.Pins.C06.pin_DestroySession", P + "C06.noclear_keeps",
                    P + "C06.session_end_releases_all", P + "C06.session_end_keeps_others", P + "C06.session_end_exact_reachable",
                    "Ldlm.Core.clearLoop_releases", "Ldlm.Core.disconnect_keeps_booked"],
        status={P + "C06.destroy_releases_partial": "partial (hypothesis Clean: no grant of the hold in flight when the session entry is deleted)",
                P + "C06.late_grant_leaks": "refutation witness (K2)", P + "C06.timer_for_dead_hold": "refutation witness (K2, second window)"},
        streams=[CONC, SEQ, RESTCONC],
        level_text="M3b follows one hold of the ending session through every thread that can touch it (its grant in three steps, any number of Unlock threads, the lease callback, the DestroySession thread), one step per call into a manager, for EVERY schedule: if the hold's grant had been answered when the session entry was deleted (Clean), then once nothing is in flight the hold is out of the table, has no lease-timer entry and no bookkeeping entry - whichever of Unlock / lease callback / session end got there first; after the grant the hold only ever leaves the table (unique releaser). The unrestricted statement is false of the code (K2: a grant in flight at D1 leaks the hold; a grant between AddLock and timer Add leaves an armed timer for a dead hold) - kernel-checked witnesses. DestroySession is pinned to its source text. Sequential server model M2, every reachable state, clearing on: after a session end no hold the session had is in the lock table any more (neither as key nor queued) and every hold of every other session is still booked and held (session_end_exact_reachable). Tied to the code by exploring session end || {TryLock, blocked Lock, Unlock, expiry} of the same session with another session holding, with hold-left / listing / other-session / panic monitors, and by manager-call trace validation: every distinct history of calls into the three managers for each observed hold of the ending session must be a run of M3b with M3b's results (driver linsess).",
        level_note="The REST path of a session end (DELETE, idle expiry -> connection-end hook) is exercised by the restconc stream, which C06 runs since round 7; conc:session-end:hold-left-unlisted (round 9) separates a left hold that no listing shows from the recorded K2. PARTIAL by K2 (recorded, not repaired: a repair needs AddLock to refuse ended sessions, an interface change). 'Other sessions untouched' is structural in the model (one hold = one state) and checked on the code by the monitors. With no-clear-on-disconnect DestroySession returns after D1 (M2: Core.destroy). The panic half of D10 (RemoveLock on a deleted entry) was repaired with D2 (fix: e6a606e). gRPC/REST delivery of ConnEnd is exercised by C20/stack streams, not modelled here.",
        technique="Lean 4 proof (inductive invariant over all schedules, backwards-propagating ghost flag for the excluded window) + controlled-interleaving exploration",
        trusted=CONC_TRUST,
    ),
    "C09": dict(
        modules=[P + "C09", "Ldlm.Pins.C09"],
        theorems=[P + "C09." + t for t in ("step_inv", "reachable_inv", "always_loadable", "table_image_decodes", "empty_image_loads", "acked_consistent_partial",
                                          "file_matches_bookkeeping", "crash_in_truncate_window", "crash_overcapacity_file", "session_end_leaves_no_stale_entry")]
                 + ["Ldlm.Pins.C09.pin_StoreWrite"],
        status={P + "C09.acked_consistent_partial": "partial (hypothesis: the kill is not between Truncate(0) and Write)",
                P + "C09.crash_in_truncate_window": "refutation witness (K3)", P + "C09.crash_overcapacity_file": "refutation witness (K4)"},
        streams=[CONC, SEQ],
        level_text="M7 has one step per file operation of store.Write (pinned to its source text) and per manager call of the server threads; a crash point is ANY reachable state of ANY schedule. Proved: at every crash point the file is a complete table encoding or empty, both of which load (C17 round trip; empty = no state); outside the Truncate/Write window every hold whose grant was answered and which has not left the table is in the file and no hold whose release was answered is; outside a rewrite the file is exactly the bookkeeping. The unrestricted statement is false of the code: K3 (kill between Truncate(0) and Write: empty file, acknowledged holds lost) and K4 (unit released before the bookkeeping entry is removed + re-grant: file lists two holds of a size-1 lock) - kernel-checked witnesses. Tied to the code by crash-image snapshots at every yield point of explored schedules (each distinct image is decoded and checked against the acknowledged sets at that instant) and by sequential histories with restarts where the file must load and equal the acknowledged holds after every operation.",
        level_note="Since round 9 M7 is tied by call/file-operation history validation (driver lincrash): manager calls, every change of the file image between empty and non-empty, and the answers of every explored schedule of the crash templates must be a run of Crash.step; its first run found a model error (Unlock's lease-timer-fired path), corrected with an `expire` step and the ghosts `booked`/`expiring`. PARTIAL by K3/K4 (recorded: an atomic-replace rewrite / reordering table and bookkeeping are not minimal repairs). Process-kill model: page cache survives, no power loss / fsync ordering. 'Recovery never has to drop an acknowledged hold' follows outside K4 from C01's restore-by-TryLock. Trusted: Lean kernel, hand-written M7, os.File semantics (modelled), the snapshot hook reading the file at yield points.",
        technique="Lean 4 proof (inductive invariant over all schedules of file operations and manager calls) + crash-image enumeration on the instrumented code + restart histories",
        trusted=CONC_TRUST + M2_TRUST,
    ),
    "C10": dict(
        modules=[P + "C10"],
        theorems=[P + "C10." + t for t in ("restored_occupy_capacity", "restored_has_default_lease", "only_default_leases", "restored_not_early", "restored_expires_exactly",
                                          "restored_unlock_any_session", "restored_renew_succeeds", "restored_unlock_succeeds", "restored_only_from_file",
                                          "ended_stays_ended", "ended_stays_ended_reachable", "restored_not_early_reachable", "startup_total", "restore_loop_pinned")]
                 + ["Ldlm.Core.run_su", "Ldlm.Core.restart_keysFromFile", "Ldlm.Core.restart_keysLeased", "Ldlm.Core.restart_timersDefault", "Ldlm.Core.restart_inv'", "Ldlm.Core.rj_step", "Ldlm.Core.run_invS"],
        status={},
        streams=[SEQ],
        level_text="M2's restart is server.New on the file the previous run left: a fold of TryLock / RemoveLock / default-lease Add over an ARBITRARY table (call list and timeout expression regenerated from the source and pinned). Proved for every pre-restart state, configuration and file content: every hold in the table after a restart comes from the loaded file, has a lease timer with deadline restart time + DefaultLockTimeout and there is no other timer; capacity holds after any history with any number of restarts (C01), so an over-full file restores at most size holds; Unlock ignores the calling session, Renew has none, and both succeed with the original key; no default lease survives restart time + DefaultLockTimeout and the hold is still there at every earlier instant; a hold absent from the table before a restart is absent after it (via booked=>held and file=bookkeeping); session ids are unique in bookkeeping and file for every history including restarts (run_su, no hypothesis); restart is total. Tied to the code by seq histories with many restarts (default lease time varied, time steps to deadline-1ns/deadline/deadline+1ns, unlock/renew from other sessions, competing grants), differential against the model plus a model-independent monitor: ended holds never return, every file entry is restored, restored holds have timers, server.New never fails or panics.",
        level_note="restart is proved to preserve the reachability invariant (restart_inv': loop invariant over the linearised file, pair uniqueness from the bookkeeping invariant), so the _reachable forms hold after every history, further restarts included. D? (nil dereference in server.New's log call on a failed restore) was found by this check on the original tree and repaired (fix: commit 20311a8). Trusted: Lean kernel, hand-written M2, the differential tie, virtual time (testing/synctest).",
        technique="Lean 4 proof (fold induction over an arbitrary state file; inductive invariants) + sequential differential correspondence with restarts + restart monitor",
        trusted=M2_TRUST,
    ),
    "C15": dict(
        modules=[P + "C15"],
        theorems=[P + "C15." + t for t in ("same_request_same_step", "paired_runs_agree", "keys_cross_transports", "renew_cross_transports", "refused_request_invisible")]
                 + ["Ldlm.Rest.sim_step", "Ldlm.Rest.paired_agree", "Ldlm.Core.advance_now"],
        status={},
        streams=[RESTMODEL, REST, RESTWIRE, STACK],
        level_text="M4 puts the gateway's session table in front of M2: a REST request under a valid cookie and a gRPC request on a connection are both Core.step of the same service call under the lock-server session bound to the cookie / the connection; the error code in the answer comes from one regenerated table on both transports. Proved: at any state the two transports change the server identically and answer identically for the same session; for two fresh servers and EVERY well-formed request sequence (any number of sessions, any TryLock/Unlock/Renew parameters, any gaps) shorter than the REST session timeout, the run through the gateway and the run over gRPC end in equal lock-server states, give equal answers request by request, and no REST request is refused (forward simulation, induction over the sequence); on one server an Unlock/Renew has the same effect and answer through any REST session and any gRPC connection (keys cross transports); a refused REST request never reaches the server. Tied to the code by restmodel (M4 vs the real gateway and service object with both transports interleaved on one server, channel-by-channel after every operation) by the model-independent paired run of two real servers (all proto3-JSON spellings, malformed bodies, bounded-exhaustive words), and by the same paired run over the wire: the real http.Server on a loopback listener with every REST session of a sequence sharing one keep-alive connection.",
        level_note="paired_runs_agree needs: requests only on open sessions (a closed connection cannot send) and total duration < RestSessionTimeout (no idle expiry on the REST side, which has no gRPC counterpart); idle expiry itself is C20. JSON decoding is library code (grpc-gateway, protojson): exercised by the paired stream, not modelled. Trusted: Lean kernel, hand-written M4/M2, uuid freshness of cookies, the differential ties.",
        technique="Lean 4 proof (forward simulation between the REST run and the gRPC run of any request sequence; per-state transport equivalence) + differential correspondence of the gateway model + paired real-server differential",
        trusted=M4_TRUST + M2_TRUST,
    ),
    "C20": dict(
        modules=[P + "C20", "Ldlm.Pins.C20"],
        theorems=[P + "C20." + t for t in ("bad_cookie_refused", "valid_cookie_accepted", "survives_short_gaps", "idle_session_gone", "expired_sessions_ended", "ends_exactly_once", "delete_ends",
                                          "conc_reachable", "conc_ends_once", "conc_ended_when_quiet", "conc_no_late_service", "conc_no_crash", "conc_refused_after_end", "conc_deadlock_free")]
                 + ["Ldlm.RestConc.step_inv", "Ldlm.RestConc.progress", "Ldlm.Rest.rstep_inv", "Ldlm.Rest.radv_prompt", "Ldlm.Rest.radv_keeps_later"]
                 + ["Ldlm.Pins.C20.pin_" + t for t in ("ValidateSession", "RestDestroySession", "RestCreateSession", "RestOnTimeout", "ServeHTTP", "TimerAdd", "TimerRemove", "TimerReset")],
        status={},
        streams=[RESTMODEL, REST, RESTCONC],
        level_text="Sequential semantics (M4): a request with a missing/unknown/ended cookie answers 401 and changes nothing; a valid one is accepted and re-arms the deadline to now+timeout; a session whose deadline lies after the target survives any clock advance unchanged (so requests less than a timeout apart keep it valid for ever); after an advance no session with a deadline <= the clock is left; for EVERY history each cookie gets at most one connection-end, exactly one iff created and no longer valid, none while valid (inductive invariant, cookie freshness assumed injective). Races (M4c): one step per lock acquisition of rest.go/timermap.go (function bodies pinned to the source text by rfl), any number of sessions, requests, DELETEs, timer callbacks, any schedule: 10-clause invariant proved inductive; consequences: 0/1 connection-end per session, exactly 1 once quiet without entry, no request served after connection-end, ValidateSession never dereferences a missing entry, requests after the end are refused, and deadlock freedom (some thread can always step while any is unfinished or a lock is held). Tied to the code by restmodel (M4 vs real gateway, time steps to deadline-1ns/deadline/deadline+1ns), the sequential monitor stream (refusals have no effect, ConnEnd count) and controlled interleavings of request/DELETE/idle-callback on the instrumented gateway (no deadlock, no panic, exactly one ConnEnd, no hold left).",
        level_note="M4c is tied by call-history validation (driver linrest): requests, DELETEs, connection-end deliveries, ticks and final quiescence of every explored schedule must be a run of RestConc.step. M4c abstracts what a served request does to the lock server (C15/M4 cover that) and is tied to rest.go by source-text pins + the interleaving monitors, not by a step-by-step trace comparison; a change to the pinned functions breaks the pin and triggers the search streams. 'Release its holds once' = one DestroySession per session (proved here); what DestroySession releases is C06. Trusted: Lean kernel, hand-written M4/M4c, sync.Mutex/RWMutex and time.AfterFunc semantics (modelled), cookie freshness.",
        technique="Lean 4 proof (inductive invariants over all histories and over all schedules of a lock-step concurrent model; progress theorem) + differential correspondence of the gateway model + controlled-interleaving exploration of the instrumented gateway",
        trusted=M4_TRUST + CONC_TRUST,
    ),
    "C19": dict(
        modules=[P + "C19", "Ldlm.Pins.C19"],
        theorems=[P + "C19." + t for t in ("interval_below_timeout", "interval_too_long", "rules_pinned", "all_rpcs_retried", "keeps_alive", "advance_only_good_renews", "unlock_leaves_others",
                                          "unlock_removes_renewer", "second_hold_same_name_panics", "retry_at_most", "retry_at_most_int", "retry_nonpositive_budget", "retry_only_on_unavailable", "retry_result_is_last", "retry_other_error_final",
                                          "retry_unavailable_within_budget", "retry_unavailable_over_budget", "no_renew_after_return", "no_panic_from_race", "rpc_after_exit", "stop_never_stuck",
                                          "old_stop_misses_busy_renewer")]
                 + ["Ldlm.Client.cadv_alive", "Ldlm.Client.cstep_fine", "Ldlm.ClientConc.step_inv"]
                 + ["Ldlm.Pins.C19.pin_" + t for t in ("RenewerStart", "RenewerStop", "ClientUnlock", "ClientClose", "ClientRenew", "MaybeCreateRenewer", "MaybeRemoveRenewer", "RpcWithRetry")],
        status={P + "C19.second_hold_same_name_panics": "states the code's behaviour K19a (known finding): several holds of one counting lock are NOT handled",
                P + "C19.old_stop_misses_busy_renewer": "refutation witness for the Stop before repair 9e742fe",
},
        streams=[CLIENTMODEL, CLIENT],
        level_text="M5 = the client's renew map and renew timers over M2. Proved: the renew interval is strictly below every lock timeout above the 10 s minimum (constants and operators regenerated from the source); for EVERY history of TryLock (timeout 0 or above the minimum) / Unlock / clock advance on an auto-renewing client, either the client died of the out-of-sync panic (K19a) or every hold that has a renewer is held at the server with its lease deadline after the next Renew and no renewer failed, and every RPC sent during an advance is a successful Renew (induction over the history and, inside an advance, over the renew instants; uses M2's lease theorems); Unlock removes exactly the renewer of its name and leaves every other name alone; the retry rule for all outcome sequences (at most MaxRetries+1 attempts, retried only on Unavailable, last outcome returned) and every RPC call site is inside rpcWithRetry (regenerated). Races (M5c): Unlock thread, Close thread and renew goroutine of the repaired Stop, one step per channel operation, any schedule: no Renew sent after Unlock/Close returned, no panic, the RPC only after the goroutine exited, Stop never stuck; the Stop before the repair has a kernel-checked failing schedule. Tied to the code by clientmodel (M5 vs the real client, RPC traces in virtual time; retry table; renewer retry path) and by the monitor + controlled-interleaving stream on the instrumented client.",
        level_note="M5c is tied by call-history validation (driver linclient) of every explored schedule of the Unlock/Close || renew-goroutine programs; part (d) makes the Unlock RPC itself fail at transport level. PARTIAL by K19a: the renew map is keyed by the lock name alone (regenerated fact renewMapKey), so a second auto-renewed hold of one counting lock panics in the caller - recorded, not repaired: keying by (name, key) changes what the repository's own tests store in and expect of the map. The Stop defect (Unlock/Close racing a busy renewer: Renew after Unlock returned, goroutine panic, send on closed channel) was found by the interleaving stream and repaired (fix: commit 9e742fe). Zero RPC latency in M5; real latency is covered only by the race model. Trusted: Lean kernel, hand-written M5/M5c/M2, the differential ties, Go channel/select/sync.Once semantics (modelled).",
        technique="Lean 4 proof (invariant over all client histories with an inner induction over renew instants; retry rule by list induction; inductive invariant over all schedules of the Stop protocol) + differential correspondence of the client model + controlled-interleaving exploration of the instrumented client",
        trusted=M5_TRUST + M2_TRUST + CONC_TRUST,
    ),
    "C07": dict(
        modules=[P + "C07", "Ldlm.Pins.C07"],
        theorems=[P + "C07." + t for t in ("failed_inert", "timerKey_injective", "unlock_frame_locks", "renew_frame", "waitTimeout_frame")]
                 + [P + "C07.reachable", P + "C07.failed_inert_reachable", "Ldlm.Core.step_invS", "Ldlm.Core.run_invS", "Ldlm.Core.restart_inv'", "Ldlm.Core.inv_blocks",
                    "Ldlm.Pins.C07.pin_lockTimerKey", "Ldlm.Pins.C07.pin_timerKeyArgs"],
        status={},
        streams=[SEQ],
        level_text="For every state satisfying the reachability invariant and every Lock/TryLock/Unlock/Renew/admin-unlock request that answers with an error, sizes, key lists, waiter queues, lease timers, session table, state file and blocked calls are proved unchanged (idle clock and key counter excluded and named); the lease-timer key is proved injective on byte strings, and Unlock/Renew are proved to leave other locks / other pairs' leases alone. Tied to the code by seqdiff over adversarial name/key alphabets (a, ab, b+K, …) with a model-independent 'snapshot before = snapshot after' monitor.",
        level_note="The reachability invariant is proved preserved by every operation including restart (Proofs/CoreRestart: loop invariant over the linearised file), so failed_inert_reachable holds after every history with no hypothesis beyond lawfulness of the table representation (proved for both) and freshness of generated keys. Trusted: Lean kernel, hand-written M2, uuid freshness (KeysInjective), the differential tie. D1 (timer-key collision) was found by this check on the original tree and repaired (fix: commit bb3b219).",
        technique="Lean 4 proof (per-step case analysis under an inductive invariant; injectivity of the timer-key encoding) + sequential differential correspondence + before/after monitor",
        trusted=M2_TRUST,
    ),
    "C08": dict(
        modules=[P + "C08"],
        theorems=[P + "C08." + t for t in ("listed_is_held", "held_is_listed_partial", "views_agree_partial", "listing_unique", "file_is_listing", "file_decodes", "noclear_views_differ")]
                 + [P + "C08.reachable", P + "C08.listed_is_held_reachable", P + "C08.views_agree_reachable", "Ldlm.Core.run_invS", "Ldlm.Core.restart_inv'"],
        status={P + "C08.held_is_listed_partial": "partial (hypothesis noClear = false)", P + "C08.views_agree_partial": "partial (hypothesis noClear = false)",
                P + "C08.noclear_views_differ": "refutation witness (K1)"},
        streams=[SEQ],
        level_text="Listing ⊆ table is proved for every reachable state and configuration; table ⊆ listing and hence the pointwise equivalence only with clearing on disconnect (with no-clear it is false of the code: known finding K1, kernel-checked counterexample). File = session table up to hold-less new sessions is proved; the file bytes decode to that table by C17's round trip. Tied to the code by seqdiff carrying all three views (listing, decoded file through a second handle, lock table) after every operation, with foreign-session unlocks, both disconnect policies, restarts.",
        level_note="Partial by K1 (no-clear-on-disconnect drops bookkeeping while capacity stays occupied). The invariant holds after every history including restarts (run_invS). D2 (foreign-session unlock left the hold listed) was found by this check and repaired (fix: commit e6a606e). Trusted: Lean kernel, hand-written M2, the differential tie.",
        technique="Lean 4 proof (pointwise inductive invariant booked⇔held, bookkeeping uniqueness, file/session relation) + three-view sequential differential correspondence",
        trusted=M2_TRUST,
    ),
    "C11": dict(
        modules=[P + "C11", "Ldlm.Pins.C11"],
        theorems=[P + "C11." + t for t in ("order_pinned", "shutdown_keeps_file", "shutdown_waiters_error", "shutdown_then_start_restores", "old_order_loses_holds",
                                          "shutdown_nothing_blocked", "shutdown_answers_every_waiter")]
                 + ["Ldlm.Pins.C11.pin_DestroySession"],
        status={P + "C11.old_order_loses_holds": "refutation witness for the original closer order (D11, repaired)"},
        streams=[STACK, CONC],
        level_text="Over M2 with the closer sequence of cmd/server/main.go AS EXTRACTED from the source on every run: the state file after shutdown equals the file before, every blocked Lock completes with an error and none with a hold, nothing stays blocked, and the next start loads the same table - proved for every state. The original order (network closer before the shutdown flag) is refuted by a kernel-checked witness. Exit status 0, termination within 10 s, no panic and the restored holds are OBSERVED on the real binary (SIGINT/SIGTERM at several workload points, gRPC + REST clients, blocked waiters), not proved.",
        level_note="PARTIAL by nature: process exit, signal delivery and real-time promptness are outside any model here; interleavings of the shutdown sequence with in-flight requests (Unlock, TryLock) are explored in process on the instrumented server by the conc stream (state file afterwards = acknowledged live holds), and sampled on the real binary by the stack stream. D11 (holds cleared on graceful shutdown) was found by this check and repaired (fix: 5984d9a). Trusted: Lean kernel, facts extractor (closer order, DestroySession text), hand-written M2.",
        technique="Lean 4 proof over an interpreter of the extracted closer sequence + controlled interleavings shutdown || requests + end-to-end runs of the real binaries under signals",
        trusted=M2_TRUST + STACK_TRUST,
    ),
    "C12": dict(
        modules=[P + "C12"],
        theorems=[P + "C12." + t for t in ("trylock_no_session", "trylock_negative_lock_timeout", "lock_negative_lock_timeout", "lock_negative_wait_timeout",
                                          "trylock_empty_name", "lock_empty_name", "trylock_invalid_size", "lock_invalid_size", "trylock_size_mismatch",
                                          "lock_size_mismatch", "default_size_is_one", "default_size_is_one_lock", "renew_nonpositive",
                                          "zero_or_absent_lock_timeout_means_none", "zero_or_absent_wait_timeout_means_none", "invalid_size_inert",
                                          "trylock_size_mismatch_sharded", "guards_pinned", "default_size_pinned", "lease_units_pinned", "arm_guards_pinned",
                                          "shard_count_invisible", "sharded_equals_flat")]
                 + ["Ldlm.Core.shardedOps_lawful", "Ldlm.Core.flatOps_lawful", "Ldlm.Core.normP_step", "Ldlm.Core.repr_independent"],
        streams=[SEQ],
        level_text="One decision lemma per rule (size <= 0, mismatch, default 1, empty name, negative lock/wait timeout, non-positive renew timeout, 0/absent = none, and their order), each proved for EVERY state and for every lawful lock-table representation, hence for manager.go's sharded table with any hash and any shard count; comparisons, constants, units and their source order are pinned by lemmas over facts regenerated from the source on every run. 'All other lock behaviour identical for every number of shards' is a theorem: for EVERY history of M2 (requests, time, GC, restarts, admin unlock, cancellation) any two lawful representations - any shard counts and hash functions, and the flat map - give identical answers, events and tie flags and final states equal up to the representation (repr_independent: every lawful representation simulates the functional table name -> record step by step, normP_step). Checked on the code by replaying every generated history under shard counts 0, 1, 2, 16, 1000 (implementation against implementation).",
        level_note="manager.go's shard selection (FNV-32 mod n, at least one shard) is an instance of shardedOps with a concrete hash; that the code's sharded map obeys the three map laws is what shardedOps_lawful proves of the model and the shard replay checks of the code. Trusted: Lean kernel, facts extractor, hand-written M2, the differential tie.",
        technique="Lean 4 proof (decision lemmas generic in the table representation; step-by-step simulation of the functional table by every lawful representation) + regenerated source facts + 5-shard-count replay",
        trusted=M2_TRUST,
    ),
    "C14": dict(
        modules=[P + "C14"],
        theorems=[P + "C14." + t for t in ("all_conditions", "codes_roundtrip", "codes_roundtrip'", "codes_distinct", "nil_is_nil", "renew_rewrite_pinned", "error_not_true", "ok_has_no_error")],
        streams=[STACK, SEQ, CLIENT, CONC],
        level_text="Over tables REGENERATED from the source on every run (both switch statements, the client's aliases, the proto enum): each of the six conditions maps to its own code, never Unknown, the code exists on the wire/JSON, and the Go client maps it back to an exported value aliasing the same server error - by kernel evaluation over the complete finite list. 'Error implies not locked/unlocked' and 'success implies no error' are proved for every M2 state and request. Which Go value the server returns per condition is tied by the stack stream (every condition x transport x RPC on the real binaries) and seqdiff.",
        level_note="Since round 8 the conc stream checks every call of every schedule of the unlock/expiry templates for 'true together with an error' (the window is not reachable sequentially). D4 (failed Renew arrived as Unknown) was found by this check and repaired (fix: 11de5aa). Trusted: Lean kernel, facts extractor, grpc/grpc-gateway/protojson (exercised by the stack stream), hand-written M2.",
        technique="Lean 4 decide over regenerated tables + M2 case analysis + end-to-end code matrix on the real stack",
        trusted=M2_TRUST + STACK_TRUST,
    ),
    "C16": dict(
        modules=[P + "C16", "Ldlm.Pins.C16"],
        theorems=[P + "C16." + t for t in ("rest_auth_sound", "rest_auth_complete", "rest_auth_off", "grpc_auth_iff", "auth_first_on_rest", "auth_installed_iff_password",
                                          "grpc_methods", "rest_routes", "tls_verify_enforced", "tls_cert_never_plaintext", "tls_verify_without_cert_refuses", "tls_key_alone_is_plaintext")]
                 + ["Ldlm.Pins.C16.pin_ValidatePassword", "Ldlm.Pins.C16.pin_AuthInterceptor", "Ldlm.Pins.C16.pin_ServeHTTP", "Ldlm.Pins.C16.pin_GetTLSConfig"],
        streams=[STACK],
        level_text="The two authentication decisions and the TLS decision are stated outright and proved for all inputs (REST: accepted iff the credential after the first colon of the decoded Basic token equals the password; gRPC: first authorization value equals it; TLS: all 64 rows - verification/CA requested => error or TLS requiring client certs, certificate => never plaintext). The models are pinned to the source text of the four functions and to regenerated structural facts (password check first on every REST path incl. /session, interceptor installed iff password, all four RPCs unary). Enforcement on the wire is exercised by the stack stream: all 2^5 configurations on the real binary, every credential shape on every RPC and route, plaintext and certificate-less probes.",
        level_note="PARTIAL: handshake enforcement is crypto/tls + grpc credentials (trusted); strings.Split and base64 are parameters (Go stdlib trusted). A key without a certificate is read by the code as 'TLS not configured' and served in plaintext: stated as a theorem so it is visible, reported as a note by the stack stream, not counted as a violation (the property's trigger is 'TLS configured' = certificate). Trusted: Lean kernel, facts extractor.",
        technique="Lean 4 decision theorems pinned to regenerated source text + full configuration/credential matrix on the real binaries",
        trusted=STACK_TRUST,
    ),
    "C18": dict(
        modules=[P + "C18", "Ldlm.Pins.C18"],
        theorems=[P + "C18." + t for t in ("ipc_unlock_by_key_equiv", "ipc_unlock_by_name_picks_listed", "ipc_unlock_by_name_equiv", "ipc_unlock_absent", "ipc_list_exact", "unlock_ignores_session")]
                 + ["Ldlm.Pins.C18.pin_IpcUnlock"],
        streams=[STACK, SEQ],
        level_text="In M2 the admin unlock with a key is proved to be exactly the holder's own Unlock (same transition, same answer) for every state; with a name alone it is the Unlock of a listed hold of that name; with no such hold it answers LockDoesNotExist and changes nothing; the listing is exact by C08. IPC.Unlock is pinned to its source text. Tied to the code by the real ldlm-lock binary against the real server after random gRPC/REST histories (list output, unlock by name / name+key, follow-up TryLock, state file) and by seqdiff with in-process IPC calls.",
        level_note="The code picks the LAST listed hold of a name in Go map order; the model admits any listed hold and the tie reports which one was picked. D5 (admin unlock always failed) was found by this check and repaired (fix: 52c429e). Trusted: Lean kernel, net/rpc (exercised), hand-written M2.",
        technique="Lean 4 proof (definitional equivalence with Unlock over M2) + real admin binary against real server",
        trusted=M2_TRUST + STACK_TRUST,
    ),
    "C17": dict(
        modules=[P + "C17"],
        theorems=[P + "C17." + t for t in (
            "dec_enc", "rewrite_exact", "rewrites_exact", "dec_safe_partial", "noGuard_of_encoding",
            "dec_panics_neglen", "dec_panics_past_end", "dec_panics_makeslice", "dec_overallocates",
            "dec_accepts_bad_terminator")],
        status={P + "C17.dec_safe_partial": "partial (hypothesis noGuard: no length/count guard trips)",
                P + "C17.dec_panics_neglen": "refutation witness (K5a)", P + "C17.dec_panics_past_end": "refutation witness (K5b)",
                P + "C17.dec_panics_makeslice": "refutation witness (K5c)", P + "C17.dec_overallocates": "refutation witness (K6)",
                P + "C17.dec_accepts_bad_terminator": "observation (terminator bytes never compared)"},
        streams=[CODEC],
        level_text="Round trip (any map, any rewrite sequence) and totality are proved for all inputs about the byte-level model M0 of benc+store.go; 'damaged input is rejected safely' is false of the code (known findings K5a-c, K6) and is proved only under the decidable hypothesis noGuard, with kernel-checked refutation witnesses for the unrestricted statement. The model is tied to store.Write/store.Read by a byte-exact differential run on every invocation.",
        level_note="Trusted: Lean kernel; the hand-written model of benc (third-party, modelled not verified) and its differential tie (generated maps, every truncation / 6 corruptions per byte of valid files, random bytes; large predicted allocations run in a memory-limited child); Go runtime allocation counter. The 48 B/byte bound is about allocation *requests* (slice/map make), not total heap.",
        technique="Lean 4 proof (structural induction; guarded-decoder simulation) + byte-level differential correspondence",
        trusted=["benc v1.1.8 is modelled byte-for-byte for the five functions store.go uses (not verified)",
                 "allocation is compared through the runtime's cumulative heap-allocation counter"],
    ),
}

# ---------------------------------------------------------------- source fingerprints
# Which functions of /repo each property's models were written against. tools/facts emits one
# `Facts.fp_<id>` (hash of the normalised signature + body) per function named in tools/facts/fp_names.txt;
# lean/Ldlm/Pins/FP/Cxx.lean (written by tools/mkfp.py from a REVIEWED tree, not regenerated by the checks)
# holds one `rfl` pin per function of the property. A change to a function breaks exactly the checks
# of the properties listed here for it; the check then searches for a failing input.
_L, _M, _T, _S = "lock/lock.go", "lock/manager.go", "timermap/timermap.go", "server/server.go"
_SS, _ST, _I, _R = "server/session/session.go", "server/session/store/store.go", "server/ipc/ipc.go", "net/rest/rest.go"
_G, _N, _SEC, _C, _MAIN = "net/grpc/grpc.go", "net/net.go", "net/security/security.go", "client/client.go", "cmd/server/main.go"
def _f(file, *names):
    return [(file,) + tuple(n.split(".")) if "." in n else (file, "", n) for n in names]
FPG = dict(
    lockobj=_f(_L, "NewLock", "Lock.Lock", "Lock.TryLock", "Lock.Unlock", "Lock.addKey", "Lock.Keys"),
    mgr_get=_f(_M, "Manager.getLock", "Manager.getShard", "NewManagedLock", "NewManager"),
    mgr_ops=_f(_M, "Manager.Lock", "Manager.TryLock", "Manager.Unlock"),
    mgr_gc=_f(_M, "Manager.lockGc"),
    mgr_shutdown=_f(_M, "Manager.shutdown"),
    timer=_f(_T, "New", "TimerMap.Add", "TimerMap.Remove", "TimerMap.Reset", "TimerMap.shutdown"),
    srv_lock=_f(_S, "LockServer.Lock", "LockServer.TryLock"),
    srv_unlock=_f(_S, "LockServer.Unlock"),
    srv_renew=_f(_S, "LockServer.Renew"),
    srv_timeout=_f(_S, "LockServer.onTimeoutFunc"),
    srv_key=_f(_S, "lockTimerKey"),
    srv_new=_f(_S, "New"),
    srv_sess=_f(_S, "LockServer.CreateSession", "LockServer.DestroySession", "LockServer.SessionId", "LockServer.SetShuttingDown"),
    srv_locks=_f(_S, "LockServer.Locks"),
    sess=_f(_SS, "NewManager", "sessionManager.Locks", "sessionManager.SetStore", "sessionManager.Load", "sessionManager.Save",
            "sessionManager.RemoveLock", "sessionManager.AddLock", "sessionManager.CreateSession", "sessionManager.DestroySession"),
    store=_f(_ST, "New", "store.Write", "store.Read", "store.Close", "lockSize", "marshalLock", "unmarshalLock", "marshalLocks", "unmarshalLocks"),
    ipc=_f(_I, "IPC.Unlock", "IPC.ListLocks"),
    ipc_srv=_f("server/ipc/server.go", "setUp", "Run", "socketPathExists"),
    admin=_f("cmd/lock/cmd_list.go", "ListArgsAndFlags.Run") + _f("cmd/lock/cmd_unlock.go", "UnlockArgsAndFlags.Run") + _f("cmd/lock/main.go", "newClient", "main"),
    rest=_f(_R, "restHandler.ServeHTTP", "restHandler.ValidatePassword", "restHandler.ValidateSession", "restHandler.DestroySession",
            "restHandler.CreateSession", "restHandler.onTimeoutFunc", "Run", "NewRestServer"),
    rest_end=_f(_R, "restHandler.ValidateSession", "restHandler.DestroySession", "restHandler.onTimeoutFunc"),
    rest_auth=_f(_R, "restHandler.ServeHTTP", "restHandler.ValidatePassword"),
    rest_run=_f(_R, "Run", "NewRestServer"),
    grpc_svc=_f(_G, "Service.Lock", "Service.Unlock", "Service.TryLock", "Service.Renew", "lockErrToProtoBuffErr"),
    grpc_conn=_f(_G, "Service.HandleConn", "Service.TagConn", "Service.TagRPC", "Service.HandleRPC", "NewService"),
    grpc_run=_f(_G, "Run", "authPasswordInterceptor") + _f(_N, "Run"),
    sec=_f(_SEC, "GetTLSConfig"),
    client=_f(_C, "Lock.Unlock", "Lock.Renew", "New", "Client.Lock", "Client.TryLock", "Client.Unlock", "Client.Renew", "Client.Close",
              "Client.maybeCreateRenewer", "Client.maybeRemoveRenewer", "newRenewer", "renewer.Start", "renewer.Stop", "rpcErrorToError", "rpcWithRetry"),
    client_err=_f(_C, "Client.Lock", "Client.TryLock", "Client.Unlock", "Client.Renew", "rpcErrorToError", "rpcWithRetry"),
    main=_f(_MAIN, "main"),
)
FPMAP = {
    "C01": ["lockobj", "mgr_get", "mgr_ops", "mgr_gc", "srv_lock", "srv_new"],
    "C02": ["lockobj", "mgr_get", "mgr_ops", "srv_lock", "srv_unlock", "srv_timeout", "timer"],
    "C03": ["lockobj", "mgr_ops", "mgr_shutdown", "srv_lock"],
    "C04": ["timer", "srv_lock", "srv_renew", "srv_timeout", "srv_unlock"],
    "C05": ["timer", "srv_unlock", "srv_renew", "srv_timeout", "mgr_ops", "srv_sess"],
    "C06": ["srv_sess", "srv_lock", "srv_unlock", "srv_timeout", "sess", "grpc_conn", "rest_end", "lockobj"],
    "C07": ["srv_lock", "srv_unlock", "srv_renew", "srv_key", "mgr_get", "mgr_ops", "sess", "timer"],
    "C08": ["srv_locks", "srv_unlock", "srv_renew", "srv_timeout", "srv_sess", "sess", "store", "srv_new"],
    "C09": ["store", "sess", "srv_lock", "srv_unlock", "srv_timeout"],
    "C10": ["srv_new", "srv_sess", "sess", "store", "srv_timeout", "srv_unlock", "srv_renew"],
    "C11": ["main", "mgr_shutdown", "srv_sess", "srv_new", "ipc_srv", "grpc_run", "rest_run", "timer", "lockobj", "mgr_ops"],
    "C12": ["srv_lock", "srv_renew", "mgr_get", "grpc_svc"],
    "C13": ["mgr_gc", "mgr_get", "mgr_ops"],
    "C14": ["grpc_svc", "srv_lock", "srv_unlock", "srv_renew", "client_err", "rest_run"],
    "C15": ["rest", "grpc_svc", "grpc_conn", "grpc_run"],
    "C16": ["rest_auth", "grpc_run", "sec"],
    "C17": ["store"],
    "C18": ["ipc", "ipc_srv", "admin", "srv_locks", "srv_unlock", "srv_new", "sess"],
    "C19": ["client"],
    "C20": ["rest", "timer"],
}
import re as _re
def fp_id(t):
    return "fp_" + _re.sub(r"[^A-Za-z0-9]+", "_", t[0][:-3] + "_" + t[1] + "_" + t[2])
def fp_funcs(prop):
    seen, out = set(), []
    for g in FPMAP.get(prop, []):
        for t in FPG[g]:
            if t not in seen:
                seen.add(t); out.append(t)
    return out
for _p in PROPS:
    if fp_funcs(_p):
        PROPS[_p]["modules"] = PROPS[_p]["modules"] + ["Ldlm.Pins.FP." + _p]
        PROPS[_p]["theorems"] = PROPS[_p]["theorems"] + ["Ldlm.Pins.FP.%s.%s" % (_p, fp_id(t)) for t in fp_funcs(_p)]

NOT_CLAIMED = {}
ENGINES = [
    dict(name="lean", path="/verif/lean", serves_properties=sorted(PROPS), kind_free_text="Lean 4 project: models (Ldlm/Model), proofs (Ldlm/Proofs), property theorems (Ldlm/Props), compiled line-protocol model driver"),
    dict(name="codec", path="/verif/harness/codec", serves_properties=["C17"], kind_free_text="byte-level differential of store.Write/Read against the Lean codec model"),
    dict(name="stack", path="/verif/harness/stack", serves_properties=["C11", "C14", "C16", "C18"], kind_free_text="end-to-end: real cmd/server + cmd/lock binaries over loopback with gRPC, REST and Go clients, signals, TLS/password matrix"),
    dict(name="conc", path="/verif/harness/concsrv", serves_properties=["C01", "C02", "C03", "C05", "C06", "C09", "C11", "C13"], kind_free_text="controlled interleavings of small concurrent programs on the instrumented real LockServer (tools/instr overlay + verifrt scheduler + DFS/PCT explorer), with model-independent monitors and crash-image snapshots"),
    dict(name="rest", path="/verif/harness/restc", serves_properties=["C15", "C20"], kind_free_text="REST gateway in process and in virtual time: model correspondence (TestRestModel vs Lean M4), paired real servers REST vs gRPC (TestRest C15), session life-cycle monitors (TestRest C20), controlled interleavings on the instrumented gateway (TestRestConc)"),
    dict(name="client", path="/verif/harness/clientc", serves_properties=["C19"], kind_free_text="Go client over an in-process recording transport to the real service in virtual time: model correspondence (TestClientModel vs Lean M5: RPC traces, retry table, renewer retry path), monitors and controlled interleavings Unlock/Close vs renew goroutine (TestClient)"),
    dict(name="seq", path="/verif/harness/seq", serves_properties=["C01", "C03", "C04", "C07", "C08", "C10", "C12", "C13", "C18"], kind_free_text="sequential histories in virtual time: real LockServer (testing/synctest) vs Lean model M2 through the line protocol, plus model-independent monitors"),
]
NOTES = "Every check = Lean proof obligations about a model + a correspondence run that ties the model to /repo's working tree. See DESIGN.md."
