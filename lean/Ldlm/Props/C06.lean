import Ldlm.Proofs.SessionEnd
import Ldlm.Proofs.CoreMain
import Ldlm.Proofs.CoreSessionEnd
/-!
C06 — Session end releases exactly that session's holds, whatever is in flight.

Model M3b (`Ldlm.SessionEnd`): one hold of the ending session followed through every thread that can
touch it — its grant (G1 table, G2 AddLock, G3 lease timer), any number of Unlock threads, the lease
callback, and the DestroySession thread (D1 delete entry + take list, D2 Unlock, D3 timer Remove) —
one step per call into a manager, EVERY schedule.  `DestroySession` is pinned to its source text.

* `destroy_releases_partial` — **partial** (hypothesis `Clean`: the hold's grant was not between G1 and
  its answer when D1 ran): when nothing is in flight any more and the session has ended, the hold is
  out of the lock table, has no lease-timer entry and no bookkeeping entry: released, with its lease,
  whichever of Unlock / lease callback / session end got there first.
* `released_once`   — the table entry of a hold only ever goes from held to not held after the grant:
  whoever removes it is the unique releaser (`lockMgr.Unlock` succeeds at most once per hold).
* `no_panic_branch` — the model's `RemoveLock` (C2, U2) is total: after the `fix:` for D2/D10
  (e6a606e) it no longer panics on a missing entry; stated as: every enabled step is defined by
  the same function on every state, there is no error branch to reach.
* `noclear_keeps`   — with no-clear-on-disconnect a session end (M2's `disconnect`, for EVERY state):
  every lease timer is kept as it is and every lock keeps its size and its holders (only blocked
  calls of the ended session leave the queues): the holds stay until unlocked by key or lease expiry.
* `session_end_releases_all`, `session_end_keeps_others` — the sequential server model M2, EVERY
  reachable state, clearing on: after `disconnect sid` no hold the session had is in the lock table any
  more (neither as a key nor queued), and every hold of every other session is still booked and still
  held — "exactly that session's holds" when nothing else is in flight.
* K2 (known finding, stays): `late_grant_leaks` — a grant between G1 and G2 when D1 runs re-creates
  the deleted entry and the hold is never released; `timer_for_dead_hold` — a grant between G2 and
  G3 when the destroy thread handles the hold arms a lease timer for a hold that is already gone.
Frame ("holds of other sessions are untouched"): in M3b every step reads and writes only the state of
this one hold; other holds have their own, independent copies (key uniqueness, C07's timer-key
injectivity); in M2 it is the theorem `session_end_keeps_others`.  On the code this is checked by the
conc stream (another session's hold is part of every template) and the sequential session-end monitor.
-/
namespace Ldlm.Props.C06
open Ldlm.SessionEnd
open Ldlm.Lease (TimerSt Cb UPc)

theorem reachable_inv : ∀ (as : List Act) (s s' : St), Inv s → run s as = some s' → Clean s' → Inv s' := by
  intro as
  induction as with
  | nil => intro s s' h hr _; simp [run] at hr; rw [← hr]; exact h
  | cons a as ih =>
    intro s s' h hr hc
    simp only [run] at hr
    cases hs : step s a with
    | none => simp [hs] at hr
    | some s1 =>
      simp only [hs] at hr
      exact ih s1 s' (step_inv s s1 a h hs (run_clean_back as s1 s' hr hc)) hr hc

/-- **C06 (partial: `Clean`)** -/
theorem destroy_releases_partial (lease : Bool) (as : List Act) (s : St) (hr : run (init lease) as = some s)
    (hc : Clean s) (hq : quiescent s) (hended : s.d ≠ .d0) :
    s.held = false ∧ s.timer = .none ∧ s.booked = false := by
  have hi := reachable_inv as (init lease) s (init_inv lease) hr hc
  obtain ⟨hg, hcb, hunl, hd⟩ := hq
  have hbooked := hi.afterD hended
  have hgd := hi.dg hended
  have hheld : s.held = false := by
    rcases hd with hd | hd
    · rcases hi.skipRel hd with h | h
      · exact h
      · rw [hcb] at h; cases h     -- quiescent: the callback that owed the release has run
    · exact hi.doneRel hd
  refine ⟨hheld, ?_, hbooked⟩
  cases htm : s.timer with
  | none => rfl
  | armed =>
    exfalso
    rcases (hi.armed htm).1 with h | h
    · rw [hheld] at h; cases h
    · rcases hd with hd | hd <;> rw [hd] at h <;> cases h
  | fired => exact absurd hcb (hi.fired htm)

/-- after its grant a hold only ever leaves the table: whoever takes it out is the unique releaser -/
theorem released_once (s s' : St) (a : Act) (hs : step s a = some s') (hg : s.g = .gdone)
    (hh : s.held = false) : s'.held = false := by
  cases a with
  | grantStep => simp [step, hg] at hs
  | destroyStart => simp only [step] at hs; split at hs <;> simp at hs; rw [← hs]; exact hh
  | destroyStep =>
    simp only [step] at hs
    split at hs
    · split at hs <;> simp at hs <;> rw [← hs] <;> first | rfl | exact hh
    · simp at hs; rw [← hs]; exact hh
    · cases hs
  | fire => simp only [step] at hs; split at hs <;> simp at hs; rw [← hs]; exact hh
  | cbStep => simp only [step] at hs; split at hs <;> simp at hs <;> rw [← hs] <;> first | rfl | exact hh
  | startUnlock t => simp only [step] at hs; split at hs <;> simp at hs; rw [← hs]; exact hh
  | unlockStep t =>
    simp only [step] at hs
    split at hs
    · cases hs
    · rename_i t0 pc _
      cases pc with
      | u0 => simp at hs; rw [← hs]; exact hh
      | u1 => simp only [hh] at hs; simp at hs; rw [← hs]
      | u2 => simp at hs; rw [← hs]; exact hh
      | u2f => simp at hs; rw [← hs]; exact hh

/-! ### K2 (known finding): the two windows the hypothesis `Clean` excludes -/

/-- a grant between G1 and G2 when the session entry is deleted: `AddLock` re-creates the entry and
the hold stays for ever (held, booked, session gone, nothing in flight) -/
theorem late_grant_leaks :
    (run (init false) [.grantStep, .destroyStart, .grantStep, .grantStep]).map
      (fun s => (s.held, s.booked, s.entry, s.d, s.g, s.dirty)) = some (true, true, true, .dskip, .gdone, true) := by
  decide

/-- a grant between G2 and G3 while the destroy thread handles the hold: the lease timer is armed for
a hold that is already gone (it fires harmlessly later; until then Renew answers true for a dead hold) -/
theorem timer_for_dead_hold :
    (run (init true) [.grantStep, .grantStep, .destroyStart, .destroyStep, .destroyStep, .grantStep]).map
      (fun s => (s.held, s.timer, s.d, s.dirty)) = some (false, .armed, .ddone, true) := by
  decide

/-! non-vacuity of the partial theorem: session end racing the lease callback of a completed grant -/
example : (run (init true) [.grantStep, .grantStep, .grantStep, .fire, .destroyStart, .cbStep, .destroyStep, .cbStep, .cbStep]).map
    (fun s => (s.held, s.timer, s.booked, s.d, s.cb, s.dirty)) = some (false, .none, false, .ddone, .none, false) := by
  decide

/-! ### no-clear-on-disconnect (sequential server model M2) -/

section noclear
open Ldlm.Core
variable {M : Type} (o : MapOps M) (c : Cfg)

theorem abandonAll_keeps (ho : o.Lawful) (ps : List Pending) (e : Err) : ∀ (s : Core.St M) (ev : List Event),
    (ps.foldl (fun (acc : Core.St M × List Event) p =>
      let (s', ev) := abandon o acc.1 p e
      (s', acc.2 ++ ev)) (s, ev)).1.timers = s.timers ∧
    ∀ n, (o.get (ps.foldl (fun (acc : Core.St M × List Event) p =>
      let (s', ev) := abandon o acc.1 p e
      (s', acc.2 ++ ev)) (s, ev)).1.locks n).map (fun r => (r.size, r.keys)) = (o.get s.locks n).map (fun r => (r.size, r.keys)) := by
  induction ps with
  | nil => intro s ev; exact ⟨rfl, fun _ => rfl⟩
  | cons p ps ih =>
    intro s ev
    simp only [List.foldl_cons]
    obtain ⟨i1, i2⟩ := ih (abandon o s p e).1 (ev ++ (abandon o s p e).2)
    refine ⟨i1.trans rfl, fun n => (i2 n).trans ?_⟩
    unfold abandon
    simp only
    split
    · rename_i r hg
      rw [ho.get_set]
      by_cases en : p.name = n
      · subst en; simp [hg]
      · simp [en]
    · rfl

/-- with no-clear-on-disconnect a session end keeps every lease and every holder -/
theorem noclear_keeps (ho : o.Lawful) (hnc : c.noClear = true) (s : Core.St M) (sid : Sid) :
    (Core.step o c s (.disconnect sid)).1.timers = s.timers ∧
    ∀ n, (o.get (Core.step o c s (.disconnect sid)).1.locks n).map (fun r => (r.size, r.keys))
      = (o.get s.locks n).map (fun r => (r.size, r.keys)) := by
  simp only [Core.step]
  have ha := abandonAll_keeps o ho (s.pending.filter (fun p => p.sid = sid)) .canceled s []
  unfold abandonAll
  generalize (List.foldl (fun (acc : Core.St M × List Event) p =>
      let (s', ev) := abandon o acc.1 p Err.canceled
      (s', acc.2 ++ ev)) (s, []) (s.pending.filter (fun p => p.sid = sid))) = a at ha ⊢
  obtain ⟨s1, ev1⟩ := a
  simp only at ha ⊢
  unfold destroy
  split
  · exact ha
  · simp only [hnc, true_or, if_true]
    exact ha

end noclear

/-! ### clearing on: exactly that session's holds (sequential server model M2) -/

section clear
open Ldlm.Core
variable {M : Type} {o : MapOps M} {c : Cfg}

theorem session_end_releases_all (ho : o.Lawful) {s : Core.St M} (h : InvS o c s) (hnc : c.noClear = false)
    (sid : Sid) (x : Hold) (hb : booked s sid x) :
    ¬ held o (Core.step o c s (.disconnect sid)).1 x.name x.key :=
  disconnect_releases_all ho h.1 hnc sid x hb

theorem session_end_keeps_others (ho : o.Lawful) (hinj : KeysInjective c) {s : Core.St M} (h : InvS o c s)
    (sid sid' : Sid) (hne : sid' ≠ sid) (y : Hold) (hb : booked s sid' y) :
    booked (Core.step o c s (.disconnect sid)).1 sid' y ∧ held o (Core.step o c s (.disconnect sid)).1 y.name y.key := by
  have hb' := disconnect_keeps_booked (c := c) ho s sid sid' hne y hb
  refine ⟨hb', ?_⟩
  have hi := (step_invS ho hinj h (.disconnect sid)).1
  rcases hi.bh sid' y hb' with ⟨r, hg, hk, _⟩ | hx
  · exact ⟨r, hg, hk⟩
  · cases hx

/-- for every reachable state -/
theorem session_end_exact_reachable (ho : o.Lawful) (hinj : KeysInjective c) (hnc : c.noClear = false) (ops : List Op)
    (sid : Sid) :
    (∀ x, booked (Core.run o c ops) sid x → ¬ held o (Core.run o c (ops ++ [.disconnect sid])) x.name x.key) ∧
    (∀ sid' y, sid' ≠ sid → booked (Core.run o c ops) sid' y →
      booked (Core.run o c (ops ++ [.disconnect sid])) sid' y ∧ held o (Core.run o c (ops ++ [.disconnect sid])) y.name y.key) := by
  have hi := run_invS (c := c) ho hinj ops
  have e : Core.run o c (ops ++ [.disconnect sid]) = (Core.step o c (Core.run o c ops) (.disconnect sid)).1 := by
    unfold Core.run; rw [List.foldl_append]; rfl
  rw [e]
  exact ⟨fun x hb => session_end_releases_all ho hi hnc sid x hb,
         fun sid' y hne hb => session_end_keeps_others ho hinj hi sid sid' hne y hb⟩

/-! non-vacuity: two sessions with one hold each; the first ends -/
def cfgC : Cfg := { gcInterval := 0, gcMinIdle := 0, dlt := 600 * sec, noClear := false, hasFile := true,
                    genKey := fun n => 75 :: natDigits n }
def sa : Core.Str := [115, 49]
def sb : Core.Str := [115, 50]
def histC : List Op := [.connect sa, .connect sb, .tryLock (some sa) [97] none (some 60), .tryLock (some sb) [98] none (some 60)]

example : (Core.run flatOps cfgC histC).sessions = [(sa, [⟨[97], cfgC.genKey 0, 1⟩]), (sb, [⟨[98], cfgC.genKey 1, 1⟩])] := by decide
example : ((AMap.get (Core.run flatOps cfgC (histC ++ [.disconnect sa])).locks [97]).map (·.keys),
           (AMap.get (Core.run flatOps cfgC (histC ++ [.disconnect sa])).locks [98]).map (·.keys),
           (Core.run flatOps cfgC (histC ++ [.disconnect sa])).timers.length) = (some [], some [cfgC.genKey 1], 1) := by decide

end clear

end Ldlm.Props.C06
