package clientc

// C19 part (a): sequential virtual-time histories of one client taking 1-3 holds with auto-renew,
// letting time pass, unlocking at random points and closing. No scheduler: the renewer goroutines
// run on their own timers inside the bubble; the root goroutine is the application.

import (
	"fmt"
	"strings"
	"testing"
	"testing/synctest"
	"time"

	"github.com/imoore76/ldlm/client"
	"github.com/imoore76/ldlm/verifrt"

	"verif/harness/common"
	"verif/harness/impl"
)

var c19Timeouts = []int32{5, 10, 11, 12, 30, 31, 40, 45, 60}

type hold struct {
	Idx         int           `json:"hold"`
	Name        string        `json:"name"`
	Key         string        `json:"key"`
	T           int32         `json:"lock_timeout_s"`
	Size        int32         `json:"size"`
	Via         string        `json:"via"`
	Grant       time.Duration `json:"granted_at_ns"`
	Unlocked    bool          `json:"unlocked"`
	UnlockAt    time.Duration `json:"unlock_returned_at_ns,omitempty"`
	unlockLog   int           // transport log length when Unlock returned
	gone        bool          // no longer listed by the server although not unlocked
	renewerDead bool          // its renewer panicked (design limit T <= interval)
}

type seqOut struct {
	canon                  []string
	holds, renews, unlocks int
	found                  bool
}

func guard(f func()) (p string) {
	defer func() {
		if r := recover(); r != nil {
			p = fmt.Sprint(r)
		}
	}()
	f()
	return ""
}

func runClientHistory(t *testing.T, res *common.Result, label string, r *common.Rng, nOps int, forceSameName bool) (out seqOut) {
	const prop = "C19"
	synctest.Test(t, func(t *testing.T) {
		verifrt.Reset(false)
		w, err := newWorld(0)
		if err != nil {
			t.Fatalf("server.New: %v", err)
		}
		defer w.close()
		var holds []*hold
		var ops []map[string]any
		closed, closeLog := false, 0
		closeAt := time.Duration(0)
		seenPanics := 0
		find := func(sig, what string) {
			out.found = true
			res.Find(common.Finding{Kind: "violation", Property: prop, Signature: sig, What: what,
				Replay: map[string]any{"part": "a-sequential", "history": label, "seed": common.Seed(), "ops": ops, "holds": holds,
					"rpcs": w.tr.snapshot(), "panics": verifrt.Panics(), "now_ns": int64(w.now())}})
		}
		active := func() []*hold {
			a := []*hold{}
			for _, h := range holds {
				if !h.Unlocked {
					a = append(a, h)
				}
			}
			return a
		}
		// renewerOf: the hold a renewer panic naming that lock belongs to: the one the client still
		// holds under that name (there is at most one: a second hold of a name never gets that far)
		renewerOf := func(name string) *hold {
			for i := len(holds) - 1; i >= 0; i-- {
				if h := holds[i]; h.Name == name && !h.Unlocked && !h.renewerDead {
					return h
				}
			}
			return nil
		}
		audit := func(after string) {
			synctest.Wait()
			// (iv) panics in goroutines of the client
			ps := verifrt.Panics()
			for _, p := range ps[seenPanics:] {
				msg, class, lname := panicClass(p)
				h := renewerOf(lname)
				if class == "error renewing lock" && h != nil && h.T <= 10 && !h.Unlocked {
					h.renewerDead = true
					res.Count(fmt.Sprintf("design-limit:renewer-panicked(T=%ds<=interval)", h.T))
					continue
				}
				find("client:panic:"+class, fmt.Sprintf("a goroutine of the client panicked after %s: %q; required: nothing panics", after, msg))
			}
			seenPanics = len(ps)
			// (ii) holds stay alive while the client is alive and has not unlocked them
			if !closed {
				for _, h := range active() {
					if h.gone || w.held(h.Name, h.Key) {
						continue
					}
					h.gone = true
					if h.T <= 10 {
						res.Count(fmt.Sprintf("design-limit:hold-expired(T=%ds<=interval)", h.T))
						continue
					}
					find("client:hold-expired-while-alive", fmt.Sprintf("hold %d on %q (lock timeout %d s, renew interval %v) is no longer held at the server after %s although the client is alive and never unlocked it", h.Idx, h.Name, h.T, renewInterval(h.T), after))
				}
			}
			// (iii) no renew after Unlock returned / after Close returned
			log := w.tr.snapshot()
			for _, h := range holds {
				if !h.Unlocked {
					continue
				}
				for _, e := range log[min(h.unlockLog, len(log)):] {
					if e.Method == "Renew" && e.Name == h.Name && e.Key == h.Key {
						find("client:renew-after-unlock", fmt.Sprintf("a Renew for hold %d on %q was sent at %v, after Unlock had returned at %v", h.Idx, h.Name, time.Duration(e.AtNs), h.UnlockAt))
						break
					}
				}
			}
			if closed && len(log) > closeLog {
				e := log[closeLog]
				find("client:renew-after-close", fmt.Sprintf("%s RPC for %q sent at %v, after Close had returned at %v", e.Method, e.Name, time.Duration(e.AtNs), closeAt))
			}
		}
		record := func(kind string, kv map[string]any) {
			kv["op"], kv["at_ns"] = kind, int64(w.now())
			ops = append(ops, kv)
		}

		takes := 0
		for i := 0; i < nOps && !out.found; i++ {
			act := active()
			kind := weighted(r, []string{"take", "adv", "unlock"}, []int{30, 45, 25})
			if len(holds) == 0 {
				kind = "take"
			}
			if kind == "take" && takes >= 4 {
				kind = "adv"
			}
			if kind == "unlock" && len(act) == 0 {
				kind = "adv"
			}
			switch kind {
			case "take":
				takes++
				name := common.Pick(r, []string{"a", "b", "c"})
				size := int32(weighted(r, []int{1, 2, 3}, []int{50, 35, 15}))
				T := common.Pick(r, c19Timeouts)
				via := common.Pick(r, []string{"TryLock", "TryLock", "Lock"})
				if len(act) > 0 && (r.Chance(25) || (forceSameName && takes == 2)) { // ask for another unit of a lock already held
					h := common.Pick(r, act)
					name, size = h.Name, h.Size
					if forceSameName && takes == 2 {
						for _, x := range act {
							if x.Size > 1 {
								name, size = x.Name, x.Size
							}
						}
					}
				} else if forceSameName && takes == 1 {
					size = 2
				}
				opts := &client.LockOptions{LockTimeoutSeconds: T, Size: size}
				if via == "Lock" {
					opts.WaitTimeoutSeconds = 2
				}
				out.canon = append(out.canon, fmt.Sprintf("%s %s size=%d T=%d", via, name, size, T))
				record(via, map[string]any{"name": name, "size": size, "lock_timeout_s": T})
				n0 := w.tr.len()
				var lk *client.Lock
				var cerr error
				p := guard(func() {
					if via == "Lock" {
						lk, cerr = w.c.Lock(name, opts)
					} else {
						lk, cerr = w.c.TryLock(name, opts)
					}
				})
				if p != "" {
					_, class, _ := panicClass(p)
					granted := false
					for _, e := range w.tr.snapshot()[n0:] {
						granted = granted || ((e.Method == "Lock" || e.Method == "TryLock") && e.Ok)
					}
					same := 0
					for _, h := range act {
						if h.Name == name {
							same++
						}
					}
					if class == "client out of sync" && same > 0 {
						res.Count("second-hold-same-name:panicked")
						find("client:second-hold-same-name", fmt.Sprintf("%s(%q, size %d) while the client already holds %d unit(s) of %q panicked in the caller (%q) although the server granted the hold (granted=%v); required: several holds of one counting lock are renewed and unlocked independently", via, name, size, same, name, p, granted))
					} else {
						find("client:panic:"+class, fmt.Sprintf("%s(%q) panicked in the caller: %q", via, name, p))
					}
					return
				}
				res.Count("take:" + via + ":" + map[bool]string{true: "granted", false: "not-granted:" + impl.ErrName(cerr)}[lk != nil && lk.Locked])
				if lk != nil && lk.Locked {
					h := &hold{Idx: len(holds), Name: name, Key: lk.Key, T: T, Size: size, Via: via, Grant: w.now()}
					holds = append(holds, h)
					out.holds++
					res.Count(fmt.Sprintf("hold:T=%d:interval=%v", T, renewInterval(T)))
					if T <= 10 {
						res.Count(fmt.Sprintf("design-limit:interval>=lease(T=%d)", T))
					}
				}
			case "adv":
				d := time.Duration(1+r.Intn(200)) * time.Second
				why := "1-200s"
				if len(act) > 0 && r.Chance(30) { // to a renew instant of one hold (or 1 ns around it)
					h := common.Pick(r, act)
					I := renewInterval(h.T)
					k := (w.now()-h.Grant)/I + 1
					off := common.Pick(r, []time.Duration{-1, 0, 1})
					if x := h.Grant + k*I + off - w.now(); x > 0 {
						d, why = x, fmt.Sprintf("renew-instant%+dns", off)
					}
				}
				out.canon = append(out.canon, fmt.Sprintf("adv %d", int64(d)))
				record("advance", map[string]any{"ns": int64(d), "why": why})
				res.Count("advance:" + why)
				time.Sleep(d)
			case "unlock":
				h := common.Pick(r, act)
				out.canon = append(out.canon, fmt.Sprintf("unlock h%d", h.Idx))
				record("Unlock", map[string]any{"hold": h.Idx, "name": h.Name})
				var ok bool
				var uerr error
				if p := guard(func() { ok, uerr = w.c.Unlock(h.Name, h.Key) }); p != "" {
					_, class, _ := panicClass(p)
					find("client:panic:"+class, fmt.Sprintf("Unlock(%q) panicked in the caller: %q", h.Name, p))
					return
				}
				h.Unlocked, h.UnlockAt, h.unlockLog = true, w.now(), w.tr.len()
				out.unlocks++
				res.Count(fmt.Sprintf("unlock:ok=%v:err=%s", ok, impl.ErrName(uerr)))
			}
			audit(out.canon[len(out.canon)-1])
		}
		if out.found {
			return
		}
		// end: maybe unlock what is left, Close, then 3 x the longest timeout of silence
		maxT := int32(40)
		for _, h := range holds {
			maxT = max(maxT, h.T)
		}
		if r.Chance(50) {
			for _, h := range active() {
				out.canon = append(out.canon, fmt.Sprintf("unlock h%d", h.Idx))
				record("Unlock", map[string]any{"hold": h.Idx, "name": h.Name})
				if p := guard(func() { w.c.Unlock(h.Name, h.Key) }); p != "" {
					_, class, _ := panicClass(p)
					find("client:panic:"+class, fmt.Sprintf("Unlock(%q) panicked in the caller: %q", h.Name, p))
					return
				}
				h.Unlocked, h.UnlockAt, h.unlockLog = true, w.now(), w.tr.len()
				out.unlocks++
				audit("the final unlocks")
			}
		}
		if r.Chance(50) { // let the renewers work once more before Close
			time.Sleep(time.Duration(maxT) * time.Second)
			audit("a last advance before Close")
		}
		if out.found {
			return
		}
		out.canon = append(out.canon, "close")
		record("Close", map[string]any{})
		if p := guard(func() { w.c.Close() }); p != "" {
			_, class, _ := panicClass(p)
			find("client:panic:"+class, fmt.Sprintf("Close panicked in the caller: %q", p))
			return
		}
		closed, closeLog, closeAt = true, w.tr.len(), w.now()
		time.Sleep(3 * time.Duration(maxT) * time.Second)
		audit("Close and 3 x the longest lock timeout of silence")
		if out.found {
			return
		}
		// (i) the renew schedule of every hold: exactly grant + k*I, none missing while it was held
		log := w.tr.snapshot()
		for _, h := range holds {
			I := renewInterval(h.T)
			obs := []time.Duration{}
			for _, e := range log {
				if e.Method == "Renew" && e.Name == h.Name && e.Key == h.Key {
					obs = append(obs, time.Duration(e.AtNs))
				}
			}
			out.renews += len(obs)
			end := closeAt
			if h.Unlocked {
				end = h.UnlockAt
			}
			for j, at := range obs {
				if at != h.Grant+time.Duration(j+1)*I {
					find("client:renew-interval", fmt.Sprintf("renew %d of hold %d (lock timeout %d s) was sent %v after the grant; required exactly %d x %v", j+1, h.Idx, h.T, at-h.Grant, j+1, I))
					return
				}
			}
			if h.T > 10 {
				need := int((end - h.Grant - 1) / I) // renew instants strictly before the end
				if end <= h.Grant {
					need = 0
				}
				if len(obs) < need || len(obs) > need+1 {
					find("client:renew-interval", fmt.Sprintf("hold %d (lock timeout %d s, interval %v) was held for %v and renewed %d times; required %d (or %d if the last instant coincides with its end)", h.Idx, h.T, I, end-h.Grant, len(obs), need, need+1))
					return
				}
			}
			res.Count(fmt.Sprintf("renews-per-hold:%s", bucket(len(obs))))
			if len(obs) > 0 {
				sched := []string{}
				for _, at := range obs[:min(len(obs), 6)] {
					sched = append(sched, (at - h.Grant).String())
				}
				res.Sample(map[string]any{"part": "a", "observed_renew_schedule": map[string]any{"lock_timeout_s": h.T, "interval": I.String(), "renews_after_grant": sched, "total": len(obs)}})
			}
		}
		// Observation only (use after Close is outside C19's statement, so it is counted, not reported):
		// Close stops the renewers but leaves them registered; what does a later Unlock do?
		if act := active(); len(act) > 0 && r.Chance(25) {
			h := act[0]
			p := guard(func() { w.c.Unlock(h.Name, h.Key) })
			cls := "returned"
			if p != "" {
				_, c, _ := panicClass(p)
				cls = "panicked:" + c
			}
			res.Count("observation:unlock-after-close:" + cls)
		}
	})
	return out
}

func bucket(n int) string {
	switch {
	case n == 0:
		return "0"
	case n <= 2:
		return "1-2"
	case n <= 10:
		return "3-10"
	}
	return ">10"
}

func weighted[T any](r *common.Rng, xs []T, w []int) T {
	tot := 0
	for _, x := range w {
		tot += x
	}
	n := r.Intn(tot)
	for i, x := range w {
		if n < x {
			return xs[i]
		}
		n -= x
	}
	return xs[len(xs)-1]
}

func runSequentialPart(t *testing.T, res *common.Result, rng *common.Rng) {
	n, nOps := 3000, 10
	if common.Thorough() {
		n, nOps = 150000, 16
	}
	n = common.EnvInt("VERIF_C19_HISTORIES", n)
	for i := 0; i < n; i++ {
		r := rng.Fork(uint64(i))
		force := r.Chance(12)
		out := runClientHistory(t, res, fmt.Sprintf("seq#%d", i), r.Fork(1), nOps-3+r.Intn(7), force)
		res.Count("part:a-sequential-history")
		res.Eval("a|"+strings.Join(out.canon, ";"), out.holds > 0 && out.renews > 0 && out.unlocks > 0)
	}
}
