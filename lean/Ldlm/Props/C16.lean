import Ldlm.Model.Edge
/-!
C16 — Password and TLS settings are enforced on every entry point or startup fails.

Decision logic stated outright over M6, the model pinned to the source text of the four functions
involved (`Pins.C16.pin_ValidatePassword`, `pin_AuthInterceptor`, `pin_ServeHTTP`, `pin_GetTLSConfig`)
and to regenerated structural facts (`auth_first_on_rest`, `auth_installed_iff_password`,
`grpc_methods`).

* `rest_auth_sound` / `rest_auth_complete` — a REST request is accepted iff no password is
  configured, or the Authorization header splits around "Basic " into exactly two parts, the second
  base64-decodes, and what follows the FIRST colon of the decoded text equals the configured
  password (so passwords containing colons work and a prefix / suffix / other scheme does not).
  `split` (Go `strings.Split(h, "Basic ")`) and `b64` (`base64.StdEncoding.DecodeString`) are
  parameters: Go's standard library is trusted, not modelled.
* `grpc_auth_iff` — a unary call passes the interceptor iff the first `authorization` metadata value
  equals the password.
* `tls_*` — all rows of `GetTLSConfig`'s decision: client-cert verification or a client CA requested
  ⇒ start-up error or TLS that requires and verifies client certificates; a certificate configured ⇒
  never plaintext; nothing configured ⇒ plaintext.  (A key without a certificate is read as "TLS not
  configured": `tls_key_alone_is_plaintext` states it so it is visible.)
Handshake enforcement itself is crypto/tls + grpc credentials (trusted; exercised by the stack stream).
-/
namespace Ldlm.Props.C16
open Ldlm.Edge

/-- `ValidatePassword` with Go's `strings.Split` and base64 decoder as parameters -/
def restAuthP (split : String → List String) (b64 : String → Option (List Char)) (password : List Char)
    (header : String) : Bool :=
  if password = [] then true else
  match split header with
  | [_, cred] =>
    match b64 cred with
    | none => false
    | some dec =>
      match splitOnFirst dec ':' with
      | none => false
      | some (_, pw) => pw = password
  | _ => false

theorem splitOnFirst_spec (user pw : List Char) (h : ':' ∉ user) :
    splitOnFirst (user ++ ':' :: pw) ':' = some (user, pw) := by
  induction user with
  | nil => simp [splitOnFirst]
  | cons a u ih =>
    have ha : a ≠ ':' := fun e => h (by simp [e])
    have hu : ':' ∉ u := fun m => h (List.mem_cons_of_mem _ m)
    simp [splitOnFirst, ha, ih hu]

theorem splitOnFirst_sound : ∀ (s a b : List Char), splitOnFirst s ':' = some (a, b) →
    s = a ++ ':' :: b ∧ ':' ∉ a := by
  intro s
  induction s with
  | nil => intro a b h; simp [splitOnFirst] at h
  | cons c cs ih =>
    intro a b h
    unfold splitOnFirst at h
    split at h
    · rename_i hc
      simp at h
      obtain ⟨e1, e2⟩ := h
      subst e1; subst e2; subst hc
      simp
    · rename_i hc
      cases hr : splitOnFirst cs ':' with
      | none => simp [hr] at h
      | some p =>
        obtain ⟨x, y⟩ := p
        simp [hr] at h
        obtain ⟨e1, e2⟩ := h
        subst e1; subst e2
        obtain ⟨i1, i2⟩ := ih x y hr
        refine ⟨by rw [i1]; simp, ?_⟩
        intro hm
        simp at hm
        rcases hm with hm | hm
        · exact hc hm.symm
        · exact i2 hm

/-- accepted ⇒ the credential decodes to `user:password` with the configured password after the
first colon -/
theorem rest_auth_sound (split : String → List String) (b64 : String → Option (List Char))
    (password : List Char) (header : String) (hp : password ≠ [])
    (h : restAuthP split b64 password header = true) :
    ∃ pre cred user, split header = [pre, cred] ∧ b64 cred = some (user ++ ':' :: password) ∧ ':' ∉ user := by
  unfold restAuthP at h
  simp only [hp, if_false] at h
  split at h
  · rename_i pre cred hsplit
    split at h
    · cases h
    · rename_i dec hdec
      split at h
      · cases h
      · rename_i a pw hso
        have hpw : pw = password := by simpa using h
        subst hpw
        obtain ⟨e, hn⟩ := splitOnFirst_sound dec a pw hso
        exact ⟨pre, cred, a, hsplit, by rw [hdec, e], hn⟩
  · cases h

/-- the correct password in a well-formed header is always accepted -/
theorem rest_auth_complete (split : String → List String) (b64 : String → Option (List Char))
    (password : List Char) (header pre cred : String) (user : List Char)
    (hs : split header = [pre, cred]) (hb : b64 cred = some (user ++ ':' :: password)) (hu : ':' ∉ user) :
    restAuthP split b64 password header = true := by
  unfold restAuthP
  split
  · rfl
  · simp [hs, hb, splitOnFirst_spec user password hu]

/-- no password configured ⇒ everything is accepted (authentication is off) -/
theorem rest_auth_off (split : String → List String) (b64 : String → Option (List Char)) (header : String) :
    restAuthP split b64 [] header = true := by simp [restAuthP]

theorem grpc_auth_iff (password : String) (md : Option (List String)) :
    grpcAuth password md = true ↔ ∃ v rest, md = some (v :: rest) ∧ v = password := by
  unfold grpcAuth
  cases md with
  | none => simp
  | some l =>
    cases l with
    | nil => simp
    | cons v rest => simp

/-! ### structure: every entry point passes the check first -/

/-- REST: `ValidatePassword` is the first call of `ServeHTTP`, before the session routes -/
theorem auth_first_on_rest :
    Facts.restServeOrder = ["ValidatePassword", "CreateSession", "DestroySession", "ValidateSession", "mux.ServeHTTP"] := by
  decide

/-- gRPC: the interceptor is installed exactly when a password is configured -/
theorem auth_installed_iff_password : Facts.grpcAuthInstallCond = some "sconf.Password != \"\"" := by decide

/-- gRPC: the service has exactly these four (unary) methods, all behind the unary interceptor -/
theorem grpc_methods : Facts.grpcServiceMethods = ["Lock", "Unlock", "TryLock", "Renew"] := by decide

theorem rest_routes : Facts.restRoutes =
    [("ldlm.LDLM.TryLock", "post", "/v1/lock"), ("ldlm.LDLM.Unlock", "post", "/v1/unlock"),
     ("ldlm.LDLM.Renew", "post", "/v1/renew")] := by decide

/-! ### TLS decision table: all 2^6 rows -/

/-- verification or a CA requested ⇒ error, or TLS requiring client certificates -/
theorem tls_verify_enforced : ∀ cert key verify ca certOk caOk : Bool, (verify || ca) = true →
    tlsDecision cert key verify ca certOk caOk = .error ∨
    tlsDecision cert key verify ca certOk caOk = .tls true := by decide

/-- a certificate configured ⇒ never plaintext -/
theorem tls_cert_never_plaintext : ∀ cert key verify ca certOk caOk : Bool, cert = true →
    tlsDecision cert key verify ca certOk caOk ≠ .plaintext := by decide

/-- client verification without a server certificate never starts -/
theorem tls_verify_without_cert_refuses : ∀ key verify ca certOk caOk : Bool, (verify || ca) = true →
    tlsDecision false key verify ca certOk caOk = .error := by decide

/-- nothing requested ⇒ plaintext; and (visible on purpose) a key alone counts as nothing -/
theorem tls_key_alone_is_plaintext : ∀ key certOk caOk : Bool,
    tlsDecision false key false false certOk caOk = .plaintext := by decide

/-- non-vacuity: a loading certificate with verification gives TLS with client certificates -/
example : tlsDecision true true true false true true = .tls true := by decide
example : tlsDecision true true false false true true = .tls false := by decide

end Ldlm.Props.C16
