// C11: graceful shutdown of the real server binary: SIGINT/SIGTERM at seeded points of a workload
// with connected gRPC clients, a REST session, leased and unleased holds and blocked waiters.
package stack

import (
	"net/rpc"

	"fmt"
	"github.com/imoore76/ldlm/server/ipc"
	"net"
	"net/url"
	"sort"
	"strings"
	"sync"
	"sync/atomic"
	"syscall"
	"testing"
	"time"

	pb "github.com/imoore76/ldlm/protos"

	"verif/harness/common"
)

type c11cfg struct {
	name  string
	rest  bool
	extra []string
}

type c11hold struct {
	hold
	Owner  string `json:"owner"` // g1 | g2 | rest
	Lease  int32  `json:"lease_sec"`
	waited bool   // a blocked Lock waits on it: never unlocked by the workload
}

type waiterResult struct {
	resp *pb.LockResponse
	err  error
}

func runC11(t *testing.T, res *common.Result, rng *common.Rng) {
	res.Rule = "matrix {SIGINT, SIGTERM} x server configurations x K workload points (quick: default and no-clear-on-disconnect configs, K=3, one workload per signal; thorough: 5 configs, K=10, 3 seeded workloads per config and signal). " +
		"The workload is a seeded sequence of up to 12 requests from 2 gRPC connections and 1 REST session: TryLock/Lock grants with no lease or a 60 s lease on size-1 and size-2 names, own Unlocks, " +
		"and (request 4 at the latest) blocked Lock calls without wait timeout on a held name; the point is the number of requests issued when the signal is sent; at some points a churn of TryLock/Unlock requests is in flight too. " +
		"A case is (signal, config, point, waiters in flight, churn, shape of the acknowledged hold set H by owner transport and lease); non-trivial when H is not empty or a waiter is in flight"
	// both disconnect policies in every tier: the closers end every session, and what a session end does
	// depends on the policy
	cfgs := []c11cfg{{"default", true, nil}, {"no-clear-on-disconnect", true, []string{"--no_clear_on_disconnect"}}}
	K, workloads := 3, 1
	if common.Thorough() {
		K = 10
		cfgs = append(cfgs,
			c11cfg{"one-shard", true, []string{"--shards", "1"}},
			c11cfg{"no-rest", false, nil},
			c11cfg{"fast-gc", true, []string{"--lock_gc_interval", "1s", "--lock_gc_min_idle", "0s"}})
		workloads = 3
	}
	const N = 12
	n := 0
	for _, sig := range []syscall.Signal{syscall.SIGINT, syscall.SIGTERM} {
		c11TimerCallbackInFlight(t, res, rng.Fork(uint64(1000+int(sig))), sig)
		c11RepeatedSignal(t, res, rng.Fork(uint64(2000+int(sig))), sig)
	}
	for _, cfg := range cfgs {
		for _, sig := range []syscall.Signal{syscall.SIGINT, syscall.SIGTERM} {
			for w := 0; w < workloads; w++ {
				r := rng.Fork(uint64(n))
				n++
				// points: one before the first waiter can exist, the end of the workload, the rest anywhere
				pts := map[int]bool{1 + r.Intn(3): true, N: true}
				for len(pts) < K {
					pts[1+r.Intn(N)] = true
				}
				points := []int{}
				for p := range pts {
					points = append(points, p)
				}
				sort.Ints(points)
				for i, p := range points {
					churn := i%3 == 1
					c11Scenario(t, res, r.Fork(uint64(p)), cfg, sig, p, N, churn)
				}
			}
		}
	}
}

// c11TimerCallbackInFlight: the signal arrives while a timer callback is running - the idle callback of a
// REST session (session timeout 1 s) that waits for the session's stalled request to finish. "Whatever
// requests are in flight" includes the one that keeps a callback busy: the closers must not wait for it.
func c11TimerCallbackInFlight(t *testing.T, res *common.Result, rng *common.Rng, sig syscall.Signal) {
	srv := startServer(t, srvCfg{rest: true, extra: []string{"--rest_session_timeout", "1s"}})
	if !srv.started {
		t.Fatalf("server did not start: %v", srv.logTail(40))
	}
	defer srv.kill()
	g1 := &grpcT{g: dialGrpc(t, srv.grpcAddr, nil)}
	defer g1.g.close()
	name := randName(rng, "cb")
	o := g1.tryLock(lockArgs{name: name})
	log := []string{fmt.Sprintf("g1 TryLock name=%s -> locked=%v key=%s", name, o.Flag, o.Key)}
	rc2 := newRestClient(srv.restAddr, nil)
	defer rc2.closeIdle()
	stalled := false
	if r := rc2.createSession(); r.Status == 201 {
		if u, err := url.Parse(rc2.base); err == nil && len(rc2.hc.Jar.Cookies(u)) > 0 {
			ck := rc2.hc.Jar.Cookies(u)[0]
			if conn, err := net.Dial("tcp", srv.restAddr); err == nil {
				defer conn.Close()
				body := `{"name":"stalled-request-lock-name-0123456789"}`
				fmt.Fprintf(conn, "POST /v1/lock HTTP/1.1\r\nHost: %s\r\nContent-Type: application/json\r\nContent-Length: %d\r\nCookie: %s=%s\r\n\r\n%s",
					srv.restAddr, len(body), ck.Name, ck.Value, body[:10])
				stalled = true
				log = append(log, "rest POST /session -> 201; POST /v1/lock: headers and 10 body bytes sent, the rest never arrives; 1.5 s pass (session timeout 1 s: its idle callback is now waiting for the request)")
				time.Sleep(1500 * time.Millisecond)
			}
		}
	}
	res.Count(fmt.Sprintf("idle-callback-in-flight:%v", stalled))
	res.Eval(fmt.Sprintf("%s|timer-callback-in-flight|stalled=%v", sigName(sig), stalled), stalled && o.Flag)
	replay := map[string]any{"server_flags": srv.args, "signal": sigName(sig), "requests_before_signal": log}
	res.Sample(replay)
	if err := srv.signal(sig); err != nil {
		t.Fatalf("cannot signal the server: %v", err)
	}
	code, signaled, ok := srv.waitExit(10 * time.Second)
	switch {
	case !ok:
		res.Count("exit:callback-in-flight:hang")
		replay["log_tail"] = srv.logTail(40)
		res.Find(common.Finding{Kind: "violation", Property: "C11", Signature: "stack:shutdown:hang:timer-callback-in-flight",
			What: fmt.Sprintf("the server is still running 10 s after %s sent while the idle callback of a REST session was waiting for that session's stalled request", sigName(sig)), Replay: replay})
		srv.kill()
		return
	case signaled:
		res.Count("exit:callback-in-flight:killed-by-signal")
	case code != 0:
		res.Count(fmt.Sprintf("exit:callback-in-flight:status-%d", code))
		replay["log_tail"] = srv.logTail(40)
		res.Find(common.Finding{Kind: "violation", Property: "C11", Signature: "stack:shutdown:exit-status:timer-callback-in-flight",
			What: fmt.Sprintf("the server exited with status %d after %s (idle callback of a REST session in flight), required 0", code, sigName(sig)), Replay: replay})
	default:
		res.Count("exit:callback-in-flight:status-0")
	}
	if srv.crashed() {
		replay["log_tail"] = srv.logTail(40)
		res.Find(common.Finding{Kind: "violation", Property: "C11", Signature: "stack:shutdown:panic:timer-callback-in-flight",
			What: "the server printed a panic / fatal error while shutting down with a timer callback in flight", Replay: replay})
	}
	if o.Flag {
		if st, _, err := readState(srv.state); err != nil || !containsHold(st, hold{name, o.Key, 1}) {
			replay["log_tail"] = srv.logTail(40)
			res.Find(common.Finding{Kind: "violation", Property: "C11", Signature: "stack:shutdown:holds-cleared:timer-callback-in-flight",
				What: fmt.Sprintf("after %s (idle callback of a REST session in flight) the state file lacks the gRPC hold %s/%s that was live at shutdown", sigName(sig), name, o.Key), Replay: replay})
		}
	}
}

// c11RepeatedSignal: the signal arrives more than once (a second Ctrl-C, a supervisor that signals the
// process group and the pid): the shutdown that the first one started still runs to its end - exit status 0,
// not "killed by signal", and the live holds stay in the state file.
func c11RepeatedSignal(t *testing.T, res *common.Result, rng *common.Rng, sig syscall.Signal) {
	srv := startServer(t, srvCfg{rest: true})
	if !srv.started {
		t.Fatalf("server did not start: %v", srv.logTail(40))
	}
	defer srv.kill()
	g1 := &grpcT{g: dialGrpc(t, srv.grpcAddr, nil)}
	defer g1.g.close()
	g2 := &grpcT{g: dialGrpc(t, srv.grpcAddr, nil)}
	defer g2.g.close()
	var held []hold
	log := []string{}
	for i := 0; i < 20; i++ {
		name := randName(rng, "rs")
		a := lockArgs{name: name}
		if i%2 == 0 {
			a.lockTO = i32(60)
		}
		if o := g1.tryLock(a); o.Flag {
			held = append(held, hold{name, o.Key, 1})
			log = append(log, fmt.Sprintf("g1 TryLock %s -> key=%s", a, o.Key))
		}
	}
	if len(held) > 0 {
		go func() {
			ctx, cancel := rpcCtx(30 * time.Second)
			defer cancel()
			g2.g.c.Lock(ctx, &pb.LockRequest{Name: held[0].Name})
		}()
		time.Sleep(100 * time.Millisecond)
		log = append(log, fmt.Sprintf("g2 Lock name=%s -> (blocked)", held[0].Name))
	}
	res.Eval(fmt.Sprintf("%s|repeated-signal|holds=%d", sigName(sig), len(held)), len(held) > 0)
	sent := 0
	tSig := time.Now()
	for time.Since(tSig) < 200*time.Millisecond {
		if srv.signal(sig) != nil {
			break
		}
		sent++
		time.Sleep(100 * time.Microsecond)
	}
	res.Count("repeated-signal:scenario")
	replay := map[string]any{"server_flags": srv.args, "signal": fmt.Sprintf("%s, repeated every 100 us until the process is gone (at most 200 ms): %d sent", sigName(sig), sent), "requests_before_signal": log}
	res.Sample(replay)
	code, signaled, ok := srv.waitExit(10 * time.Second)
	replay["log_tail"] = srv.logTail(40)
	switch {
	case !ok:
		res.Count("exit:repeated-signal:hang")
		res.Find(common.Finding{Kind: "violation", Property: "C11", Signature: "stack:shutdown:hang:repeated-signal", What: "the server is still running 10 s after " + sigName(sig) + " was sent repeatedly", Replay: replay})
		srv.kill()
		return
	case signaled:
		res.Count("exit:repeated-signal:killed-by-signal")
		res.Find(common.Finding{Kind: "violation", Property: "C11", Signature: "stack:shutdown:exit-status:repeated-signal",
			What: fmt.Sprintf("a further %s during the shutdown killed the server (terminated by the signal instead of exit status 0): the shutdown the first one started was cut short", sigName(sig)), Replay: replay})
	case code != 0:
		res.Count(fmt.Sprintf("exit:repeated-signal:status-%d", code))
		res.Find(common.Finding{Kind: "violation", Property: "C11", Signature: "stack:shutdown:exit-status:repeated-signal", What: fmt.Sprintf("the server exited with status %d after repeated %s, required 0", code, sigName(sig)), Replay: replay})
	default:
		res.Count("exit:repeated-signal:status-0")
	}
	if srv.crashed() {
		res.Find(common.Finding{Kind: "violation", Property: "C11", Signature: "stack:shutdown:panic:repeated-signal", What: "the server printed a panic / fatal error while shutting down on repeated " + sigName(sig), Replay: replay})
	}
	if st, _, err := readState(srv.state); err != nil {
		res.Find(common.Finding{Kind: "violation", Property: "C11", Signature: "stack:shutdown:holds-cleared:repeated-signal", What: "the state file left by the shutdown cannot be decoded: " + err.Error(), Replay: replay})
	} else {
		missing := 0
		for _, h := range held {
			if !containsHold(st, h) {
				missing++
			}
		}
		if missing > 0 {
			res.Find(common.Finding{Kind: "violation", Property: "C11", Signature: "stack:shutdown:holds-cleared:repeated-signal",
				What: fmt.Sprintf("after repeated %s the state file lacks %d of the %d holds that were live at shutdown", sigName(sig), missing, len(held)), Replay: replay})
		}
	}
}

func sigName(s syscall.Signal) string {
	if s == syscall.SIGINT {
		return "SIGINT"
	}
	return "SIGTERM"
}

func c11Scenario(t *testing.T, res *common.Result, rng *common.Rng, cfg c11cfg, sig syscall.Signal, point, N int, churn bool) {
	srv := startServer(t, srvCfg{rest: cfg.rest, extra: cfg.extra})
	if !srv.started {
		t.Fatalf("server did not start: %v", srv.logTail(40))
	}
	defer srv.kill()
	g := map[string]*grpcT{"g1": {g: dialGrpc(t, srv.grpcAddr, nil)}, "g2": {g: dialGrpc(t, srv.grpcAddr, nil)}}
	defer g["g1"].g.close()
	defer g["g2"].g.close()
	cl := map[string]transport{"g1": g["g1"], "g2": g["g2"]}
	owners := []string{"g1", "g2"}
	var rc *restClient
	if cfg.rest {
		rc = newRestClient(srv.restAddr, nil)
		defer rc.closeIdle()
		if r := rc.createSession(); r.Status != 201 {
			t.Fatalf("cannot create a REST session: %+v", r)
		}
		cl["rest"] = &restT{c: rc}
		owners = append(owners, "rest")
	}

	var (
		log     []string
		H       []c11hold
		waiters []chan waiterResult
		wDesc   []string
	)
	logf := func(f string, a ...any) { log = append(log, fmt.Sprintf(f, a...)) }
	sizes := map[string]int32{}
	pool := []string{}
	for i := 0; i < 3; i++ {
		nm := randName(rng, "p")
		pool = append(pool, nm)
		sizes[nm] = 1
	}
	two := randName(rng, "q")
	pool = append(pool, two)
	sizes[two] = 2

	acquire := func(owner, name string, lease int32, useLock bool) {
		T := cl[owner]
		a := lockArgs{name: name, size: i32(sizes[name])}
		if lease > 0 {
			a.lockTO = i32(lease)
		}
		var o obs
		if useLock && T.canLock() {
			a.waitTO = i32(1)
			o = T.lock(a)
		} else {
			o = T.tryLock(a)
		}
		logf("%s %s %s -> locked=%v key=%s err=%s%s", owner, o.Rpc, a, o.Flag, o.Key, codeOrNone(o), o.TransportErr)
		if o.Flag && !o.HasErr {
			H = append(H, c11hold{hold: hold{name, o.Key, sizes[name]}, Owner: owner, Lease: lease})
		}
	}
	startWaiter := func(owner string, target *c11hold) {
		target.waited = true
		ch := make(chan waiterResult, 1)
		waiters = append(waiters, ch)
		// half of the waiters carry a (long) wait timeout and a lock timeout: a different path in LockServer.Lock
		var wt, lt *int32
		wtDesc := "no wait timeout"
		if len(waiters)%2 == 1 || rng.Chance(50) {
			wt, lt, wtDesc = i32(600), i32(30), "wait timeout 600 s, lock timeout 30 s"
		}
		res.Count("waiter-kind:" + strings.SplitN(wtDesc, ",", 2)[0])
		wDesc = append(wDesc, fmt.Sprintf("%s Lock name=%s (held by %s, %s)", owner, target.Name, target.Owner, wtDesc))
		logf("%s Lock name=%s size=1 %s -> (blocked: held by %s)", owner, target.Name, wtDesc, target.Owner)
		c := g[owner].g.c
		go func() {
			ctx, cancel := rpcCtx(60 * time.Second)
			defer cancel()
			r, err := c.Lock(ctx, &pb.LockRequest{Name: target.Name, Size: i32(1), WaitTimeoutSeconds: wt, LockTimeoutSeconds: lt})
			ch <- waiterResult{r, err}
		}()
		time.Sleep(100 * time.Millisecond) // let the request reach the server and block
	}

	for i := 0; i < point; i++ {
		var heldOne []int // size-1 holds
		var free []int    // own holds nobody waits on
		for j, h := range H {
			if h.Size == 1 {
				heldOne = append(heldOne, j)
			}
			if !h.waited {
				free = append(free, j)
			}
		}
		switch {
		case i == 0:
			acquire(common.Pick(rng, []string{"g1", "g2"}), pool[0], common.Pick(rng, []int32{0, 60}), rng.Chance(50))
		case i == 1:
			acquire(owners[len(owners)-1], pool[1], common.Pick(rng, []int32{0, 60}), false)
		case len(heldOne) > 0 && len(waiters) < 2 && (i == 3 && len(waiters) == 0 || rng.Chance(15)):
			startWaiter(common.Pick(rng, []string{"g1", "g2"}), &H[common.Pick(rng, heldOne)])
		case len(free) > 2 && rng.Chance(20):
			j := common.Pick(rng, free)
			h := H[j]
			o := cl[h.Owner].unlock(h.Name, h.Key)
			logf("%s Unlock name=%s key=%s -> unlocked=%v err=%s%s", h.Owner, h.Name, h.Key, o.Flag, codeOrNone(o), o.TransportErr)
			H = append(H[:j], H[j+1:]...)
		default:
			name := common.Pick(rng, pool)
			if rng.Chance(40) {
				name = randName(rng, "f")
				sizes[name] = 1
			}
			acquire(common.Pick(rng, owners), name, common.Pick(rng, []int32{0, 60}), rng.Chance(30))
		}
	}

	// churn: plain requests in flight while the signal arrives (their holds are not part of H)
	var churnWG sync.WaitGroup
	var churnStop atomic.Bool
	var churnOps atomic.Int64
	if churn {
		churners := []transport{&grpcT{g: g["g2"].g}}
		if cfg.rest {
			churners = append(churners, cl["rest"])
		}
		for ci, T := range churners {
			churnWG.Add(1)
			name := fmt.Sprintf("churn-%d-%s", ci, randName(rng, "c"))
			go func(T transport) {
				defer churnWG.Done()
				for !churnStop.Load() {
					o := T.tryLock(lockArgs{name: name})
					churnOps.Add(1)
					if o.TransportErr != "" {
						return
					}
					if o.Flag {
						if u := T.unlock(name, o.Key); u.TransportErr != "" {
							return
						}
					}
				}
			}(T)
		}
		time.Sleep(50 * time.Millisecond)
	}

	// admin connections opened before the signal keep sending list requests while the closers run: a
	// request on an accepted IPC connection is "in flight at shutdown" like any other
	for i := 0; i < 2; i++ {
		if c, err := rpc.DialHTTP("unix", srv.sock); err == nil {
			defer c.Close()
			go func() {
				for {
					var ls ipc.ListLocksResponse
					if c.Call("IPC.ListLocks", ipc.ListLocksRequest{}, &ls) != nil {
						return
					}
				}
			}()
			res.Count("ipc-list-requests-in-flight")
		}
	}

	// a gRPC client that has opened a call and not finished it (headers sent, no message): in flight for
	// as long as the peer likes; the server's shutdown must not wait for it
	stalledStream := false
	if point%2 == 1 || point == N {
		if sc, err := openStalledGrpcStream(srv.grpcAddr); err == nil {
			defer sc.Close()
			stalledStream = true
			time.Sleep(50 * time.Millisecond)
			logf("grpc(third connection) TryLock: HEADERS sent, no message, stream left open")
		}
	}
	res.Count(fmt.Sprintf("stalled-grpc-stream-in-flight:%v", stalledStream))

	// a slow REST client: a request of a session of its own whose headers have arrived and whose body is
	// only partly sent when the signal comes (in flight in the strictest sense: the handler is reading it)
	stalledReq := false
	if cfg.rest && (point%2 == 0 || point == N) {
		rc2 := newRestClient(srv.restAddr, nil)
		defer rc2.closeIdle()
		if r := rc2.createSession(); r.Status == 201 {
			if u, err := url.Parse(rc2.base); err == nil && len(rc2.hc.Jar.Cookies(u)) > 0 {
				ck := rc2.hc.Jar.Cookies(u)[0]
				if conn, err := net.Dial("tcp", srv.restAddr); err == nil {
					defer conn.Close()
					body := `{"name":"stalled-request-lock-name-0123456789"}`
					fmt.Fprintf(conn, "POST /v1/lock HTTP/1.1\r\nHost: %s\r\nContent-Type: application/json\r\nContent-Length: %d\r\nCookie: %s=%s\r\n\r\n%s",
						srv.restAddr, len(body), ck.Name, ck.Value, body[:10])
					time.Sleep(100 * time.Millisecond)
					stalledReq = true
					logf("rest(second session) POST /v1/lock: headers and 10 of %d body bytes sent, the rest never arrives", len(body))
				}
			}
		}
	}
	res.Count(fmt.Sprintf("stalled-rest-request-in-flight:%v", stalledReq))

	// ---- the case
	shape := map[string]int{}
	for _, h := range H {
		ok := "grpc"
		if h.Owner == "rest" {
			ok = "rest"
		}
		shape[fmt.Sprintf("%s-%s-size%d", ok, leaseClass(h.Lease), h.Size)]++
	}
	shapeS := []string{}
	for _, key := range common.SortedKeys(shape) {
		shapeS = append(shapeS, fmt.Sprintf("%s=%d", key, shape[key]))
		res.CountN("H:"+key, shape[key])
	}
	res.Eval(fmt.Sprintf("%s|%s|point=%d/%d|waiters=%d|churn=%v|H:%s", sigName(sig), cfg.name, point, N, len(waiters), churn, strings.Join(shapeS, ",")),
		len(H) > 0 || len(waiters) > 0)
	res.Count("signal:" + sigName(sig))
	res.Count("config:" + cfg.name)
	res.Count(fmt.Sprintf("point:%02d", point))
	res.Count(fmt.Sprintf("waiters-in-flight:%d", len(waiters)))
	res.Count(fmt.Sprintf("churn:%v", churn))
	Hs := []string{}
	for _, h := range H {
		Hs = append(Hs, fmt.Sprintf("%s owner=%s lease=%d", h.hold, h.Owner, h.Lease))
	}
	replay := func(extra map[string]any) map[string]any {
		m := map[string]any{"server_flags": srv.args, "signal": sigName(sig), "requests_before_signal": append([]string{}, log...),
			"blocked_waiters": wDesc, "churn": churn, "acknowledged_holds_H": Hs}
		for key, v := range extra {
			m[key] = v
		}
		return m
	}
	res.Sample(replay(nil))
	find := func(sigSuffix, what string, extra map[string]any) {
		res.Find(common.Finding{Kind: "violation", Property: "C11", Signature: "stack:shutdown:" + sigSuffix, What: what, Replay: replay(extra)})
	}

	// ---- signal and exit
	tSig := time.Now()
	if err := srv.signal(sig); err != nil {
		t.Fatalf("cannot signal the server: %v", err)
	}
	checkExit := func(p *proc, stage string, sent syscall.Signal) bool {
		code, signaled, ok := p.waitExit(10 * time.Second)
		switch {
		case !ok:
			res.Count("exit:" + stage + ":hang")
			find("hang", fmt.Sprintf("the server (%s) is still running 10 s after %s", stage, sigName(sent)), map[string]any{"log_tail": p.logTail(40)})
			p.kill()
			return false
		case signaled:
			res.Count("exit:" + stage + ":killed-by-signal")
			res.Note("C11: server (%s) was killed by a signal it cannot have raised itself; not judged", stage)
		case code != 0:
			res.Count(fmt.Sprintf("exit:%s:status-%d", stage, code))
			find("exit-status", fmt.Sprintf("the server (%s) exited with status %d after %s, required 0", stage, code, sigName(sent)), map[string]any{"log_tail": p.logTail(40)})
		default:
			res.Count("exit:" + stage + ":status-0")
		}
		if p.crashed() {
			find("panic", fmt.Sprintf("the server (%s) printed a panic / fatal error while shutting down on %s", stage, sigName(sent)), map[string]any{"log_tail": p.logTail(40)})
		}
		return true
	}
	exited := checkExit(srv, "loaded", sig)

	// ---- blocked callers
	for i, ch := range waiters {
		select {
		case wr := <-ch:
			switch {
			case wr.err == nil && wr.resp.Locked:
				res.Count("waiter:got-a-hold")
				find("waiter-got-lock", "a Lock call blocked at shutdown returned locked=true (a hold handed out by a server that is going down)",
					map[string]any{"waiter": wDesc[i], "response": fmt.Sprintf("locked=%v key=%s error=%v", wr.resp.Locked, wr.resp.Key, wr.resp.Error)})
			case wr.err != nil:
				res.Count("waiter:transport-error")
			default:
				res.Count("waiter:locked-false")
			}
		case <-time.After(time.Until(tSig.Add(10 * time.Second))):
			res.Count("waiter:hung")
			find("waiter-hung", "a Lock call blocked at shutdown has not returned 10 s after the signal", map[string]any{"waiter": wDesc[i]})
		}
	}
	churnStop.Store(true)
	if churn {
		done := make(chan struct{})
		go func() { churnWG.Wait(); close(done) }()
		select {
		case <-done:
			res.CountN("churn:requests", int(churnOps.Load()))
		case <-time.After(10 * time.Second):
			find("request-hung", "a TryLock/Unlock request in flight at shutdown has not returned 10 s after the server went away", nil)
		}
	}
	if !exited {
		return
	}

	// ---- the state file after exit
	st, _, err := readState(srv.state)
	if err != nil {
		find("holds-cleared", "the state file left by the shutdown cannot be decoded: "+err.Error(), map[string]any{"log_tail": srv.logTail(40)})
	} else {
		var missing []string
		for _, h := range H {
			if !containsHold(st, h.hold) {
				missing = append(missing, fmt.Sprintf("%s owner=%s lease=%d", h.hold, h.Owner, h.Lease))
				res.Count("state-file:missing:" + map[bool]string{true: "rest", false: "grpc"}[h.Owner == "rest"])
			} else {
				res.Count("state-file:kept:" + map[bool]string{true: "rest", false: "grpc"}[h.Owner == "rest"])
			}
		}
		res.Count(fmt.Sprintf("state-file:scenarios-with-missing-holds=%v", len(missing) > 0))
		if len(missing) > 0 {
			find("holds-cleared", fmt.Sprintf("after %s the state file lacks %d of the %d holds that were live at shutdown (all of them must stay)", sigName(sig), len(missing), len(H)),
				map[string]any{"missing": missing, "state_file": holdStrings(st), "log_tail": srv.logTail(40)})
		}
	}

	// ---- the next start restores them
	srv2 := startServer(t, srvCfg{rest: cfg.rest, extra: cfg.extra, dir: srv.dir, state: srv.state})
	defer srv2.kill()
	if !srv2.started {
		find("not-restored", "the next start on the state file left by the shutdown fails", map[string]any{"restart_flags": srv2.args, "log_tail": srv2.logTail(40)})
		return
	}
	listed, raw, ok := adminList(srv2.sock)
	var missing []string
	for _, h := range H {
		if !ok || !containsHold(listed, h.hold) {
			missing = append(missing, fmt.Sprintf("%s owner=%s lease=%d", h.hold, h.Owner, h.Lease))
		}
	}
	if len(missing) > 0 {
		find("not-restored", fmt.Sprintf("after restart `ldlm-lock list` lacks %d of the %d holds that were live at shutdown", len(missing), len(H)),
			map[string]any{"missing": missing, "list": raw})
	}
	probe := &grpcT{g: dialGrpc(t, srv2.grpcAddr, nil)}
	defer probe.g.close()
	for _, h := range H {
		if h.Size != 1 || !containsHold(listed, h.hold) {
			continue
		}
		o := probe.tryLock(lockArgs{name: h.Name})
		res.Count("restart:trylock-probe")
		if o.Flag {
			find("not-restored", "after restart a restored size-1 hold is listed but a TryLock of its name is granted", map[string]any{"hold": h.String(), "response": o})
			probe.unlock(h.Name, o.Key)
		}
	}
	probe.g.close()
	srv2.signal(syscall.SIGTERM)
	checkExit(srv2, "restarted", syscall.SIGTERM)
}
