import Ldlm.Model.Codec
/-! Safety of the guarded decoder and its agreement with the real one.

`Safe L x`   : running `x` never panics and never raises the peak allocation above `max p (48·L)`.
`Agree x y`  : whenever the strict computation `y` does not end in `.err .guard`, the real
               computation `x` returns exactly the same result and peak. -/
namespace Ldlm.Codec

def Res.isPanic {α} : Res α → Bool
  | .panic _ => true
  | _ => false

def Safe {α} (L : Nat) (x : Out α) : Prop :=
  ∀ p, (x p).1.isPanic = false ∧ (x p).2 ≤ max p (48 * L)

theorem Safe.ok {α} (L : Nat) (a : α) : Safe L (Out.ok a) := fun p => ⟨rfl, by simp [Out.ok]; omega⟩
theorem Safe.err {α} (L : Nat) (e : DErr) : Safe L (Out.err e : Out α) := fun p => ⟨rfl, by simp [Out.err]; omega⟩
theorem Safe.request (L n : Nat) (h : n ≤ 48 * L) : Safe L (Out.request n) :=
  fun p => ⟨rfl, by simp [Out.request]; omega⟩

theorem Safe.bind {α β} {L : Nat} {x : Out α} {f : α → Out β}
    (hx : Safe L x) (hf : ∀ a, Safe L (f a)) : Safe L (x >>= f) := by
  intro p
  show (Out.bind x f p).1.isPanic = false ∧ (Out.bind x f p).2 ≤ _
  unfold Out.bind
  have h := hx p
  match hxp : x p with
  | (.ok a, p') =>
    rw [hxp] at h
    have h2 := hf a p'
    simp only at h ⊢
    exact ⟨h2.1, by omega⟩
  | (.err e, p') => rw [hxp] at h; exact ⟨rfl, h.2⟩
  | (.panic w, p') => rw [hxp] at h; simp [Res.isPanic] at h

theorem safe_decUvarintAux (L : Nat) : ∀ (f i x m : Nat) (bs : Bytes) (pos : Nat),
    Safe L (decUvarintAux f i x m bs pos) := by
  intro f
  induction f with
  | zero => intro i x m bs pos; exact Safe.err L _
  | succ f ih =>
    intro i x m bs pos
    cases bs with
    | nil => exact Safe.err L _
    | cons b bs =>
      unfold decUvarintAux
      split
      · exact Safe.err L _
      · split
        · split
          · exact Safe.err L _
          · exact Safe.ok L _
        · exact ih _ _ _ _ _

theorem safe_decUvarint (L n : Nat) (b : Bytes) : Safe L (decUvarint true n b) := by
  unfold decUvarint
  split
  · exact Safe.err L _
  · exact safe_decUvarintAux L _ _ _ _ _ _

theorem safe_decString (L n : Nat) (b : Bytes) : Safe L (decString true n b) := by
  unfold decString
  refine Safe.bind (safe_decUvarint L n b) ?_
  intro ⟨n', us⟩
  simp only
  split
  · exact Safe.err L _
  · split
    · exact Safe.err L _
    · exact Safe.ok L _

theorem safe_decInt32 (L n : Nat) (b : Bytes) : Safe L (decInt32 n b) := by
  unfold decInt32
  split
  · exact Safe.err L _
  · split
    · exact Safe.err L _
    · split
      · exact Safe.ok L _
      · exact Safe.err L _

theorem safe_decHold (L n : Nat) (b : Bytes) : Safe L (decHold true n b) := by
  unfold decHold
  refine Safe.bind (safe_decString L n b) ?_
  intro ⟨n1, name⟩
  refine Safe.bind (safe_decString L n1 b) ?_
  intro ⟨n2, key⟩
  refine Safe.bind (safe_decInt32 L n2 b) ?_
  intro ⟨n3, size⟩
  exact Safe.ok L _

theorem safe_decHolds (L : Nat) (b : Bytes) : ∀ (c n : Nat), Safe L (decHolds true c n b) := by
  intro c
  induction c with
  | zero => intro n; exact Safe.ok L _
  | succ c ih =>
    intro n
    unfold decHolds
    refine Safe.bind (safe_decHold L n b) ?_
    intro ⟨n1, h⟩
    refine Safe.bind (ih n1) ?_
    intro ⟨n2, hs⟩
    exact Safe.ok L _

theorem safe_decSlice (n : Nat) (b : Bytes) : Safe b.length (decSlice true n b) := by
  unfold decSlice
  refine Safe.bind (safe_decUvarint _ n b) ?_
  intro ⟨n1, us⟩
  simp only
  split
  · exact Safe.err _ _
  · split
    · exact Safe.err _ _
    · rename_i h1 h2
      have hle : us ≤ b.length := by
        simp only [true_and, Nat.not_lt] at h2
        omega
      refine Safe.bind (Safe.request _ _ (by unfold holdBytes; omega)) ?_
      intro _
      refine Safe.bind (safe_decHolds _ b us n1) ?_
      intro ⟨n2, hs⟩
      exact Safe.ok _ _

theorem safe_decEntries (b : Bytes) : ∀ (c n : Nat), Safe b.length (decEntries true c n b) := by
  intro c
  induction c with
  | zero => intro n; exact Safe.ok _ _
  | succ c ih =>
    intro n
    unfold decEntries
    refine Safe.bind (safe_decString _ n b) ?_
    intro ⟨n1, k⟩
    refine Safe.bind (safe_decSlice n1 b) ?_
    intro ⟨n2, v⟩
    refine Safe.bind (ih n2) ?_
    intro ⟨n3, rest⟩
    exact Safe.ok _ _

theorem safe_decMap (b : Bytes) : Safe b.length (decMap true b) := by
  unfold decMap
  refine Safe.bind (safe_decUvarint _ 0 b) ?_
  intro ⟨n1, us⟩
  simp only
  by_cases h2 : (if us ≥ two63 then 0 else us) > b.length
  · simp only [h2, and_true, if_true]
    exact Safe.err _ _
  · simp only [h2, and_false, if_false]
    refine Safe.bind (Safe.request _ _ (by unfold mapEntryBytes; omega)) ?_
    intro _
    refine Safe.bind (safe_decEntries b _ n1) ?_
    intro ⟨n2, es⟩
    simp only
    split
    · exact Safe.err _ _
    · exact Safe.ok _ _

/-! ### agreement -/

def Res.isGuard {α} : Res α → Bool
  | .err .guard => true
  | _ => false

def Agree {α} (x y : Out α) : Prop := ∀ p, (y p).1.isGuard = false → x p = y p

theorem Agree.refl {α} (x : Out α) : Agree x x := fun _ _ => rfl

theorem Agree.bind {α β} {x y : Out α} {f g : α → Out β}
    (hxy : Agree x y) (hfg : ∀ a, Agree (f a) (g a)) : Agree (x >>= f) (y >>= g) := by
  intro p hng
  show Out.bind x f p = Out.bind y g p
  change (Out.bind y g p).1.isGuard = false at hng
  unfold Out.bind at hng ⊢
  match hyp : y p with
  | (.ok a, p') =>
    rw [hyp] at hng
    have : x p = y p := hxy p (by rw [hyp]; rfl)
    rw [this, hyp]
    exact hfg a p' hng
  | (.err e, p') =>
    rw [hyp] at hng
    simp only at hng
    have : x p = y p := hxy p (by rw [hyp]; cases e <;> simp_all [Res.isGuard])
    rw [this, hyp]
  | (.panic w, p') =>
    have : x p = y p := hxy p (by rw [hyp]; rfl)
    rw [this, hyp]

theorem Agree.guard {α} (x : Out α) : Agree x (Out.err .guard) := by
  intro p h; simp [Out.err, Res.isGuard] at h

theorem agree_decUvarint (n : Nat) (b : Bytes) : Agree (decUvarint false n b) (decUvarint true n b) := by
  unfold decUvarint
  split
  · exact Agree.guard _
  · exact Agree.refl _

theorem agree_decString (n : Nat) (b : Bytes) : Agree (decString false n b) (decString true n b) := by
  unfold decString
  refine Agree.bind (agree_decUvarint n b) ?_
  intro ⟨n1, us⟩
  simp only
  split
  · exact Agree.guard _
  · exact Agree.refl _

theorem agree_decHold (n : Nat) (b : Bytes) : Agree (decHold false n b) (decHold true n b) := by
  unfold decHold
  refine Agree.bind (agree_decString n b) ?_
  intro ⟨n1, name⟩
  refine Agree.bind (agree_decString n1 b) ?_
  intro ⟨n2, key⟩
  exact Agree.refl _

theorem agree_decHolds (b : Bytes) : ∀ (c n : Nat), Agree (decHolds false c n b) (decHolds true c n b) := by
  intro c
  induction c with
  | zero => intro n; exact Agree.refl _
  | succ c ih =>
    intro n
    unfold decHolds
    refine Agree.bind (agree_decHold n b) ?_
    intro ⟨n1, h⟩
    refine Agree.bind (ih n1) ?_
    intro ⟨n2, hs⟩
    exact Agree.refl _

theorem agree_decSlice (n : Nat) (b : Bytes) : Agree (decSlice false n b) (decSlice true n b) := by
  unfold decSlice
  refine Agree.bind (agree_decUvarint n b) ?_
  intro ⟨n1, us⟩
  simp only
  split
  · exact Agree.guard _
  · by_cases h2 : us > b.length - n1
    · simp only [h2, and_true, if_true, Bool.false_eq_true, if_false]
      exact Agree.guard _
    · simp only [h2, and_false, if_false]
      refine Agree.bind (Agree.refl _) ?_
      intro _
      refine Agree.bind (agree_decHolds b us n1) ?_
      intro ⟨n2, hs⟩
      exact Agree.refl _

theorem agree_decEntries (b : Bytes) : ∀ (c n : Nat), Agree (decEntries false c n b) (decEntries true c n b) := by
  intro c
  induction c with
  | zero => intro n; exact Agree.refl _
  | succ c ih =>
    intro n
    unfold decEntries
    refine Agree.bind (agree_decString n b) ?_
    intro ⟨n1, k⟩
    refine Agree.bind (agree_decSlice n1 b) ?_
    intro ⟨n2, v⟩
    refine Agree.bind (ih n2) ?_
    intro ⟨n3, rest⟩
    exact Agree.refl _

theorem agree_decMap (b : Bytes) : Agree (decMap false b) (decMap true b) := by
  unfold decMap
  refine Agree.bind (agree_decUvarint 0 b) ?_
  intro ⟨n1, us⟩
  simp only
  by_cases h2 : (if us ≥ two63 then 0 else us) > b.length
  · simp only [h2, and_true, if_true, Bool.false_eq_true, if_false]
    exact Agree.guard _
  · simp only [h2, and_false, if_false]
    refine Agree.bind (Agree.refl _) ?_
    intro _
    refine Agree.bind (agree_decEntries b _ n1) ?_
    intro ⟨n2, es⟩
    exact Agree.refl _

end Ldlm.Codec
