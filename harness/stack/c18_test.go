// C18: the admin tool (`ldlm-lock list|unlock` over the IPC socket) against the live server after
// random histories of grants, unlocks and lease expiries from gRPC and REST clients.
package stack

import (
	"net/rpc"
	"regexp"

	"fmt"
	cl "github.com/imoore76/ldlm/server/clientlock"
	"github.com/imoore76/ldlm/server/ipc"
	"github.com/imoore76/ldlm/server/session/store"
	"os"
	"os/exec"
	"path/filepath"
	"sort"
	"strings"
	"syscall"
	"testing"
	"time"

	"verif/harness/common"
)

// A hold the history knows about, with what the client can know about its lease.
type trackedHold struct {
	hold
	Owner    string    `json:"owner"`     // g1 | g2 | rest
	Lease    int32     `json:"lease_sec"` // 0 = none
	sent     time.Time // request sent
	received time.Time // grant received
}

const leaseMargin = 500 * time.Millisecond

// liveness of a tracked hold at time now: "live", "gone", or "uncertain" (deadline within the margin)
func (h trackedHold) liveness(now time.Time) string {
	if h.Lease == 0 {
		return "live"
	}
	d := time.Duration(h.Lease) * time.Second
	switch {
	case now.Before(h.sent.Add(d - leaseMargin)):
		return "live"
	case now.After(h.received.Add(d + leaseMargin)):
		return "gone"
	}
	return "uncertain"
}

type c18run struct {
	t       *testing.T
	res     *common.Result
	srv     *proc
	cl      map[string]transport
	holds   []trackedHold
	history []string
	sizes   map[string]int32
}

func (k *c18run) logf(format string, a ...any) {
	k.history = append(k.history, fmt.Sprintf(format, a...))
}

func (k *c18run) drop(name, key string) {
	for i, h := range k.holds {
		if h.Name == name && h.Key == key {
			k.holds = append(k.holds[:i], k.holds[i+1:]...)
			return
		}
	}
}

// expected splits the tracked holds by liveness now.
func (k *c18run) expected() (live, uncertain []trackedHold) {
	now := time.Now()
	kept := k.holds[:0]
	for _, h := range k.holds {
		switch h.liveness(now) {
		case "live":
			live = append(live, h)
			kept = append(kept, h)
		case "uncertain":
			uncertain = append(uncertain, h)
			kept = append(kept, h)
		}
	}
	k.holds = kept
	return
}

func (k *c18run) replay(extra map[string]any) map[string]any {
	m := map[string]any{"server_flags": k.srv.args, "history": append([]string{}, k.history...)}
	for key, v := range extra {
		m[key] = v
	}
	return m
}

// checkList compares `ldlm-lock list` with the holds that must be live; holds whose lease deadline
// is within the margin are not asserted either way.
func (k *c18run) checkList(stage string) (listed []hold, ok bool) {
	live, uncertain := k.expected()
	listed, raw, parsed := adminList(k.srv.sock)
	want := []hold{}
	for _, h := range live {
		want = append(want, h.hold)
	}
	shape := []string{}
	for _, h := range live {
		shape = append(shape, fmt.Sprintf("%s:%d:%s:%s", strings.SplitN(h.Name, "-", 2)[0], h.Size, h.Owner[:1], leaseClass(h.Lease)))
	}
	sort.Strings(shape)
	k.res.Eval("list|"+strings.Join(shape, ","), len(live) > 0)
	k.res.Count("list-check:" + stage)
	k.res.Count(fmt.Sprintf("list-check:live-holds=%d", len(live)))
	if len(uncertain) > 0 {
		k.res.Count("list-check:with-unasserted-near-deadline-holds")
	}
	var missing, extra []string
	if parsed {
		for _, h := range want {
			if !containsHold(listed, h) {
				missing = append(missing, h.String())
			}
		}
		for _, h := range listed {
			if containsHold(want, h) {
				continue
			}
			unc := false
			for _, u := range uncertain {
				if u.hold == h {
					unc = true
				}
			}
			if !unc {
				extra = append(extra, h.String())
			}
		}
	}
	if !parsed || len(missing) > 0 || len(extra) > 0 {
		what := fmt.Sprintf("`ldlm-lock list` (%s) does not show exactly the live holds: missing %v, unexpected %v", stage, missing, extra)
		if !parsed {
			what = fmt.Sprintf("`ldlm-lock list` (%s) failed or printed unparsable output (exit %d)", stage, raw.Code)
		}
		k.res.Find(common.Finding{Kind: "violation", Property: "C18", Signature: "stack:ipc:list-mismatch", What: what,
			Replay: k.replay(map[string]any{"expected_live": holdStrings(want), "list": raw, "log_tail": k.srv.logTail(40)})})
		return listed, false
	}
	return listed, true
}

func leaseClass(l int32) string {
	switch {
	case l == 0:
		return "nolease"
	case l <= 2:
		return "short"
	}
	return "long"
}

func runC18(t *testing.T, res *common.Result, rng *common.Rng) {
	res.Rule = "seeded random histories (20-40 requests: TryLock / Lock(wait 1 s) / Unlock, no lease or 1 s / 2 s / 60 s leases, from 2 gRPC connections and 1 REST session over 3-4 names of size 1-2) " +
		"against the real server binary (quick: 4 histories; thorough: 60, rotating over default / --shards 1 / --no_clear_on_disconnect); `ldlm-lock list` is compared with the client-side expectation at checkpoints and at the end (holds within 0.5 s of their lease deadline are not asserted), " +
		"then every listed hold is released with `ldlm-lock unlock`, alternating name only / name+key (name only just when it is the sole hold of the name), each followed by list, a TryLock probe, a Renew probe and the decoded state file; " +
		"finally unlock of absent names and of a present name with a wrong key. A case is a list comparison (canonical: multiset of name-slot:size:owner:lease-class; non-trivial when >= 1 hold is live) " +
		"or an unlock attempt (mode, owner transport, lease class, size, number of live holds of the name; always non-trivial)"
	histories := 4
	cfgs := [][]string{nil}
	if common.Thorough() {
		histories = 60
		cfgs = append(cfgs, []string{"--shards", "1"}, []string{"--no_clear_on_disconnect"})
	}
	for h := 0; h < histories; h++ {
		c18History(t, res, rng.Fork(uint64(h)), h, cfgs[h%len(cfgs)])
	}
	c18DuringStartup(t, res)
	c18AwkwardNames(t, res, rng.Fork(777))
}

// c18AwkwardNames: "given a name alone, or a name and key" - for every name a client can lock, including names
// the shell or the tool's own option parser could take for something else: beginning with a dash (they are
// passed after the end-of-options marker "--", the only way to pass them), containing spaces, equal to a
// command word. Each is locked over gRPC, listed, unlocked through the tool, and must be gone afterwards.
func c18AwkwardNames(t *testing.T, res *common.Result, rng *common.Rng) {
	srv := startServer(t, srvCfg{})
	if !srv.started {
		t.Fatalf("server did not start: %v", srv.logTail(40))
	}
	defer srv.kill()
	g := &grpcT{g: dialGrpc(t, srv.grpcAddr, nil)}
	defer g.g.close()
	sfx := randName(rng, "")
	for i, base := range []string{"-batch", "--nightly", "-s", "unlock", "list", "two words", "--", "-"} {
		for _, withKey := range []bool{false, true} {
			name := base
			if base != "--" && base != "-" {
				name = base + sfx
			}
			o := g.tryLock(lockArgs{name: name, lockTO: i32(60)})
			if !o.Flag {
				res.Note("C18 awkward names: TryLock(%q) over gRPC was not granted (%+v); skipped", name, o)
				continue
			}
			args := []string{"unlock", "--", name}
			if withKey {
				args = append(args, o.Key)
			}
			out := runAdmin(srv.sock, args...)
			res.Count("awkward-name-unlock")
			res.Eval(fmt.Sprintf("c18awkward|%d|key=%v", i, withKey), true)
			listed, _, ok := adminList(srv.sock)
			still := !ok
			for _, h := range listed {
				still = still || h.Name == name && h.Key == o.Key
			}
			probe := g.tryLock(lockArgs{name: name})
			if probe.Flag {
				g.unlock(name, probe.Key)
			}
			if still || !probe.Flag {
				res.Find(common.Finding{Kind: "violation", Property: "C18", Signature: "stack:ipc:unlock:awkward-name",
					What: fmt.Sprintf("`ldlm-lock %s` on the live hold %q (key %s) printed %q (exit %d); afterwards the hold is still listed: %v, a TryLock of the name is granted: %v - the unlock command releases the hold it names, whatever the name looks like",
						strings.Join(args, " "), name, o.Key, strings.TrimSpace(out.Stdout+" "+out.Stderr), out.Code, still, probe.Flag),
					Replay: map[string]any{"server_flags": srv.args, "steps": []string{fmt.Sprintf("grpc TryLock name=%q lock_timeout=60 -> key=%s", name, o.Key), "ldlm-lock --socket <sock> " + strings.Join(args, " "), "ldlm-lock list", fmt.Sprintf("grpc TryLock name=%q -> locked=%v", name, probe.Flag)}}})
				g.unlock(name, o.Key)
			}
		}
	}
}

// c18DuringStartup: the admin socket is part of "a running server" from the moment it accepts
// requests. A server restoring a large state file is asked to list and to unlock as early as its
// socket answers: what it lists it must be able to unlock, and what it reports unlocked must stay gone.
func c18DuringStartup(t *testing.T, res *common.Result) {
	const N = 100000
	dir := newInstanceDir(t)
	state, sock := filepath.Join(dir, "state.bin"), filepath.Join(dir, "early.sock")
	m := map[string][]cl.Lock{}
	for i := 0; i < N; i++ {
		sid := fmt.Sprintf("old-session-%d", i%50)
		m[sid] = append(m[sid], cl.New(fmt.Sprintf("boot-%06d", i), fmt.Sprintf("key-%06d", i), 1))
	}
	st, err := store.New(state)
	if err != nil {
		t.Fatal(err)
	}
	if err := st.Write(m); err != nil {
		t.Fatal(err)
	}
	st.Close()
	done := make(chan *proc, 1)
	go func() { done <- startServer(t, srvCfg{dir: dir, state: state, sock: sock}) }()
	// as soon as the socket answers: list over the admin protocol (what `ldlm-lock list` sends), and at once
	// unlock twenty of the listed holds, spread over the listing, on the same connection
	type attempt struct {
		Name, Key string
		Unlocked  bool
		Err       string
	}
	var listed []string
	var attempts []attempt
	var c *rpc.Client
	deadline := time.Now().Add(30 * time.Second)
	for time.Now().Before(deadline) && len(listed) == 0 {
		if c == nil {
			if cc, err := rpc.DialHTTP("unix", sock); err == nil {
				c = cc
			} else {
				time.Sleep(time.Millisecond)
				continue
			}
		}
		var ls ipc.ListLocksResponse
		if err := c.Call("IPC.ListLocks", ipc.ListLocksRequest{}, &ls); err != nil {
			c.Close()
			c = nil
			continue
		}
		listed = ls
	}
	if c != nil {
		defer c.Close()
	}
	res.Eval(fmt.Sprintf("during-startup|holds=%d", N), true)
	if len(listed) == 0 {
		res.Note("C18 during-startup: the admin socket listed nothing within 30 s; scenario not judged")
		(<-done).kill()
		return
	}
	re := regexp.MustCompile(`^\{Name: (.*), Key: (.*), Size: (\d+)\}$`)
	for i := 0; i < 20; i++ {
		m := re.FindStringSubmatch(listed[(len(listed)-1)*i/19])
		if m == nil {
			continue
		}
		var un ipc.UnlockResponse
		err := c.Call("IPC.Unlock", ipc.UnlockRequest{Name: m[1], Key: m[2]}, &un)
		a := attempt{Name: m[1], Key: m[2], Unlocked: bool(un)}
		if err != nil {
			a.Err = err.Error()
		}
		attempts = append(attempts, a)
	}
	srv := <-done
	defer srv.kill()
	if !srv.started {
		res.Note("C18 during-startup: the server did not come up: %v", srv.logTail(10))
		return
	}
	after, _, ok := adminList(sock)
	res.CountN("during-startup:unlock-attempts", len(attempts))
	replay := map[string]any{"state_file_holds": N, "listed_when_the_socket_first_answered": len(listed), "unlock_attempts": attempts}
	for _, a := range attempts {
		h := hold{a.Name, a.Key, 1}
		switch {
		case !a.Unlocked:
			res.Find(common.Finding{Kind: "violation", Property: "C18", Signature: "stack:ipc:unlock-failed:during-startup",
				What: fmt.Sprintf("the admin listing showed hold %s while the server was restoring its state file, but the admin unlock of exactly that hold failed: %s", h, a.Err), Replay: replay})
			return
		case ok && containsHold(after, h):
			res.Find(common.Finding{Kind: "violation", Property: "C18", Signature: "stack:ipc:unlock-undone:during-startup",
				What: fmt.Sprintf("the admin unlock of hold %s reported success while the server was restoring its state file, but the hold is listed again once start-up has finished", h), Replay: replay})
			return
		}
	}
}

func c18History(t *testing.T, res *common.Result, rng *common.Rng, idx int, extra []string) {
	srv := startServer(t, srvCfg{rest: true, extra: extra})
	res.Count("config:" + strings.Join(append([]string{"default"}, extra...), " "))
	if !srv.started {
		t.Fatalf("server did not start: %v", srv.logTail(40))
	}
	defer srv.stop()
	g1 := dialGrpc(t, srv.grpcAddr, nil)
	g2 := dialGrpc(t, srv.grpcAddr, nil)
	prober := dialGrpc(t, srv.grpcAddr, nil)
	defer g1.close()
	defer g2.close()
	defer prober.close()
	rc := newRestClient(srv.restAddr, nil)
	defer rc.closeIdle()
	if r := rc.createSession(); r.Status != 201 {
		t.Fatalf("cannot create a REST session: %+v", r)
	}
	k := &c18run{t: t, res: res, srv: srv, sizes: map[string]int32{},
		cl: map[string]transport{"g1": &grpcT{g: g1}, "g2": &grpcT{g: g2}, "rest": &restT{c: rc}}}
	probeT := &grpcT{g: prober}

	// names: slot letter + seeded suffix; the first name always has size 1 so that unlock by name
	// alone has an unambiguous target
	names := []string{}
	for i := 0; i < 3+rng.Intn(2); i++ {
		n := randName(rng, string(rune('a'+i)))
		if i == 1 {
			// a name with characters a formatter might escape or a parser might trip over: what the tool lists
			// must be the name itself, and feeding it back to `unlock` must work
			n += ` C:\dir "q" é#1`
		}
		names = append(names, n)
		k.sizes[n] = int32(1 + rng.Intn(2))
	}
	k.sizes[names[0]] = 1
	owners := []string{"g1", "g2", "rest"}
	k.checkList("initial") // nothing held yet: `No locks found`
	nReq := 20 + rng.Intn(21)
	checkpointEvery := 7 + rng.Intn(4)

	for i := 0; i < nReq; i++ {
		owner := common.Pick(rng, owners)
		T := k.cl[owner]
		live, _ := k.expected()
		var mine []trackedHold
		for _, h := range k.holds {
			if h.Owner == owner {
				mine = append(mine, h)
			}
		}
		switch {
		case len(mine) > 0 && rng.Chance(30):
			h := common.Pick(rng, mine)
			o := T.unlock(h.Name, h.Key)
			k.logf("%s Unlock %s key=%s -> unlocked=%v err=%s%s", owner, h.Name, h.Key, o.Flag, codeOrNone(o), o.TransportErr)
			res.Count("history:unlock")
			if o.Flag || h.liveness(time.Now()) != "live" {
				k.drop(h.Name, h.Key)
			} else {
				// refused although surely live: it stays live; the listing below will show it
				res.Note("C18 history %d: own Unlock of a hold believed live was refused: %+v", idx, o)
				res.Count("history:unlock-refused-unexpectedly")
			}
		default:
			name := common.Pick(rng, names)
			size := k.sizes[name]
			var lease int32
			switch rng.Intn(10) {
			case 0, 1, 2:
				lease = 1
			case 3, 4:
				lease = 2
			case 5, 6:
				lease = 60
			}
			a := lockArgs{name: name, size: i32(size)}
			if lease > 0 {
				a.lockTO = i32(lease)
			}
			nLive := 0
			for _, h := range live {
				if h.Name == name {
					nLive++
				}
			}
			useLock := T.canLock() && rng.Chance(35) && (nLive < int(size) || rng.Chance(30))
			sent := time.Now()
			var o obs
			if useLock {
				a.waitTO = i32(1)
				o = T.lock(a)
			} else {
				o = T.tryLock(a)
			}
			recv := time.Now()
			k.logf("%s %s %s -> locked=%v key=%s err=%s%s", owner, o.Rpc, a, o.Flag, o.Key, codeOrNone(o), o.TransportErr)
			res.Count("history:" + strings.ToLower(o.Rpc) + ":" + leaseClass(lease))
			if o.Flag && !o.HasErr {
				res.Count("history:granted")
				k.holds = append(k.holds, trackedHold{hold: hold{name, o.Key, size}, Owner: owner, Lease: lease, sent: sent, received: recv})
			} else {
				res.Count("history:refused")
			}
		}
		if (i+1)%checkpointEvery == 0 {
			k.checkList("checkpoint")
		}
	}

	// make sure something long-lived is there to list and unlock: one sole hold on the size-1 name,
	// and one on another name from the REST session
	ensure := func(owner, name string, lease int32) {
		for _, h := range k.holds {
			if h.Name == name && (h.Lease == 0 || h.Lease == 60) {
				return
			}
		}
		a := lockArgs{name: name, size: i32(k.sizes[name])}
		if lease > 0 {
			a.lockTO = i32(lease)
		}
		sent := time.Now()
		o := k.cl[owner].tryLock(a)
		k.logf("%s TryLock %s -> locked=%v key=%s err=%s (top-up)", owner, a, o.Flag, o.Key, codeOrNone(o))
		if o.Flag {
			k.holds = append(k.holds, trackedHold{hold: hold{name, o.Key, k.sizes[name]}, Owner: owner, Lease: lease, sent: sent, received: time.Now()})
		}
	}
	// wait out every short lease (deadline + margin), then top up and list
	waitShort := func() {
		var until time.Time
		for _, h := range k.holds {
			if h.Lease > 0 && h.Lease <= 2 {
				if d := h.received.Add(time.Duration(h.Lease)*time.Second + leaseMargin + 50*time.Millisecond); d.After(until) {
					until = d
				}
			}
		}
		if w := time.Until(until); w > 0 {
			time.Sleep(w)
		}
	}
	waitShort()
	ensure(common.Pick(rng, []string{"g1", "g2"}), names[0], common.Pick(rng, []int32{0, 60}))
	ensure("rest", names[1], common.Pick(rng, []int32{0, 60}))
	waitShort()
	// an accidental second start with the same IPC socket file (another gRPC port, and the same one)
	// must not take the admin channel away from the running server
	for _, samePort := range []bool{false, true} {
		addr := fmt.Sprintf("127.0.0.1:%d", freePort(t))
		stage := "second-instance:other-port"
		if samePort {
			addr, stage = srv.grpcAddr, "second-instance:same-port"
		}
		d2 := newInstanceDir(t)
		second := exec.Command(serverBin, "--listen_address", addr, "--ipc_socket_file", srv.sock, "--state_file", filepath.Join(d2, "state.bin"))
		second.Dir = d2
		second.Env = cleanEnv()
		sb := &syncBuf{}
		second.Stdout, second.Stderr = sb, sb
		second.SysProcAttr = &syscall.SysProcAttr{Setpgid: true, Pdeathsig: syscall.SIGKILL}
		if err := second.Start(); err == nil {
			exited := make(chan struct{})
			go func() { second.Wait(); close(exited) }()
			select {
			case <-exited:
				res.Count(stage + ":refused-to-start")
			case <-time.After(1500 * time.Millisecond):
				res.Count(stage + ":kept-running")
			}
			k.logf("second server instance started on %s with the same IPC socket file", addr)
			k.checkList(stage)
			second.Process.Kill()
			<-exited
			k.checkList(stage + ":after-it-ended")
		}
	}
	listed, ok := k.checkList("final")
	if !ok {
		// keep going with what the tool lists: the unlock checks are about the listed holds
		res.Count("history:final-list-mismatch")
	}

	// ---- absent names and wrong keys must fail and change nothing
	absent := func(label string, args ...string) {
		before, _, _ := adminList(srv.sock)
		stBefore, _, _ := readState(srv.state)
		out := runAdmin(srv.sock, args...)
		after, _, _ := adminList(srv.sock)
		stAfter, _, _ := readState(srv.state)
		res.Eval("unlock-absent|"+label, true)
		res.Count("unlock-absent:" + label)
		claimed := strings.Contains(out.Stdout, "Unlocked: true")
		changed := strings.Join(holdStrings(before), ",") != strings.Join(holdStrings(after), ",") ||
			strings.Join(holdStrings(stBefore), ",") != strings.Join(holdStrings(stAfter), ",")
		if claimed || changed {
			res.Find(common.Finding{Kind: "violation", Property: "C18", Signature: "stack:ipc:unlock-absent-changed-state",
				What: fmt.Sprintf("`ldlm-lock unlock` of %s reported success (%v) or changed the holds (%v); it must fail and change nothing", label, claimed, changed),
				Replay: k.replay(map[string]any{"args": args, "tool": out, "list_before": holdStrings(before), "list_after": holdStrings(after),
					"state_before": holdStrings(stBefore), "state_after": holdStrings(stAfter)})})
		}
	}
	absent("a never-used name", "unlock", randName(rng, "absent"))
	absent("a never-used name with a key", "unlock", randName(rng, "absent"), "no-such-key")
	if len(listed) > 0 {
		absent("a held name with a wrong key", "unlock", listed[0].Name, "no-such-key")
	}

	// ---- unlock every listed hold
	byName := rng.Chance(50)
	for len(listed) > 0 {
		// prefer a target that fits the mode whose turn it is
		count := map[string]int{}
		for _, h := range listed {
			count[h.Name]++
		}
		pick := -1
		for i, h := range listed {
			if byName == (count[h.Name] == 1) {
				pick = i
				break
			}
		}
		mode := "by-key"
		if pick < 0 {
			pick = 0
		}
		target := listed[pick]
		if byName && count[target.Name] == 1 {
			mode = "by-name"
		}
		byName = !byName
		owner, lease := "unknown", int32(0)
		for _, h := range k.holds {
			if h.hold == target {
				owner, lease = h.Owner, h.Lease
			}
		}
		ownerKind := map[string]string{"g1": "grpc", "g2": "grpc", "rest": "rest"}[owner]
		if ownerKind == "" {
			ownerKind = "unknown"
		}
		args := []string{"unlock", target.Name}
		if mode == "by-key" {
			args = append(args, target.Key)
		}
		out := runAdmin(srv.sock, args...)
		k.logf("ldlm-lock %s -> exit=%d stdout=%q stderr=%q", strings.Join(args, " "), out.Code, out.Stdout, out.Stderr)
		res.Eval(fmt.Sprintf("unlock|%s|owner=%s|lease=%s|size=%d|holds-of-name=%d", mode, ownerKind, leaseClass(lease), target.Size, count[target.Name]), true)
		res.Count("unlock:" + mode)
		res.Count("unlock:owner=" + ownerKind)
		res.Count("unlock:lease=" + leaseClass(lease))
		res.Sample(map[string]any{"args": args, "tool": out, "owner": owner, "lease": lease})
		success := out.Code == 0 && strings.TrimSpace(out.Stdout) == "Unlocked: true"
		after, rawAfter, parsedAfter := adminList(srv.sock)
		if !success {
			res.Count("unlock:tool-failed")
			res.Find(common.Finding{Kind: "violation", Property: "C18", Signature: "stack:ipc:unlock-failed:" + mode,
				What: fmt.Sprintf("`ldlm-lock unlock` %s of a live hold (owner: %s session) ended with exit status %d and did not print `Unlocked: true` (stderr: %s)",
					strings.ReplaceAll(mode, "-", " "), ownerKind, out.Code, strings.TrimSpace(out.Stderr)),
				Replay: k.replay(map[string]any{"args": args, "tool": out, "target": target, "owner": owner, "list_after": rawAfter, "log_tail": srv.logTail(12)})})
		} else {
			res.Count("unlock:tool-succeeded")
			var problems []string
			if !parsedAfter || containsNameKey(after, target.Name, target.Key) {
				problems = append(problems, "the hold is still listed")
			}
			remaining := 0
			for _, h := range after {
				if h.Name == target.Name {
					remaining++
				}
			}
			if remaining < int(target.Size) {
				o := probeT.tryLock(lockArgs{name: target.Name, size: i32(target.Size)})
				if !o.Flag {
					problems = append(problems, fmt.Sprintf("a TryLock of the name by another client is refused although %d of %d slots are free (err=%s)", int(target.Size)-remaining, target.Size, codeOrNone(o)))
				} else {
					probeT.unlock(target.Name, o.Key)
				}
			}
			if lease > 0 {
				if o := probeT.renew(target.Name, target.Key, 60); o.Flag {
					problems = append(problems, "a Renew with the released key still succeeds (the lease timer survived)")
				}
			}
			// the list showed the change, so the server has finished the rewrite: read the file now
			if st, _, err := readState(srv.state); err != nil {
				problems = append(problems, "the state file cannot be decoded: "+err.Error())
			} else if containsNameKey(st, target.Name, target.Key) {
				problems = append(problems, "the state file still contains the hold")
			}
			if len(problems) > 0 {
				res.Find(common.Finding{Kind: "violation", Property: "C18", Signature: "stack:ipc:unlock-no-effect",
					What:   "`ldlm-lock unlock` reported `Unlocked: true` but " + strings.Join(problems, "; "),
					Replay: k.replay(map[string]any{"args": args, "tool": out, "target": target, "list_after": rawAfter})})
			}
		}
		// next target: what is still listed, minus the one just handled
		next := []hold{}
		for _, h := range listed {
			if h != target && (!parsedAfter || containsHold(after, h)) {
				next = append(next, h)
			}
		}
		listed = next
		k.drop(target.Name, target.Key)
	}
	if _, err := os.Stat(srv.sock); err != nil {
		res.Note("C18 history %d: IPC socket vanished while the server was running: %v", idx, err)
	}
}
