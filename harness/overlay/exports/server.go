// Added to package server through `go test -overlay` by /verif (guard "verif"); never part of /repo.
package server

import (
	"context"
	"sync"
	"time"

	"github.com/imoore76/ldlm/lock"
	cl "github.com/imoore76/ldlm/server/clientlock"
	"github.com/imoore76/ldlm/timermap"
)

func (l *LockServer) VerifManager() *lock.Manager {
	lm := l.lockMgr
	if d, ok := lm.(verifLockMgr); ok {
		lm = d.lockManager
	}
	m, _ := lm.(*lock.Manager)
	return m
}

func (l *LockServer) VerifSessionLocks() map[string][]cl.Lock { return l.sessionMgr.Locks() }

func (l *LockServer) VerifTimerKeys() []string {
	t := l.lockTimerMgr
	if d, ok := t.(verifTimerMgr); ok {
		t = d.timerManager
	}
	tm, ok := t.(*timermap.TimerMap)
	if !ok {
		return nil
	}
	return tm.VerifKeys()
}

// ---- manager-call tracing (trace validation of the interleaving models)

// VerifMgrEvent is the invocation ("inv") or the return ("ret") of one call the lock server makes into
// one of its three managers.
type VerifMgrEvent struct {
	Phase  string // inv | ret
	Id     int
	Method string // lock.Unlock, lock.TryLock, lock.Lock, timer.Add, timer.Remove, timer.Reset, sess.AddLock, sess.RemoveLock, sess.DestroySession
	Name   string
	Key    string // lock key, or the timer-map key for timer.*
	Sid    string
	Ok     bool
	Err    string
}

type verifTracer struct {
	rec func(VerifMgrEvent)
	mu  sync.Mutex
	n   int
}

func (t *verifTracer) inv(method, name, key, sid string) int {
	t.mu.Lock()
	t.n++
	id := t.n
	t.mu.Unlock()
	t.rec(VerifMgrEvent{Phase: "inv", Id: id, Method: method, Name: name, Key: key, Sid: sid})
	return id
}

func (t *verifTracer) ret(id int, method string, ok bool, err error) {
	e := VerifMgrEvent{Phase: "ret", Id: id, Method: method, Ok: ok}
	if err != nil {
		e.Err = err.Error()
	}
	t.rec(e)
}

type verifLockMgr struct {
	lockManager
	t *verifTracer
}

func (d verifLockMgr) Lock(name string, key string, size int32, ctx context.Context) error {
	id := d.t.inv("lock.Lock", name, key, "")
	err := d.lockManager.Lock(name, key, size, ctx)
	d.t.ret(id, "lock.Lock", err == nil, err)
	return err
}
func (d verifLockMgr) TryLock(name string, key string, size int32) (bool, error) {
	id := d.t.inv("lock.TryLock", name, key, "")
	ok, err := d.lockManager.TryLock(name, key, size)
	d.t.ret(id, "lock.TryLock", ok, err)
	return ok, err
}
func (d verifLockMgr) Unlock(name string, key string) (bool, error) {
	id := d.t.inv("lock.Unlock", name, key, "")
	ok, err := d.lockManager.Unlock(name, key)
	d.t.ret(id, "lock.Unlock", ok, err)
	return ok, err
}

type verifSessMgr struct {
	sessionManager
	t *verifTracer
}

func (d verifSessMgr) DestroySession(sid string) []cl.Lock {
	id := d.t.inv("sess.DestroySession", "", "", sid)
	r := d.sessionManager.DestroySession(sid)
	d.t.ret(id, "sess.DestroySession", len(r) > 0, nil)
	return r
}
func (d verifSessMgr) AddLock(name string, key string, size int32, sid string) {
	id := d.t.inv("sess.AddLock", name, key, sid)
	d.sessionManager.AddLock(name, key, size, sid)
	d.t.ret(id, "sess.AddLock", true, nil)
}
func (d verifSessMgr) RemoveLock(name string, key string, sid string) {
	id := d.t.inv("sess.RemoveLock", name, key, sid)
	d.sessionManager.RemoveLock(name, key, sid)
	d.t.ret(id, "sess.RemoveLock", true, nil)
}

type verifTimerMgr struct {
	timerManager
	t *verifTracer
}

func (d verifTimerMgr) Add(key string, onTimeout func(), dur time.Duration) {
	id := d.t.inv("timer.Add", "", key, "")
	d.timerManager.Add(key, onTimeout, dur)
	d.t.ret(id, "timer.Add", true, nil)
}
func (d verifTimerMgr) Remove(key string) bool {
	id := d.t.inv("timer.Remove", "", key, "")
	ok := d.timerManager.Remove(key)
	d.t.ret(id, "timer.Remove", ok, nil)
	return ok
}
func (d verifTimerMgr) Reset(key string, dur time.Duration) (bool, error) {
	id := d.t.inv("timer.Reset", "", key, "")
	ok, err := d.timerManager.Reset(key, dur)
	d.t.ret(id, "timer.Reset", ok, err)
	return ok, err
}

// VerifTrace reports every call into the three managers from now on (invocation and return).
func (l *LockServer) VerifTrace(rec func(VerifMgrEvent)) {
	t := &verifTracer{rec: rec}
	l.lockMgr = verifLockMgr{l.lockMgr, t}
	l.sessionMgr = verifSessMgr{l.sessionMgr, t}
	l.lockTimerMgr = verifTimerMgr{l.lockTimerMgr, t}
}

// VerifTimerKey is the lease-timer key of a hold.
func VerifTimerKey(name, key string) string { return lockTimerKey(name, key) }
