import Ldlm.Proofs.CoreMain
import Ldlm.Proofs.CoreRepr
import Ldlm.Proofs.MapOps
import Ldlm.Generated.Facts
/-!
C12 — Size and parameter semantics are fixed, validated and shard-independent.

Decision lemmas, one per rule, stated outright about M2's `step` for EVERY state and every lawful
lock-table representation (flat, or sharded with any hash function and shard count — so each rule
holds identically for every number of shards), plus the regenerated source facts that pin the
comparisons, their constants and their order (`guards_pinned`, `default_size_pinned`,
`lease_units_pinned`, `arm_guards_pinned`).

`shard_count_invisible` — **for every history** (all operations of M2: requests, time, GC, restarts,
admin unlock, cancellation) the answers, events and tie flags are identical, and the final states
are equal up to the representation, for ANY two shard counts and hash functions, and for the flat
table (`Proofs/CoreRepr.repr_independent`: every lawful representation simulates the functional
table `name → record` step by step).
-/
namespace Ldlm.Props.C12
open Ldlm.Core

variable {M : Type} (o : MapOps M) (c : Cfg)

/-! ### the rules -/

/-- no session in the request context: refused before anything else -/
theorem trylock_no_session (s : St M) (n : Str) (sz lt : Option Int) :
    (step o c s (.tryLock none n sz lt)).2.err = some .session := by
  simp [step, srvTryLock]

/-- a negative lock timeout is refused (checked before the name and the size) -/
theorem trylock_negative_lock_timeout (s : St M) (sid : Sid) (n : Str) (sz : Option Int) (t : Int) (ht : t < 0) :
    (step o c s (.tryLock (some sid) n sz (some t))).2.err = some .badLockTimeout := by
  simp [step, srvTryLock, negOpt, ht]

theorem lock_negative_lock_timeout (s : St M) (sid : Sid) (n : Str) (sz wt : Option Int) (t : Int) (ht : t < 0) :
    (step o c s (.lock (some sid) n sz (some t) wt)).2.err = some .badLockTimeout := by
  simp [step, srvLock, negOpt, ht]

/-- a negative wait timeout is refused (after the lock timeout, before the name and the size) -/
theorem lock_negative_wait_timeout (s : St M) (sid : Sid) (n : Str) (sz lt : Option Int) (t : Int)
    (hlt : negOpt lt = false) (ht : t < 0) :
    (step o c s (.lock (some sid) n sz lt (some t))).2.err = some .badWaitTimeout := by
  have hw : negOpt (some t) = true := by simp [negOpt, ht]
  simp [step, srvLock, hlt, hw]

/-- an empty name is refused (before the size is looked at) -/
theorem trylock_empty_name (s : St M) (sid : Sid) (sz lt : Option Int) (hlt : negOpt lt = false) :
    (step o c s (.tryLock (some sid) [] sz lt)).2.err = some .emptyName := by
  simp [step, srvTryLock, hlt]

theorem lock_empty_name (s : St M) (sid : Sid) (sz lt wt : Option Int) (hlt : negOpt lt = false)
    (hwt : negOpt wt = false) :
    (step o c s (.lock (some sid) [] sz lt wt)).2.err = some .emptyName := by
  simp [step, srvLock, hlt, hwt]

/-- a size of zero or less is refused with InvalidLockSize, whatever the state of the lock -/
theorem trylock_invalid_size (s : St M) (sid : Sid) (n : Str) (z : Int) (lt : Option Int)
    (hlt : negOpt lt = false) (hn : n ≠ []) (hz : z ≤ 0) :
    (step o c s (.tryLock (some sid) n (some z) lt)).2.err = some .badSize := by
  simp [step, srvTryLock, hlt, hn, getLockCreate, hz]

theorem lock_invalid_size (s : St M) (sid : Sid) (n : Str) (z : Int) (lt wt : Option Int)
    (hlt : negOpt lt = false) (hwt : negOpt wt = false) (hn : n ≠ []) (hz : z ≤ 0) :
    (step o c s (.lock (some sid) n (some z) lt wt)).2.err = some .badSize := by
  simp [step, srvLock, hlt, hwt, hn, getLockCreate, hz]

/-- the size is fixed by the creating request: a different size is refused with LockSizeMismatch -/
theorem trylock_size_mismatch (s : St M) (sid : Sid) (n : Str) (z : Int) (lt : Option Int) (r : LockRec)
    (hlt : negOpt lt = false) (hn : n ≠ []) (hz : 0 < z) (hg : o.get s.locks n = some r) (hne : z ≠ r.size) :
    (step o c s (.tryLock (some sid) n (some z) lt)).2.err = some .sizeMismatch := by
  have hz' : ¬ z ≤ 0 := by omega
  simp [step, srvTryLock, hlt, hn, getLockCreate, hz', hg, hne]

theorem lock_size_mismatch (s : St M) (sid : Sid) (n : Str) (z : Int) (lt wt : Option Int) (r : LockRec)
    (hlt : negOpt lt = false) (hwt : negOpt wt = false) (hn : n ≠ []) (hz : 0 < z)
    (hg : o.get s.locks n = some r) (hne : z ≠ r.size) :
    (step o c s (.lock (some sid) n (some z) lt wt)).2.err = some .sizeMismatch := by
  have hz' : ¬ z ≤ 0 := by omega
  simp [step, srvLock, hlt, hwt, hn, getLockCreate, hz', hg, hne]

/-- an absent size is exactly size 1 -/
theorem default_size_is_one (s : St M) (sid : Option Sid) (n : Str) (lt : Option Int) :
    step o c s (.tryLock sid n none lt) = step o c s (.tryLock sid n (some 1) lt) := by
  simp [step, srvTryLock]

theorem default_size_is_one_lock (s : St M) (sid : Option Sid) (n : Str) (lt wt : Option Int) :
    step o c s (.lock sid n none lt wt) = step o c s (.lock sid n (some 1) lt wt) := by
  simp [step, srvLock]

/-- a non-positive renew timeout is refused -/
theorem renew_nonpositive (s : St M) (n k : Str) (t : Int) (ht : t ≤ 0) :
    (step o c s (.renew n k t)).2.err = some .badLockTimeout := by
  simp [step, srvRenew, ht]

/-- an absent or zero lock timeout means no lease -/
theorem zero_or_absent_lock_timeout_means_none (s : St M) (n k : Str) (sid : Sid) :
    arm s n k sid none = s ∧ arm s n k sid (some 0) = s := by
  simp [arm]

/-- an absent wait timeout is exactly a zero wait timeout (both mean: wait without limit) -/
theorem zero_or_absent_wait_timeout_means_none (s : St M) (sid : Option Sid) (n : Str) (sz lt : Option Int) :
    step o c s (.lock sid n sz lt none) = step o c s (.lock sid n sz lt (some 0)) := by
  simp [step, srvLock, negOpt]

/-- refused requests of this kind change nothing observable (C07's `failed_inert` applies to all of them) -/
theorem invalid_size_inert (s : St M) (sid : Sid) (n : Str) (z : Int) (lt : Option Int)
    (hlt : negOpt lt = false) (hn : n ≠ []) (hz : z ≤ 0) :
    (step o c s (.tryLock (some sid) n (some z) lt)).1 = { s with nreq := s.nreq + 1 } := by
  simp [step, srvTryLock, hlt, hn, getLockCreate, hz]

/-- every rule above holds for `manager.go`'s sharded table with ANY hash and ANY shard count,
because it holds for every `MapOps`; instance for the record -/
theorem trylock_size_mismatch_sharded (hash : Str → Nat) (shards : Nat) (s : St Sharded) (sid : Sid) (n : Str)
    (z : Int) (r : LockRec) (hn : n ≠ []) (hz : 0 < z)
    (hg : (shardedOps hash shards).get s.locks n = some r) (hne : z ≠ r.size) :
    (step (shardedOps hash shards) c s (.tryLock (some sid) n (some z) none)).2.err = some .sizeMismatch :=
  trylock_size_mismatch (shardedOps hash shards) c s sid n z none r rfl hn hz hg hne

/-! ### the source facts the rules were read from (regenerated on every run) -/

theorem guards_pinned : Facts.guards =
    [("Lock", "*lockTimeoutSeconds", "<", "0", "ErrInvalidLockTimeout"),
     ("Lock", "*waitTimeoutSeconds", "<", "0", "ErrInvalidWaitTimeout"),
     ("Lock", "name", "==", "\"\"", "ErrEmptyName"),
     ("TryLock", "*lockTimeoutSeconds", "<", "0", "ErrInvalidLockTimeout"),
     ("TryLock", "name", "==", "\"\"", "ErrEmptyName"),
     ("Renew", "lockTimeoutSeconds", "<=", "0", "ErrInvalidLockTimeout"),
     ("getLock", "size", "<=", "0", "ErrInvalidLockSize")] := by decide

theorem default_size_pinned : Facts.defaultSize = some 1 := by decide

theorem lease_units_pinned : Facts.leaseUnits =
    [("Lock", "*waitTimeoutSeconds", "Second"), ("Lock", "*lockTimeoutSeconds", "Second"),
     ("TryLock", "*lockTimeoutSeconds", "Second"), ("Renew", "lockTimeoutSeconds", "Second")] := by decide

theorem arm_guards_pinned :
    Facts.leaseArmGuards = [("Lock", "*lockTimeoutSeconds", ">", "0"), ("TryLock", "*lockTimeoutSeconds", ">", "0")] ∧
    Facts.waitArmGuards = [("Lock", "*waitTimeoutSeconds", ">", "0")] := by decide

/-! non-vacuity: a concrete mismatch -/
def cfg0 : Cfg := { gcInterval := 0, gcMinIdle := 0, dlt := 600 * sec, noClear := false, hasFile := true,
                    genKey := fun n => 75 :: natDigits n }
example : (step flatOps cfg0 (run flatOps cfg0 [.connect [115], .tryLock (some [115]) [97] (some 2) none])
    (.tryLock (some [115]) [97] (some 3) none)).2.err = some .sizeMismatch := by decide

/-! ### shard independence of whole histories -/

/-- the number of shards and the hash function are invisible: same answers to every history, same
final state up to the representation -/
theorem shard_count_invisible (hash hash' : Str → Nat) (shards shards' : Nat) (ops : List Op) :
    resps (shardedOps hash shards) c (init (shardedOps hash shards) c) ops
      = resps (shardedOps hash' shards') c (init (shardedOps hash' shards') c) ops ∧
    norm (shardedOps hash shards) (run (shardedOps hash shards) c ops)
      = norm (shardedOps hash' shards') (run (shardedOps hash' shards') c ops) :=
  repr_independent (shardedOps_lawful hash shards) (shardedOps_lawful hash' shards') ops

/-- … and a sharded table is indistinguishable from one flat map -/
theorem sharded_equals_flat (hash : Str → Nat) (shards : Nat) (ops : List Op) :
    resps (shardedOps hash shards) c (init (shardedOps hash shards) c) ops = resps flatOps c (init flatOps c) ops ∧
    norm (shardedOps hash shards) (run (shardedOps hash shards) c ops) = norm flatOps (run flatOps c ops) :=
  repr_independent (shardedOps_lawful hash shards) flatOps_lawful ops

end Ldlm.Props.C12
