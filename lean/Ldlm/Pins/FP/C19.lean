import Ldlm.Generated.Facts
/-!
Source fingerprints for C19: the functions of /repo its models were written against (verifcfg.FPMAP).
`Facts.fp_*` is regenerated from the working tree by every check (first 16 hex digits of SHA-256 of the
normalised signature and body); the right-hand sides were copied from a reviewed tree by tools/mkfp.py and
are NOT regenerated. A pin that no longer checks = this function changed since the models were written.
-/
namespace Ldlm.Pins.FP.C19
open Ldlm

/-- client/client.go: Lock.Unlock -/
theorem fp_client_client_Lock_Unlock : Facts.fp_client_client_Lock_Unlock = "3fc3bd62a33464a4" := rfl
/-- client/client.go: Lock.Renew -/
theorem fp_client_client_Lock_Renew : Facts.fp_client_client_Lock_Renew = "52b6ca2bb2d800e5" := rfl
/-- client/client.go: New -/
theorem fp_client_client_New : Facts.fp_client_client_New = "328b35b9a88911ef" := rfl
/-- client/client.go: Client.Lock -/
theorem fp_client_client_Client_Lock : Facts.fp_client_client_Client_Lock = "e71d22a67f023540" := rfl
/-- client/client.go: Client.TryLock -/
theorem fp_client_client_Client_TryLock : Facts.fp_client_client_Client_TryLock = "4aba6dff97c20c81" := rfl
/-- client/client.go: Client.Unlock -/
theorem fp_client_client_Client_Unlock : Facts.fp_client_client_Client_Unlock = "1f8ccbac49273c63" := rfl
/-- client/client.go: Client.Renew -/
theorem fp_client_client_Client_Renew : Facts.fp_client_client_Client_Renew = "f35ff2abe5c6d5c9" := rfl
/-- client/client.go: Client.Close -/
theorem fp_client_client_Client_Close : Facts.fp_client_client_Client_Close = "985f25970566766d" := rfl
/-- client/client.go: Client.maybeCreateRenewer -/
theorem fp_client_client_Client_maybeCreateRenewer : Facts.fp_client_client_Client_maybeCreateRenewer = "32332c340f8474d8" := rfl
/-- client/client.go: Client.maybeRemoveRenewer -/
theorem fp_client_client_Client_maybeRemoveRenewer : Facts.fp_client_client_Client_maybeRemoveRenewer = "3e0330a735eb9f68" := rfl
/-- client/client.go: newRenewer -/
theorem fp_client_client_newRenewer : Facts.fp_client_client_newRenewer = "2590c5e710ef65f7" := rfl
/-- client/client.go: renewer.Start -/
theorem fp_client_client_renewer_Start : Facts.fp_client_client_renewer_Start = "380befa77ecaffa5" := rfl
/-- client/client.go: renewer.Stop -/
theorem fp_client_client_renewer_Stop : Facts.fp_client_client_renewer_Stop = "44d5604b3c3fcf04" := rfl
/-- client/client.go: rpcErrorToError -/
theorem fp_client_client_rpcErrorToError : Facts.fp_client_client_rpcErrorToError = "470c66abd9adc4f1" := rfl
/-- client/client.go: rpcWithRetry -/
theorem fp_client_client_rpcWithRetry : Facts.fp_client_client_rpcWithRetry = "896d805031c93a4d" := rfl

end Ldlm.Pins.FP.C19
