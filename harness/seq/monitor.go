package seq

import (
	"fmt"
	"sort"
	"strings"

	"verif/harness/common"
	"verif/harness/impl"
)

// Monitors are direct predicates on the implementation's trace; they do not consult the model.
// A monitor hit is a property violation with the history prefix as its replay.

func viol(res *common.Result, prop, sig, what string, h *History, at int, extra map[string]any) {
	rp := replay(h, at, "monitor")
	for k, v := range extra {
		rp[k] = v
	}
	// the model agrees iff it has not already been found to differ at or before this step
	rp["model_agrees"] = h.DisAt < 0 || h.DisAt > at
	res.Find(common.Finding{Kind: "violation", Property: prop, Signature: sig, What: what, Replay: rp})
}

func holdsOfListing(v *impl.View) []string {
	out := []string{}
	for _, hs := range v.Listing {
		out = append(out, hs...)
	}
	sort.Strings(out)
	return out
}

func holdsOfTable(v *impl.View) []string {
	out := []string{}
	for name, l := range v.Table {
		for _, k := range l.Keys {
			out = append(out, fmt.Sprintf("%s/%s/%d", impl.Tok(name), k, l.Size))
		}
	}
	sort.Strings(out)
	return out
}

func nonEmpty(m map[string][]string) string {
	parts := []string{}
	for s, hs := range m {
		if len(hs) > 0 {
			parts = append(parts, s+":"+strings.Join(hs, ","))
		}
	}
	sort.Strings(parts)
	return strings.Join(parts, ";")
}

func isRequest(k string) bool {
	return k == "trylock" || k == "lock" || k == "unlock" || k == "renew" || k == "ipcunlock"
}

func monitor(prop string, h *History, res *common.Result) {
	noclearDisc := false
	for i := range h.Steps {
		s := &h.Steps[i]
		if strings.HasPrefix(s.Impl, "panic ") {
			viol(res, prop, "seq:panic:"+s.Op.Kind, "the server panicked in "+s.Op.Kind+": "+s.Resp.Panic, h, i, nil)
			return
		}
		if strings.HasPrefix(s.Impl, "start-failed ") {
			if prop == "C10" || prop == "C09" {
				viol(res, prop, "seq:restart-failed", "server.New failed on a state file the server itself wrote: "+s.Impl, h, i, nil)
			}
			return
		}
		if h.TieAt >= 0 && i >= h.TieAt {
			return
		}
		if s.Op.Kind == "disconnect" && h.Cfg.NoClear {
			noclearDisc = true
		}
		if s.Op.Kind == "restart" {
			noclearDisc = false
		}
		v := &s.View
		switch prop {
		case "C01":
			for name, l := range v.Table {
				if int64(len(l.Keys)) > int64(l.Size) {
					viol(res, prop, "seq:capacity", fmt.Sprintf("lock %q of size %d has %d holders", name, l.Size, len(l.Keys)), h, i, nil)
					return
				}
			}
		case "C07":
			failed := isRequest(s.Op.Kind) && s.Resp.Err != "-" && s.Resp.Err != ""
			if failed && s.Before != nil {
				b := s.Before
				for _, c := range [][3]string{{"listing", b.L, v.L}, {"table", stripLa(b.T), stripLa(v.T)}, {"file", nonEmpty(b.File), nonEmpty(v.File)}, {"timers", b.TM, v.TM}, {"waiters", b.P, v.P}} {
					if c[1] != c[2] {
						viol(res, prop, "seq:inert:"+c[0], fmt.Sprintf("%q failed with %s but changed the %s: %q → %q", s.Op.Line(), s.Resp.Err, c[0], c[1], c[2]), h, i, nil)
						return
					}
				}
			}
			// a successful Renew / Unlock must address a hold that exists under exactly that (name, key)
			if (s.Op.Kind == "renew" || s.Op.Kind == "unlock") && s.Resp.Ok && s.Before != nil {
				l, ok := s.Before.Table[s.Op.Name]
				if !ok || !contains(l.Keys, impl.Tok(s.Op.Key)) {
					viol(res, prop, "seq:crosstalk:"+s.Op.Kind, fmt.Sprintf("%q succeeded although lock %q has no hold with that key", s.Op.Line(), s.Op.Name), h, i, nil)
					return
				}
			}
		case "C08":
			sig := ""
			if noclearDisc {
				sig = ":noclear-disconnect"
			}
			lt, tt := strings.Join(holdsOfListing(v), " "), strings.Join(holdsOfTable(v), " ")
			if lt != tt {
				viol(res, prop, "seq:views:listing-vs-table"+sig, fmt.Sprintf("after %q the admin listing shows {%s} but the lock table holds {%s}", s.Op.Line(), lt, tt), h, i, nil)
				return
			}
			if h.Cfg.File {
				if v.FileErr != "" {
					viol(res, prop, "seq:views:file-unreadable", "the state file cannot be read back: "+v.FileErr, h, i, nil)
					return
				}
				if a, b := nonEmpty(v.Listing), nonEmpty(v.File); a != b {
					viol(res, prop, "seq:views:listing-vs-file"+sig, fmt.Sprintf("after %q the listing is {%s} but the state file records {%s}", s.Op.Line(), a, b), h, i, nil)
					return
				}
			}
		}
	}
}

func stripLa(t string) string { return channels("r | T=" + t)["T"] }
