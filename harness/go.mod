module verif/harness

go 1.26

require github.com/imoore76/ldlm v0.0.0

require (
	github.com/deneonet/benc v1.1.8 // indirect
	github.com/google/uuid v1.6.0 // indirect
	golang.org/x/exp v0.0.0-20241204233417-43b7b7cde48d // indirect
	golang.org/x/sync v0.19.0 // indirect
)

replace github.com/imoore76/ldlm => /repo
