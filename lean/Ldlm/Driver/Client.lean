import Ldlm.Model.Client
import Ldlm.Driver.Rest
/-! `driver client`: line protocol of the Go-client correspondence check (model M5).
`ccfg minrenew=<s> noauto=<0|1> shards=<n>`, then one operation per line, `end`;
`retry <max> <outcome>…` lines (outcome: ok | U | F<code>) are answered independently. -/
namespace Ldlm.Driver
open Ldlm.Core Ldlm.Client

def parseCOp (ws : List String) : Option COp :=
  match ws with
  | ["trylock", n, sz, lt] => match sz.toInt?, lt.toInt? with
    | some sz, some lt => some (.tryLock (decTok n) sz lt)
    | _, _ => none
  | ["unlock", n, k] => some (.unlock (decTok n) (decTok k))
  | ["adv", d] => d.toNat?.map .adv
  | ["close"] => some .close
  | _ => none

def b01 (b : Bool) : String := if b then "1" else "0"
def wc (e : Option Err) : String := (Rest.wireCode e).getD "-"
def oi (x : Option Int) : String := match x with | some v => toString v | none => "-"

def showRpc : Rpc → String
  | .tryLock n sz lt ok key err => s!"T:{encTok n}:{oi sz}:{oi lt}:{b01 ok}:{if ok then encTok key else "-"}:{wc err}"
  | .renew n k lt at_ ok err => s!"R:{encTok n}:{encTok k}:{lt}:{at_}:{b01 ok}:{wc err}"
  | .unlock n k ok err => s!"U:{encTok n}:{encTok k}:{b01 ok}:{wc err}"

def showCPanic : Option Panic → String
  | none => "-"
  | some .outOfSync => "outOfSync"
  | some (.renewFailed n) => "renewFailed:" ++ encTok n

def crespLine {M} (s : CSt M) (r : CResp) : String :=
  s!"rpcs=[{String.intercalate "," (r.rpcs.map showRpc)}] panic={showCPanic s.panicked} tie={if r.tie then 1 else 0}" ++
  s!" | L={showSess s.srv.sessions} | TM={showTimers s.srv.timers} | RM=[{showToks (s.rs.map (·.1))}] | now={s.srv.now}"

def parseAttempt (w : String) : Option Attempt :=
  if w = "ok" then some .ok else if w = "U" then some .unavailable
  else if w.startsWith "F" then ((w.drop 1).toString.toNat?).map .failed else none

def showAttempt : Option Attempt → String
  | none => "none" | some .ok => "ok" | some .unavailable => "U" | some (.failed c) => s!"F{c}"

partial def clientLoop {M} (o : MapOps M) (c : Cfg) (cc : CCfg) (h : IO.FS.Stream) (out : IO.FS.Stream) (s : CSt M) : IO Unit := do
  let line ← h.getLine
  if line.isEmpty then return ()
  let ws := (line.trimAscii.toString.splitOn " ").filter (· ≠ "")
  match ws with
  | ["end"] => out.putStrLn "end-ok"; out.flush; return ()
  | _ =>
    match parseCOp ws with
    | none => out.putStrLn "bad-op"; out.flush; clientLoop o c cc h out s
    | some op =>
      let (s', r) := cstep o c cc s op
      out.putStrLn (crespLine s' r)
      out.flush
      clientLoop o c cc h out s'

partial def clientMain : IO Unit := do
  let h ← IO.getStdin
  let out ← IO.getStdout
  let line ← h.getLine
  if line.isEmpty then return ()
  let ws := (line.trimAscii.toString.splitOn " ").filter (· ≠ "")
  match ws with
  | "ccfg" :: rest =>
    let c : Cfg := { gcInterval := kvNat rest "gcint" 0, gcMinIdle := kvNat rest "gcidle" 0,
                     dlt := kvNat rest "dlt" (600 * sec), noClear := false, hasFile := false, genKey := genKey }
    let cc : CCfg := { minRenew := (kvNat rest "minrenew" 10 : Nat), noAutoRenew := kvNat rest "noauto" 0 = 1 }
    out.putStrLn "cfg-ok"; out.flush
    let o := shardedOps sumHash (kvNat rest "shards" 4)
    clientLoop o c cc h out (cinit o c (genConn 0))
    clientMain
  | "retry" :: m :: outs =>
    match m.toInt?, outs.mapM parseAttempt with
    | some m, some outs =>
      let r := retryInt m outs
      out.putStrLn s!"attempts={r.1} result={showAttempt r.2}"
    | _, _ => out.putStrLn "bad-retry"
    out.flush
    clientMain
  | _ => out.putStrLn "bad-cfg"; out.flush; clientMain

end Ldlm.Driver
