import Ldlm.Model.Lease
import Ldlm.Model.SessionEnd
import Ldlm.Driver.Util
/-!
`driver linlease`: trace validation of M3a against the instrumented server.  Input: the calls the
lock server made into its managers concerning ONE leased hold, as invocation / return events in the
order they happened under a controlled schedule:

    hist
    inv <id> <thread> <method>        method: timer.Remove | lock.Unlock | sess.RemoveLock | timer.Reset
    ret <id> <ok 0|1> <err 0|1>
    end

A history is accepted when the calls can be put in a sequential order that respects real time (a call
that returned before another was invoked comes first) such that every call is the next step of its
thread in M3a (`Ldlm.Lease.step`) and returns what that step determines; the firing of the runtime
timer and the timer map's own `Remove(self)` after the callback are not manager calls of the server
and are inserted wherever the model enables them.  Output per history: `ok` or `reject <event>`.
-/
namespace Ldlm.Driver
open Ldlm.Lease

inductive MOp | tmRemove | lkUnlock | ssRemoveLock | tmReset
deriving DecidableEq, Repr

structure LPend where
  id : Nat
  thread : String
  op : MOp
deriving DecidableEq, Repr

structure LDone where
  id : Nat
  ok : Bool
  err : Bool
deriving DecidableEq, Repr

structure LCfg where
  st : St
  pend : List LPend
  done : List LDone
  tids : List String        -- unlock threads seen so far: position = model thread id
deriving DecidableEq, Repr

def isCb (th : String) : Bool := th.startsWith "spawn" || th == "anon"

def tidOf (tids : List String) (th : String) : Option Nat := tids.findIdx? (· == th)

/-- linearize one pending call now: the new configuration with the result the model determines -/
def linOne (c : LCfg) (p : LPend) : Option LCfg :=
  let rest := c.pend.filter (·.id ≠ p.id)
  let fin (s' : St) (ok err : Bool) (tids : List String) : Option LCfg :=
    some { st := s', pend := rest, done := c.done ++ [⟨p.id, ok, err⟩], tids := tids }
  if isCb p.thread then
    match p.op, c.st.cb with
    | .lkUnlock, .c1 => (step c.st .cbStep).bind fun r => fin r.1 c.st.held (!c.st.held) c.tids
    | .ssRemoveLock, .c2 => (step c.st .cbStep).bind fun r => fin r.1 true false c.tids
    | _, _ => none
  else
    match p.op with
    | .tmReset =>
      (step c.st .renew).bind fun r =>
        match c.st.timer with
        | .none => fin r.1 false true c.tids
        | .armed => fin r.1 true false c.tids
        | .fired => fin r.1 false false c.tids
    | .tmRemove =>
      -- the first call of an Unlock thread
      match tidOf c.tids p.thread with
      | some _ => none
      | none =>
        let tid := c.tids.length
        (step c.st (.startUnlock tid)).bind fun r0 =>
          (step r0.1 (.unlockStep tid)).bind fun r => fin r.1 (decide (c.st.timer ≠ .fired)) false (c.tids ++ [p.thread])
    | .lkUnlock =>
      match tidOf c.tids p.thread with
      | none => none
      | some tid =>
        match c.st.unl.find? (·.1 = tid) with
        | some (_, .u1) => (step c.st (.unlockStep tid)).bind fun r => fin r.1 c.st.held (!c.st.held) c.tids
        | _ => none
    | .ssRemoveLock =>
      match tidOf c.tids p.thread with
      | none => none
      | some tid =>
        match c.st.unl.find? (·.1 = tid) with
        | some (_, .u2) | some (_, .u2f) => (step c.st (.unlockStep tid)).bind fun r => fin r.1 true false c.tids
        | _ => none

/-- the steps that are not manager calls of the server -/
def taus (c : LCfg) : List LCfg :=
  let a := match step c.st .fire with
    | some r => [{ c with st := r.1 }]
    | none => []
  let b := if c.st.cb = .c3 then
      match step c.st .cbStep with
      | some r => [{ c with st := r.1 }]
      | none => []
    else []
  a ++ b

def expand (c : LCfg) : List LCfg := taus c ++ c.pend.filterMap (linOne c)

def addNew (acc : List LCfg) (cs : List LCfg) : List LCfg × List LCfg :=
  cs.foldl (fun (p : List LCfg × List LCfg) c => if p.1.contains c then p else (p.1 ++ [c], p.2 ++ [c])) (acc, [])

/-- everything reachable by linearizing pending calls and inserting silent steps -/
def closure : Nat → List LCfg → List LCfg → List LCfg
  | 0, acc, _ => acc
  | _, acc, [] => acc
  | fuel+1, acc, frontier =>
    let (acc', fresh) := addNew acc (frontier.flatMap expand)
    closure fuel acc' fresh

def parseMOp (s : String) : Option MOp :=
  if s = "timer.Remove" then some .tmRemove else if s = "lock.Unlock" then some .lkUnlock
  else if s = "sess.RemoveLock" then some .ssRemoveLock else if s = "timer.Reset" then some .tmReset else none

/-- one event -/
def linEvent (cfgs : List LCfg) (ws : List String) : Option (List LCfg) :=
  match ws with
  | ["inv", id, th, m] =>
    match id.toNat?, parseMOp m with
    | some id, some op => some (cfgs.map fun c => { c with pend := c.pend ++ [⟨id, th, op⟩] })
    | _, _ => none
  | ["ret", id, ok, err] =>
    match id.toNat? with
    | none => none
    | some id =>
      let all := closure 12 cfgs cfgs
      some ((all.filter fun c => c.done.any fun d => d.id = id ∧ d.ok = (ok == "1") ∧ d.err = (err == "1")).map
        fun c => { c with done := c.done.filter (·.id ≠ id) })
  | _ => none

partial def linLeaseHist (h : IO.FS.Stream) (cfgs : List LCfg) (n : Nat) (bad : Option String) : IO String := do
  let line ← h.getLine
  if line.isEmpty then return "eof"
  let ws := (line.trimAscii.toString.splitOn " ").filter (· ≠ "")
  match ws with
  | ["end"] =>
    match bad with
    | some b => return b
    | none =>
      -- every thread of the real run has returned: some model run of these calls has no thread in flight
      let all := closure 12 cfgs cfgs
      if cfgs.isEmpty then return s!"reject {n}: no order of the calls is a run of the model"
      else if all.any (fun c => c.pend.isEmpty ∧ c.st.unl.isEmpty ∧ c.st.cb = .none) then return "ok"
      else return s!"reject {n}: every thread of the run has returned, but in every model run of these calls a thread still owes a call" 
  | _ =>
    match bad with
    | some _ => linLeaseHist h cfgs (n + 1) bad
    | none =>
      match linEvent cfgs ws with
      | none => linLeaseHist h cfgs (n + 1) (some s!"reject {n}: unknown event {line.trimAscii.toString}")
      | some [] => linLeaseHist h [] (n + 1) (some s!"reject {n}: after `{line.trimAscii.toString}` no order of the calls so far is a run of the model")
      | some cs => linLeaseHist h cs (n + 1) none

partial def linLeaseMain : IO Unit := do
  let h ← IO.getStdin
  let out ← IO.getStdout
  let line ← h.getLine
  if line.isEmpty then return ()
  if line.trimAscii.toString = "hist" then
    let r ← linLeaseHist h [{ st := Lease.init, pend := [], done := [], tids := [] }] 0 none
    out.putStrLn r; out.flush
    linLeaseMain
  else
    out.putStrLn "bad-hist"; out.flush; linLeaseMain


/-! ### `driver linsess`: the same for M3b (one hold of a session that ends)

    hist lease=<0|1> granted=<0|1>
    inv <id> <thread> <method>     method: lock.TryLock | lock.Lock | sess.AddLock | timer.Add | timer.Remove |
                                           lock.Unlock | sess.RemoveLock | sess.DestroySession
    ret <id> <ok> <err>
    end

Roles: the thread that called `sess.DestroySession` is the destroy thread from then on; `spawn*` is the
lease callback; the thread of `lock.TryLock` / `lock.Lock` is the grant; any other thread is an Unlock.
With `lease=0` the model's G3 step arms no timer and is not a manager call: inserted silently. -/
namespace SessLin
open Ldlm.SessionEnd
open Ldlm.Lease (TimerSt Cb UPc)

inductive SOp | lkAcquire | ssAddLock | tmAdd | tmRemove | lkUnlock | ssRemoveLock | ssDestroy
deriving DecidableEq, Repr

structure SPend where
  id : Nat
  thread : String
  op : SOp
deriving DecidableEq, Repr

structure SCfg where
  st : SessionEnd.St
  pend : List SPend
  done : List LDone
  tids : List String
  dthread : Option String
deriving DecidableEq, Repr

def stepS (s : SessionEnd.St) (a : SessionEnd.Act) : Option SessionEnd.St := SessionEnd.step s a

def linOneS (c : SCfg) (p : SPend) : Option SCfg :=
  let rest := c.pend.filter (·.id ≠ p.id)
  let fin (s' : SessionEnd.St) (ok err : Option Bool) (c' : SCfg) : Option SCfg :=
    some { c' with st := s', pend := rest, done := c.done ++ [⟨p.id, ok.getD true, err.getD false⟩] }
  match p.op with
  | .lkAcquire => if c.st.g = .g0 then (stepS c.st .grantStep).bind fun s' => fin s' (some true) (some false) c else none
  | .ssAddLock => if c.st.g = .g1 then (stepS c.st .grantStep).bind fun s' => fin s' none none c else none
  | .tmAdd => if c.st.g = .g2 ∧ c.st.lease then (stepS c.st .grantStep).bind fun s' => fin s' none none c else none
  | .ssDestroy => (stepS c.st .destroyStart).bind fun s' => fin s' none none { c with dthread := some p.thread }
  | .lkUnlock =>
    if isCb p.thread then
      if c.st.cb = .c1 then (stepS c.st .cbStep).bind fun s' => fin s' (some c.st.held) (some (!c.st.held)) c else none
    else if c.dthread = some p.thread then
      if c.st.d = .d2 then (stepS c.st .destroyStep).bind fun s' => fin s' (some c.st.held) (some (!c.st.held)) c else none
    else
      match tidOf c.tids p.thread with
      | none => none
      | some tid =>
        match c.st.unl.find? (·.1 = tid) with
        | some (_, .u1) => (stepS c.st (.unlockStep tid)).bind fun s' => fin s' (some c.st.held) (some (!c.st.held)) c
        | _ => none
  | .ssRemoveLock =>
    if isCb p.thread then
      if c.st.cb = .c2 then (stepS c.st .cbStep).bind fun s' => fin s' none none c else none
    else
      match tidOf c.tids p.thread with
      | none => none
      | some tid =>
        match c.st.unl.find? (·.1 = tid) with
        | some (_, .u2) | some (_, .u2f) => (stepS c.st (.unlockStep tid)).bind fun s' => fin s' none none c
        | _ => none
  | .tmRemove =>
    if c.dthread = some p.thread then
      if c.st.d = .d3 then (stepS c.st .destroyStep).bind fun s' => fin s' (some (decide (c.st.timer ≠ .fired))) (some false) c else none
    else
      match tidOf c.tids p.thread with
      | some _ => none
      | none =>
        let tid := c.tids.length
        (stepS c.st (.startUnlock tid)).bind fun s0 =>
          (stepS s0 (.unlockStep tid)).bind fun s' =>
            fin s' (some (decide (c.st.timer ≠ .fired))) (some false) { c with tids := c.tids ++ [p.thread] }

def tausS (c : SCfg) : List SCfg :=
  let a := match stepS c.st .fire with
    | some s' => [{ c with st := s' }]
    | none => []
  let b := if c.st.cb = .c3 then (match stepS c.st .cbStep with | some s' => [{ c with st := s' }] | none => []) else []
  -- G3 without a lease is not a manager call
  let g := if c.st.g = .g2 ∧ ¬ c.st.lease then (match stepS c.st .grantStep with | some s' => [{ c with st := s' }] | none => []) else []
  -- the destroy thread finds the hold not in its list, or its Unlock failed: nothing more to do for this hold
  a ++ b ++ g

def expandS (c : SCfg) : List SCfg := tausS c ++ c.pend.filterMap (linOneS c)

def addNewS (acc : List SCfg) (cs : List SCfg) : List SCfg × List SCfg :=
  cs.foldl (fun (p : List SCfg × List SCfg) c => if p.1.contains c then p else (p.1 ++ [c], p.2 ++ [c])) (acc, [])

def closureS : Nat → List SCfg → List SCfg → List SCfg
  | 0, acc, _ => acc
  | _, acc, [] => acc
  | fuel+1, acc, frontier =>
    let (acc', fresh) := addNewS acc (frontier.flatMap expandS)
    closureS fuel acc' fresh

def parseSOp (s : String) : Option SOp :=
  if s = "lock.TryLock" ∨ s = "lock.Lock" then some .lkAcquire else if s = "sess.AddLock" then some .ssAddLock
  else if s = "timer.Add" then some .tmAdd else if s = "timer.Remove" then some .tmRemove
  else if s = "lock.Unlock" then some .lkUnlock else if s = "sess.RemoveLock" then some .ssRemoveLock
  else if s = "sess.DestroySession" then some .ssDestroy else none

/-- which results are compared: `-` in the done record means "any" is not representable, so the
driver compares only the calls whose result the model determines -/
def checked (m : String) : Bool := m = "timer.Remove" ∨ m = "lock.Unlock"

structure SHist where
  cfgs : List SCfg
  meth : List (Nat × String)     -- id ↦ method (to know whether the result is compared)

def linEventS (h : SHist) (ws : List String) : Option SHist :=
  match ws with
  | ["inv", id, th, m] =>
    match id.toNat?, parseSOp m with
    | some id, some op => some { cfgs := h.cfgs.map fun c => { c with pend := c.pend ++ [⟨id, th, op⟩] }, meth := (id, m) :: h.meth }
    | _, _ => none
  | ["ret", id, ok, err] =>
    match id.toNat? with
    | none => none
    | some id =>
      let cmp := match h.meth.find? (·.1 = id) with
        | some (_, m) => checked m
        | none => false
      let all := closureS 14 h.cfgs h.cfgs
      let keep := all.filter fun c => c.done.any fun d => d.id = id ∧ (!cmp || (d.ok = (ok == "1") ∧ d.err = (err == "1")))
      let keep' := keep.map fun c => { c with done := c.done.filter (·.id ≠ id) }
      some { h with cfgs := keep' }
  | _ => none

partial def linSessHist (h : IO.FS.Stream) (st : SHist) (n : Nat) (bad : Option String) : IO String := do
  let line ← h.getLine
  if line.isEmpty then return "eof"
  let ws := (line.trimAscii.toString.splitOn " ").filter (· ≠ "")
  match ws with
  | ["end"] =>
    match bad with
    | some b => return b
    | none =>
      let all := closureS 14 st.cfgs st.cfgs
      if st.cfgs.isEmpty then return s!"reject {n}: no order of the calls is a run of the model"
      else if all.any (fun c => c.pend.isEmpty ∧ c.st.unl.isEmpty ∧ c.st.cb = .none ∧ (c.st.g = .g0 ∨ c.st.g = .gdone) ∧
                (c.st.d = .d0 ∨ c.st.d = .dskip ∨ c.st.d = .ddone)) then return "ok"
      else return s!"reject {n}: every thread of the run has returned, but in every model run of these calls a thread still owes a call" 
  | _ =>
    match bad with
    | some _ => linSessHist h st (n + 1) bad
    | none =>
      match linEventS st ws with
      | none => linSessHist h st (n + 1) (some s!"reject {n}: unknown event {line.trimAscii.toString}")
      | some st' =>
        if st'.cfgs.isEmpty then
          linSessHist h st' (n + 1) (some s!"reject {n}: after `{line.trimAscii.toString}` no order of the calls so far is a run of the model")
        else linSessHist h st' (n + 1) none

end SessLin

partial def linSessMain : IO Unit := do
  let h ← IO.getStdin
  let out ← IO.getStdout
  let line ← h.getLine
  if line.isEmpty then return ()
  let ws := (line.trimAscii.toString.splitOn " ").filter (· ≠ "")
  match ws with
  | "hist" :: rest =>
    let lease := rest.contains "lease=1"
    let granted := rest.contains "granted=1"
    let s0 := Ldlm.SessionEnd.init lease
    let s1 : Ldlm.SessionEnd.St := if granted then
        { s0 with held := true, booked := true, timer := (if lease then .armed else .none), g := .gdone }
      else s0
    let r ← SessLin.linSessHist h { cfgs := [{ st := s1, pend := [], done := [], tids := [], dthread := none }], meth := [] } 0 none
    out.putStrLn r; out.flush
    linSessMain
  | _ => out.putStrLn "bad-hist"; out.flush; linSessMain

end Ldlm.Driver
