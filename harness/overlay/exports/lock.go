// Added to package lock through `go test -overlay` by /verif (guard "verif"); never part of /repo.
package lock

import (
	"slices"
	"time"
)

type VerifLock struct {
	Name         string
	Size         int32
	Keys         []string
	LastAccessed time.Time
	Deleted      bool
}

// VerifTable is a snapshot of the lock table (every shard), for the three-view comparison.
func (m *Manager) VerifTable() []VerifLock {
	out := []VerifLock{}
	for _, shard := range m.shards {
		shard.RLock()
		for name, l := range shard.locks {
			l.keyMtx.Lock()
			out = append(out, VerifLock{Name: name, Size: l.size, Keys: slices.Clone(l.keys), LastAccessed: l.lastAccessed, Deleted: l.deleted})
			l.keyMtx.Unlock()
		}
		shard.RUnlock()
	}
	return out
}

// VerifGc runs one garbage-collection pass with the given minimum idle time.
func (m *Manager) VerifGc(d time.Duration) { m.lockGc(d) }
