import Ldlm.Generated.Facts
/-!
Source fingerprints for C02: the functions of /repo its models were written against (verifcfg.FPMAP).
`Facts.fp_*` is regenerated from the working tree by every check (first 16 hex digits of SHA-256 of the
normalised signature and body); the right-hand sides were copied from a reviewed tree by tools/mkfp.py and
are NOT regenerated. A pin that no longer checks = this function changed since the models were written.
-/
namespace Ldlm.Pins.FP.C02
open Ldlm

/-- lock/lock.go: NewLock -/
theorem fp_lock_lock_NewLock : Facts.fp_lock_lock_NewLock = "d4400d5fa3fae080" := rfl
/-- lock/lock.go: Lock.Lock -/
theorem fp_lock_lock_Lock_Lock : Facts.fp_lock_lock_Lock_Lock = "24c6305c7d07f030" := rfl
/-- lock/lock.go: Lock.TryLock -/
theorem fp_lock_lock_Lock_TryLock : Facts.fp_lock_lock_Lock_TryLock = "e86ae14f06c9bef9" := rfl
/-- lock/lock.go: Lock.Unlock -/
theorem fp_lock_lock_Lock_Unlock : Facts.fp_lock_lock_Lock_Unlock = "fa37302972cb0b09" := rfl
/-- lock/lock.go: Lock.addKey -/
theorem fp_lock_lock_Lock_addKey : Facts.fp_lock_lock_Lock_addKey = "98ebde1fa6b9a35a" := rfl
/-- lock/lock.go: Lock.Keys -/
theorem fp_lock_lock_Lock_Keys : Facts.fp_lock_lock_Lock_Keys = "7071540bc534505b" := rfl
/-- lock/manager.go: Manager.getLock -/
theorem fp_lock_manager_Manager_getLock : Facts.fp_lock_manager_Manager_getLock = "89b7e22ffc6b733b" := rfl
/-- lock/manager.go: Manager.getShard -/
theorem fp_lock_manager_Manager_getShard : Facts.fp_lock_manager_Manager_getShard = "a1f596a6c73b1b1f" := rfl
/-- lock/manager.go: NewManagedLock -/
theorem fp_lock_manager_NewManagedLock : Facts.fp_lock_manager_NewManagedLock = "c3cfd87364aceaf2" := rfl
/-- lock/manager.go: NewManager -/
theorem fp_lock_manager_NewManager : Facts.fp_lock_manager_NewManager = "fe1b5f8139f55162" := rfl
/-- lock/manager.go: Manager.Lock -/
theorem fp_lock_manager_Manager_Lock : Facts.fp_lock_manager_Manager_Lock = "b3a78f0a87d5a3ad" := rfl
/-- lock/manager.go: Manager.TryLock -/
theorem fp_lock_manager_Manager_TryLock : Facts.fp_lock_manager_Manager_TryLock = "3c861dc7cc9f73de" := rfl
/-- lock/manager.go: Manager.Unlock -/
theorem fp_lock_manager_Manager_Unlock : Facts.fp_lock_manager_Manager_Unlock = "e1e8415d8eb20442" := rfl
/-- server/server.go: LockServer.Lock -/
theorem fp_server_server_LockServer_Lock : Facts.fp_server_server_LockServer_Lock = "5d4c78175f668159" := rfl
/-- server/server.go: LockServer.TryLock -/
theorem fp_server_server_LockServer_TryLock : Facts.fp_server_server_LockServer_TryLock = "0ae939aca2e2a058" := rfl
/-- server/server.go: LockServer.Unlock -/
theorem fp_server_server_LockServer_Unlock : Facts.fp_server_server_LockServer_Unlock = "b03d29042086a906" := rfl
/-- server/server.go: LockServer.onTimeoutFunc -/
theorem fp_server_server_LockServer_onTimeoutFunc : Facts.fp_server_server_LockServer_onTimeoutFunc = "ee575fb2d063557f" := rfl
/-- timermap/timermap.go: New -/
theorem fp_timermap_timermap_New : Facts.fp_timermap_timermap_New = "7bfa6bb474b5152d" := rfl
/-- timermap/timermap.go: TimerMap.Add -/
theorem fp_timermap_timermap_TimerMap_Add : Facts.fp_timermap_timermap_TimerMap_Add = "d8c62d0874a15c32" := rfl
/-- timermap/timermap.go: TimerMap.Remove -/
theorem fp_timermap_timermap_TimerMap_Remove : Facts.fp_timermap_timermap_TimerMap_Remove = "ce8fae6c7455bbd4" := rfl
/-- timermap/timermap.go: TimerMap.Reset -/
theorem fp_timermap_timermap_TimerMap_Reset : Facts.fp_timermap_timermap_TimerMap_Reset = "6e63112ea24222fa" := rfl
/-- timermap/timermap.go: TimerMap.shutdown -/
theorem fp_timermap_timermap_TimerMap_shutdown : Facts.fp_timermap_timermap_TimerMap_shutdown = "c7c679c3e023a667" := rfl

end Ldlm.Pins.FP.C02
