/-
  GENERATED FILE, DO NOT EDIT.
  Written by /verif/tools/facts (`go run . <repo-root> <this file>`, go/ast extractor) from the
  current working tree of the ldlm repository; ./check regenerates it on every run.
  Plain data only. Lemmas of the form `Facts.x = expected` elsewhere break when the source changes.
-/

namespace Ldlm.Facts

def grpcErrTable : List (String × String) := [
  ("server.ErrLockWaitTimeout", "LockWaitTimeout"),
  ("lock.ErrInvalidLockKey", "InvalidLockKey"),
  ("lock.ErrLockDoesNotExist", "LockDoesNotExist"),
  ("lock.ErrLockNotLocked", "NotLocked"),
  ("timermap.ErrTimerDoesNotExist", "LockDoesNotExistOrInvalidKey"),
  ("server.ErrLockDoesNotExistOrInvalidKey", "LockDoesNotExistOrInvalidKey"),
  ("lock.ErrInvalidLockSize", "InvalidLockSize"),
  ("lock.ErrLockSizeMismatch", "LockSizeMismatch")
]

def grpcErrDefault : Option String := some "Unknown"

def grpcNilIsNil : Bool := true

def clientErrTable : List (String × String) := [
  ("Unknown", "errors.New"),
  ("LockDoesNotExist", "ErrLockDoesNotExist"),
  ("InvalidLockKey", "ErrInvalidLockKey"),
  ("LockWaitTimeout", "ErrLockWaitTimeout"),
  ("NotLocked", "ErrLockNotLocked"),
  ("LockDoesNotExistOrInvalidKey", "ErrLockDoesNotExistOrInvalidKey"),
  ("LockSizeMismatch", "ErrLockSizeMismatch"),
  ("InvalidLockSize", "ErrInvalidLockSize")
]

def clientErrAliases : List (String × String) := [
  ("ErrLockDoesNotExist", "lock.ErrLockDoesNotExist"),
  ("ErrInvalidLockKey", "lock.ErrInvalidLockKey"),
  ("ErrLockWaitTimeout", "server.ErrLockWaitTimeout"),
  ("ErrLockNotLocked", "lock.ErrLockNotLocked"),
  ("ErrLockDoesNotExistOrInvalidKey", "server.ErrLockDoesNotExistOrInvalidKey"),
  ("ErrInvalidLockSize", "lock.ErrInvalidLockSize"),
  ("ErrLockSizeMismatch", "lock.ErrLockSizeMismatch")
]

def protoErrorCodes : List (String × Nat) := [
  ("Unknown", 0),
  ("LockDoesNotExist", 1),
  ("InvalidLockKey", 2),
  ("LockWaitTimeout", 3),
  ("NotLocked", 4),
  ("LockDoesNotExistOrInvalidKey", 5),
  ("LockSizeMismatch", 6),
  ("InvalidLockSize", 7)
]

def serverErrRewrites : List (String × String × String) := [
  ("Renew", "timermap.ErrTimerDoesNotExist", "ErrLockDoesNotExistOrInvalidKey")
]

def guards : List (String × String × String × String × String) := [
  ("Lock", "*lockTimeoutSeconds", "<", "0", "ErrInvalidLockTimeout"),
  ("Lock", "*waitTimeoutSeconds", "<", "0", "ErrInvalidWaitTimeout"),
  ("Lock", "name", "==", "\"\"", "ErrEmptyName"),
  ("TryLock", "*lockTimeoutSeconds", "<", "0", "ErrInvalidLockTimeout"),
  ("TryLock", "name", "==", "\"\"", "ErrEmptyName"),
  ("Renew", "lockTimeoutSeconds", "<=", "0", "ErrInvalidLockTimeout"),
  ("getLock", "size", "<=", "0", "ErrInvalidLockSize")
]

def leaseUnits : List (String × String × String) := [
  ("Lock", "*waitTimeoutSeconds", "Second"),
  ("Lock", "*lockTimeoutSeconds", "Second"),
  ("TryLock", "*lockTimeoutSeconds", "Second"),
  ("Renew", "lockTimeoutSeconds", "Second")
]

def leaseArmGuards : List (String × String × String × String) := [
  ("Lock", "*lockTimeoutSeconds", ">", "0"),
  ("TryLock", "*lockTimeoutSeconds", ">", "0")
]

def waitArmGuards : List (String × String × String × String) := [
  ("Lock", "*waitTimeoutSeconds", ">", "0")
]

def defaultSize : Option Int := some 1

def minRenewSeconds : Option Int := some 10

def retryDelaySeconds : Option Int := some 3

def renewThreshold : Option (String × Int) := some ("<=", 30)

def renewSubtract : Option Int := some 30

def retryCode : Option String := some "Unavailable"

def retryBudgetCmp : Option (String × String × String) := some ("retries", ">=", "maxRetries")

def renewMapKey : Option String := some "r.Name"

def clientPbcCalls : List (String × String × Bool) := [
  ("Lock", "Lock", true),
  ("TryLock", "TryLock", true),
  ("Unlock", "Unlock", true),
  ("Renew", "Renew", true)
]

def bodyGetTLSConfig : String := "{ useTls := false tlsConfig := &tls.Config{} if conf.TlsCert != \"\" { serverCert, err := tls.LoadX509KeyPair(conf.TlsCert, conf.TlsKey) if err != nil { return nil, fmt.Errorf(\"LoadX509KeyPair() error loading cert: %w\", err) } tlsConfig.Certificates = []tls.Certificate{serverCert} useTls = true } if conf.ClientCA != \"\" { caPem, err := os.ReadFile(conf.ClientCA) if err != nil { return nil, fmt.Errorf(\"os.ReadFile() failed to read ca cert: %w\", err) } certPool := x509.NewCertPool() if !certPool.AppendCertsFromPEM(caPem) { return nil, fmt.Errorf(\"AppendCertsFromPEM() failed to append client ca cert\") } tlsConfig.ClientCAs = certPool tlsConfig.ClientAuth = tls.RequireAndVerifyClientCert useTls = true } else if conf.ClientCertVerify { tlsConfig.ClientAuth = tls.RequireAndVerifyClientCert useTls = true } if useTls && conf.TlsCert == \"\" { return nil, fmt.Errorf(\"client TLS certificate verification requires server TLS to be configured\") } if useTls { return tlsConfig, nil } return nil, nil }"

def bodyValidatePassword : String := "{ isValid := func() bool { if h.password == \"\" { return true } auth := strings.Split(r.Header.Get(\"Authorization\"), \"Basic \") if len(auth) != 2 { return false } decoded, err := base64.StdEncoding.DecodeString(auth[1]) if err != nil { return false } password := strings.SplitN(string(decoded), \":\", 2) if len(password) != 2 { return false } if password[1] == h.password { return true } return false }() if !isValid { slog.Warn( \"Invalid password from client\", \"client_addr\", r.RemoteAddr, ) w.Header().Set(\"WWW-Authenticate\", `Basic realm=\"Restricted\"`) w.WriteHeader(http.StatusUnauthorized) } return isValid }"

def bodyServeHTTP : String := "{ if ok := h.ValidatePassword(w, r); !ok { return } if r.URL.Path == sessionPath && r.Method == http.MethodPost { h.CreateSession(w, r) return } else if r.URL.Path == sessionPath && r.Method == http.MethodDelete { h.DestroySession(w, r) return } s, ok := h.ValidateSession(w, r) if !ok { return } defer s.mtx.Unlock() h.mux.ServeHTTP(w, r.WithContext(s.ctx)) }"

def bodyAuthInterceptor : String := "{ return grpc.UnaryInterceptor( func(ctx context.Context, r interface{}, _ *grpc.UnaryServerInfo, h grpc.UnaryHandler) (interface{}, error) { md, ok := metadata.FromIncomingContext(ctx) if !ok || md[\"authorization\"] == nil { return nil, status.Errorf(codes.Unauthenticated, \"missing credentials\") } if md[\"authorization\"][0] != password { return nil, status.Errorf(codes.Unauthenticated, \"invalid credentials\") } return h(ctx, r) }, ) }"

def bodyIpcUnlock : String := "{ log.Info(\"Handling IPC Unlock request\", \"name\", req.Name, \"key\", req.Key) if req.Key == \"\" { for _, v := range i.lckSrv.Locks() { if v.Name() == req.Name { req.Key = v.Key() } } } if req.Key == \"\" { return lock.ErrLockDoesNotExist } unlocked, err := i.lckSrv.Unlock(context.Background(), req.Name, req.Key) if err != nil { return fmt.Errorf(\"failed to unlock lock: %s\", err) } *resp = UnlockResponse(unlocked) return nil }"

def bodyDestroySession : String := "{ sessionId = ctx.Value(sessionCtxKey).(string) if l.isShutdown.Load() { return } ctxLog := log.FromContextOrDefault(ctx) ctxLog.Info(\"Session ended\") locks := l.sessionMgr.DestroySession(sessionId) if l.noClearOnDisconnect || len(locks) == 0 { return } ctxLog.Info(\"Client session cleanup\", \"num_locks\", len(locks), ) for _, lk := range locks { if unlocked, err := l.lockMgr.Unlock(lk.Name(), lk.Key()); err != nil || !unlocked { ctxLog.Error( \"Error unlocking lock during client session cleanup\", \"lock\", lk.Name(), \"key\", lk.Key(), \"error\", err, ) } else { ctxLog.Info( \"Unlocked during client session cleanup\", \"lock\", lk.Name(), ) l.lockTimerMgr.Remove(lockTimerKey(lk.Name(), lk.Key())) } } return }"

def bodyTimerReset : String := "{ m.timersMtx.Lock() defer m.timersMtx.Unlock() t, ok := m.timers[key] if ok { if t.Stop() { t.Reset(timeout) return true, nil } else { return false, nil } } return false, ErrTimerDoesNotExist }"

def bodyStoreWrite : String := "{ if l.fh == nil { return nil } d := marshalLocks(sessionLocks) l.fh.Truncate(0) l.fh.Seek(0, io.SeekStart) if _, err := l.fh.Write(d); err != nil { panic(err) } l.fh.Sync() return nil }"

def bodyValidateSession : String := "{ sessionId, err := r.Cookie(sessionCookieName) if err != nil { w.Header().Add(\"Content-Type\", \"application/json\") w.WriteHeader(http.StatusUnauthorized) fmt.Fprintf(w, `{\"error\": \"session cookie not found. create a new session at %s\"}`, sessionPath) return nil, false } h.sessionsMtx.Lock() defer h.sessionsMtx.Unlock() ok, err := h.timerMgr.Reset(sessionId.Value, h.sessionExpiration) if !ok || err != nil { w.Header().Add(\"Content-Type\", \"application/json\") w.WriteHeader(http.StatusUnauthorized) fmt.Fprintf(w, `{\"error\": \"session cookie invalid or expired. create a new session at %s\"}`, sessionPath) return nil, false } s := h.sessions[sessionId.Value] s.mtx.Lock() http.SetCookie(w, &http.Cookie{ Name: sessionCookieName, Value: sessionId.Value, Expires: time.Now().Add(h.sessionExpiration), Path: \"/\", }) return s, true }"

def bodyRestDestroySession : String := "{ sessionId, err := r.Cookie(sessionCookieName) if err != nil { w.WriteHeader(http.StatusInternalServerError) s, _ := json.Marshal(map[string]string{\"error\": err.Error()}) fmt.Fprint(w, string(s)) return } h.sessionsMtx.Lock() s, ok := h.sessions[sessionId.Value] if !ok { h.sessionsMtx.Unlock() w.WriteHeader(http.StatusConflict) fmt.Fprint(w, `{\"error\": \"session not found\"}`) return } h.timerMgr.Remove(sessionId.Value) delete(h.sessions, sessionId.Value) h.sessionsMtx.Unlock() s.mtx.Lock() defer s.mtx.Unlock() h.grpcSrv.HandleConn(s.ctx, &stats.ConnEnd{}) http.SetCookie(w, &http.Cookie{ Name: sessionCookieName, Value: \"\", Expires: time.Time{}, Path: \"/\", }) w.Header().Add(\"Content-Type\", \"application/json\") w.WriteHeader(http.StatusOK) fmt.Fprint(w, `{\"session_id\": \"\"}`) }"

def bodyRestCreateSession : String := "{ sessionId := strings.ReplaceAll(uuid.NewString(), \"-\", \"\") var ip string if idx := strings.LastIndex(r.RemoteAddr, \":\"); idx == -1 { ip = \"0.0.0.0\" } else { ip = r.RemoteAddr[:idx] } ctx := h.grpcSrv.TagConn(r.Context(), &stats.ConnTagInfo{ RemoteAddr: &net.TCPAddr{ IP: net.ParseIP(ip), Port: 0, }, }) cxLogger := log.FromContextOrDefault(ctx) cxLogger = cxLogger.With(\"rest_session_id\", sessionId) ctx = log.ToContext(cxLogger, ctx) h.sessionsMtx.Lock() h.sessions[sessionId] = &session{ ctx: ctx, mtx: sync.Mutex{}, } h.timerMgr.Add( sessionId, h.onTimeoutFunc(sessionId), h.sessionExpiration, ) h.sessionsMtx.Unlock() http.SetCookie(w, &http.Cookie{ Name: sessionCookieName, Value: sessionId, Expires: time.Now().Add(h.sessionExpiration), Path: \"/\", }) w.Header().Add(\"Content-Type\", \"application/json\") w.WriteHeader(http.StatusCreated) fmt.Fprintf(w, `{\"session_id\": \"%s\"}`, sessionId) }"

def bodyRestOnTimeout : String := "{ return func() { h.sessionsMtx.Lock() s, ok := h.sessions[sessionId] if !ok { h.sessionsMtx.Unlock() return } delete(h.sessions, sessionId) ctxLog := log.FromContextOrDefault(s.ctx) ctxLog.Info( \"REST session timeout\", \"rest_session_id\", sessionId, \"idle\", h.sessionExpiration, ) defer s.mtx.Unlock() s.mtx.Lock() h.sessionsMtx.Unlock() h.grpcSrv.HandleConn(s.ctx, &stats.ConnEnd{}) } }"

def bodyTimerAdd : String := "{ m.timersMtx.Lock() defer m.timersMtx.Unlock() m.timers[key] = time.AfterFunc( timeout, func() { onTimeout() m.Remove(key) }, ) }"

def bodyTimerRemove : String := "{ m.timersMtx.Lock() defer m.timersMtx.Unlock() stopped := true if _, ok := m.timers[key]; ok { stopped = m.timers[key].Stop() delete(m.timers, key) } return stopped }"

def bodyRenewerStart : String := "{ var interval int32 if r.lockTimeoutSeconds <= 30 { interval = MinRenewSeconds } else { interval = max(r.lockTimeoutSeconds-30, MinRenewSeconds) } go func() { defer close(r.done) for { t := time.NewTimer(time.Duration(interval) * time.Second) select { case <-r.client.ctx.Done(): t.Stop() return case <-r.stop: t.Stop() return case <-t.C: select { case <-r.stop: return default: } if _, err := r.client.Renew(r.name, r.key, r.lockTimeoutSeconds); err != nil { panic(\"error renewing lock \" + r.name + \" \" + err.Error()) } } } }() }"

def bodyRenewerStop : String := "{ r.stopOnce.Do(func() { close(r.stop) }) <-r.done }"

def bodyClientUnlock : String := "{ c.maybeRemoveRenewer(name) r, err := rpcWithRetry( c.maxRetries, func() (*pb.UnlockResponse, error) { return c.pbc.Unlock(c.ctx, &pb.UnlockRequest{ Name: name, Key: key, }) }, ) if err != nil { return false, err } return r.Unlocked, rpcErrorToError(r.Error) }"

def bodyClientClose : String := "{ c.renewMap.Range(func(k, v interface{}) bool { renewer := v.(*renewer) renewer.Stop() return true }) return c.conn.Close() }"

def bodyClientRenew : String := "{ r, err := rpcWithRetry( c.maxRetries, func() (*pb.LockResponse, error) { return c.pbc.Renew(c.ctx, &pb.RenewRequest{ Name: name, Key: key, LockTimeoutSeconds: lockTimeoutSeconds, }) }, ) if err != nil { return nil, err } return &Lock{Name: name, Key: r.Key, Locked: r.Locked, client: c}, rpcErrorToError(r.Error) }"

def bodyMaybeCreateRenewer : String := "{ if !r.Locked || c.noAutoRenew || lockTimeoutSeconds == 0 { return } rFresher := newRenewer(c, r.Name, r.Key, lockTimeoutSeconds) if _, loaded := c.renewMap.LoadOrStore(r.Name, rFresher); loaded { panic(\"client out of sync - lock already exists in renew map\") } }"

def bodyMaybeRemoveRenewer : String := "{ if c.noAutoRenew { return } r, ok := c.renewMap.LoadAndDelete(name) if ok { r.(*renewer).Stop() } }"

def bodyRpcWithRetry : String := "{ var retries int = 0 for { r, err := f() if err != nil { if st, ok := status.FromError(err); ok && st.Code() == codes.Unavailable { if retries >= maxRetries { return r, err } retries++ time.Sleep(time.Duration(RetryDelaySeconds) * time.Second) continue } else { return r, err } } else { return r, nil } } }"

def restRoutes : List (String × String × String) := [
  ("ldlm.LDLM.TryLock", "post", "/v1/lock"),
  ("ldlm.LDLM.Unlock", "post", "/v1/unlock"),
  ("ldlm.LDLM.Renew", "post", "/v1/renew")
]

def mainCloserOrder : List String := [
  "lockSrv.SetShuttingDown",
  "netCloser",
  "lockSrvCloser"
]

def restServeOrder : List String := [
  "ValidatePassword",
  "CreateSession",
  "DestroySession",
  "ValidateSession",
  "mux.ServeHTTP"
]

def grpcAuthInstallCond : Option String := some "sconf.Password != \"\""

def grpcServiceMethods : List String := [
  "Lock",
  "Unlock",
  "TryLock",
  "Renew"
]

def serverNewRestore : List String := [
  "lockMgr.TryLock",
  "sessionMgr.RemoveLock",
  "lockTimerMgr.Add"
]

def serverNewRestoreTimeout : Option String := some "c.DefaultLockTimeout"

def lockKeyFn : Option String := some "strconv.Itoa(len(name)) + \":\" + name + key"

def timerKeyArgs : List (String × String) := [
  ("New.Add", "lockTimerKey(lk.Name(), lk.Key())"),
  ("Lock.Add", "lockTimerKey(name, key)"),
  ("Unlock.Remove", "lockTimerKey(name, key)"),
  ("TryLock.Add", "lockTimerKey(name, key)"),
  ("Renew.Reset", "lockTimerKey(name, key)"),
  ("DestroySession.Remove", "lockTimerKey(lk.Name(), lk.Key())")
]

def fp_lock_lock_NewLock : String := "d4400d5fa3fae080"

def fp_lock_lock_Lock_Size : String := "a8c5ec5a51762bd2"

def fp_lock_lock_Lock_Keys : String := "7071540bc534505b"

def fp_lock_lock_Lock_lockKeys : String := "3747af358e8a1c87"

def fp_lock_lock_Lock_unlockKeys : String := "12afd63f87f1957e"

def fp_lock_lock_Lock_Lock : String := "24c6305c7d07f030"

def fp_lock_lock_Lock_TryLock : String := "e86ae14f06c9bef9"

def fp_lock_lock_Lock_Unlock : String := "fa37302972cb0b09"

def fp_lock_lock_Lock_addKey : String := "98ebde1fa6b9a35a"

def fp_lock_manager_NewManagedLock : String := "c3cfd87364aceaf2"

def fp_lock_manager_NewManager : String := "fe1b5f8139f55162"

def fp_lock_manager_Manager_getShard : String := "a1f596a6c73b1b1f"

def fp_lock_manager_Manager_shutdown : String := "a21f5c7d0760606f"

def fp_lock_manager_Manager_getLock : String := "89b7e22ffc6b733b"

def fp_lock_manager_Manager_Lock : String := "b3a78f0a87d5a3ad"

def fp_lock_manager_Manager_TryLock : String := "3c861dc7cc9f73de"

def fp_lock_manager_Manager_Unlock : String := "e1e8415d8eb20442"

def fp_lock_manager_Manager_lockGc : String := "1c709ed55fdf0790"

def fp_lock_manager_Manager_Locks : String := "5c2adc23514f73bc"

def fp_timermap_timermap_New : String := "7bfa6bb474b5152d"

def fp_timermap_timermap_TimerMap_Add : String := "d8c62d0874a15c32"

def fp_timermap_timermap_TimerMap_Remove : String := "ce8fae6c7455bbd4"

def fp_timermap_timermap_TimerMap_Reset : String := "6e63112ea24222fa"

def fp_timermap_timermap_TimerMap_shutdown : String := "c7c679c3e023a667"

def fp_server_server_lockTimerKey : String := "c5f416167102a062"

def fp_server_server_New : String := "2983141b82215c42"

def fp_server_server_LockServer_Lock : String := "5d4c78175f668159"

def fp_server_server_LockServer_Unlock : String := "b03d29042086a906"

def fp_server_server_LockServer_TryLock : String := "0ae939aca2e2a058"

def fp_server_server_LockServer_Renew : String := "ec4eb8cf57e4c2a1"

def fp_server_server_LockServer_Locks : String := "8fdbab2ce5539956"

def fp_server_server_LockServer_SessionId : String := "e573c920d6f35761"

def fp_server_server_LockServer_CreateSession : String := "a5cc599441e28bb4"

def fp_server_server_LockServer_SetShuttingDown : String := "54b9721d804e9da3"

def fp_server_server_LockServer_DestroySession : String := "8239f3a4034818b5"

def fp_server_server_LockServer_onTimeoutFunc : String := "ee575fb2d063557f"

def fp_server_session_session_NewManager : String := "5ca359a0b1c682f8"

def fp_server_session_session_sessionManager_Locks : String := "67493f071b8eb610"

def fp_server_session_session_sessionManager_SetStore : String := "97625d34a6f05b7f"

def fp_server_session_session_sessionManager_Load : String := "bbd42fe66f815d45"

def fp_server_session_session_sessionManager_Save : String := "9404ce9805d10d3e"

def fp_server_session_session_sessionManager_RemoveLock : String := "412eef7bf932a6d8"

def fp_server_session_session_sessionManager_AddLock : String := "436f7ec5c8000602"

def fp_server_session_session_sessionManager_CreateSession : String := "c21a993e958869ee"

def fp_server_session_session_sessionManager_DestroySession : String := "bb064f981806fa92"

def fp_server_session_store_store_New : String := "71c62244b9b14bfb"

def fp_server_session_store_store_store_Write : String := "0dc7e33c7d56acd2"

def fp_server_session_store_store_store_Read : String := "a15ed28a9a8e8595"

def fp_server_session_store_store_store_Close : String := "4e97731b5eee2cfc"

def fp_server_session_store_store_lockSize : String := "a10d051ea36a47e7"

def fp_server_session_store_store_marshalLock : String := "f0b93791144e360b"

def fp_server_session_store_store_unmarshalLock : String := "b9bbaeb8d1a271a2"

def fp_server_session_store_store_marshalLocks : String := "a26923cd55734c58"

def fp_server_session_store_store_unmarshalLocks : String := "a1d7ad85e8f459e3"

def fp_server_ipc_ipc_IPC_Unlock : String := "f20ecad63ca6b4b7"

def fp_server_ipc_ipc_IPC_ListLocks : String := "20f4de1cdfc40a66"

def fp_net_rest_rest_restHandler_ServeHTTP : String := "0b151c3347286669"

def fp_net_rest_rest_restHandler_ValidatePassword : String := "469970c23cce8baf"

def fp_net_rest_rest_restHandler_ValidateSession : String := "fa29095bb900f082"

def fp_net_rest_rest_restHandler_DestroySession : String := "3317c9596c7327eb"

def fp_net_rest_rest_restHandler_CreateSession : String := "20c49babc91e330c"

def fp_net_rest_rest_restHandler_onTimeoutFunc : String := "b520532daf0b7ddc"

def fp_net_rest_rest_Run : String := "7444684083624d1f"

def fp_net_rest_rest_NewRestServer : String := "0e5e4a42d37dd44d"

def fp_net_grpc_grpc_Service_Lock : String := "39132fa414ac5180"

def fp_net_grpc_grpc_Service_Unlock : String := "ffa33f17adce51a7"

def fp_net_grpc_grpc_Service_TryLock : String := "5e23c58e7e30fa90"

def fp_net_grpc_grpc_Service_Renew : String := "d5bbb46706d86bd2"

def fp_net_grpc_grpc_Service_HandleConn : String := "0c63abb89aee0537"

def fp_net_grpc_grpc_Service_TagConn : String := "8947419221fab913"

def fp_net_grpc_grpc_Service_TagRPC : String := "cfb1a4a6cd69527c"

def fp_net_grpc_grpc_Service_HandleRPC : String := "9fe8322a320257b0"

def fp_net_grpc_grpc_NewService : String := "762bb49eac2c081a"

def fp_net_grpc_grpc_Run : String := "5ad0b509b3e7a51e"

def fp_net_grpc_grpc_authPasswordInterceptor : String := "863bb5cc0537355a"

def fp_net_grpc_grpc_lockErrToProtoBuffErr : String := "15bd3af5d2e0d8ac"

def fp_net_net_Run : String := "4cc945e928d276ec"

def fp_net_security_security_GetTLSConfig : String := "9954b45ddf85d8db"

def fp_client_client_Lock_Unlock : String := "3fc3bd62a33464a4"

def fp_client_client_Lock_Renew : String := "52b6ca2bb2d800e5"

def fp_client_client_New : String := "328b35b9a88911ef"

def fp_client_client_Client_Lock : String := "e71d22a67f023540"

def fp_client_client_Client_TryLock : String := "4aba6dff97c20c81"

def fp_client_client_Client_Unlock : String := "1f8ccbac49273c63"

def fp_client_client_Client_Renew : String := "f35ff2abe5c6d5c9"

def fp_client_client_Client_Close : String := "985f25970566766d"

def fp_client_client_Client_maybeCreateRenewer : String := "32332c340f8474d8"

def fp_client_client_Client_maybeRemoveRenewer : String := "3e0330a735eb9f68"

def fp_client_client_newRenewer : String := "2590c5e710ef65f7"

def fp_client_client_renewer_Start : String := "380befa77ecaffa5"

def fp_client_client_renewer_Stop : String := "44d5604b3c3fcf04"

def fp_client_client_rpcErrorToError : String := "470c66abd9adc4f1"

def fp_client_client_rpcWithRetry : String := "896d805031c93a4d"

def fp_cmd_server_main_main : String := "c8efb5ce2f5c413c"

def fp_server_clientlock_clientlock_Lock_Name : String := "e4486eaef96e89fb"

def fp_server_clientlock_clientlock_Lock_Key : String := "fe1a7988d9169bbc"

def fp_server_clientlock_clientlock_Lock_Size : String := "51c514de0b47237a"

def fp_server_clientlock_clientlock_New : String := "deaa4c4c7bdc978f"

def fp_server_ipc_server_setUp : String := "47aa9c3530bbc5c2"

def fp_server_ipc_server_Run : String := "22e26c857abefc05"

def fp_server_ipc_server_DefaultSocketPath : String := "677c00f2b0b6363b"

def fp_server_ipc_server_socketPathExists : String := "cc8313c5c9d485f4"

def fp_cmd_lock_cmd_list_ListArgsAndFlags_Run : String := "84135c6dc6ba6cfb"

def fp_cmd_lock_cmd_unlock_UnlockArgsAndFlags_Run : String := "c1cd60ff2063f1d1"

def fp_cmd_lock_main_newClient : String := "23b8991e235a1fd0"

def fp_cmd_lock_main_main : String := "15629b3342836146"

def fp_cmd_lock_main_getDefaultSocketPath : String := "31fb7e097136a823"

end Ldlm.Facts
