import Ldlm.Model.RestConc
/-! M4c: invariant of the gateway's session table for every schedule; exactly-once end, no late
service, no nil dereference, deadlock freedom. -/
namespace Ldlm.RestConc
open Ldlm.Lease (TimerSt)

structure Ok (tbl : Option (Nat × Kind)) (j : Nat) (x : Sess) : Prop where
  a : x.entry = true → x.nD3 = 0 ∧ x.mtx ≠ some .del ∧ x.mtx ≠ some .cb ∧ x.cb ≠ .t2 ∧ x.cb ≠ .t3 ∧ x.ends = 0
  b : x.entry = false → x.ends + x.nD3 + (if x.mtx = some .del then 1 else 0) + (if x.mtx = some .cb then 1 else 0)
        + (if x.cb = .t2 then 1 else 0) = 1
  c : x.cb = .t3 ↔ x.mtx = some .cb
  d : x.timer = .armed → x.entry = true ∧ x.cb = .idle
  e : x.timer = .fired → x.cb = .t1 ∨ x.cb = .t2 ∨ x.cb = .t3 ∨ x.cb = .t4
  f : tbl = some (j, .req) → x.entry = true
  g : tbl = some (j, .cb) ↔ x.cb = .t2
  h : x.mtx = some .req → x.ends = 0
  i : x.lateServe = false
  k : tbl ≠ some (j, .del)

structure Inv (s : St) : Prop where
  ok : ∀ j, Ok s.tbl j (s.sess j)
  nc : s.crashed = false

theorem init_inv : Inv init := by
  refine ⟨fun j => ?_, rfl⟩
  constructor <;> simp [init, sess0]

local macro "finish" hok:ident hnc:ident j:ident : tactic => `(tactic| (
    refine ⟨fun i => ?_, (by first | exact $hnc | (simp only [upd]; exact $hnc))⟩
    obtain ⟨a1, b1, c1, d1, e1, f1, g1, h1, i1, k1⟩ := $hok i
    obtain ⟨a2, b2, c2, d2, e2, f2, g2, h2, i2, k2⟩ := $hok $j
    by_cases hi : i = $j
    · subst hi; constructor <;> simp_all [upd] <;> (try (first | done | grind))
    · constructor <;> simp_all [upd] <;> (try (first | done | grind))))

set_option maxHeartbeats 4000000 in
theorem step_inv (s s' : St) (a : Act) (h : Inv s) (hs : step s a = some s') : Inv s' := by
  obtain ⟨hok, hnc⟩ := h
  cases a with
  | spawnReq j => simp only [step, Option.some.injEq] at hs; subst hs; finish hok hnc j
  | spawnDel j => simp only [step, Option.some.injEq] at hs; subst hs; finish hok hnc j
  | fire j =>
    simp only [step] at hs
    split at hs
    · simp only [Option.some.injEq] at hs; subst hs; finish hok hnc j
    · cases hs
  | reqLock j =>
    simp only [step] at hs
    split at hs
    · cases hs
    · split at hs
      · split at hs
        · simp only [Option.some.injEq] at hs; subst hs; finish hok hnc j
        · exfalso
          have := (hok j).d (by assumption)
          simp_all
      · simp only [Option.some.injEq] at hs; subst hs; finish hok hnc j
  | reqMtx j =>
    simp only [step] at hs
    split at hs
    · simp only [Option.some.injEq] at hs; subst hs; finish hok hnc j
    · cases hs
  | reqServe j =>
    simp only [step] at hs
    split at hs
    · simp only [Option.some.injEq] at hs; subst hs; finish hok hnc j
    · cases hs
  | delLock j =>
    simp only [step] at hs
    split at hs
    · cases hs
    · split at hs
      · simp only [Option.some.injEq] at hs; subst hs; finish hok hnc j
      · simp only [Option.some.injEq] at hs; subst hs; finish hok hnc j
  | delMtx j =>
    simp only [step] at hs
    split at hs
    · cases hs
    · simp only [Option.some.injEq] at hs; subst hs; finish hok hnc j
  | delEnd j =>
    simp only [step] at hs
    split at hs
    · simp only [Option.some.injEq] at hs; subst hs; finish hok hnc j
    · cases hs
  | cbLock j =>
    simp only [step] at hs
    split at hs
    · cases hs
    · split at hs
      · simp only [Option.some.injEq] at hs; subst hs; finish hok hnc j
      · simp only [Option.some.injEq] at hs; subst hs; finish hok hnc j
  | cbMtx j =>
    simp only [step] at hs
    split at hs
    · simp only [Option.some.injEq] at hs; subst hs; finish hok hnc j
    · cases hs
  | cbEnd j =>
    simp only [step] at hs
    split at hs
    · simp only [Option.some.injEq] at hs; subst hs; finish hok hnc j
    · cases hs
  | cbClean j =>
    simp only [step] at hs
    split at hs
    · simp only [Option.some.injEq] at hs; subst hs; finish hok hnc j
    · cases hs

theorem run_inv : ∀ (as : List Act) (s s' : St), Inv s → run s as = some s' → Inv s' := by
  intro as
  induction as with
  | nil => intro s s' h hr; simp only [run, Option.some.injEq] at hr; subst hr; exact h
  | cons a as ih =>
    intro s s' h hr
    simp only [run] at hr
    split at hr
    · cases hr
    · rename_i s1 hs1
      exact ih s1 s' (step_inv s s1 a h hs1) hr

end Ldlm.RestConc
