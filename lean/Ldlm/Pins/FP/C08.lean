import Ldlm.Generated.Facts
/-!
Source fingerprints for C08: the functions of /repo its models were written against (verifcfg.FPMAP).
`Facts.fp_*` is regenerated from the working tree by every check (first 16 hex digits of SHA-256 of the
normalised signature and body); the right-hand sides were copied from a reviewed tree by tools/mkfp.py and
are NOT regenerated. A pin that no longer checks = this function changed since the models were written.
-/
namespace Ldlm.Pins.FP.C08
open Ldlm

/-- server/server.go: LockServer.Locks -/
theorem fp_server_server_LockServer_Locks : Facts.fp_server_server_LockServer_Locks = "8fdbab2ce5539956" := rfl
/-- server/server.go: LockServer.Unlock -/
theorem fp_server_server_LockServer_Unlock : Facts.fp_server_server_LockServer_Unlock = "b03d29042086a906" := rfl
/-- server/server.go: LockServer.Renew -/
theorem fp_server_server_LockServer_Renew : Facts.fp_server_server_LockServer_Renew = "ec4eb8cf57e4c2a1" := rfl
/-- server/server.go: LockServer.onTimeoutFunc -/
theorem fp_server_server_LockServer_onTimeoutFunc : Facts.fp_server_server_LockServer_onTimeoutFunc = "ee575fb2d063557f" := rfl
/-- server/server.go: LockServer.CreateSession -/
theorem fp_server_server_LockServer_CreateSession : Facts.fp_server_server_LockServer_CreateSession = "a5cc599441e28bb4" := rfl
/-- server/server.go: LockServer.DestroySession -/
theorem fp_server_server_LockServer_DestroySession : Facts.fp_server_server_LockServer_DestroySession = "8239f3a4034818b5" := rfl
/-- server/server.go: LockServer.SessionId -/
theorem fp_server_server_LockServer_SessionId : Facts.fp_server_server_LockServer_SessionId = "e573c920d6f35761" := rfl
/-- server/server.go: LockServer.SetShuttingDown -/
theorem fp_server_server_LockServer_SetShuttingDown : Facts.fp_server_server_LockServer_SetShuttingDown = "54b9721d804e9da3" := rfl
/-- server/session/session.go: NewManager -/
theorem fp_server_session_session_NewManager : Facts.fp_server_session_session_NewManager = "5ca359a0b1c682f8" := rfl
/-- server/session/session.go: sessionManager.Locks -/
theorem fp_server_session_session_sessionManager_Locks : Facts.fp_server_session_session_sessionManager_Locks = "67493f071b8eb610" := rfl
/-- server/session/session.go: sessionManager.SetStore -/
theorem fp_server_session_session_sessionManager_SetStore : Facts.fp_server_session_session_sessionManager_SetStore = "97625d34a6f05b7f" := rfl
/-- server/session/session.go: sessionManager.Load -/
theorem fp_server_session_session_sessionManager_Load : Facts.fp_server_session_session_sessionManager_Load = "bbd42fe66f815d45" := rfl
/-- server/session/session.go: sessionManager.Save -/
theorem fp_server_session_session_sessionManager_Save : Facts.fp_server_session_session_sessionManager_Save = "9404ce9805d10d3e" := rfl
/-- server/session/session.go: sessionManager.RemoveLock -/
theorem fp_server_session_session_sessionManager_RemoveLock : Facts.fp_server_session_session_sessionManager_RemoveLock = "412eef7bf932a6d8" := rfl
/-- server/session/session.go: sessionManager.AddLock -/
theorem fp_server_session_session_sessionManager_AddLock : Facts.fp_server_session_session_sessionManager_AddLock = "436f7ec5c8000602" := rfl
/-- server/session/session.go: sessionManager.CreateSession -/
theorem fp_server_session_session_sessionManager_CreateSession : Facts.fp_server_session_session_sessionManager_CreateSession = "c21a993e958869ee" := rfl
/-- server/session/session.go: sessionManager.DestroySession -/
theorem fp_server_session_session_sessionManager_DestroySession : Facts.fp_server_session_session_sessionManager_DestroySession = "bb064f981806fa92" := rfl
/-- server/session/store/store.go: New -/
theorem fp_server_session_store_store_New : Facts.fp_server_session_store_store_New = "71c62244b9b14bfb" := rfl
/-- server/session/store/store.go: store.Write -/
theorem fp_server_session_store_store_store_Write : Facts.fp_server_session_store_store_store_Write = "0dc7e33c7d56acd2" := rfl
/-- server/session/store/store.go: store.Read -/
theorem fp_server_session_store_store_store_Read : Facts.fp_server_session_store_store_store_Read = "a15ed28a9a8e8595" := rfl
/-- server/session/store/store.go: store.Close -/
theorem fp_server_session_store_store_store_Close : Facts.fp_server_session_store_store_store_Close = "4e97731b5eee2cfc" := rfl
/-- server/session/store/store.go: lockSize -/
theorem fp_server_session_store_store_lockSize : Facts.fp_server_session_store_store_lockSize = "a10d051ea36a47e7" := rfl
/-- server/session/store/store.go: marshalLock -/
theorem fp_server_session_store_store_marshalLock : Facts.fp_server_session_store_store_marshalLock = "f0b93791144e360b" := rfl
/-- server/session/store/store.go: unmarshalLock -/
theorem fp_server_session_store_store_unmarshalLock : Facts.fp_server_session_store_store_unmarshalLock = "b9bbaeb8d1a271a2" := rfl
/-- server/session/store/store.go: marshalLocks -/
theorem fp_server_session_store_store_marshalLocks : Facts.fp_server_session_store_store_marshalLocks = "a26923cd55734c58" := rfl
/-- server/session/store/store.go: unmarshalLocks -/
theorem fp_server_session_store_store_unmarshalLocks : Facts.fp_server_session_store_store_unmarshalLocks = "a1d7ad85e8f459e3" := rfl
/-- server/server.go: New -/
theorem fp_server_server_New : Facts.fp_server_server_New = "2983141b82215c42" := rfl

end Ldlm.Pins.FP.C08
