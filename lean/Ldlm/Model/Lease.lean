/-!
M3a — one leased hold under racing Unlock / Renew / lease-expiry threads (C05).

By key uniqueness and injectivity of the timer key everything that happens to a hold (name, key)
happens to that hold alone, so the model is the life of ONE hold: is it in the lock table, what is
its lease-timer map entry, is it in the bookkeeping, and which server-level threads are in flight on
it.  One model step = one call into a manager (one critical section of that manager), as in
`server.go` after the repairs (`TimerMap.Reset` atomic under the map lock, `Lock.Unlock` atomic):

  Unlock thread   U0 `lockTimerMgr.Remove`  →  (stopped)  U1 `lockMgr.Unlock`  →  U2 `sessionMgr.RemoveLock` → answer
                                            →  (not stopped: timer already fired)  U2f `RemoveLock` → answer unlocked=true
                                               (this path was first modelled without the `RemoveLock`; the trace
                                               validation `driver linlease` rejected real schedules and the model was corrected)
  Renew           one step: `lockTimerMgr.Reset` (lookup, Stop, Reset under the map lock) → answer
  lease callback  spawned when the runtime timer fires:  C1 `lockMgr.Unlock` → C2 `RemoveLock` → C3 `timermap.Remove(self)`

Any number of Unlock and Renew threads, any schedule.  Core Lean only.
-/
namespace Ldlm.Lease

/-- the timer-map entry of the hold -/
inductive TimerSt
  | none          -- no entry (never leased, removed, or cleaned up)
  | armed         -- entry present, runtime timer pending
  | fired         -- entry present, runtime timer has fired (its callback goroutine exists), `Stop()` reports false
deriving DecidableEq, Repr

/-- program counter of the lease callback goroutine -/
inductive Cb
  | none | c1 | c2 | c3
deriving DecidableEq, Repr

/-- program counter of an Unlock thread -/
inductive UPc
  | u0      -- before `lockTimerMgr.Remove`
  | u1      -- timer stopped or absent: about to call `lockMgr.Unlock`
  | u2      -- `lockMgr.Unlock` succeeded: about to call `RemoveLock`
  | u2f     -- the timer had already fired (`Remove` reported not stopped): `unlocked = true` without
            -- calling `lockMgr.Unlock`, about to call `RemoveLock`
deriving DecidableEq, Repr

structure St where
  held    : Bool          -- the pair is in the lock table (occupies a unit)
  timer   : TimerSt
  booked  : Bool
  cb      : Cb
  unl     : List (Nat × UPc)   -- in-flight Unlock threads (thread id, pc)
  -- ghost history: the answers given so far
  saidUnlocked : Nat      -- number of Unlock answers unlocked=true
  saidRenewed  : Nat      -- number of Renew answers locked=true
  owed    : Bool          -- some Unlock answered true on the "timer already fired" path
deriving DecidableEq, Repr

inductive Act
  | startUnlock (t : Nat)
  | unlockStep (t : Nat)
  | renew                      -- a whole Renew call
  | fire                       -- the runtime timer fires: the callback goroutine starts
  | cbStep
deriving DecidableEq, Repr

/-- what a step answers, if it answers -/
inductive Ans
  | none
  | unlocked (ok : Bool)
  | renewed (ok : Bool) (err : Bool)
deriving DecidableEq, Repr

def step (s : St) : Act → Option (St × Ans)
  | .startUnlock t =>
    if s.unl.any (·.1 = t) then none else some ({ s with unl := s.unl ++ [(t, .u0)] }, .none)
  | .unlockStep t =>
    match s.unl.find? (·.1 = t) with
    | none => none
    | some (_, pc) =>
      let rest := s.unl.filter (·.1 ≠ t)
      match pc with
      | .u0 =>
        -- `Remove`: stopped = true unless an entry exists whose timer has fired; the entry is deleted
        match s.timer with
        | .fired => some ({ s with timer := .none, unl := rest ++ [(t, .u2f)], owed := true }, .none)
        | _ => some ({ s with timer := .none, unl := rest ++ [(t, .u1)] }, .none)
      | .u1 =>
        -- `lockMgr.Unlock`: succeeds iff the pair is held
        if s.held then some ({ s with held := false, unl := rest ++ [(t, .u2)] }, .none)
        else some ({ s with unl := rest }, .unlocked false)
      | .u2 =>
        some ({ s with booked := false, unl := rest, saidUnlocked := s.saidUnlocked + 1 }, .unlocked true)
      | .u2f =>
        -- `RemoveLock`, then the answer unlocked=true: the release is owed by the callback that is running
        some ({ s with booked := false, unl := rest, saidUnlocked := s.saidUnlocked + 1 }, .unlocked true)
  | .renew =>
    match s.timer with
    | .none => some (s, .renewed false true)                       -- LockDoesNotExistOrInvalidKey
    | .armed => some ({ s with saidRenewed := s.saidRenewed + 1 }, .renewed true false)   -- Stop() = true, Reset: lease restarts
    | .fired => some (s, .renewed false false)                     -- Stop() = false: locked=false, no error
  | .fire =>
    if s.timer = .armed ∧ s.cb = .none then some ({ s with timer := .fired, cb := .c1 }, .none) else none
  | .cbStep =>
    match s.cb with
    | .none => none
    | .c1 => some ({ s with held := false, cb := .c2 }, .none)      -- `lockMgr.Unlock` (its failure is only logged)
    | .c2 => some ({ s with booked := false, cb := .c3 }, .none)    -- `RemoveLock`
    | .c3 => some ({ s with timer := (if s.timer = .fired then .none else s.timer), cb := .none }, .none)  -- `Remove(self)`

/-- a freshly granted hold with a lease -/
def init : St :=
  { held := true, timer := .armed, booked := true, cb := .none, unl := [], saidUnlocked := 0, saidRenewed := 0, owed := false }

def run : St → List Act → Option St
  | s, [] => some s
  | s, a :: as => match step s a with
    | none => none
    | some (s', _) => run s' as

end Ldlm.Lease
