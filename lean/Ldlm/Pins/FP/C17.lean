import Ldlm.Generated.Facts
/-!
Source fingerprints for C17: the functions of /repo its models were written against (verifcfg.FPMAP).
`Facts.fp_*` is regenerated from the working tree by every check (first 16 hex digits of SHA-256 of the
normalised signature and body); the right-hand sides were copied from a reviewed tree by tools/mkfp.py and
are NOT regenerated. A pin that no longer checks = this function changed since the models were written.
-/
namespace Ldlm.Pins.FP.C17
open Ldlm

/-- server/session/store/store.go: New -/
theorem fp_server_session_store_store_New : Facts.fp_server_session_store_store_New = "71c62244b9b14bfb" := rfl
/-- server/session/store/store.go: store.Write -/
theorem fp_server_session_store_store_store_Write : Facts.fp_server_session_store_store_store_Write = "0dc7e33c7d56acd2" := rfl
/-- server/session/store/store.go: store.Read -/
theorem fp_server_session_store_store_store_Read : Facts.fp_server_session_store_store_store_Read = "a15ed28a9a8e8595" := rfl
/-- server/session/store/store.go: store.Close -/
theorem fp_server_session_store_store_store_Close : Facts.fp_server_session_store_store_store_Close = "4e97731b5eee2cfc" := rfl
/-- server/session/store/store.go: lockSize -/
theorem fp_server_session_store_store_lockSize : Facts.fp_server_session_store_store_lockSize = "a10d051ea36a47e7" := rfl
/-- server/session/store/store.go: marshalLock -/
theorem fp_server_session_store_store_marshalLock : Facts.fp_server_session_store_store_marshalLock = "f0b93791144e360b" := rfl
/-- server/session/store/store.go: unmarshalLock -/
theorem fp_server_session_store_store_unmarshalLock : Facts.fp_server_session_store_store_unmarshalLock = "b9bbaeb8d1a271a2" := rfl
/-- server/session/store/store.go: marshalLocks -/
theorem fp_server_session_store_store_marshalLocks : Facts.fp_server_session_store_store_marshalLocks = "a26923cd55734c58" := rfl
/-- server/session/store/store.go: unmarshalLocks -/
theorem fp_server_session_store_store_unmarshalLocks : Facts.fp_server_session_store_store_unmarshalLocks = "a1d7ad85e8f459e3" := rfl

end Ldlm.Pins.FP.C17
