import Ldlm.Proofs.CoreSU
/-! Restart preserves the reachability invariant: `server.New` on the file of a reachable state
rebuilds a state that satisfies `Inv'` again (given that session ids are unique, `SU`, which is
itself an invariant of every history).  Loop invariant `RJ` over the linearised file. -/
namespace Ldlm.Core
open Ldlm.AMap
variable {M : Type} {o : MapOps M} {c : Cfg}

/-- the file as the sequence of (session, hold) pairs the restore loop visits -/
def flat (m : List (Sid × List Hold)) : List (Sid × Hold) := m.flatMap (fun e => e.2.map (fun x => (e.1, x)))

theorem restoreAll_flat (m : List (Sid × List Hold)) : ∀ (s : St M),
    restoreAll o c s m = (flat m).foldl (fun s p => restoreOne o c s p.1 p.2) s := by
  unfold restoreAll flat
  induction m with
  | nil => intro s; rfl
  | cons e m ih =>
    intro s
    simp only [List.foldl_cons, List.flatMap_cons, List.foldl_append, List.foldl_map]
    exact ih _

abbrev pr (p : Sid × Hold) : Str × Str := pairOf p.2

theorem mem_flat {m : List (Sid × List Hold)} {p : Sid × Hold} : p ∈ flat m ↔ ∃ e ∈ m, e.1 = p.1 ∧ p.2 ∈ e.2 := by
  unfold flat
  simp only [List.mem_flatMap, List.mem_map]
  constructor
  · rintro ⟨e, he, x, hx, rfl⟩; exact ⟨e, he, rfl, hx⟩
  · rintro ⟨e, he, h1, h2⟩; exact ⟨e, he, p.2, h2, by rw [h1]⟩

/-- pairs are visited at most once -/
theorem flat_pairs_nodup : ∀ (m : List (Sid × List Hold)), Uniq m →
    (∀ e ∈ m, (e.2.map pairOf).Nodup) →
    (∀ e1 ∈ m, ∀ e2 ∈ m, ∀ x1 ∈ e1.2, ∀ x2 ∈ e2.2, pairOf x1 = pairOf x2 → e1.1 = e2.1) →
    ((flat m).map pr).Nodup := by
  intro m
  induction m with
  | nil => intro _ _ _; simp [flat]
  | cons e m ih =>
    intro hu h2 h1
    have hu' : Uniq m := by unfold Uniq at hu ⊢; simp only [List.map_cons, List.nodup_cons] at hu; exact hu.2
    have hne : ∀ e' ∈ m, e'.1 ≠ e.1 := by
      intro e' he' heq
      unfold Uniq at hu; simp only [List.map_cons, List.nodup_cons] at hu
      exact hu.1 (by rw [← heq]; exact List.mem_map_of_mem (f := Prod.fst) he')
    have ihm := ih hu' (fun e' he' => h2 e' (List.mem_cons_of_mem _ he'))
      (fun e1 he1 e2 he2 => h1 e1 (List.mem_cons_of_mem _ he1) e2 (List.mem_cons_of_mem _ he2))
    have hflat : flat (e :: m) = e.2.map (fun x => (e.1, x)) ++ flat m := by simp [flat]
    rw [hflat, List.map_append, List.nodup_append]
    refine ⟨?_, ihm, ?_⟩
    · have := h2 e (by simp)
      simpa [List.map_map, pr, Function.comp_def] using this
    · intro a ha b hb hab
      simp only [List.map_map, List.mem_map, Function.comp_def, pr] at ha
      obtain ⟨x1, hx1, rfl⟩ := ha
      obtain ⟨p, hp, rfl⟩ := List.mem_map.mp hb
      obtain ⟨e', he', e1', hx2⟩ := mem_flat.mp hp
      have := h1 e (by simp) e' (List.mem_cons_of_mem _ he') x1 hx1 p.2 hx2 hab
      exact hne e' he' this.symm

/-- loop invariant of the restore loop: `P` visited, `R` still to come -/
structure RJ (o : MapOps M) (s0 : St M) (nreq now : Nat) (P R : List (Sid × Hold)) (t : St M) : Prop where
  now  : t.now = now
  nreq : t.nreq = nreq
  pend : t.pending = []
  file : t.file = t.sessions
  sub  : ∀ sid h, booked t sid h → booked s0 sid h
  rem  : ∀ p ∈ R, booked t p.1 p.2
  u2   : ∀ sid hs, get t.sessions sid = some hs → (hs.map pairOf).Nodup
  bh   : ∀ p ∈ P, booked t p.1 p.2 → ∃ r, o.get t.locks p.2.name = some r ∧ p.2.key ∈ r.keys ∧ r.size = p.2.size
  lk   : ∀ n r, o.get t.locks n = some r → r.q = [] ∧ r.keys.Nodup ∧
           ∀ k ∈ r.keys, ∃ sid, booked t sid ⟨n, k, r.size⟩ ∧ (sid, (⟨n, k, r.size⟩ : Hold)) ∈ P
  tu   : Uniq t.timers
  tm   : ∀ tk tm, (tk, tm) ∈ t.timers → tk = tkey tm.name tm.key ∧ held o t tm.name tm.key

theorem filter_map_nodup {α β : Type} (f : α → β) (p : α → Bool) (l : List α) (h : (l.map f).Nodup) :
    ((l.filter p).map f).Nodup :=
  List.Nodup.sublist (List.Sublist.map f List.filter_sublist) h

theorem rj_step (ho : o.Lawful) {s0 : St M} {nreq now : Nat} {P R : List (Sid × Hold)} {p : Sid × Hold} {t : St M}
    (hnd : ((P ++ p :: R).map pr).Nodup) (h : RJ o s0 nreq now P (p :: R) t) :
    RJ o s0 nreq now (P ++ [p]) R (restoreOne o c t p.1 p.2) := by
  obtain ⟨sid, x⟩ := p
  have hbx : booked t sid x := h.rem (sid, x) (by simp)
  -- the pair of the current element occurs nowhere else in the visit order
  have hnP : ∀ q ∈ P, pr q ≠ pairOf x := by
    intro q hq e
    rw [List.map_append, List.nodup_append] at hnd
    exact hnd.2.2 (pr q) (List.mem_map_of_mem (f := pr) hq) (pairOf x) (by simp [pr]) e
  have hnR : ∀ q ∈ R, pr q ≠ pairOf x := by
    intro q hq e
    rw [List.map_append, List.nodup_append] at hnd
    have h2 := hnd.2.1
    simp only [List.map_cons, List.nodup_cons] at h2
    have hm : pr q ∈ List.map pr R := List.mem_map_of_mem (f := pr) hq
    rw [e] at hm
    exact h2.1 hm
  have pair_ne : ∀ (y : Hold), pairOf y ≠ pairOf x → ¬ (y.name = x.name ∧ y.key = x.key) := by
    intro y hy ⟨e1, e2⟩; apply hy; simp [pairOf, e1, e2]
  -- the failure path: the hold is dropped from the bookkeeping, the table keeps its keys
  have fail : ∀ (lk' : M), (∀ n, (o.get lk' n).map (fun r => (r.size, r.keys, r.q)) = (o.get t.locks n).map (fun r => (r.size, r.keys, r.q))) →
      RJ o s0 nreq now (P ++ [(sid, x)]) R { removeBook t x.name x.key with locks := lk' } := by
    intro lk' hlk
    have hget : ∀ n r', o.get lk' n = some r' → ∃ r, o.get t.locks n = some r ∧ r'.size = r.size ∧ r'.keys = r.keys ∧ r'.q = r.q := by
      intro n r' hg
      have := hlk n
      rw [hg] at this
      cases hg0 : o.get t.locks n with
      | none => rw [hg0] at this; cases this
      | some r => rw [hg0] at this; simp at this; exact ⟨r, rfl, this.1, this.2.1, this.2.2⟩
    have hget' : ∀ n r, o.get t.locks n = some r → ∃ r', o.get lk' n = some r' ∧ r'.size = r.size ∧ r'.keys = r.keys ∧ r'.q = r.q := by
      intro n r hg
      have := hlk n
      rw [hg] at this
      cases hg0 : o.get lk' n with
      | none => rw [hg0] at this; cases this
      | some r' => rw [hg0] at this; simp at this; exact ⟨r', rfl, this.1, this.2.1, this.2.2⟩
    have hbk : ∀ sid' y, booked ({ removeBook t x.name x.key with locks := lk' } : St M) sid' y ↔
        booked t sid' y ∧ ¬ (y.name = x.name ∧ y.key = x.key) := by
      intro sid' y
      exact (booked_congr (s' := ({ removeBook t x.name x.key with locks := lk' } : St M)) (s := removeBook t x.name x.key) rfl sid' y).trans
        (booked_removeBook t x.name x.key sid' y)
    refine ⟨h.now, h.nreq, h.pend, rfl, ?_, ?_, ?_, ?_, ?_, h.tu, ?_⟩
    · intro sid' y hb; exact h.sub sid' y ((hbk sid' y).mp hb).1
    · intro q hq
      rw [hbk]
      exact ⟨h.rem q (List.mem_cons_of_mem _ hq), pair_ne q.2 (hnR q hq)⟩
    · intro sid' hs hg
      simp only [removeBook, save, get_mapv] at hg
      cases hg0 : get t.sessions sid' with
      | none => rw [hg0] at hg; cases hg
      | some hs0 =>
        rw [hg0] at hg; simp only [Option.map_some, Option.some.injEq] at hg
        rw [← hg]
        exact filter_map_nodup _ _ _ (h.u2 sid' hs0 hg0)
    · intro q hq hb
      have hb' := (hbk q.1 q.2).mp hb
      rcases List.mem_append.mp hq with hq | hq
      · obtain ⟨r, hg, hk, hsz⟩ := h.bh q hq hb'.1
        obtain ⟨r', hg', e1, e2, _⟩ := hget' _ r hg
        exact ⟨r', hg', by rw [e2]; exact hk, by rw [e1]; exact hsz⟩
      · simp only [List.mem_singleton] at hq
        subst hq
        exact absurd ⟨rfl, rfl⟩ hb'.2
    · intro n r' hg
      obtain ⟨r, hg0, e1, e2, e3⟩ := hget n r' hg
      obtain ⟨hq, hnd', hk⟩ := h.lk n r hg0
      refine ⟨by rw [e3]; exact hq, by rw [e2]; exact hnd', ?_⟩
      intro k hkk
      rw [e2] at hkk
      obtain ⟨sid', hb, hP⟩ := hk k hkk
      refine ⟨sid', ?_, ?_⟩
      · rw [hbk, e1]
        refine ⟨hb, ?_⟩
        have := hnP _ hP
        exact pair_ne _ this
      · rw [e1]; exact List.mem_append_left _ hP
    · intro tk tm hm
      obtain ⟨e, r, hg, hk⟩ := h.tm tk tm hm
      obtain ⟨r', hg', _, e2, _⟩ := hget' _ r hg
      exact ⟨e, r', hg', by rw [e2]; exact hk⟩
  unfold restoreOne
  simp only
  split
  · -- `getLock` refused (size ≤ 0 or size mismatch)
    exact fail t.locks (fun n => rfl)
  · rename_i r hg
    split
    · -- granted
      rename_i hcond
      have hr : r.size = x.size ∧ r.q = [] ∧ r.keys.Nodup ∧
          (∀ k ∈ r.keys, ∃ sid', booked t sid' ⟨x.name, k, r.size⟩ ∧ (sid', (⟨x.name, k, r.size⟩ : Hold)) ∈ P) ∧
          (∀ r1, o.get t.locks x.name = some r1 → r1.size = r.size ∧ r1.keys = r.keys) := by
        rcases getLockCreate_cases hg with ⟨r0, hg0, er, esz⟩ | ⟨hg0, er⟩
        · obtain ⟨a1, a2, a3⟩ := h.lk x.name r0 hg0
          subst er
          refine ⟨esz.symm, a1, a2, a3, ?_⟩
          intro r1 hg1; rw [hg0] at hg1; cases hg1; exact ⟨rfl, rfl⟩
        · subst er
          refine ⟨rfl, rfl, List.nodup_nil, (by intro k hk; cases hk), ?_⟩
          intro r1 hg1; rw [hg0] at hg1; cases hg1
      obtain ⟨hsz, hq0, hnd0, hkeys, hsame⟩ := hr
      have hxeta : (⟨x.name, x.key, r.size⟩ : Hold) = x := by rw [hsz]
      -- work with an arbitrary state that has the fields of the granted branch
      suffices key : ∀ (t' : St M), t'.now = t.now → t'.nreq = t.nreq → t'.pending = t.pending → t'.file = t.file →
          t'.sessions = t.sessions → t'.locks = o.set t.locks x.name { r with keys := r.keys ++ [x.key] } →
          t'.timers = set t.timers (tkey x.name x.key) ⟨t.now + c.dlt, x.name, x.key, sid⟩ →
          RJ o s0 nreq now (P ++ [(sid, x)]) R t' from key _ rfl rfl rfl rfl rfl rfl rfl
      intro t' e1 e2 e3 e4 e5 e6 e7
      have hbk : ∀ sid' y, booked t' sid' y ↔ booked t sid' y := fun sid' y => booked_congr e5 sid' y
      have hheld : ∀ n k, held o t n k → held o t' n k := by
        intro n k ⟨r1, hg1, hk1⟩
        simp only [held, e6, ho.get_set]
        by_cases e : x.name = n
        · subst e
          simp only [if_true]
          refine ⟨_, rfl, ?_⟩
          rw [← (hsame r1 hg1).2]
          exact List.mem_append_left _ hk1
        · simp only [e, if_false]; exact ⟨r1, hg1, hk1⟩
      refine ⟨e1.trans h.now, e2.trans h.nreq, e3.trans h.pend, by rw [e4, e5]; exact h.file, ?_, ?_, (by rw [e5]; exact h.u2), ?_, ?_, (by rw [e7]; exact uniq_set _ _ _ h.tu), ?_⟩
      · intro sid' y hb; exact h.sub sid' y ((hbk sid' y).mp hb)
      · intro q hq; exact (hbk q.1 q.2).mpr (h.rem q (List.mem_cons_of_mem _ hq))
      · intro q hq hb
        have hb' := (hbk q.1 q.2).mp hb
        simp only [e6, ho.get_set]
        rcases List.mem_append.mp hq with hq | hq
        · obtain ⟨r1, hg1, hk1, hsz1⟩ := h.bh q hq hb'
          by_cases e : x.name = q.2.name
          · simp only [e, if_true]
            rw [← e] at hg1
            refine ⟨_, rfl, ?_, ?_⟩
            · rw [← (hsame r1 hg1).2]; exact List.mem_append_left _ hk1
            · simp only; rw [← (hsame r1 hg1).1]; exact hsz1
          · simp only [e, if_false]; exact ⟨r1, hg1, hk1, hsz1⟩
        · simp only [List.mem_singleton] at hq
          subst hq
          simp only [if_true]
          exact ⟨_, rfl, by simp, hsz⟩
      · intro n r'' hg''
        simp only [e6, ho.get_set] at hg''
        by_cases e : x.name = n
        · subst e
          simp only [if_true, Option.some.injEq] at hg''
          subst hg''
          refine ⟨hq0, ?_, ?_⟩
          · rw [List.nodup_append]
            refine ⟨hnd0, by simp, ?_⟩
            intro a ha b hb hab
            simp only [List.mem_singleton] at hb
            subst hb
            rw [hab] at ha
            obtain ⟨sid', _, hP⟩ := hkeys x.key ha
            exact hnP _ hP (by simp [pr, pairOf])
          · intro k hk
            rcases List.mem_append.mp hk with hk | hk
            · obtain ⟨sid', hb, hP⟩ := hkeys k hk
              exact ⟨sid', (hbk _ _).mpr hb, List.mem_append_left _ hP⟩
            · simp only [List.mem_singleton] at hk
              subst hk
              refine ⟨sid, ?_, ?_⟩
              · rw [hbk]; simp only; rw [hxeta]; exact hbx
              · simp only; rw [hxeta]; simp
        · simp only [e, if_false] at hg''
          obtain ⟨a1, a2, a3⟩ := h.lk n r'' hg''
          refine ⟨a1, a2, ?_⟩
          intro k hk
          obtain ⟨sid', hb, hP⟩ := a3 k hk
          exact ⟨sid', (hbk _ _).mpr hb, List.mem_append_left _ hP⟩
      · intro tk tm hm
        rw [e7] at hm
        rcases mem_set hm with h1 | h1
        · cases h1
          refine ⟨rfl, ?_⟩
          simp only [held, e6, ho.get_set, if_true]
          exact ⟨_, rfl, by simp⟩
        · obtain ⟨e, hh⟩ := h.tm tk tm h1
          exact ⟨e, hheld _ _ hh⟩
    · -- full: dropped; the record only gets its idle clock refreshed
      have hlk : ∀ n, (o.get (o.set (removeBook t x.name x.key).locks x.name r) n).map (fun r => (r.size, r.keys, r.q))
          = (o.get t.locks n).map (fun r => (r.size, r.keys, r.q)) := by
        intro n
        rw [removeBook_locks, ho.get_set]
        by_cases e : x.name = n
        · subst e
          simp only [if_true]
          rcases getLockCreate_cases hg with ⟨r0, hg0, er, _⟩ | ⟨hg0, er⟩
          · rw [hg0, er]; rfl
          · exfalso
            rename_i hcond
            apply hcond
            have hpos : ¬ x.size ≤ 0 := by intro hle; simp [getLockCreate, hle] at hg
            rw [er]
            simp only [List.length_nil, and_true]
            omega
        · simp [e]
      exact fail _ hlk

theorem rj_loop (ho : o.Lawful) {s0 : St M} {nreq now : Nat} : ∀ (R P : List (Sid × Hold)) (t : St M),
    ((P ++ R).map pr).Nodup → RJ o s0 nreq now P R t →
    RJ o s0 nreq now (P ++ R) [] (R.foldl (fun s p => restoreOne o c s p.1 p.2) t) := by
  intro R
  induction R with
  | nil => intro P t _ h; simpa using h
  | cons p R ih =>
    intro P t hnd h
    simp only [List.foldl_cons]
    have := ih (P ++ [p]) _ (by simpa using hnd) (rj_step (c := c) ho hnd h)
    simpa using this

theorem abandonAll_nreq (ps : List Pending) (e : Err) : ∀ (s : St M) (ev : List Event),
    (ps.foldl (fun (acc : St M × List Event) p =>
      let (s', ev) := abandon o acc.1 p e
      (s', acc.2 ++ ev)) (s, ev)).1.nreq = s.nreq := by
  induction ps with
  | nil => intro s ev; rfl
  | cons p ps ih =>
    intro s ev
    simp only [List.foldl_cons]
    have := ih (abandon o s p e).1 (ev ++ (abandon o s p e).2)
    simpa [abandon] using this

/-- the reachability invariant together with session-id uniqueness -/
def InvS (o : MapOps M) (c : Cfg) (s : St M) : Prop := Inv' o c s ∧ SU s

/-- **restart preserves the invariant** -/
theorem restart_inv' (ho : o.Lawful) {s : St M} (h : Inv' o c s) (hsu : SU s) : Inv' o c (restart o c s).1 := by
  unfold restart
  simp only [abandonAll_now, abandonAll_file]
  have hnr : (abandonAll o s s.pending Err.canceled).1.nreq = s.nreq := abandonAll_nreq _ _ s []
  rw [hnr]
  generalize hl : (if c.hasFile = true then s.file else []) = loaded
  -- what the loaded table inherits from the reachable state
  have hU : Uniq loaded := by
    rw [← hl]; split
    · exact hsu.2
    · simp [Uniq]
  have hF2 : ∀ sid hs, get loaded sid = some hs → get s.sessions sid = some hs := by
    intro sid hs hg
    rw [← hl] at hg
    split at hg
    · rcases h.fs sid with e | ⟨e, _⟩
      · rw [← e]; exact hg
      · rw [e] at hg; cases hg
    · simp [AMap.get] at hg
  have hmem : ∀ e ∈ loaded, get loaded e.1 = some e.2 := fun e he => uniq_get_of_mem _ _ _ hU he
  have hbk0 : ∀ (t0 : St M), t0.sessions = loaded → ∀ sid x, booked t0 sid x → booked s sid x := by
    intro t0 e0 sid x ⟨hs, hg, hx⟩
    rw [e0] at hg
    exact ⟨hs, hF2 sid hs hg, hx⟩
  have hG1 : ((flat loaded).map pr).Nodup := by
    apply flat_pairs_nodup loaded hU
    · intro e he; exact h.u2 e.1 e.2 (hF2 _ _ (hmem e he))
    · intro e1 he1 e2 he2 x1 hx1 x2 hx2 hp
      exact h.u1 e1.1 e2.1 x1 x2 ⟨e1.2, hF2 _ _ (hmem e1 he1), hx1⟩ ⟨e2.2, hF2 _ _ (hmem e2 he2), hx2⟩ hp
  rw [restoreAll_flat]
  generalize hs0 : (⟨s.now, o.empty, [], loaded, loaded, [], s.now + c.gcInterval, s.nreq⟩ : St M) = s0
  have hinit : RJ o s0 s.nreq s.now [] (flat loaded) s0 := by
    subst hs0
    refine ⟨rfl, rfl, rfl, rfl, fun _ _ hb => hb, ?_, ?_, ?_, ?_, by simp [Uniq], ?_⟩
    · intro p hp
      obtain ⟨e, he, e1, hx⟩ := mem_flat.mp hp
      exact ⟨e.2, by rw [← e1]; exact hmem e he, hx⟩
    · intro sid hs hg; exact h.u2 sid hs (hF2 sid hs hg)
    · intro p hp; cases hp
    · intro n r hg; simp only [ho.get_empty] at hg; cases hg
    · intro tk tm hm; cases hm
  have hfin := rj_loop (c := c) ho (flat loaded) [] s0 (by simpa using hG1) hinit
  simp only [List.nil_append] at hfin
  generalize (flat loaded).foldl (fun s p => restoreOne o c s p.1 p.2) s0 = t at hfin
  have hs0s : s0.sessions = loaded := by subst hs0; rfl
  have hinL : ∀ sid x, booked t sid x → (sid, x) ∈ flat loaded := by
    intro sid x hb
    obtain ⟨hs, hg, hx⟩ := hfin.sub sid x hb
    rw [hs0s] at hg
    exact mem_flat.mpr ⟨(sid, hs), get_some_mem _ _ _ hg, rfl, hx⟩
  have hfresh : ∀ sid x, booked t sid x → ∃ i, i < s.nreq ∧ x.key = c.genKey i := by
    intro sid x hb
    have hbs := hbk0 s0 hs0s sid x (hfin.sub sid x hb)
    rcases h.bh sid x hbs with ⟨r, hg, hk, _⟩ | hx
    · exact (h.recs x.name r hg).fresh x.key (List.mem_append_left _ hk)
    · cases hx
  refine ⟨hfin.tu, ?_, ?_, ?_, ?_, ?_, hfin.u2, ?_, ?_, ?_, ?_⟩
  · intro n r hg
    obtain ⟨hq, hnd, hk⟩ := hfin.lk n r hg
    rw [hfin.nreq]
    refine ⟨by simp [allKeys, hq, hnd], ?_⟩
    intro k hkk
    simp only [allKeys, hq, List.map_nil, List.append_nil] at hkk
    obtain ⟨sid, hb, _⟩ := hk k hkk
    exact hfresh sid _ hb
  · intro n r hg p hp
    rw [(hfin.lk n r hg).1] at hp; cases hp
  · intro tk tm hm
    obtain ⟨e, hh⟩ := hfin.tm tk tm hm
    exact ⟨e, Or.inl hh⟩
  · intro sid x hb
    exact Or.inl (hfin.bh (sid, x) (hinL sid x hb) hb)
  · intro sid1 sid2 x1 x2 hb1 hb2 hp
    exact h.u1 sid1 sid2 x1 x2 (hbk0 s0 hs0s _ _ (hfin.sub _ _ hb1)) (hbk0 s0 hs0s _ _ (hfin.sub _ _ hb2)) hp
  · intro _ n r k hg hk
    obtain ⟨sid, hb, _⟩ := (hfin.lk n r hg).2.2 k hk
    exact Or.inl ⟨sid, hb⟩
  · intro p hp; cases hp
  · intro p hp; cases hp
  · intro sid; left; rw [hfin.file]

theorem restart_invS (ho : o.Lawful) {s : St M} (h : InvS o c s) : InvS o c (restart o c s).1 :=
  ⟨restart_inv' ho h.1 h.2, su_restart h.2⟩

theorem Blocks.and {P Q : St M → Prop} (bp : Blocks (o := o) (c := c) P) (bq : Blocks (o := o) (c := c) Q) :
    Blocks (o := o) (c := c) (fun s => P s ∧ Q s) where
  connect := fun s sid h => ⟨bp.connect s sid h.1, bq.connect s sid h.2⟩
  abandon := fun s p e h => ⟨bp.abandon s p e h.1, bq.abandon s p e h.2⟩
  destroy := fun s sid h => ⟨bp.destroy s sid h.1, bq.destroy s sid h.2⟩
  tryLock := fun s sid n sz lt h => ⟨bp.tryLock s sid n sz lt h.1, bq.tryLock s sid n sz lt h.2⟩
  lock := fun s sid n sz lt wt h => ⟨bp.lock s sid n sz lt wt h.1, bq.lock s sid n sz lt wt h.2⟩
  unlock := fun s n k h => ⟨bp.unlock s n k h.1, bq.unlock s n k h.2⟩
  renew := fun s n k t h => ⟨bp.renew s n k t h.1, bq.renew s n k t h.2⟩
  tick := fun s t h => ⟨bp.tick s t h.1, bq.tick s t h.2⟩
  fire := fun s tk tm hm h => ⟨bp.fire s tk tm hm h.1, bq.fire s tk tm hm h.2⟩
  gc := fun s mi g h => ⟨bp.gc s mi g h.1, bq.gc s mi g h.2⟩

/-- **the reachability invariant is preserved by every operation, restart included** -/
theorem step_invS (ho : o.Lawful) (hinj : KeysInjective c) {s : St M} (h : InvS o c s) (op : Op) :
    InvS o c (step o c s op).1 :=
  ((inv_blocks ho hinj).and su_blocks).step (fun _ hs => restart_invS ho hs) h op

theorem init_invS (ho : o.Lawful) : InvS o c (init o c : St M) :=
  ⟨init_inv' ho, by simp [SU, init, Uniq]⟩

/-- … hence it holds in every reachable state of every history -/
theorem run_invS (ho : o.Lawful) (hinj : KeysInjective c) (ops : List Op) : InvS o c (run o c ops) :=
  ((inv_blocks ho hinj).and su_blocks).run (fun _ hs => restart_invS ho hs) (init_invS ho) ops

end Ldlm.Core
