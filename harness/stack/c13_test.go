// C13 (real binary): the collector's configuration corners. In virtual time (seq, conc streams) an
// interval of 0 cannot run - the collector goroutine would never block - so the extreme intervals and
// minimum idle times are exercised here on the real cmd/server: "for every collection interval and
// minimum idle time it never makes a request fail or the server panic".
package stack

import (
	"fmt"
	"syscall"
	"testing"
	"time"

	pb "github.com/imoore76/ldlm/protos"

	"verif/harness/common"
)

func runC13(t *testing.T, res *common.Result, rng *common.Rng) {
	res.Rule = "the real server with --lock_gc_interval in {0s, 1ns, 1ms, 50ms} x --lock_gc_min_idle in {0s, 1ns, 20ms}: for 400 ms two gRPC clients take and release three names (TryLock, Unlock with the granted key, sizes fixed per name), a blocked Lock waits on a held name across many collection passes; every response must be what it is without a collector (grant on a free lock, unlocked=true with the granted key, no error), the server must still run at the end and exit with status 0 on SIGTERM. distinct = (interval, min idle); non-trivial = interval below 50 ms"
	for _, gi := range []string{"0s", "1ns", "1ms", "50ms"} {
		for _, mi := range []string{"0s", "1ns", "20ms"} {
			c13Scenario(t, res, gi, mi)
		}
	}
}

func c13Scenario(t *testing.T, res *common.Result, gi, mi string) {
	res.Eval("gc-interval="+gi+"|min-idle="+mi, gi != "50ms")
	res.Count("gc-interval:" + gi)
	replay := map[string]any{"server_flags": []string{"--lock_gc_interval", gi, "--lock_gc_min_idle", mi}}
	find := func(sig, what string, extra map[string]any) {
		rp := map[string]any{}
		for k, v := range replay {
			rp[k] = v
		}
		for k, v := range extra {
			rp[k] = v
		}
		res.Find(common.Finding{Kind: "violation", Property: "C13", Signature: "stack:gc:" + sig, What: what, Replay: rp})
	}
	srv := startServer(t, srvCfg{extra: []string{"--lock_gc_interval", gi, "--lock_gc_min_idle", mi}})
	defer srv.kill()
	if !srv.started {
		find("server-died", fmt.Sprintf("the server does not come up with --lock_gc_interval %s --lock_gc_min_idle %s", gi, mi), map[string]any{"log_tail": srv.logTail(30)})
		return
	}
	g1, g2 := dialGrpc(t, srv.grpcAddr, nil), dialGrpc(t, srv.grpcAddr, nil)
	defer g1.close()
	defer g2.close()
	names := []string{"gc-a", "gc-b", "gc-c"}
	sizes := []int32{1, 2, 1}
	// a waiter blocked on a held name while the collector runs
	ctx0, cancel0 := rpcCtx(5 * time.Second)
	held, err := g1.c.TryLock(ctx0, &pb.TryLockRequest{Name: "gc-held", Size: i32(1)})
	cancel0()
	if err != nil || !held.Locked {
		find("request-failed", fmt.Sprintf("TryLock(gc-held) on a fresh server: %v %v", held, err), map[string]any{"log_tail": srv.logTail(30)})
		return
	}
	waiter := make(chan string, 1)
	go func() {
		ctx, cancel := rpcCtx(10 * time.Second)
		defer cancel()
		r, err := g2.c.Lock(ctx, &pb.LockRequest{Name: "gc-held", Size: i32(1)})
		switch {
		case err != nil:
			waiter <- "transport error: " + err.Error()
		case r.Error != nil:
			waiter <- "error " + r.Error.Code.String()
		case !r.Locked:
			waiter <- "locked=false"
		default:
			waiter <- "ok"
		}
	}()
	end := time.Now().Add(400 * time.Millisecond)
	n := 0
	for time.Now().Before(end) {
		i := n % len(names)
		n++
		ctx, cancel := rpcCtx(5 * time.Second)
		r, err := g1.c.TryLock(ctx, &pb.TryLockRequest{Name: names[i], Size: i32(sizes[i])})
		cancel()
		if err != nil || r.Error != nil || !r.Locked {
			find("request-failed", fmt.Sprintf("TryLock(%s, size %d) on a free lock answered %v (transport error %v) while only the collector ran", names[i], sizes[i], r, err), map[string]any{"log_tail": srv.logTail(30)})
			return
		}
		ctx, cancel = rpcCtx(5 * time.Second)
		u, err := g1.c.Unlock(ctx, &pb.UnlockRequest{Name: names[i], Key: r.Key})
		cancel()
		if err != nil || u.Error != nil || !u.Unlocked {
			find("request-failed", fmt.Sprintf("Unlock(%s) with the key just granted answered %v (transport error %v) while only the collector ran", names[i], u, err), map[string]any{"log_tail": srv.logTail(30)})
			return
		}
		if n%7 == 0 {
			time.Sleep(3 * time.Millisecond) // let idle periods longer than the minimum idle time occur
		}
	}
	res.CountN("requests", 2*n)
	// release the held lock: the waiter must get it
	ctx1, cancel1 := rpcCtx(5 * time.Second)
	u, err := g1.c.Unlock(ctx1, &pb.UnlockRequest{Name: "gc-held", Key: held.Key})
	cancel1()
	if err != nil || !u.Unlocked {
		find("request-failed", fmt.Sprintf("Unlock(gc-held) by its holder answered %v (transport error %v)", u, err), map[string]any{"log_tail": srv.logTail(30)})
		return
	}
	select {
	case w := <-waiter:
		if w != "ok" {
			find("waiter-failed", "a Lock blocked on a held name across the collection passes ended with "+w+" when the holder unlocked", map[string]any{"log_tail": srv.logTail(30)})
			return
		}
	case <-time.After(5 * time.Second):
		find("waiter-failed", "a Lock blocked on a held name was not granted within 5 s after the holder unlocked", map[string]any{"log_tail": srv.logTail(30)})
		return
	}
	if srv.exited() {
		find("server-died", "the server process ended while only requests and the collector ran", map[string]any{"log_tail": srv.logTail(40)})
		return
	}
	if err := srv.signal(syscall.SIGTERM); err != nil {
		t.Fatalf("cannot signal the server: %v", err)
	}
	if code, signaled, ok := srv.waitExit(10 * time.Second); !ok || signaled || code != 0 {
		find("exit", fmt.Sprintf("after SIGTERM: exited=%v killed-by-signal=%v status=%d (required: exit status 0)", ok, signaled, code), map[string]any{"log_tail": srv.logTail(40)})
	}
}
