import Ldlm.Model.Core
import Ldlm.Proofs.MapOps
/-! The induction principle for M2: `step` and `advanceTo` are compositions of ten macro blocks, so a
state predicate preserved by each block holds in every reachable state.  Plus the membership lemmas
about association lists that the block proofs share. -/
namespace Ldlm.Core

variable {M : Type} {o : MapOps M} {c : Cfg}

/-! ### association lists: membership under `set` / `del` -/

theorem mem_set {α β} [DecidableEq α] {m : List (α × β)} {k : α} {v : β} {p : α × β}
    (h : p ∈ AMap.set m k v) : p = (k, v) ∨ p ∈ m := by
  induction m with
  | nil => simp [AMap.set] at h; exact Or.inl h
  | cons e m ih =>
    obtain ⟨a, b⟩ := e
    unfold AMap.set at h
    split at h
    · rename_i hak
      simp at h
      rcases h with h | h
      · left; rw [h, hak]
      · right; exact List.mem_cons_of_mem _ h
    · simp at h
      rcases h with h | h
      · right; rw [h]; simp
      · rcases ih h with h' | h'
        · exact Or.inl h'
        · exact Or.inr (List.mem_cons_of_mem _ h')

theorem mem_del {α β} [DecidableEq α] {m : List (α × β)} {k : α} {p : α × β}
    (h : p ∈ AMap.del m k) : p ∈ m ∧ p.1 ≠ k := by
  induction m with
  | nil => simp [AMap.del] at h
  | cons e m ih =>
    obtain ⟨a, b⟩ := e
    unfold AMap.del at h
    split at h
    · have := ih h; exact ⟨List.mem_cons_of_mem _ this.1, this.2⟩
    · rename_i hak
      simp at h
      rcases h with h | h
      · rw [h]; exact ⟨by simp, hak⟩
      · have := ih h; exact ⟨List.mem_cons_of_mem _ this.1, this.2⟩

theorem earliestLease_mem {s : St M} {e : Str × Timer} (h : earliestLease s = some e) : e ∈ s.timers := by
  unfold earliestLease at h
  have : ∀ (l : List (Str × Timer)) (acc : Option (Str × Timer)) (e : Str × Timer),
      l.foldl (fun acc e => match acc with
        | none => some e
        | some a => if e.2.deadline < a.2.deadline then some e else some a) acc = some e →
      e ∈ l ∨ acc = some e := by
    intro l
    induction l with
    | nil => intro acc e h; right; simpa using h
    | cons x l ih =>
      intro acc e h
      simp only [List.foldl_cons] at h
      rcases ih _ _ h with h' | h'
      · left; exact List.mem_cons_of_mem _ h'
      · cases acc with
        | none => simp at h'; left; rw [← h']; simp
        | some a =>
          simp only at h'
          split at h'
          · simp at h'; left; rw [← h']; simp
          · right; exact h'
  rcases this _ _ _ h with h' | h'
  · exact h'
  · cases h'

/-! ### the block principle -/

structure Blocks (P : St M → Prop) : Prop where
  connect : ∀ s sid, P s → P (step o c s (.connect sid)).1
  abandon : ∀ s p e, P s → P (abandon o s p e).1
  destroy : ∀ s sid, P s → P (destroy o c s sid).1
  tryLock : ∀ s sid n sz lt, P s → P (srvTryLock o c s sid n sz lt).1
  lock    : ∀ s sid n sz lt wt, P s → P (srvLock o c s sid n sz lt wt).1
  unlock  : ∀ s n k, P s → P (srvUnlock o s n k).1
  renew   : ∀ s n k t, P s → P (srvRenew s n k t).1
  tick    : ∀ s t, P s → P { s with now := max s.now t }
  fire    : ∀ s tk tm, (tk, tm) ∈ s.timers → P s → P (fireLease o s tk tm).1
  gc      : ∀ s mi g, P s → P { gcPass o s mi with gcNext := g }

variable {P : St M → Prop}

theorem Blocks.abandonAll (b : Blocks (o := o) (c := c) P) (ps : List Pending) (e : Err) :
    ∀ {s : St M} (ev : List Event), P s → P (ps.foldl (fun (acc : St M × List Event) p =>
      let (s', ev) := Ldlm.Core.abandon o acc.1 p e
      (s', acc.2 ++ ev)) (s, ev)).1 := by
  induction ps with
  | nil => intro s ev h; exact h
  | cons p ps ih => intro s ev h; simp only [List.foldl_cons]; exact ih _ (b.abandon _ p e h)

theorem Blocks.advanceTo (b : Blocks (o := o) (c := c) P) (target : Nat) : ∀ (fuel : Nat) {s : St M},
    P s → P (advanceTo o c target fuel s).1 := by
  intro fuel
  induction fuel with
  | zero => intro s h; exact b.tick s target h
  | succ f ih =>
    intro s h
    unfold Ldlm.Core.advanceTo
    simp only
    split
    · exact b.tick s target h
    · split
      · exact b.tick s target h
      · apply ih
        rename_i t _ _
        have h0 : P { s with now := max s.now t } := b.tick s t h
        split
        · split
          · rename_i tk tm he
            exact b.fire _ tk tm (earliestLease_mem he) h0
          · exact h0
        · split
          · split
            · exact b.abandon _ _ _ h0
            · exact h0
          · have := b.gc { s with now := max s.now t } c.gcMinIdle (t + c.gcInterval) h0
            exact this

/-- every operation except `restart` preserves a block-wise invariant; `restart` needs its own lemma -/
theorem Blocks.step (b : Blocks (o := o) (c := c) P) (hr : ∀ s, P s → P (restart o c s).1)
    {s : St M} (h : P s) (op : Op) : P (step o c s op).1 := by
  cases op with
  | connect sid => exact b.connect s sid h
  | disconnect sid =>
    simp only [Ldlm.Core.step]
    exact b.destroy _ sid (b.abandonAll _ _ [] h)
  | tryLock sid n sz lt => exact b.tryLock s sid n sz lt h
  | lock sid n sz lt wt => exact b.lock s sid n sz lt wt h
  | unlock sid n k => exact b.unlock s n k h
  | renew n k t => exact b.renew s n k t h
  | advance dt => simp only [Ldlm.Core.step]; exact b.advanceTo _ _ h
  | gc mi =>
    have := b.gc s mi s.gcNext h
    exact this
  | restart => simp only [Ldlm.Core.step]; exact hr s h
  | ipcUnlock n k ch =>
    simp only [Ldlm.Core.step]
    split
    · exact h
    · exact b.unlock s n _ h
  | cancel req =>
    simp only [Ldlm.Core.step]
    split
    · exact h
    · exact b.abandon s _ .canceled h

def run (o : MapOps M) (c : Cfg) (ops : List Op) : St M :=
  ops.foldl (fun s op => (step o c s op).1) (init o c)

theorem Blocks.run (b : Blocks (o := o) (c := c) P) (hr : ∀ s, P s → P (restart o c s).1)
    (h0 : P (init o c)) (ops : List Op) : P (run o c ops) := by
  unfold Ldlm.Core.run
  have : ∀ (s : St M), P s → P (ops.foldl (fun s op => (Ldlm.Core.step o c s op).1) s) := by
    induction ops with
    | nil => intro s h; exact h
    | cons op ops ih => intro s h; exact ih _ (b.step hr h op)
  exact this _ h0

end Ldlm.Core
