import Ldlm.Generated.Facts
/-!
Pins: the normalised source text of the small decision functions the hand-written models M4/M6/M7
were written against.  `Generated/Facts.lean` is regenerated from /repo on every run; each `pin_*`
theorem below breaks when the function's text changes (comment-only and whitespace-only edits do
not change the normalised text).  A broken pin is a broken proof obligation: the models may no
longer describe the code, and the check then searches the implementation for a failing input.
This file is written by hand (copied from the facts at the time the models were written) and is
NOT regenerated.

This file: the functions the models of C16 are written against. A change to one of them breaks
exactly the checks of the properties that pin it.
-/
namespace Ldlm.Pins.C16
open Ldlm

def expectedGetTLSConfig : String := "{ useTls := false tlsConfig := &tls.Config{} if conf.TlsCert != \"\" { serverCert, err := tls.LoadX509KeyPair(conf.TlsCert, conf.TlsKey) if err != nil { return nil, fmt.Errorf(\"LoadX509KeyPair() error loading cert: %w\", err) } tlsConfig.Certificates = []tls.Certificate{serverCert} useTls = true } if conf.ClientCA != \"\" { caPem, err := os.ReadFile(conf.ClientCA) if err != nil { return nil, fmt.Errorf(\"os.ReadFile() failed to read ca cert: %w\", err) } certPool := x509.NewCertPool() if !certPool.AppendCertsFromPEM(caPem) { return nil, fmt.Errorf(\"AppendCertsFromPEM() failed to append client ca cert\") } tlsConfig.ClientCAs = certPool tlsConfig.ClientAuth = tls.RequireAndVerifyClientCert useTls = true } else if conf.ClientCertVerify { tlsConfig.ClientAuth = tls.RequireAndVerifyClientCert useTls = true } if useTls && conf.TlsCert == \"\" { return nil, fmt.Errorf(\"client TLS certificate verification requires server TLS to be configured\") } if useTls { return tlsConfig, nil } return nil, nil }"

theorem pin_GetTLSConfig : Facts.bodyGetTLSConfig = expectedGetTLSConfig := rfl

def expectedValidatePassword : String := "{ isValid := func() bool { if h.password == \"\" { return true } auth := strings.Split(r.Header.Get(\"Authorization\"), \"Basic \") if len(auth) != 2 { return false } decoded, err := base64.StdEncoding.DecodeString(auth[1]) if err != nil { return false } password := strings.SplitN(string(decoded), \":\", 2) if len(password) != 2 { return false } if password[1] == h.password { return true } return false }() if !isValid { slog.Warn( \"Invalid password from client\", \"client_addr\", r.RemoteAddr, ) w.Header().Set(\"WWW-Authenticate\", `Basic realm=\"Restricted\"`) w.WriteHeader(http.StatusUnauthorized) } return isValid }"

theorem pin_ValidatePassword : Facts.bodyValidatePassword = expectedValidatePassword := rfl

def expectedServeHTTP : String := "{ if ok := h.ValidatePassword(w, r); !ok { return } if r.URL.Path == sessionPath && r.Method == http.MethodPost { h.CreateSession(w, r) return } else if r.URL.Path == sessionPath && r.Method == http.MethodDelete { h.DestroySession(w, r) return } s, ok := h.ValidateSession(w, r) if !ok { return } defer s.mtx.Unlock() h.mux.ServeHTTP(w, r.WithContext(s.ctx)) }"

theorem pin_ServeHTTP : Facts.bodyServeHTTP = expectedServeHTTP := rfl

def expectedAuthInterceptor : String := "{ return grpc.UnaryInterceptor( func(ctx context.Context, r interface{}, _ *grpc.UnaryServerInfo, h grpc.UnaryHandler) (interface{}, error) { md, ok := metadata.FromIncomingContext(ctx) if !ok || md[\"authorization\"] == nil { return nil, status.Errorf(codes.Unauthenticated, \"missing credentials\") } if md[\"authorization\"][0] != password { return nil, status.Errorf(codes.Unauthenticated, \"invalid credentials\") } return h(ctx, r) }, ) }"

theorem pin_AuthInterceptor : Facts.bodyAuthInterceptor = expectedAuthInterceptor := rfl

end Ldlm.Pins.C16
