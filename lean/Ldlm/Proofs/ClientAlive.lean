import Ldlm.Proofs.Client
import Ldlm.Proofs.CoreNow
import Ldlm.Proofs.CoreLease
import Ldlm.Proofs.TKey
import Ldlm.Proofs.CoreRestart
/-! M5: while the client is alive every hold with a lock timeout above the minimum renew interval
keeps its lease, for every advance of the clock: each Renew arrives before the deadline. -/
namespace Ldlm.Client
open Ldlm Ldlm.Core Ldlm.AMap
variable {M : Type} {o : MapOps M} {c : Cfg} {cc : CCfg}

theorem earliest_none {rs : List (Str × Renewer)} (h : earliest rs = none) : rs = [] := by
  cases rs with
  | nil => rfl
  | cons e rest =>
    simp only [earliest] at h
    split at h
    · cases h
    · split at h <;> cases h

theorem earliest_mem : ∀ {rs : List (Str × Renewer)} {e}, earliest rs = some e → e ∈ rs := by
  intro rs
  induction rs with
  | nil => intro e h; cases h
  | cons x rest ih =>
    intro e h
    simp only [earliest] at h
    split at h
    · cases h; simp
    · rename_i a ha
      split at h
      · cases h; exact List.mem_cons_of_mem _ (ih ha)
      · cases h; simp

theorem earliest_le : ∀ {rs : List (Str × Renewer)} {e}, earliest rs = some e → ∀ x ∈ rs, e.2.next ≤ x.2.next := by
  intro rs
  induction rs with
  | nil => intro e h; cases h
  | cons y rest ih =>
    intro e h x hx
    simp only [earliest] at h
    split at h
    · rename_i hn
      cases h
      have := earliest_none hn
      subst this
      simp at hx; subst hx; exact Nat.le_refl _
    · rename_i a ha
      have hle := ih ha
      split at h
      · cases h
        rcases List.mem_cons.mp hx with rfl | hx
        · omega
        · exact hle x hx
      · cases h
        rcases List.mem_cons.mp hx with rfl | hx
        · exact Nat.le_refl _
        · have := hle x hx; omega

/-- every renewer's next Renew comes before its hold's lease deadline -/
structure Alive (o : MapOps M) (c : Cfg) (cc : CCfg) (s : CSt M) : Prop where
  inv  : InvS o c s.srv
  np   : s.panicked = none
  nc   : s.closed = false
  uniq : Uniq s.rs
  live : ∀ name ρ, get s.rs name = some ρ → cc.minRenew < ρ.lt ∧ s.srv.now ≤ ρ.next ∧
           ∃ tm, get s.srv.timers (tkey name ρ.key) = some tm ∧ ρ.next < tm.deadline

def Rpc.goodRenew : Rpc → Prop
  | .renew _ _ _ _ ok err => ok = true ∧ err = none
  | _ => False

theorem toNat_lt {a b : Int} (ha : 0 < a) (h : a < b) : a.toNat * sec < b.toNat * sec := by
  have : a.toNat < b.toNat := by omega
  exact Nat.mul_lt_mul_of_pos_right this (by decide)

/-- the server-only advance keeps every renewer alive when no renewer is due before the target -/
theorem alive_advance (ho : o.Lawful) (hinj : KeysInjective c)
    {s : CSt M} (h : Alive o c cc s) (target : Nat) (hlate : ∀ e ∈ s.rs, target ≤ e.2.next) :
    Alive o c cc { s with srv := (Core.step o c s.srv (.advance (target - s.srv.now))).1 } := by
  refine ⟨step_invS ho hinj h.inv _, h.np, h.nc, h.uniq, ?_⟩
  intro name ρ hg
  obtain ⟨h1, h2, tm, h3, h4⟩ := h.live name ρ hg
  have hl := hlate _ (get_some_mem _ _ _ hg)
  simp only at hl
  have hd : s.srv.now + (target - s.srv.now) < tm.deadline := by omega
  refine ⟨h1, ?_, tm, advance_not_early ho hinj h.inv.1 _ _ tm h3 hd, h4⟩
  simp only [advance_now]
  omega

set_option maxHeartbeats 800000 in
/-- **keep-alive**: any advance of the clock leaves every renewer alive, the client unpanicked, and
sends only Renews that succeed -/
theorem cadv_alive (ho : o.Lawful) (hinj : KeysInjective c)
    (hmin : 0 < cc.minRenew) (target : Nat) :
    ∀ (fuel : Nat) (s : CSt M), Alive o c cc s →
      Alive o c cc (cadv o c cc target fuel s).1 ∧ ∀ rpc ∈ (cadv o c cc target fuel s).2.1, rpc.goodRenew := by
  intro fuel
  induction fuel with
  | zero => intro s h; exact ⟨h, by intro rpc hm; simp [cadv] at hm⟩
  | succ f ih =>
    intro s h
    have hpc : (if s.closed then some Panic.outOfSync else s.panicked) = none := by simp [h.nc, h.np]
    unfold cadv
    split
    · rename_i x y hx; rw [hpc] at hx; cases hx
    · rename_i _ hn
      have hnil := earliest_none hn
      refine ⟨alive_advance ho hinj h target (by intro e he; rw [hnil] at he; cases he), by intro rpc hm; cases hm⟩
    · rename_i name ρ _ he
      clear hpc
      split
      · rename_i hgt
        refine ⟨alive_advance ho hinj h target ?_, by intro rpc hm; cases hm⟩
        intro e hm
        have := earliest_le he e hm
        simp only at this
        omega
      · rename_i hle
        have hmem := earliest_mem he
        have hget : get s.rs name = some ρ := uniq_get_of_mem _ _ _ h.uniq hmem
        obtain ⟨hlt, hnow, tm, htm, hdl⟩ := h.live name ρ hget
        -- the server advances to the renew instant
        have hA := alive_advance (cc := cc) ho hinj h ρ.next (by
          intro e hm
          have := earliest_le he e hm
          simpa using this)
        -- the Renew finds the lease timer and re-arms it
        have hnow' : (Core.step o c s.srv (.advance (ρ.next - s.srv.now))).1.now = ρ.next := by
          rw [advance_now]; omega
        obtain ⟨_, _, tm1, htm1, _⟩ := hA.live name ρ hget
        simp only at htm1
        have hAinv := hA.inv
        have hAlive := hA.live
        simp only at hAinv hAlive
        clear hA
        dsimp only
        generalize (Core.step o c s.srv (.advance (ρ.next - s.srv.now))).1 = s1 at *
        have hpos : ¬ ρ.lt ≤ 0 := by omega
        have hq : Core.step o c s1 (.renew name ρ.key ρ.lt)
            = ({ s1 with
                  timers := set s1.timers (tkey name ρ.key)
                    { tm1 with deadline := ρ.next + ρ.lt.toNat * sec } }, { ok := true, key := ρ.key }) := by
          simp only [Core.step, srvRenew, hpos, if_false, htm1, hnow']
        simp only [hq]
        have hI := interval_lt cc.minRenew ρ.lt hmin hlt
        have hipos : 0 < interval cc.minRenew ρ.lt := by omega
        -- the state after this Renew is alive again
        have hS : Alive o c cc { s with
            srv := { s1 with
                  timers := set s1.timers (tkey name ρ.key)
                    { tm1 with deadline := ρ.next + ρ.lt.toNat * sec } },
            rs := set s.rs name ⟨ρ.key, ρ.lt, ρ.next + (interval cc.minRenew ρ.lt).toNat * sec⟩ } := by
          refine ⟨?_, h.np, h.nc, uniq_set _ _ _ h.uniq, ?_⟩
          · have := step_invS ho hinj hAinv (.renew name ρ.key ρ.lt)
            rw [hq] at this
            exact this
          · intro name' ρ' hg'
            simp only [get_set] at hg'
            by_cases hn : name = name'
            · subst hn
              simp only [if_true, Option.some.injEq] at hg'
              subst hg'
              refine ⟨hlt, ?_, { tm1 with deadline := ρ.next + ρ.lt.toNat * sec }, by simp only [get_set, if_true], ?_⟩
              · simp only [hnow']; omega
              · simp only
                have := toNat_lt hipos hI.1
                omega
            · simp only [hn, if_false] at hg'
              obtain ⟨a1, a2, tm', a3, a4⟩ := hAlive name' ρ' hg'
              refine ⟨a1, a2, tm', ?_, a4⟩
              simp only [get_set]
              have : tkey name ρ.key ≠ tkey name' ρ'.key := fun e => hn (tkey_injective e).1
              simp only [this, if_false]
              exact a3
        obtain ⟨i1, i2⟩ := ih _ hS
        refine ⟨i1, ?_⟩
        intro rpc hm
        rcases List.mem_cons.mp hm with rfl | hm
        · simp [Rpc.goodRenew]
        · exact i2 rpc hm

/-! ### requests on one lock name leave the lease timers of every other name alone -/

theorem arm_other (s : St M) (n k : Str) (sid : Sid) (lt : Option Int) (n' k' : Str) (hne : n ≠ n') :
    get (arm s n k sid lt).timers (tkey n' k') = get s.timers (tkey n' k') := by
  have hk : tkey n k ≠ tkey n' k' := fun e => hne (tkey_injective e).1
  unfold arm
  split
  · split
    · simp only [get_set, hk, if_false]
    · rfl
  · rfl

theorem book_other (s : St M) (sid : Sid) (n k : Str) (sz : Int) (lt : Option Int) (n' k' : Str) (hne : n ≠ n') :
    get (book s sid n k sz lt).timers (tkey n' k') = get s.timers (tkey n' k') := by
  unfold book; rw [arm_other _ _ _ _ _ _ _ hne]; rfl

theorem handOver_other (s : St M) (n : Str) (r : LockRec) (n' k' : Str) (hne : n ≠ n') :
    get (handOver o s n r).1.timers (tkey n' k') = get s.timers (tkey n' k') := by
  unfold handOver
  split
  · rfl
  · simp only; rw [book_other _ _ _ _ _ _ _ _ hne]

theorem mgrUnlock_other (s : St M) (n k : Str) (n' k' : Str) (hne : n ≠ n') :
    get (mgrUnlock o s n k).1.timers (tkey n' k') = get s.timers (tkey n' k') := by
  unfold mgrUnlock
  split
  · rfl
  · simp only
    split
    · simp only; rw [handOver_other _ _ _ _ _ hne]
    · rfl

theorem srvUnlock_other (s : St M) (n k : Str) (n' k' : Str) (hne : n ≠ n') :
    get (srvUnlock o s n k).1.timers (tkey n' k') = get s.timers (tkey n' k') := by
  have hk : tkey n k ≠ tkey n' k' := fun e => hne (tkey_injective e).1
  unfold srvUnlock
  simp only
  split
  · show get (removeBook _ n k).timers _ = _
    have : (removeBook (mgrUnlock o { s with timers := del s.timers (tkey n k) } n k).1 n k).timers
        = (mgrUnlock o { s with timers := del s.timers (tkey n k) } n k).1.timers := rfl
    rw [this, mgrUnlock_other _ _ _ _ _ hne]
    simp only [get_del, hk, if_false]
  · rw [mgrUnlock_other _ _ _ _ _ hne]
    simp only [get_del, hk, if_false]

theorem srvTryLock_other (s : St M) (sid : Option Sid) (n : Str) (sz lt : Option Int) (n' k' : Str) (hne : n ≠ n') :
    get (srvTryLock o c s sid n sz lt).1.timers (tkey n' k') = get s.timers (tkey n' k') := by
  unfold srvTryLock
  simp only
  split
  · rfl
  · split
    · rfl
    · split
      · rfl
      · split
        · rfl
        · split
          · rw [book_other _ _ _ _ _ _ _ _ hne]
          · rfl

theorem srvTryLock_no_lease (s : St M) (sid : Option Sid) (n : Str) (sz lt : Option Int)
    (h : lt = none ∨ (srvTryLock o c s sid n sz lt).2.ok = false) :
    (srvTryLock o c s sid n sz lt).1.timers = s.timers := by
  unfold srvTryLock at h ⊢
  simp only at h ⊢
  split
  · rfl
  · split
    · rfl
    · split
      · rfl
      · split
        · rfl
        · split
          · rename_i hcond
            rcases h with h | h
            · subst h; rfl
            · exfalso; simp_all
          · rfl

theorem grant_arms (s : St M) (sid : Sid) (n : Str) (sz : Option Int) (t : Int) (ht : 0 < t)
    (hok : (Core.step o c s (.tryLock (some sid) n sz (some t))).2.ok = true) :
    AMap.get (Core.step o c s (.tryLock (some sid) n sz (some t))).1.timers
      (tkey n (Core.step o c s (.tryLock (some sid) n sz (some t))).2.key)
      = some ⟨s.now + t.toNat * sec, n, (Core.step o c s (.tryLock (some sid) n sz (some t))).2.key, sid⟩ := by
  simp only [Core.step] at hok ⊢
  unfold srvTryLock at hok ⊢
  simp only at hok ⊢
  repeat' split
  all_goals first
    | (simp only [book]; rw [arm_positive _ _ _ _ _ ht]; rfl)
    | simp_all

/-- a client state is fine when it is alive, or dead of the out-of-sync panic (K19a: second hold of a name) -/
def Fine (o : MapOps M) (c : Cfg) (cc : CCfg) (s : CSt M) : Prop :=
  s.panicked = some .outOfSync ∨ Alive o c cc s

/-- the operations the property quantifies over: lock timeouts above the minimum renew interval (or
none: no auto-renew for that hold), the client not closed -/
def COp.inScope (cc : CCfg) : COp → Prop
  | .tryLock _ _ lt => lt = 0 ∨ cc.minRenew < lt
  | .unlock _ _ => True
  | .adv _ => True
  | .close => False

theorem cstep_fine (ho : o.Lawful) (hinj : KeysInjective c)
    (hmin : 0 < cc.minRenew)
    (hauto : cc.noAutoRenew = false)
    {s : CSt M} (h : Alive o c cc s) (op : COp) (hop : op.inScope cc) : Fine o c cc (cstep o c cc s op).1 := by
  cases op with
  | close => exact absurd hop (by simp [COp.inScope])
  | adv dt =>
    right
    simp only [cstep]
    exact (cadv_alive ho hinj hmin _ _ s h).1
  | unlock name key =>
    right
    simp only [cstep, hauto, Bool.false_eq_true, if_false]
    refine ⟨step_invS ho hinj h.inv _, h.np, h.nc, uniq_del _ _ h.uniq, ?_⟩
    intro name' ρ' hg'
    simp only [get_del] at hg'
    by_cases e : name = name'
    · simp [e] at hg'
    · simp only [e, if_false] at hg'
      obtain ⟨a1, a2, tm, a3, a4⟩ := h.live name' ρ' hg'
      refine ⟨a1, ?_, tm, ?_, a4⟩
      · simp only [Core.step, srvUnlock_now]; exact a2
      · simp only [Core.step]; rw [srvUnlock_other _ _ _ _ _ e]; exact a3
  | tryLock name size lt =>
    simp only [cstep, hauto, Bool.false_eq_true, not_false_eq_true, true_and]
    have hnow : (Core.step o c s.srv (.tryLock (some s.sid) name (optPos size) (optPos lt))).1.now = s.srv.now := by
      simp only [Core.step, srvTryLock_now]
    have hinv := step_invS ho hinj h.inv (.tryLock (some s.sid) name (optPos size) (optPos lt))
    -- renewers of other names are untouched
    have hoth : ∀ name' ρ', name ≠ name' → get s.rs name' = some ρ' →
        cc.minRenew < ρ'.lt ∧ (Core.step o c s.srv (.tryLock (some s.sid) name (optPos size) (optPos lt))).1.now ≤ ρ'.next ∧
        ∃ tm, get (Core.step o c s.srv (.tryLock (some s.sid) name (optPos size) (optPos lt))).1.timers (tkey name' ρ'.key) = some tm ∧
          ρ'.next < tm.deadline := by
      intro name' ρ' e hg'
      obtain ⟨a1, a2, tm, a3, a4⟩ := h.live name' ρ' hg'
      refine ⟨a1, by rw [hnow]; exact a2, tm, ?_, a4⟩
      simp only [Core.step]; rw [srvTryLock_other _ _ _ _ _ _ _ e]; exact a3
    split
    · rename_i hC
      split
      · left; rfl
      · rename_i hnone
        right
        have hlt : cc.minRenew < lt := by
          rcases hop with h0 | h1
          · exact absurd h0 hC.2
          · exact h1
        have hpos : 0 < lt := by omega
        have hopt : optPos lt = some lt := by simp [optPos, hpos]
        refine ⟨hinv, h.np, h.nc, uniq_set _ _ _ h.uniq, ?_⟩
        intro name' ρ' hg'
        simp only [get_set] at hg'
        by_cases e : name = name'
        · subst e
          simp only [if_true, Option.some.injEq] at hg'
          subst hg'
          have hI := interval_lt cc.minRenew lt hmin hlt
          have hipos : 0 < interval cc.minRenew lt := by omega
          have hok := hC.1
          rw [hopt] at hok
          have hg := grant_arms s.srv s.sid name (optPos size) lt hpos hok
          refine ⟨hlt, by rw [hnow]; simp only; omega, _, by rw [hopt]; exact hg, ?_⟩
          simp only
          have := toNat_lt hipos hI.1
          omega
        · simp only [e, if_false] at hg'
          exact hoth name' ρ' e hg'
    · rename_i hC
      right
      refine ⟨hinv, h.np, h.nc, h.uniq, ?_⟩
      intro name' ρ' hg'
      by_cases e : name = name'
      · -- a request on the renewer's own name that creates no renewer arms no timer
        obtain ⟨a1, a2, tm, a3, a4⟩ := h.live name' ρ' hg'
        refine ⟨a1, by rw [hnow]; exact a2, tm, ?_, a4⟩
        have hnl : optPos lt = none ∨ (srvTryLock o c s.srv (some s.sid) name (optPos size) (optPos lt)).2.ok = false := by
          rcases hop with h0 | h1
          · left; simp [optPos, h0]
          · right
            cases hk : (srvTryLock o c s.srv (some s.sid) name (optPos size) (optPos lt)).2.ok with
            | false => rfl
            | true =>
              exfalso; apply hC
              refine ⟨by simpa [Core.step] using hk, ?_⟩
              omega
        simp only [Core.step]
        rw [srvTryLock_no_lease _ _ _ _ _ hnl]
        exact a3
      · exact hoth name' ρ' e hg'

theorem cadv_keeps_panic (target : Nat) : ∀ (fuel : Nat) (s : CSt M) (p : Panic), s.panicked = some p →
    (cadv o c cc target fuel s).1.panicked = some p := by
  intro fuel
  cases fuel with
  | zero => intro s p h; exact h
  | succ f =>
    intro s p h
    unfold cadv
    have : (if s.closed then some Panic.outOfSync else s.panicked) ≠ none := by
      split <;> simp [h]
    split
    · exact h
    · rename_i hx _; exact absurd hx this
    · rename_i hx _; exact absurd hx this

theorem cstep_keeps_outOfSync (s : CSt M) (op : COp) (h : s.panicked = some .outOfSync) :
    (cstep o c cc s op).1.panicked = some .outOfSync := by
  cases op with
  | tryLock name size lt =>
    simp only [cstep]
    split
    · split
      · rfl
      · exact h
    · exact h
  | unlock name key => exact h
  | adv dt => simp only [cstep]; exact cadv_keeps_panic _ _ s _ h
  | close => exact h

def crun (o : MapOps M) (c : Cfg) (cc : CCfg) (s : CSt M) (ops : List COp) : CSt M :=
  ops.foldl (fun s op => (cstep o c cc s op).1) s

theorem crun_fine (ho : o.Lawful) (hinj : KeysInjective c)
    (hmin : 0 < cc.minRenew)
    (hauto : cc.noAutoRenew = false) (ops : List COp) :
    ∀ (s : CSt M), Fine o c cc s → (∀ op ∈ ops, op.inScope cc) → Fine o c cc (crun o c cc s ops) := by
  unfold crun
  induction ops with
  | nil => intro s h _; exact h
  | cons op ops ih =>
    intro s h hs
    simp only [List.foldl_cons]
    apply ih
    · rcases h with h | h
      · left; exact cstep_keeps_outOfSync s op h
      · exact cstep_fine ho hinj hmin hauto h op (hs op (by simp))
    · intro op' hm; exact hs op' (List.mem_cons_of_mem _ hm)

theorem cinit_alive (ho : o.Lawful) (hinj : KeysInjective c)
    (sid : Sid) : Alive o c cc (cinit o c sid : CSt M) :=
  ⟨step_invS ho hinj (init_invS ho) _, rfl, rfl, by simp [cinit, Uniq], by intro n ρ h; simp [cinit, AMap.get] at h⟩

/-- every hold that has a renewer is held at the server, with its lease deadline after the next Renew -/
theorem alive_held {s : CSt M} (h : Alive o c cc s) (name : Str) (ρ : Renewer) (hg : get s.rs name = some ρ) :
    held o s.srv name ρ.key := by
  obtain ⟨_, _, tm, htm, _⟩ := h.live name ρ hg
  obtain ⟨e, hh⟩ := h.inv.1.timer _ tm (get_some_mem _ _ _ htm)
  obtain ⟨e1, e2⟩ := tkey_injective e
  rcases hh with hh | hh
  · rw [e1, e2]; exact hh
  · cases hh

end Ldlm.Client
