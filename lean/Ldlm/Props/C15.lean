import Ldlm.Proofs.RestPaired
import Ldlm.Props.C18
/-!
C15 — REST gateway and gRPC give the same results for the same requests.

Model M4 (`Ldlm.Rest`): the gateway's session table in front of the lock-server model M2; a REST
request under a valid cookie and a gRPC request on a connection are BOTH `Core.step` of the same
service call under the session bound to the cookie / the connection.  The error code in the answer
is computed on both transports by the same table (`wireCode`, regenerated from
`lockErrToProtoBuffErr`).

* `same_request_same_step` — at any state, a request through a valid REST session and the same
  request on a gRPC connection carrying the same lock-server session change the server in the same
  way and get the same answer.
* `paired_runs_agree` — two fresh servers, ANY request sequence (open / close / TryLock, Unlock,
  Renew with any parameters / time gaps) in which requests go to open sessions and which lasts less
  than the REST session timeout: sent through the gateway to one and over gRPC to the other, the
  lock-server states are equal after it, the answers are equal request by request, and no REST
  request is refused (401/409).
* `keys_cross_transports` / `renew_cross_transports` — on one server, a key works the same through
  any REST session and any gRPC connection, whoever it was issued to (Unlock ignores the session —
  C18; Renew has none).
* `refused_request_invisible` — a REST request refused for its cookie does not reach the server.
Tied to the code by the `restmodel` stream (M4 against the real gateway + service object, both
transports on one server) and by the model-independent paired run `rest` (two real servers).
JSON decoding of request bodies is grpc-gateway/protojson library code: exercised (all proto3 JSON
spellings, malformed bodies) by the paired stream, not modelled.
-/
namespace Ldlm.Props.C15
open Ldlm.Core Ldlm.Rest Ldlm.AMap

variable {M : Type} (o : MapOps M) (c : Cfg) (rc : RCfg)

theorem same_request_same_step (s : RSt M) (ck : Str) (sid : Sid) (d : Nat) (q : Req)
    (hv : get s.rs ck = some (sid, d)) :
    (rstep o c rc s (.req (some ck) (some q))).1.core = (rstep o c rc s (.greq sid q)).1.core ∧
    (rstep o c rc s (.req (some ck) (some q))).2.resp = (rstep o c rc s (.greq sid q)).2.resp ∧
    (rstep o c rc s (.req (some ck) (some q))).2.http = 200 := by
  simp [rstep, hv]

theorem paired_runs_agree (hinj : ∀ i j, rc.genCookie i = rc.genCookie j → i = j) (sems : List Sem)
    (hw : wf [] 0 sems = true) (ht : total sems < rc.timeout) :
    (rrun o c rc (Rest.init o c) (sems.map (restOf rc))).core = (rrun o c rc (Rest.init o c) (sems.map (grpcOf rc))).core ∧
    (routs o c rc (Rest.init o c) (sems.map (restOf rc))).map (·.resp)
      = (routs o c rc (Rest.init o c) (sems.map (grpcOf rc))).map (·.resp) ∧
    ∀ r ∈ routs o c rc (Rest.init o c) (sems.map (restOf rc)), r.http ≠ 401 ∧ r.http ≠ 409 :=
  paired_agree hinj sems sim_init hw (by simpa [Rest.init, Core.init] using ht)

theorem keys_cross_transports (s : RSt M) (ck : Str) (sid sid' : Sid) (d : Nat) (n k : Str)
    (hv : get s.rs ck = some (sid, d)) :
    (rstep o c rc s (.req (some ck) (some (.unlock n k)))).1.core = (rstep o c rc s (.greq sid' (.unlock n k))).1.core ∧
    (rstep o c rc s (.req (some ck) (some (.unlock n k)))).2.resp = (rstep o c rc s (.greq sid' (.unlock n k))).2.resp := by
  have := C18.unlock_ignores_session o c s.core (some sid) (some sid') n k
  simp [rstep, hv, Req.op, this]

theorem renew_cross_transports (s : RSt M) (ck : Str) (sid sid' : Sid) (d : Nat) (n k : Str) (t : Int)
    (hv : get s.rs ck = some (sid, d)) :
    (rstep o c rc s (.req (some ck) (some (.renew n k t)))).1.core = (rstep o c rc s (.greq sid' (.renew n k t))).1.core ∧
    (rstep o c rc s (.req (some ck) (some (.renew n k t)))).2.resp = (rstep o c rc s (.greq sid' (.renew n k t))).2.resp := by
  simp [rstep, hv, Req.op]

theorem refused_request_invisible (s : RSt M) (ck : Option Str) (r : Option Req)
    (h : (rstep o c rc s (.req ck r)).2.http = 401) : (rstep o c rc s (.req ck r)).1 = s := by
  cases ck with
  | none => rfl
  | some ck =>
    simp only [rstep] at h ⊢
    split
    · rfl
    · rename_i sid d hg
      simp only [hg] at h
      cases r <;> simp at h

/-! non-vacuity: a concrete three-session sequence satisfying the hypotheses of `paired_runs_agree` -/
def rc0 : RCfg := { timeout := 600 * sec, genCookie := fun n => 82 :: natDigits n, genConn := fun n => 99 :: natDigits n }
def sems0 : List Sem := [.opn, .req 0 (.tryLock [97] none (some 5)), .opn, .gap (2 * sec), .req 1 (.tryLock [97] none none),
  .req 1 (.unlock [97] [75, 48]), .close 0, .gap (3 * sec), .req 1 (.renew [97] [75, 48] 5)]
example : wf [] 0 sems0 = true ∧ total sems0 < rc0.timeout := by decide

end Ldlm.Props.C15
