#!/usr/bin/env python3
"""seed_round.py <first-id-number> [<round>]: prepare scratch worktrees /tmp/wt/mNNN (one per property), property
text files and the sub-agent prompts of a round of seeded changes (prompts are printed to
/tmp/wt/prompt_mNNN.txt). Nothing from /verif except the property text reaches the sub-agent."""
import json, os, subprocess, sys
first = int(sys.argv[1]); rnd = sys.argv[2] if len(sys.argv) > 2 else '7'
tmpl = open('/verif/seeded/PROMPT-round%s.txt' % rnd).read()
angles = json.load(open('/verif/seeded/angles-round%s.json' % rnd))
props = [json.loads(l) for l in open('/verif/properties.jsonl')]
os.makedirs('/tmp/wt/out', exist_ok=True)
for i, p in enumerate(props):
    mid = 'm%d' % (first + i)
    wt = '/tmp/wt/' + mid
    if not os.path.exists(wt):
        subprocess.check_call(['git', '-C', '/repo', 'worktree', 'add', '--detach', wt, 'HEAD'],
                              stdout=subprocess.DEVNULL, stderr=subprocess.DEVNULL)
    os.makedirs('/tmp/wt/out/' + mid, exist_ok=True)
    a = p['anchors']
    txt = '%s  %s\n\n%s\n\nQuantified over: %s\n\nAnchored in: %s\n' % (
        p['id'], p['title'], p['statement'], p['quantifier']['text'], ', '.join(a['files']))
    for k in ('state', 'mechanism'):
        for e in a.get(k, []):
            txt += '  - %s (%s)%s\n' % (e['name'], e['where'], (': ' + e['meaning']) if 'meaning' in e else '')
    open('/tmp/wt/prop_%s.txt' % p['id'], 'w').write(txt)
    hint = 'Angle to prefer (any clause of the property is acceptable if this one does not work out): ' + angles[p['id']] + ' ' + angles['avoid']
    open('/tmp/wt/prompt_%s.txt' % mid, 'w').write(
        tmpl.replace('@ID@', mid).replace('@PROP@', p['id']).replace('@HINT@', hint))
    print(mid, p['id'])
