// Package verifrt is the controlled-scheduling runtime of the /verif harness. It is never part of
// /repo: `go test -overlay` maps this file to /repo/verifrt/rt.go, and tools/instr rewrites the
// instrumented packages to call it (Yield before statements, Mutex/RWMutex/OpenMutex in place of the
// sync types, Recover in goroutine / timer-callback literals). Stdlib only.
//
// Model: while the scheduler is ON every goroutine that reaches a Yield parks until the scheduler
// goroutine Steps it, so exactly the stepped goroutine runs until its next Yield (the explorer
// calls synctest.Wait() after every Step). While it is OFF everything here is a cheap no-op and the
// instrumented build behaves like the original (the repository's own suite passes on it).
//
// Yield suppression: a goroutine that holds an exclusive Mutex / RWMutex write lock does not park
// (critical sections stay atomic exactly as long as the mutex exists in /repo). Read locks do not
// suppress. Exemption: a mutex that the code holds across calls into other instrumented packages
// must not suppress, else everything below would be one atomic step. The mechanism is static and
// type-based: tools/instr rewrites the listed mutexes (today: sync.Mutex in package net/rest =
// the REST per-session mutex, held for a whole service call) to OpenMutex, which excludes like
// Mutex but is not counted as "held". More live yields are always sound (the mutex still excludes).
package verifrt

import (
	"fmt"
	"runtime"
	"sort"
	"strconv"
	"sync"
	"sync/atomic"
)

type thread struct {
	name   string
	resume chan struct{}
	held   int    // exclusive verifrt mutexes held; yields are suppressed while > 0
	at     string // label it is parked at
	parked bool
	byGo   bool // started by Go (as opposed to self-registered on its first Yield)
	done   bool
	inHook bool
}

var (
	mu     sync.Mutex // guards everything below; never held across a blocking operation
	on     atomic.Bool
	inited bool  // a harness has called Reset: goroutine panics are recorded, not fatal
	sched  int64 // goroutine that called Enable: its own yields are no-ops
	byGid  map[int64]*thread
	byName map[string]*thread
	spawnN int
	yields int
	panics []string

	// SnapHook, if set, is called at every yield of a scheduled goroutine (parked or suppressed)
	// before it parks, with the scheduler on. Yields reached from inside the hook are no-ops
	// (no re-entry, no parking). Reset clears it. Set it only while nothing is running.
	SnapHook func(label string)
)

// gid parses the goroutine id out of "goroutine 123 [running]:".
func gid() int64 {
	var buf [40]byte
	n := runtime.Stack(buf[:], false)
	id := int64(0)
	for _, c := range buf[len("goroutine "):n] {
		if c < '0' || c > '9' {
			break
		}
		id = id*10 + int64(c-'0')
	}
	return id
}

// Reset forgets all threads, counters and the hook. Goroutines still parked from before are
// abandoned (call Disable first).
func Reset(enable bool) {
	mu.Lock()
	byGid, byName = map[int64]*thread{}, map[string]*thread{}
	spawnN, yields, panics, SnapHook, inited, sched = 0, 0, nil, nil, true, 0
	noSuppress = false
	if enable {
		sched = gid()
	}
	on.Store(enable)
	mu.Unlock()
}

// Enable turns the scheduler on; the caller becomes the scheduler goroutine.
func Enable() { mu.Lock(); sched = gid(); on.Store(true); mu.Unlock() }

// Disable turns the scheduler off and releases every parked goroutine (they run freely from here).
func Disable() {
	mu.Lock()
	on.Store(false)
	var rel []*thread
	for _, t := range byName {
		if t.parked {
			t.parked = false
			rel = append(rel, t)
		}
	}
	mu.Unlock()
	for _, t := range rel {
		t.resume <- struct{}{}
	}
}

// self returns the calling goroutine's thread; an unknown goroutine (timer callback, goroutine the
// code spawned itself) is registered as spawn<n>. Caller holds mu.
func self(g int64) *thread {
	t := byGid[g]
	if t == nil {
		spawnN++
		t = &thread{name: "spawn" + strconv.Itoa(spawnN), resume: make(chan struct{})}
		byGid[g], byName[t.name] = t, t
	}
	return t
}

// Name is the registered name of the calling goroutine: the name given to Go, spawn<n> for a
// goroutine the code started itself (registered at its first Yield), "" when unknown.
func Name() string {
	g := gid()
	mu.Lock()
	defer mu.Unlock()
	if t := byGid[g]; t != nil {
		return t.name
	}
	return ""
}

// Go starts fn as the registered thread name. It is parked ("start") until first stepped; a panic
// in fn is recovered and recorded.
func Go(name string, fn func()) {
	t := &thread{name: name, resume: make(chan struct{}), at: "start", parked: true, byGo: true}
	mu.Lock()
	byName[name] = t
	mu.Unlock()
	go func() {
		g := gid()
		mu.Lock()
		byGid[g] = t
		mu.Unlock()
		<-t.resume
		defer func() {
			r := recover()
			mu.Lock()
			if r != nil {
				panics = append(panics, fmt.Sprintf("goroutine %s panicked: %v", name, r))
			}
			t.done = true
			delete(byGid, g)
			mu.Unlock()
		}()
		fn()
	}()
}

// noSuppress makes yields live even while the goroutine holds an exclusive mutex (the mutex still
// excludes: a thread that runs into it blocks until the parked holder is stepped on). Needed to
// see accesses that one side makes OUTSIDE the mutex the other side holds. Cleared by Reset.
var noSuppress bool

func SetNoSuppress(b bool) { mu.Lock(); noSuppress = b; mu.Unlock() }

// Yield is a preemption point: no-op when the scheduler is off, on the scheduler goroutine, inside
// the snapshot hook, or while the goroutine holds an exclusive mutex; otherwise parks until Stepped.
func Yield(label string) {
	if !on.Load() {
		return
	}
	g := gid()
	mu.Lock()
	if !on.Load() || g == sched {
		mu.Unlock()
		return
	}
	t := self(g)
	if t.inHook {
		mu.Unlock()
		return
	}
	if h := SnapHook; h != nil {
		t.inHook = true
		mu.Unlock()
		h(label)
		mu.Lock()
		t.inHook = false
	}
	if (t.held > 0 && !noSuppress) || !on.Load() {
		mu.Unlock()
		return
	}
	yields++
	t.at, t.parked = label, true
	mu.Unlock()
	<-t.resume
}

// Runnable returns the sorted names of the parked threads. A goroutine blocked in a mutex, a
// channel or a timer is not parked; once unblocked it simply runs to its next Yield.
func Runnable() []string {
	mu.Lock()
	defer mu.Unlock()
	r := []string{}
	for n, t := range byName {
		if t.parked {
			r = append(r, n)
		}
	}
	sort.Strings(r)
	return r
}

// Unfinished returns the sorted names of threads started by Go whose function has not returned,
// plus any self-registered goroutine that is parked.
func Unfinished() []string {
	mu.Lock()
	defer mu.Unlock()
	r := []string{}
	for n, t := range byName {
		if t.parked || t.byGo && !t.done {
			r = append(r, n)
		}
	}
	sort.Strings(r)
	return r
}

// Where returns the label name is parked at ("" if it is not parked).
func Where(name string) string {
	mu.Lock()
	defer mu.Unlock()
	if t := byName[name]; t != nil && t.parked {
		return t.at
	}
	return ""
}

// Step resumes the parked thread name and returns at once (no-op if it is not parked).
func Step(name string) {
	mu.Lock()
	t := byName[name]
	if t == nil || !t.parked {
		mu.Unlock()
		return
	}
	t.parked = false
	mu.Unlock()
	t.resume <- struct{}{}
}

// Recover is deferred (by the instrumenter) as the first statement of every `go` / AfterFunc
// function literal: a panic there would kill the process; it is recorded instead, under the
// goroutine's thread name (a spawn name is given if it has none yet), and the goroutine ends.
// If no harness ever called Reset nobody would read the record, so the panic is re-raised.
func Recover() {
	r := recover()
	mu.Lock()
	if !inited {
		mu.Unlock()
		if r != nil {
			panic(r)
		}
		return
	}
	g := gid()
	t := byGid[g]
	if r != nil {
		t = self(g)
		panics = append(panics, fmt.Sprintf("goroutine %s panicked: %v", t.name, r))
	}
	if t != nil {
		t.done = true
		delete(byGid, g)
	}
	mu.Unlock()
}

func Panics() []string { mu.Lock(); defer mu.Unlock(); return append([]string{}, panics...) }

// YieldCount is the number of yields that parked (live preemption points hit) since Reset.
func YieldCount() int { mu.Lock(); defer mu.Unlock(); return yields }

// addHeld tracks exclusive holds of the calling goroutine (only while the scheduler is on; an
// unlock of something locked before Enable is clamped at 0).
func addHeld(d int) {
	if !on.Load() {
		return
	}
	g := gid()
	mu.Lock()
	if on.Load() && g != sched {
		if t := self(g); t.held+d >= 0 {
			t.held += d
		}
	}
	mu.Unlock()
}

// chanLock is a mutex made of a 1-slot channel: blocking on it is durable for testing/synctest.
type chanLock struct {
	once sync.Once
	ch   chan struct{}
}

func (c *chanLock) init() { c.once.Do(func() { c.ch = make(chan struct{}, 1) }) }
func (c *chanLock) lock() { c.init(); c.ch <- struct{}{} }
func (c *chanLock) tryLock() bool {
	c.init()
	select {
	case c.ch <- struct{}{}:
		return true
	default:
		return false
	}
}
func (c *chanLock) unlock() {
	c.init()
	select {
	case <-c.ch:
	default:
		panic("verifrt: unlock of unlocked mutex")
	}
}

// Mutex replaces sync.Mutex. Its holder is not preempted.
type Mutex struct{ c chanLock }

func (m *Mutex) Lock()   { m.c.lock(); addHeld(1) }
func (m *Mutex) Unlock() { addHeld(-1); m.c.unlock() }

// TryLock as sync.Mutex.TryLock (a change to the code under test may start using it).
func (m *Mutex) TryLock() bool {
	if m.c.tryLock() {
		addHeld(1)
		return true
	}
	return false
}

// OpenMutex replaces sync.Mutex for the exempted mutexes (see package comment): same exclusion,
// but the holder stays preemptible.
type OpenMutex struct{ c chanLock }

func (m *OpenMutex) Lock()   { m.c.lock() }
func (m *OpenMutex) Unlock() { m.c.unlock() }
func (m *OpenMutex) TryLock() bool { return m.c.tryLock() }

// RWMutex replaces sync.RWMutex: writer-preferring like the original (a waiting Lock blocks new
// RLocks). Waiters block on a channel that is closed on every release (durable for synctest).
// Only the write lock suppresses yields.
type RWMutex struct {
	mu      sync.Mutex // short internal critical sections only
	readers int
	writer  bool
	wwait   int
	wake    chan struct{}
}

func (m *RWMutex) waitCh() chan struct{} {
	if m.wake == nil {
		m.wake = make(chan struct{})
	}
	return m.wake
}
func (m *RWMutex) broadcast() {
	if m.wake != nil {
		close(m.wake)
		m.wake = nil
	}
}
func (m *RWMutex) Lock() {
	m.mu.Lock()
	m.wwait++
	for m.writer || m.readers > 0 {
		ch := m.waitCh()
		m.mu.Unlock()
		<-ch
		m.mu.Lock()
	}
	m.wwait--
	m.writer = true
	m.mu.Unlock()
	addHeld(1)
}
func (m *RWMutex) Unlock() {
	addHeld(-1)
	m.mu.Lock()
	if !m.writer {
		m.mu.Unlock()
		panic("verifrt: Unlock of unlocked RWMutex")
	}
	m.writer = false
	m.broadcast()
	m.mu.Unlock()
}
func (m *RWMutex) RLock() {
	m.mu.Lock()
	for m.writer || m.wwait > 0 {
		ch := m.waitCh()
		m.mu.Unlock()
		<-ch
		m.mu.Lock()
	}
	m.readers++
	m.mu.Unlock()
}
// TryLock / TryRLock as sync.RWMutex.
func (m *RWMutex) TryLock() bool {
	m.mu.Lock()
	if m.writer || m.readers > 0 {
		m.mu.Unlock()
		return false
	}
	m.writer = true
	m.mu.Unlock()
	addHeld(1)
	return true
}
func (m *RWMutex) TryRLock() bool {
	m.mu.Lock()
	if m.writer || m.wwait > 0 {
		m.mu.Unlock()
		return false
	}
	m.readers++
	m.mu.Unlock()
	return true
}
func (m *RWMutex) RUnlock() {
	m.mu.Lock()
	if m.readers <= 0 {
		m.mu.Unlock()
		panic("verifrt: RUnlock of unlocked RWMutex")
	}
	m.readers--
	if m.readers == 0 {
		m.broadcast()
	}
	m.mu.Unlock()
}
