package clientc

// TestClientModel — correspondence of the Lean model M5 (Ldlm/Model/Client.lean: the Go client's
// renew map and renew timers over the lock-server model M2) with the real client: random histories
// of TryLock / Unlock / time advance / Close are executed on the real client over the recording
// transport to the real service in virtual time, and on the compiled Lean model (`driver client`);
// after every operation the RPCs emitted (method, request fields, instant, answer), the client's
// panics, the server's hold listing and lease timers must be equal. Second part: `rpcWithRetry`
// against the model's `retry` for every script of attempt outcomes up to a bound.
//
//	cd /verif/harness && VERIF_PROP=C19 ./conc/run.sh /dev/shm/ov-c19 -count=1 -run '^TestClientModel$' ./clientc

import (
	"context"
	"encoding/json"
	"errors"
	"fmt"
	"os"
	"sort"
	"strconv"
	"strings"
	"testing"
	"testing/synctest"
	"time"

	"github.com/imoore76/ldlm/client"
	pb "github.com/imoore76/ldlm/protos"
	"github.com/imoore76/ldlm/verifrt"
	"google.golang.org/grpc"
	"google.golang.org/grpc/codes"
	"google.golang.org/grpc/status"

	"verif/harness/common"
	"verif/harness/impl"
)

type cOp struct {
	Kind string `json:"kind"` // trylock unlock adv close
	Name string `json:"name,omitempty"`
	Key  string `json:"key,omitempty"` // canonical
	Size int32  `json:"size,omitempty"`
	Lt   int32  `json:"lt,omitempty"`
	D    int64  `json:"d,omitempty"`
}

func (o cOp) line() string {
	switch o.Kind {
	case "trylock":
		return fmt.Sprintf("trylock %s %d %d", impl.Tok(o.Name), o.Size, o.Lt)
	case "unlock":
		return fmt.Sprintf("unlock %s %s", impl.Tok(o.Name), impl.Tok(o.Key))
	case "adv":
		return fmt.Sprintf("adv %d", o.D)
	}
	return "close"
}

type cHist struct {
	Ops   []cOp
	Impl  []string
	Model []string
	fatal string
}

const cCfgLine = "ccfg minrenew=10 noauto=0 shards=4 gcint=3600000000000000 gcidle=300000000000 dlt=600000000000"

var cNames = []string{"a", "b", "ab"}
var cTimeouts = []int32{0, 5, 10, 11, 11, 12, 12, 30, 30, 31, 31, 40, 40, 45, 45, 60, 60, 100}

func optP(p *int32) string {
	if p == nil {
		return "-"
	}
	return strconv.Itoa(int(*p))
}

func b01(b bool) string {
	if b {
		return "1"
	}
	return "0"
}

func dash(s string) string {
	if s == "" {
		return "-"
	}
	return s
}

func runClientModelHist(t *testing.T, r *common.Rng, nops int, fixed []cOp) *cHist {
	h := &cHist{}
	synctest.Test(t, func(t *testing.T) {
		verifrt.Reset(false)
		w, err := newWorld(0)
		if err != nil {
			h.fatal = err.Error()
			return
		}
		defer w.close()
		canon := map[string]string{}
		real := map[string]string{}
		canonS := func(s string) string {
			for u, c := range canon {
				if strings.Contains(s, u) {
					s = strings.ReplaceAll(s, u, c)
				}
			}
			return s
		}
		nreq, logSeen, panicSeen := 0, 0, 0
		type grant struct {
			name, key string
			lt        int32
			unlocked  bool
		}
		var grants []*grant
		now := time.Duration(0)
		next := func() cOp {
			live := []*grant{}
			for _, g := range grants {
				if !g.unlocked {
					live = append(live, g)
				}
			}
			switch k := r.Intn(100); {
			case k < 30 || len(grants) == 0:
				o := cOp{Kind: "trylock", Name: common.Pick(r, cNames), Lt: common.Pick(r, cTimeouts)}
				o.Size = common.Pick(r, []int32{0, 0, 1, 2, 3})
				if r.Chance(80) { // mostly a name the client holds nothing of (a second hold of a name panics: K19a)
					for try := 0; try < 4; try++ {
						held := false
						for _, g := range live {
							held = held || g.name == o.Name
						}
						if !held {
							break
						}
						o.Name = common.Pick(r, []string{"a", "b", "ab", "c", "d"})
					}
				}
				return o
			case k < 52 && len(live) > 0:
				g := common.Pick(r, live)
				return cOp{Kind: "unlock", Name: g.name, Key: g.key}
			case k < 56:
				return cOp{Kind: "unlock", Name: common.Pick(r, cNames), Key: common.Pick(r, []string{"nope", "K99"})}
			case k < 58:
				return cOp{Kind: "close"}
			}
			o := cOp{Kind: "adv"}
			switch {
			case r.Chance(35) && len(live) > 0: // to a renew instant of some hold, -1 ns / exactly / +1 ns
				g := common.Pick(r, live)
				iv := renewInterval(g.lt)
				d := iv - now%iv + time.Duration(common.Pick(r, []int{-1, 0, 1}))
				o.D = int64(d)
			case r.Chance(40):
				o.D = int64(time.Duration(1+r.Intn(200)) * time.Second)
			default:
				o.D = int64(time.Duration(1+r.Intn(12))*time.Second) + int64(r.Intn(3))
			}
			if o.D <= 0 {
				o.D = 1
			}
			return o
		}
		for i := 0; i < nops || i < len(fixed); i++ {
			var o cOp
			if fixed != nil {
				if i >= len(fixed) {
					break
				}
				o = fixed[i]
			} else if n := len(h.Ops); n > 0 && h.Ops[n-1].Kind != "adv" && r.Chance(70) {
				o = cOp{Kind: "adv", D: int64(1 + r.Intn(9))}
			} else {
				o = next()
			}
			callerPanic := ""
			switch o.Kind {
			case "trylock":
				var l *client.Lock
				callerPanic = guard(func() {
					l, _ = w.c.TryLock(o.Name, &client.LockOptions{LockTimeoutSeconds: o.Lt, Size: o.Size})
				})
				// the key of the request just logged
				log := w.tr.snapshot()
				if len(log) > logSeen && log[len(log)-1].Method == "TryLock" {
					e := log[len(log)-1]
					if e.Ok {
						canon[e.Key] = "K" + strconv.Itoa(nreq)
						real["K"+strconv.Itoa(nreq)] = e.Key
						grants = append(grants, &grant{name: o.Name, key: "K" + strconv.Itoa(nreq), lt: o.Lt})
					}
					nreq++
				}
				_ = l
			case "unlock":
				k := o.Key
				if rk, ok := real[k]; ok {
					k = rk
				}
				callerPanic = guard(func() { w.c.Unlock(o.Name, k) })
				for _, g := range grants {
					if g.name == o.Name && g.key == o.Key {
						g.unlocked = true
					}
				}
			case "adv":
				time.Sleep(time.Duration(o.D))
				now += time.Duration(o.D)
			case "close":
				callerPanic = guard(func() { w.c.Close() })
			}
			synctest.Wait()
			// RPCs since the previous operation
			log := w.tr.snapshot()
			parts := []string{}
			for _, e := range log[logSeen:] {
				switch e.Method {
				case "TryLock":
					k := "-"
					if e.Ok {
						k = impl.Tok(canonS(e.Key))
					}
					parts = append(parts, fmt.Sprintf("T:%s:%s:%s:%s:%s:%s", impl.Tok(e.Name), optP(e.Size), optP(e.Lt), b01(e.Ok), k, dash(e.Err)))
				case "Renew":
					parts = append(parts, fmt.Sprintf("R:%s:%s:%d:%d:%s:%s", impl.Tok(e.Name), impl.Tok(canonS(e.Key)), e.RenewT, e.AtNs, b01(e.Ok), dash(e.Err)))
				case "Unlock":
					parts = append(parts, fmt.Sprintf("U:%s:%s:%s:%s", impl.Tok(e.Name), impl.Tok(canonS(e.Key)), b01(e.Ok), dash(e.Err)))
				default:
					parts = append(parts, e.Method)
				}
			}
			logSeen = len(log)
			pn := "-"
			ps := verifrt.Panics()
			if callerPanic != "" {
				_, class, _ := panicClass(callerPanic)
				pn = map[string]string{"client out of sync": "outOfSync"}[class]
				if pn == "" {
					pn = "caller:" + strings.ReplaceAll(class, " ", "_")
				}
			} else if len(ps) > panicSeen {
				_, class, lname := panicClass(ps[panicSeen])
				if class == "error renewing lock" {
					pn = "renewFailed:" + impl.Tok(lname)
				} else {
					pn = "goroutine:" + strings.ReplaceAll(class, " ", "_")
				}
			}
			panicSeen = len(ps)
			// server view
			sess := []string{}
			for sid, hs := range w.ls.VerifSessionLocks() {
				_ = sid
				hh := []string{}
				for _, l := range hs {
					hh = append(hh, fmt.Sprintf("%s/%s/%d", impl.Tok(l.Name()), impl.Tok(canonS(l.Key())), l.Size()))
				}
				sort.Strings(hh)
				sess = append(sess, "=c0:["+strings.Join(hh, ",")+"]")
			}
			sort.Strings(sess)
			tm := []string{}
			for _, k := range w.ls.VerifTimerKeys() {
				tm = append(tm, impl.Tok(canonS(k)))
			}
			sort.Strings(tm)
			rm := []string{}
			for _, n := range w.c.VerifRenewNames() {
				rm = append(rm, impl.Tok(n))
			}
			sort.Strings(rm)
			h.Ops = append(h.Ops, o)
			h.Impl = append(h.Impl, fmt.Sprintf("rpcs=[%s] panic=%s | L=%s | TM=%s | RM=[%s] | now=%d", strings.Join(parts, ","), pn, strings.Join(sess, ";"), strings.Join(tm, ";"), strings.Join(rm, ","), int64(w.now())))
			if pn != "-" || o.Kind == "close" {
				break // after a panic the process would be gone; after Close the client is done
			}
		}
	})
	return h
}

func cChan(line string) map[string]string {
	m := map[string]string{}
	parts := strings.Split(line, " | ")
	m["r"] = parts[0]
	for _, p := range parts[1:] {
		if i := strings.Index(p, "="); i > 0 {
			m[p[:i]] = p[i+1:]
		}
	}
	return m
}

// ---------------------------------------------------------------- rpcWithRetry against `retry`

type scripted struct {
	pb.LDLMClient
	outs  []string
	calls int
}

func (s *scripted) Unlock(ctx context.Context, in *pb.UnlockRequest, _ ...grpc.CallOption) (*pb.UnlockResponse, error) {
	o := s.outs[min(s.calls, len(s.outs)-1)]
	s.calls++
	if s.calls > 12 {
		// far beyond any budget used here: end a client that would retry for ever (virtual time would never
		// run out), with an answer no script contains
		return nil, status.Error(codes.DataLoss, "scripted: attempt limit of the stub")
	}
	switch {
	case o == "ok":
		return &pb.UnlockResponse{Unlocked: true, Name: in.Name}, nil
	case o == "U":
		return nil, status.Error(codes.Unavailable, "scripted")
	case o == "F99":
		return nil, errors.New("scripted non-status error")
	}
	n, _ := strconv.Atoi(o[1:])
	return nil, status.Error(codes.Code(n), "scripted")
}

func (s *scripted) TryLock(ctx context.Context, in *pb.TryLockRequest, _ ...grpc.CallOption) (*pb.LockResponse, error) {
	return &pb.LockResponse{Locked: true, Name: in.Name, Key: "k"}, nil
}

func (s *scripted) Renew(ctx context.Context, in *pb.RenewRequest, _ ...grpc.CallOption) (*pb.LockResponse, error) {
	o := s.outs[min(s.calls, len(s.outs)-1)]
	s.calls++
	if o == "U" {
		return nil, status.Error(codes.Unavailable, "scripted")
	}
	return &pb.LockResponse{Locked: true, Name: in.Name, Key: in.Key}, nil
}

// renewerRetryPart: the renew goroutine's Renew goes through the same retry rule: n Unavailable
// answers to the first auto-renew with a budget of M >= n are absorbed (n+1 attempts, no panic).
func renewerRetryPart(t *testing.T, res *common.Result) {
	for M := 0; M <= 3; M++ {
		for n := 0; n <= M; n++ {
			M, n := M, n
			synctest.Test(t, func(t *testing.T) {
				verifrt.Reset(false)
				sc := []string{}
				for i := 0; i < n; i++ {
					sc = append(sc, "U")
				}
				st := &scripted{outs: append(sc, "ok")}
				ctx, cancel := context.WithCancel(context.Background())
				defer cancel()
				c := client.VerifNew(ctx, st, false, M)
				if _, err := c.TryLock("x", &client.LockOptions{LockTimeoutSeconds: 40}); err != nil {
					t.Fatal(err)
				}
				time.Sleep(10*time.Second + time.Duration(n)*3*time.Second + time.Second)
				synctest.Wait()
				res.Count("renewer-retry-case")
				res.Eval(fmt.Sprintf("renewer-retry M=%d n=%d", M, n), n > 0)
				if ps := verifrt.Panics(); len(ps) > 0 || st.calls != n+1 {
					res.Find(common.Finding{Kind: "violation", Property: "C19", Signature: "client:retry:renewer-path",
						What:   fmt.Sprintf("MaxRetries=%d, the first auto-renew answered Unavailable %d time(s): %d Renew attempt(s), panics %v; required: %d attempts, no panic (Unavailable is retried up to MaxRetries times on every RPC)", M, n, st.calls, ps, n+1),
						Replay: map[string]any{"max_retries": M, "unavailable_answers": n, "attempts": st.calls, "panics": ps}})
				}
			})
		}
	}
}

func retryPart(t *testing.T, res *common.Result) {
	client.RetryDelaySeconds = 3
	alphabet := []string{"ok", "U"}
	for c := 1; c <= 16; c++ {
		if codes.Code(c) != codes.Unavailable {
			alphabet = append(alphabet, "F"+strconv.Itoa(c))
		}
	}
	alphabet = append(alphabet, "F99")
	var scripts [][]string
	for n := 0; n <= 5; n++ { // n Unavailable answers, then every possible final outcome
		for _, last := range alphabet {
			s := []string{}
			for i := 0; i < n; i++ {
				s = append(s, "U")
			}
			scripts = append(scripts, append(s, last))
		}
	}
	for _, a := range alphabet[2:6] { // an early non-Unavailable failure followed by anything
		scripts = append(scripts, []string{a, "ok"}, []string{"U", a, "ok"}, []string{"U", a, "U", "ok"}, []string{"U", "U", a, a, "ok"})
	}
	lines, want := []string{}, []string{}
	for M := -2; M <= 3; M++ { // MaxRetries is an int: a negative budget is "no retries", as 0
		for _, sc := range scripts {
			sc := sc
			synctest.Test(t, func(t *testing.T) {
				st := &scripted{outs: sc}
				c := client.VerifNew(context.Background(), st, true, M)
				start := time.Now()
				ok, err := c.Unlock("x", "k")
				el := time.Since(start)
				result := "ok"
				if err != nil {
					if s, isSt := status.FromError(err); isSt {
						if s.Code() == codes.Unavailable {
							result = "U"
						} else {
							result = "F" + strconv.Itoa(int(s.Code()))
						}
					} else {
						result = "F99"
					}
				} else if !ok {
					result = "not-unlocked"
				}
				padded := append([]string{}, sc...)
				for len(padded) < 8 { // the stub repeats its last outcome for ever
					padded = append(padded, sc[len(sc)-1])
				}
				lines = append(lines, fmt.Sprintf("retry %d %s", M, strings.Join(padded, " ")))
				want = append(want, fmt.Sprintf("attempts=%d result=%s", st.calls, result))
				// the rule itself, stated without the model: an attempt is repeated only after a
				// transport-unavailable answer, and at most MaxRetries times; the caller gets the last answer
				for i := 0; i < st.calls-1 && i < len(padded); i++ {
					if padded[i] != "U" {
						res.Find(common.Finding{Kind: "violation", Property: "C19", Signature: "client:retry:non-unavailable-retried",
							What:   fmt.Sprintf("MaxRetries=%d, answers %v: attempt %d was answered %s (not transport-unavailable) and the request was sent again (%d attempts in all)", M, padded[:min(st.calls, len(padded))], i+1, padded[i], st.calls),
							Replay: map[string]any{"max_retries": M, "script": sc, "attempts": st.calls}})
						break
					}
				}
				if st.calls > max(M, 0)+1 {
					res.Find(common.Finding{Kind: "violation", Property: "C19", Signature: "client:retry:too-many-attempts",
						What: fmt.Sprintf("MaxRetries=%d, answers %v: %d attempts", M, sc, st.calls), Replay: map[string]any{"max_retries": M, "script": sc, "attempts": st.calls}})
				}
				if st.calls >= 1 && st.calls <= len(padded) && st.calls <= M && padded[st.calls-1] == "U" {
					res.Find(common.Finding{Kind: "violation", Property: "C19", Signature: "client:retry:gave-up-early",
						What: fmt.Sprintf("MaxRetries=%d, answers %v: gave up after %d attempts although the last answer was transport-unavailable", M, sc, st.calls), Replay: map[string]any{"max_retries": M, "script": sc, "attempts": st.calls}})
				}
				if el != time.Duration(st.calls-1)*3*time.Second {
					res.Find(common.Finding{Kind: "violation", Property: "C19", Signature: "client:retry:delay", What: fmt.Sprintf("MaxRetries=%d script %v: %d attempts took %v, want %v between attempts", M, sc, st.calls, el, 3*time.Second), Replay: map[string]any{"max_retries": M, "script": sc}})
				}
			})
		}
	}
	out, err := common.LeanBatch([]string{"client"}, lines)
	if err != nil {
		t.Fatal(err)
	}
	for i := range lines {
		res.Count("retry-case")
		res.Eval(lines[i], strings.Contains(lines[i], " U"))
		if out[i] != want[i] {
			res.Find(common.Finding{Kind: "disagreement", Property: "C19", Signature: "clientmodel:retry", What: fmt.Sprintf("%q: rpcWithRetry gives %q, the model's retry gives %q", lines[i], want[i], out[i]), Replay: map[string]any{"line": lines[i], "impl": want[i], "model": out[i]}})
		}
	}
}

func TestClientModel(t *testing.T) {
	const prop = "C19"
	res := common.NewResult("clientmodel")
	res.Rule = "(1) random histories of one auto-renewing client (TryLock with lock timeouts from {0,5,10,11,12,30,31,40,45,60} s and sizes 0-3 on 3-5 names, Unlock with live, dead and garbage keys, advances of 1-200 s or to a renew instant -1/0/+1 ns, Close) on the real client over a recording transport to the real service, and on the Lean model M5; compared after every operation: RPCs emitted with request fields, instants and answers, panics, server listing, lease timers, the client's renew map. (2) rpcWithRetry against the model's retry for every script of 0-5 Unavailable answers followed by each possible final outcome (every gRPC code, a non-status error) and MaxRetries -2..3 (an int: negative = none). distinct = distinct op sequence / retry script; non-trivial = (1) at least one Renew RPC and one Unlock, (2) at least one Unavailable answer"
	defer func() {
		if err := res.Write(); err != nil {
			t.Fatal(err)
		}
	}()
	n := 500
	if common.Thorough() {
		n = 5000
	}
	n = common.EnvInt("VERIF_N", n)
	var hists []*cHist
	if p := os.Getenv("VERIF_REPLAY"); p != "" {
		b, err := os.ReadFile(p)
		if err != nil {
			t.Fatal(err)
		}
		var rp struct {
			Replay struct {
				Ops []cOp `json:"ops"`
			} `json:"replay"`
		}
		if err := json.Unmarshal(b, &rp); err != nil || len(rp.Replay.Ops) == 0 {
			t.Fatalf("replay file %s: no clientmodel replay in it (%v)", p, err)
		}
		hists = append(hists, runClientModelHist(t, nil, 0, rp.Replay.Ops))
	} else {
		root := common.NewRng(common.Seed() ^ 0xc19)
		for i := 0; i < n; i++ {
			r := root.Fork(uint64(i))
			hists = append(hists, runClientModelHist(t, r, 15+r.Intn(35), nil))
		}
		retryPart(t, res)
		renewerRetryPart(t, res)
	}
	lines := []string{}
	for _, h := range hists {
		lines = append(lines, cCfgLine)
		for _, o := range h.Ops {
			lines = append(lines, o.line())
		}
		lines = append(lines, "end")
	}
	out, err := common.LeanBatch([]string{"client"}, lines)
	if err != nil {
		t.Fatal(err)
	}
	k := 0
	for _, h := range hists {
		k++
		h.Model = out[k : k+len(h.Ops)]
		k += len(h.Ops) + 1
	}
	for _, h := range hists {
		if h.fatal != "" {
			res.Find(common.Finding{Kind: "violation", Property: prop, Signature: "clientmodel:start-failed", What: h.fatal, Replay: map[string]any{}})
			continue
		}
		canon := []string{}
		renewed, unlocked := false, false
		for i, o := range h.Ops {
			canon = append(canon, o.line())
			res.Count("op:" + o.Kind)
			if strings.Contains(h.Model[i], " tie=1") {
				res.Count("history-truncated-at-tie")
				break
			}
			m := strings.Replace(h.Model[i], " tie=0", "", 1)
			a, b := cChan(h.Impl[i]), cChan(m)
			if strings.Contains(a["r"], "R:") {
				renewed = true
				res.CountN("renew-rpcs", strings.Count(a["r"], "R:"))
			}
			if strings.Contains(a["r"], "U:") {
				unlocked = true
			}
			if !strings.HasSuffix(a["r"], "panic=-") {
				res.Count("panic:" + strings.SplitN(strings.SplitN(a["r"], "panic=", 2)[1], ":", 2)[0])
			}
			bad := ""
			if ip := strings.SplitN(a["r"], " panic=", 2); ip[1] != "-" {
				// a panic would end the process: the model's RPCs up to the panic must be a prefix of the
				// implementation's (the harness recovers the panic and the other renewers run on), same panic
				mp := strings.SplitN(b["r"], " panic=", 2)
				if ip[1] != mp[1] || !strings.HasPrefix(ip[0], strings.TrimSuffix(mp[0], "]")) {
					bad = "r"
				}
				if bad == "" {
					break
				}
			}
			for _, c := range []string{"r", "L", "TM", "RM", "now"} {
				if bad != "" {
					break
				}
				if a[c] != b[c] {
					bad = c
					break
				}
			}
			if bad != "" {
				opl := []string{}
				for _, o := range h.Ops[:i+1] {
					opl = append(opl, o.line())
				}
				res.Find(common.Finding{Kind: "disagreement", Property: prop, Signature: "clientmodel:channel:" + bad,
					What:   fmt.Sprintf("model M5 and the client differ in channel %s after %q: impl %q, model %q", bad, o.line(), a[bad], b[bad]),
					Replay: map[string]any{"ops": h.Ops[:i+1], "op_lines": opl, "impl": h.Impl[i], "model": h.Model[i], "at": i}})
				break
			}
		}
		res.Eval(strings.Join(canon, ";"), renewed && unlocked)
		res.Sample(map[string]any{"ops": canon[:min(len(canon), 12)]})
	}
}
