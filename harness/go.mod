module verif/harness

go 1.26

require (
	github.com/imoore76/ldlm v0.0.0
	golang.org/x/net v0.48.0
	google.golang.org/grpc v1.79.1
	google.golang.org/protobuf v1.36.11
)

require (
	github.com/deneonet/benc v1.1.8 // indirect
	github.com/google/uuid v1.6.0 // indirect
	github.com/grpc-ecosystem/grpc-gateway/v2 v2.28.0 // indirect
	golang.org/x/exp v0.0.0-20241204233417-43b7b7cde48d // indirect
	golang.org/x/sync v0.19.0 // indirect
	golang.org/x/sys v0.39.0 // indirect
	golang.org/x/text v0.34.0 // indirect
	google.golang.org/genproto/googleapis/api v0.0.0-20260209200024-4cfbd4190f57 // indirect
	google.golang.org/genproto/googleapis/rpc v0.0.0-20260209200024-4cfbd4190f57 // indirect
)

replace github.com/imoore76/ldlm => /repo
