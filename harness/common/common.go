// Package common holds what every driver of the correspondence check shares: the single PRNG all
// random choices derive from, the result file the Python check driver consumes, and the pipe to the
// compiled Lean model driver.
package common

import (
	"hash/fnv"
	"bufio"
	"encoding/json"
	"fmt"
	"io"
	"os"
	"os/exec"
	"sort"
	"strconv"
	"strings"
	"sync"
	"sync/atomic"
	"time"
)

// ---------------------------------------------------------------- PRNG (splitmix64)

type Rng struct{ s uint64 }

// NewRng scrambles the seed first: consecutive seeds must not give shifted copies of one stream.
func NewRng(seed uint64) *Rng {
	z := seed + 0x632BE59BD9B4E019
	z = (z ^ (z >> 30)) * 0xBF58476D1CE4E5B9
	z = (z ^ (z >> 27)) * 0x94D049BB133111EB
	z ^= z >> 31
	z = (z ^ 0x1234567) * 0xD6E8FEB86659FD93
	return &Rng{s: z ^ (z >> 32)}
}

func (r *Rng) U64() uint64 {
	r.s += 0x9E3779B97F4A7C15
	z := r.s
	z = (z ^ (z >> 30)) * 0xBF58476D1CE4E5B9
	z = (z ^ (z >> 27)) * 0x94D049BB133111EB
	return z ^ (z >> 31)
}
func (r *Rng) Intn(n int) int {
	if n <= 0 {
		return 0
	}
	return int(r.U64() % uint64(n))
}
func (r *Rng) Chance(pct int) bool { return r.Intn(100) < pct }

// Fork derives an independent stream (so that adding draws in one place does not shift another).
func (r *Rng) Fork(tag uint64) *Rng { return NewRng(r.U64() ^ tag*0xD6E8FEB86659FD93) }

func Pick[T any](r *Rng, xs []T) T { return xs[r.Intn(len(xs))] }

// ---------------------------------------------------------------- environment

func Seed() uint64 {
	v, err := strconv.ParseUint(os.Getenv("VERIF_SEED"), 10, 64)
	if err != nil {
		return 1
	}
	return v
}
func Tier() string {
	if os.Getenv("VERIF_TIER") == "thorough" {
		return "thorough"
	}
	return "quick"
}
func Thorough() bool { return Tier() == "thorough" }
func Prop() string   { return os.Getenv("VERIF_PROP") }
func EnvInt(name string, def int) int {
	if v, err := strconv.Atoi(os.Getenv(name)); err == nil {
		return v
	}
	return def
}
func LeanDriver() string {
	if p := os.Getenv("VERIF_LEAN"); p != "" {
		return p
	}
	return "/verif/lean/.lake/build/bin/driver"
}

// ---------------------------------------------------------------- result file

// A Finding is something the implementation did that a property's monitor rejects (Kind
// "violation"), or a case on which model and implementation differ (Kind "disagreement").
type Finding struct {
	Kind      string `json:"kind"`
	Property  string `json:"property"`
	Signature string `json:"signature"` // stable class of the failing case; matched against known_findings.jsonl
	What      string `json:"what"`
	Replay    any    `json:"replay"`
}

type Result struct {
	mu           sync.Mutex
	Stream       string         `json:"stream"`
	Property     string         `json:"property"`
	Seed         uint64         `json:"seed"`
	Tier         string         `json:"tier"`
	Evaluations  int            `json:"evaluations"`
	Distinct     int            `json:"distinct_nontrivial"`
	Rule         string         `json:"rule"`
	Samples      []any          `json:"samples"`
	Distribution map[string]int `json:"distribution"`
	Findings     []Finding      `json:"findings"`
	Notes        []string       `json:"notes"`
	Extra        map[string]any `json:"extra,omitempty"`
	seen         map[string]bool
	findSeen     map[string]int
}

func NewResult(stream string) *Result {
	return &Result{Stream: stream, Property: Prop(), Seed: Seed(), Tier: Tier(),
		Findings: []Finding{}, Samples: []any{}, Notes: []string{}, Distribution: map[string]int{}, seen: map[string]bool{}, findSeen: map[string]int{}, Extra: map[string]any{}}
}

func (r *Result) Count(key string) { r.mu.Lock(); r.Distribution[key]++; r.mu.Unlock() }
func (r *Result) CountN(key string, n int) {
	r.mu.Lock()
	r.Distribution[key] += n
	r.mu.Unlock()
}

// Eval records one evaluated case; canon identifies it for the distinct count, nontrivial says
// whether it counts as non-trivial by the stream's stated rule.
func (r *Result) Eval(canon string, nontrivial bool) {
	r.mu.Lock()
	defer r.mu.Unlock()
	r.Evaluations++
	if nontrivial && !r.seen[canon] {
		r.seen[canon] = true
		r.Distinct++
	}
}
func (r *Result) Sample(s any) {
	r.mu.Lock()
	defer r.mu.Unlock()
	if len(r.Samples) < 3 {
		r.Samples = append(r.Samples, s)
	}
}

// Find records a finding; at most 3 replays are kept per signature, the rest are counted.
func (r *Result) Find(f Finding) {
	r.mu.Lock()
	defer r.mu.Unlock()
	k := f.Kind + "|" + f.Property + "|" + f.Signature
	r.findSeen[k]++
	r.Distribution["finding:"+k]++
	if r.findSeen[k] <= 3 {
		r.Findings = append(r.Findings, f)
	}
}
func (r *Result) Note(format string, a ...any) {
	r.mu.Lock()
	defer r.mu.Unlock()
	if len(r.Notes) < 50 {
		r.Notes = append(r.Notes, fmt.Sprintf(format, a...))
	}
}

func (r *Result) Write() error {
	path := os.Getenv("VERIF_OUT")
	if path == "" {
		path = "/dev/stdout"
	}
	b, err := json.MarshalIndent(r, "", " ")
	if err != nil {
		return err
	}
	return os.WriteFile(path, append(b, '\n'), 0o644)
}

// ---------------------------------------------------------------- Lean driver

// LeanBatch pipes all lines through `driver <mode...>` and returns one output line per input line.
func LeanBatch(mode []string, lines []string) ([]string, error) {
	cmd := exec.Command(LeanDriver(), mode...)
	cmd.Stdin = strings.NewReader(strings.Join(lines, "\n") + "\n")
	cmd.Stderr = os.Stderr
	out, err := cmd.Output()
	if err != nil {
		return nil, fmt.Errorf("lean driver %v: %w", mode, err)
	}
	res := strings.Split(strings.TrimRight(string(out), "\n"), "\n")
	if len(lines) == 0 {
		return nil, nil
	}
	if len(res) != len(lines) {
		return nil, fmt.Errorf("lean driver %v: %d lines in, %d lines out", mode, len(lines), len(res))
	}
	return res, nil
}

var fnvPair [2]string

// FnvPair returns two different lock names whose 32-bit FNV-1 hashes (the hash the lock table shards by)
// are EQUAL: the extreme case of "names that fall into the same shard" - same shard for every shard count.
func FnvPair() (string, string) {
	if fnvPair[0] == "" {
		seen := map[uint32]int{}
		for i := 0; ; i++ {
			h := fnv.New32()
			h.Write([]byte(fmt.Sprintf("job-%d", i)))
			if j, ok := seen[h.Sum32()]; ok {
				fnvPair = [2]string{fmt.Sprintf("job-%d", j), fmt.Sprintf("job-%d", i)}
				break
			}
			seen[h.Sum32()] = i
		}
	}
	return fnvPair[0], fnvPair[1]
}

// ValidateHistories pipes every distinct event history (each ending in its own terminator line) to
// the Lean driver in the given mode and reports every history the model rejects as a
// model/implementation disagreement with the schedule that produced it as replay.
func ValidateHistories(res *Result, prop, mode, sig, model string, hists map[string]func() map[string]any) error {
	if len(hists) == 0 {
		return nil
	}
	keys := SortedKeys(hists)
	cmd := exec.Command(LeanDriver(), mode)
	cmd.Stdin = strings.NewReader(strings.Join(keys, "\n") + "\n")
	cmd.Stderr = os.Stderr
	out, err := cmd.Output()
	if err != nil {
		return fmt.Errorf("lean driver %s: %w", mode, err)
	}
	lines := strings.Split(strings.TrimRight(string(out), "\n"), "\n")
	if len(lines) != len(keys) {
		return fmt.Errorf("lean driver %s: %d histories in, %d answers out", mode, len(keys), len(lines))
	}
	for i, k := range keys {
		if lines[i] == "ok" {
			continue
		}
		rp := hists[k]()
		rp["history"] = strings.Split(k, "\n")
		rp["model"] = lines[i]
		rp["model_agrees"] = false
		res.Find(Finding{Kind: "disagreement", Property: prop, Signature: sig,
			What: "the events of this schedule are not a run of " + model + ": " + lines[i], Replay: rp})
	}
	return nil
}

// LeanProc is a long-running driver process spoken to in lockstep (one line in, one line out).
type LeanProc struct {
	cmd *exec.Cmd
	in  io.WriteCloser
	out *bufio.Reader
}

func LeanStart(mode ...string) (*LeanProc, error) {
	cmd := exec.Command(LeanDriver(), mode...)
	in, err := cmd.StdinPipe()
	if err != nil {
		return nil, err
	}
	out, err := cmd.StdoutPipe()
	if err != nil {
		return nil, err
	}
	cmd.Stderr = os.Stderr
	if err := cmd.Start(); err != nil {
		return nil, err
	}
	return &LeanProc{cmd: cmd, in: in, out: bufio.NewReaderSize(out, 1<<20)}, nil
}
func (p *LeanProc) Ask(line string) (string, error) {
	if _, err := io.WriteString(p.in, line+"\n"); err != nil {
		return "", err
	}
	s, err := p.out.ReadString('\n')
	return strings.TrimRight(s, "\n"), err
}
func (p *LeanProc) Close() { p.in.Close(); p.cmd.Wait() }

// SortedKeys is a small helper for canonical output.
func SortedKeys[V any](m map[string]V) []string {
	ks := make([]string, 0, len(m))
	for k := range m {
		ks = append(ks, k)
	}
	sort.Strings(ks)
	return ks
}

// TempDir returns a scratch directory on tmpfs when there is one (store.Write fsyncs on every
// call, which dominates the run time on a disk); the caller removes it.
func TempDir() string {
	base := ""
	if st, err := os.Stat("/dev/shm"); err == nil && st.IsDir() {
		base = "/dev/shm"
	}
	d, err := os.MkdirTemp(base, "verif-ldlm-")
	if err != nil {
		d, err = os.MkdirTemp("", "verif-ldlm-")
		if err != nil {
			panic(err)
		}
	}
	return d
}

// Watchdog guards a virtual-time stream against a call into the code under test that never returns
// (a leaked mutex: not a durable block, so synctest does not report it and the run would only end by
// the test timeout, losing every finding). The stream calls tick() between operations; if no tick
// arrives for `stall` of REAL time the watchdog records a violation with describe() as the replay,
// writes the result file and ends the process (the check accepts a checkpointed result of a stream
// that ended abnormally). Start it OUTSIDE any synctest bubble.
func Watchdog(res *Result, prop, sig string, stall time.Duration, describe func() any) (tick func()) {
	var n atomic.Int64
	go func() {
		last, since := int64(-1), time.Now()
		for {
			time.Sleep(time.Second)
			if v := n.Load(); v != last {
				last, since = v, time.Now()
				continue
			}
			if time.Since(since) < stall {
				continue
			}
			res.Find(Finding{Kind: "violation", Property: prop, Signature: sig,
				What:   fmt.Sprintf("a call into the code under test has not returned for %s of real time in a virtual-time run where every call takes microseconds: it is blocked for good (deadlock / leaked mutex); every call must return", stall),
				Replay: describe()})
			res.Note("stream ended by its watchdog after the stalled call")
			res.Write()
			os.Exit(1)
		}
	}()
	return func() { n.Add(1) }
}
