package concsrv

// C01 in real time: the controlled scheduler switches threads only where the lock table takes or drops a
// mutex; code that runs BEFORE any mutex (choosing the shard of a name) is never interleaved there. This
// part runs real goroutines in parallel on lock.Manager with the server's default shard count and counts
// the live holders of every name itself: never more than the size, and every key a successful TryLock
// returned unlocks exactly once.

import (
	"fmt"
	"sync"
	"sync/atomic"
	"time"

	"github.com/imoore76/ldlm/lock"

	"verif/harness/common"
)

func parallelCapacityProbe(res *common.Result, prop string) {
	dur := 1500 * time.Millisecond
	if common.Thorough() {
		dur = 20 * time.Second
	}
	for _, shards := range []uint32{16, 3} {
		m, closer := lock.NewManager(shards, time.Hour, time.Hour)
		const names, perName = 8, 2
		var live [names]atomic.Int32
		var grants, overs, lost atomic.Int64
		var first atomic.Value
		var wg sync.WaitGroup
		stop := time.Now().Add(dur)
		for n := 0; n < names; n++ {
			for g := 0; g < perName; g++ {
				wg.Add(1)
				go func(n, g int) {
					defer wg.Done()
					name, key := fmt.Sprintf("par-%d", n), fmt.Sprintf("k-%d-%d", n, g)
					for i := 0; time.Now().Before(stop); i++ {
						ok, err := m.TryLock(name, key, 1)
						if err != nil || !ok {
							continue
						}
						grants.Add(1)
						if c := live[n].Add(1); c > 1 {
							if overs.Add(1) == 1 {
								first.Store(fmt.Sprintf("%d shards: lock %q of size 1 has %d live holders (TryLock by goroutine %d, round %d, was granted while another holder had not unlocked)", shards, name, c, g, i))
							}
						}
						live[n].Add(-1)
						if un, uerr := m.Unlock(name, key); !un || uerr != nil {
							if lost.Add(1) == 1 && first.Load() == nil {
								first.Store(fmt.Sprintf("%d shards: Unlock(%q, %s) of a key that TryLock had just granted answered (%v, %v)", shards, name, key, un, uerr))
							}
						}
					}
				}(n, g)
			}
		}
		wg.Wait()
		closer()
		res.CountN(fmt.Sprintf("parallel-probe:grants:shards=%d", shards), int(grants.Load()))
		res.Eval(fmt.Sprintf("parallel-probe|shards=%d", shards), grants.Load() > 0)
		if overs.Load() > 0 || lost.Load() > 0 {
			res.Find(common.Finding{Kind: "violation", Property: prop, Signature: "conc:capacity:parallel-probe",
				What:   fmt.Sprintf("%d goroutines doing TryLock/Unlock on %d size-1 names of one lock.Manager in parallel for %v: %d grants exceeded the size, %d granted keys could not be unlocked; first: %v", names*perName, names, dur, overs.Load(), lost.Load(), first.Load()),
				Replay: map[string]any{"program": "8 names x 2 goroutines: loop { TryLock(name, own key, size 1); count; Unlock } on lock.NewManager(shards, 1h, 1h), real goroutines", "shards": shards, "grants": grants.Load(), "over_capacity": overs.Load(), "failed_unlocks": lost.Load(), "first": fmt.Sprint(first.Load())}})
		}
	}
}

// freeNeverBusyProbe (C02, real time): "a free lock is never reported busy" and "a failed operation consumes
// no capacity" while FAILING operations run in parallel: one goroutine is the only acquirer of a name
// (TryLock, then Unlock with the key it got), two others keep sending Unlock with a key that holds nothing.
// Every TryLock of the acquirer must be granted. The controlled scheduler cannot look inside the semaphore
// calls of a failing Unlock; real goroutines can.
func freeNeverBusyProbe(res *common.Result, prop string) {
	dur := 1500 * time.Millisecond
	if common.Thorough() {
		dur = 15 * time.Second
	}
	for _, size := range []int32{1, 3} {
		m, closer := lock.NewManager(16, time.Hour, time.Hour)
		name := fmt.Sprintf("free-%d", size)
		if ok, _ := m.TryLock(name, "seed", size); ok {
			m.Unlock(name, "seed")
		}
		stop := time.Now().Add(dur)
		var wg sync.WaitGroup
		var tries, refused atomic.Int64
		var first atomic.Value
		for g := 0; g < 2; g++ {
			wg.Add(1)
			go func(g int) {
				defer wg.Done()
				for time.Now().Before(stop) {
					m.Unlock(name, fmt.Sprintf("stale-%d", g))
				}
			}(g)
		}
		wg.Add(1)
		go func() {
			defer wg.Done()
			for i := 0; time.Now().Before(stop); i++ {
				ok, err := m.TryLock(name, "mine", size)
				tries.Add(1)
				if err != nil || !ok {
					if refused.Add(1) == 1 {
						first.Store(fmt.Sprintf("round %d: TryLock(%q, size %d) by the only acquirer answered (%v, %v) while nobody held the lock", i, name, size, ok, err))
					}
					continue
				}
				m.Unlock(name, "mine")
			}
		}()
		wg.Wait()
		closer()
		res.CountN(fmt.Sprintf("free-never-busy-probe:trylocks:size=%d", size), int(tries.Load()))
		res.Eval(fmt.Sprintf("free-never-busy-probe|size=%d", size), tries.Load() > 0)
		if refused.Load() > 0 {
			res.Find(common.Finding{Kind: "violation", Property: prop, Signature: "conc:nonlinearizable:free-lock-busy",
				What:   fmt.Sprintf("one goroutine is the only acquirer of %q (size %d) while two others send Unlock with keys that hold nothing: %d of its %d TryLocks were refused although the lock was free; first: %v", name, size, refused.Load(), tries.Load(), first.Load()),
				Replay: map[string]any{"program": "A: loop { TryLock(name, mine); Unlock(name, mine) }  B, C: loop { Unlock(name, stale) } on lock.NewManager(16, 1h, 1h), real goroutines", "size": size, "trylocks": tries.Load(), "refused": refused.Load(), "first": fmt.Sprint(first.Load())}})
		}
	}
}
