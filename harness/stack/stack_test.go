// Stack stream of the correspondence check: the REAL binaries of /repo (cmd/server, cmd/lock) built
// from the current working tree, run over loopback and driven by real clients. One entry point,
// dispatched on VERIF_PROP: C11 (graceful shutdown), C14 (error codes end to end), C16 (password and
// TLS on every entry point), C18 (admin IPC against the live server).
//
// Violations are data (findings in the result file), not test failures; the test fails only when
// the harness itself is broken (cannot build, cannot start a server that must start).
package stack

import (
	"os"
	"testing"

	"verif/harness/common"
)

func TestStack(t *testing.T) {
	prop := common.Prop()
	run := map[string]func(*testing.T, *common.Result, *common.Rng){
		"C11": runC11, "C13": runC13, "C14": runC14, "C15": runC15, "C16": runC16, "C18": runC18,
	}[prop]
	if run == nil {
		t.Skipf("VERIF_PROP=%q is not a stack property (C11, C13, C14, C15, C16, C18)", prop)
	}
	res := common.NewResult("stack")
	defer func() {
		if err := res.Write(); err != nil {
			t.Fatal(err)
		}
	}()
	rootDir = common.TempDir()
	defer os.RemoveAll(rootDir)
	// children are killed by the t.Cleanup of startServer, which runs before the deferred RemoveAll
	// of a *sub*test only; so run the scenario in a subtest and let its cleanups finish first.
	t.Run(prop, func(t *testing.T) {
		buildBinaries(t)
		run(t, res, common.NewRng(common.Seed()))
	})
}
