import Ldlm.Generated.Facts
/-!
Source fingerprints for C05: the functions of /repo its models were written against (verifcfg.FPMAP).
`Facts.fp_*` is regenerated from the working tree by every check (first 16 hex digits of SHA-256 of the
normalised signature and body); the right-hand sides were copied from a reviewed tree by tools/mkfp.py and
are NOT regenerated. A pin that no longer checks = this function changed since the models were written.
-/
namespace Ldlm.Pins.FP.C05
open Ldlm

/-- timermap/timermap.go: New -/
theorem fp_timermap_timermap_New : Facts.fp_timermap_timermap_New = "7bfa6bb474b5152d" := rfl
/-- timermap/timermap.go: TimerMap.Add -/
theorem fp_timermap_timermap_TimerMap_Add : Facts.fp_timermap_timermap_TimerMap_Add = "d8c62d0874a15c32" := rfl
/-- timermap/timermap.go: TimerMap.Remove -/
theorem fp_timermap_timermap_TimerMap_Remove : Facts.fp_timermap_timermap_TimerMap_Remove = "ce8fae6c7455bbd4" := rfl
/-- timermap/timermap.go: TimerMap.Reset -/
theorem fp_timermap_timermap_TimerMap_Reset : Facts.fp_timermap_timermap_TimerMap_Reset = "6e63112ea24222fa" := rfl
/-- timermap/timermap.go: TimerMap.shutdown -/
theorem fp_timermap_timermap_TimerMap_shutdown : Facts.fp_timermap_timermap_TimerMap_shutdown = "c7c679c3e023a667" := rfl
/-- server/server.go: LockServer.Unlock -/
theorem fp_server_server_LockServer_Unlock : Facts.fp_server_server_LockServer_Unlock = "b03d29042086a906" := rfl
/-- server/server.go: LockServer.Renew -/
theorem fp_server_server_LockServer_Renew : Facts.fp_server_server_LockServer_Renew = "ec4eb8cf57e4c2a1" := rfl
/-- server/server.go: LockServer.onTimeoutFunc -/
theorem fp_server_server_LockServer_onTimeoutFunc : Facts.fp_server_server_LockServer_onTimeoutFunc = "ee575fb2d063557f" := rfl
/-- lock/manager.go: Manager.Lock -/
theorem fp_lock_manager_Manager_Lock : Facts.fp_lock_manager_Manager_Lock = "b3a78f0a87d5a3ad" := rfl
/-- lock/manager.go: Manager.TryLock -/
theorem fp_lock_manager_Manager_TryLock : Facts.fp_lock_manager_Manager_TryLock = "3c861dc7cc9f73de" := rfl
/-- lock/manager.go: Manager.Unlock -/
theorem fp_lock_manager_Manager_Unlock : Facts.fp_lock_manager_Manager_Unlock = "e1e8415d8eb20442" := rfl
/-- server/server.go: LockServer.CreateSession -/
theorem fp_server_server_LockServer_CreateSession : Facts.fp_server_server_LockServer_CreateSession = "a5cc599441e28bb4" := rfl
/-- server/server.go: LockServer.DestroySession -/
theorem fp_server_server_LockServer_DestroySession : Facts.fp_server_server_LockServer_DestroySession = "8239f3a4034818b5" := rfl
/-- server/server.go: LockServer.SessionId -/
theorem fp_server_server_LockServer_SessionId : Facts.fp_server_server_LockServer_SessionId = "e573c920d6f35761" := rfl
/-- server/server.go: LockServer.SetShuttingDown -/
theorem fp_server_server_LockServer_SetShuttingDown : Facts.fp_server_server_LockServer_SetShuttingDown = "54b9721d804e9da3" := rfl

end Ldlm.Pins.FP.C05
