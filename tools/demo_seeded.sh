#!/bin/sh
# demo.sh <id>: run the demonstration on the changed tree (must fail) and on the original (must pass)
id=$1; wt=/tmp/wt/$id; out=/tmp/wt/out/$id
G="env -u GOFLAGS -u GOPROXY -u GOSUMDB -u GOTOOLCHAIN GOFLAGS=-mod=mod GOPROXY=off go"
cd $wt || exit 2
demo=$(git status --short | grep '^??' | awk '{print $2}' | grep '_test.go$')
[ -z "$demo" ] && { echo "$id: no demo test file in worktree"; exit 0; }
pk=$(for f in $demo; do echo ./$(dirname $f)/; done | sort -u)
{
echo "== demo on changed tree: $pk"
$G test -count=1 -vet=off -run 'VerifDemo' $pk 2>&1 | tail -40
git apply -R $out/patch.diff || { echo "cannot revert"; exit 3; }
echo "== demo on original tree"
$G test -count=1 -vet=off -run 'VerifDemo' $pk 2>&1 | tail -15
git apply $out/patch.diff
} > $out/demo.log 2>&1
ch=$(sed -n '/== demo on changed/,/== demo on original/p' $out/demo.log | grep -c '^FAIL\|^--- FAIL')
orf=$(sed -n '/== demo on original/,$p' $out/demo.log | grep -c '^FAIL\|^--- FAIL')
oro=$(sed -n '/== demo on original/,$p' $out/demo.log | grep -c '^ok')
echo "$id demo: changed-tree FAIL lines=$ch; original FAIL lines=$orf ok lines=$oro"
