import Ldlm.Proofs.CoreMain
import Ldlm.Props.C08
/-!
C18 — Admin IPC list and unlock work against the live server.

M2 carries the admin operations: the listing is the session table (`Locks()`), `ipcUnlock name key`
is `IPC.Unlock` (pinned to its source text by `Pins.C18.pin_IpcUnlock`).

* `ipc_unlock_by_key_equiv` — with a key given, the admin unlock is exactly the state transition and
  answer of the holder's own Unlock, whichever session (or none) issues it: same effect on capacity,
  lease timer, bookkeeping and state file.
* `ipc_unlock_by_name_picks_listed` / `ipc_unlock_by_name_equiv` — with a name alone it is the
  Unlock of a listed hold of that name (the code takes the last one in `Locks()` order, which is Go
  map order across sessions: the model admits any listed hold of that name and the tie reports the
  one the implementation picked).
* `ipc_unlock_absent` — no hold of that name listed: LockDoesNotExist and the state is untouched.
* `ipc_list_exact` — (C08) what the listing shows is exactly what occupies capacity.
-/
namespace Ldlm.Props.C18
open Ldlm.Core

variable {M : Type} (o : MapOps M) (c : Cfg)

theorem ipc_unlock_by_key_equiv (s : St M) (sid : Option Sid) (n k ch : Str) (hk : k ≠ []) :
    step o c s (.ipcUnlock n k ch) = step o c s (.unlock sid n k) := by
  simp [step, hk]

/-- the hold picked for a name alone is a listed hold of that name -/
theorem ipc_unlock_by_name_picks_listed (s : St M) (n ch k : Str) (h : ipcPick s n ch = some k) :
    ∃ sid hs hd, (sid, hs) ∈ s.sessions ∧ hd ∈ hs ∧ hd.name = n ∧ hd.key = k := by
  unfold ipcPick at h
  simp only at h
  have hmem : ∀ hd ∈ (s.sessions.flatMap (·.2)).filter (fun hd => hd.name = n),
      ∃ sid hs, (sid, hs) ∈ s.sessions ∧ hd ∈ hs ∧ hd.name = n := by
    intro hd hm
    obtain ⟨h1, h2⟩ := List.mem_filter.mp hm
    obtain ⟨e, he, hin⟩ := List.mem_flatMap.mp h1
    exact ⟨e.1, e.2, he, hin, by simpa using h2⟩
  split at h
  · rename_i hany
    cases h
    obtain ⟨hd, hm, hk⟩ := List.any_eq_true.mp hany
    obtain ⟨sid, hs, h1, h2, h3⟩ := hmem hd hm
    exact ⟨sid, hs, hd, h1, h2, h3, by simpa using hk⟩
  · cases hl : ((s.sessions.flatMap (·.2)).filter (fun hd => hd.name = n)).getLast? with
    | none => simp [hl] at h
    | some hd =>
      simp [hl] at h
      obtain ⟨sid, hs, h1, h2, h3⟩ := hmem hd (List.mem_of_getLast? hl)
      exact ⟨sid, hs, hd, h1, h2, h3, h⟩

theorem ipc_unlock_by_name_equiv (s : St M) (sid : Option Sid) (n ch k : Str) (h : ipcPick s n ch = some k) :
    step o c s (.ipcUnlock n [] ch) = step o c s (.unlock sid n k) := by
  simp [step, h]

theorem ipc_unlock_absent (s : St M) (n ch : Str) (h : ipcPick s n ch = none) :
    step o c s (.ipcUnlock n [] ch) = (s, { err := some .noLock }) := by
  simp [step, h]

/-- the listing is exact (restating C08 for the admin tool) -/
theorem ipc_list_exact {s : St M} (h : Inv' o c s) (hnc : c.noClear = false) (n k : Str) (sz : Int) :
    Ldlm.Props.C08.listed s n k sz ↔ Ldlm.Props.C08.heldWith o s n k sz :=
  Ldlm.Props.C08.views_agree_partial h hnc n k sz

/-- `Unlock` works without a session in the context (the `fix:` for D5): the session plays no role -/
theorem unlock_ignores_session (s : St M) (sid sid' : Option Sid) (n k : Str) :
    step o c s (.unlock sid n k) = step o c s (.unlock sid' n k) := by
  simp [step]

end Ldlm.Props.C18
