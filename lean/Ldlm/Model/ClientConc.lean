/-!
M5c — `Unlock` / `Close` racing the renew goroutine of one hold (C19), any schedule.

One model step per blocking point / channel operation of `client/client.go` (function bodies pinned
to the source text in `Pins/C19.lean`):

  renew goroutine   sel      parked in `select` (timer pending)
                    fired    took the `<-t.C` branch; re-checks the stop channel
                    checked  stop not closed: about to send `Renew`
                    inRenew  `Renew` sent, waiting for the answer (an error answer → panic)
                    exited   returned (`done` closed)
  Unlock thread     u0  `maybeRemoveRenewer`: `LoadAndDelete`, `Stop`: close(stop)
                    u1  `<-r.done`
                    u2  the Unlock RPC
                    u3  returned
  Close thread      the same with `conn.Close()` in place of the RPC

`oldStop = true` is the `Stop` before repair 9e742fe: a non-blocking send on the stop channel,
delivered only if the goroutine is parked in its `select`, otherwise dropped.
Core Lean only.
-/
namespace Ldlm.ClientConc

inductive G | sel | fired | checked | inRenew | exited | panicked
deriving DecidableEq, Repr

inductive U | u0 | u1 | u2 | u3
deriving DecidableEq, Repr

structure St where
  g : G
  u : U                 -- the Unlock thread
  c : U                 -- the Close thread
  stopClosed : Bool
  held : Bool           -- the hold exists at the server
  connClosed : Bool
  late : Bool           -- ghost: a Renew was sent after Unlock or Close had returned
deriving DecidableEq, Repr

inductive Act
  | gTimer | gCheck | gSend | gAnswer | gStop
  | uStep | cStep
deriving DecidableEq, Repr

/-- a stopper's step from pc `p`; `fin` is what its last action does to the state -/
def stopper (oldStop : Bool) (s : St) (p : U) (setp : St → U → St) (fin : St → St) : Option St :=
  match p with
  | .u0 =>
    if oldStop then
      -- non-blocking send: delivered iff the goroutine is parked in its select
      if s.g = .sel then some (setp { s with g := .exited } .u2) else some (setp s .u2)
    else some (setp { s with stopClosed := true } .u1)
  | .u1 => if s.g = .exited then some (setp s .u2) else none
  | .u2 => some (setp (fin s) .u3)
  | .u3 => none

def step (oldStop : Bool) (s : St) : Act → Option St
  | .gTimer => if s.g = .sel then some { s with g := .fired } else none
  | .gCheck =>
    if s.g = .fired then some { s with g := (if s.stopClosed then .exited else .checked) } else none
  | .gSend =>
    if s.g = .checked then some { s with g := .inRenew, late := s.late || s.u = .u3 || s.c = .u3 } else none
  | .gAnswer =>
    if s.g = .inRenew then some { s with g := (if s.held ∧ ¬ s.connClosed then .sel else .panicked) } else none
  | .gStop => if s.g = .sel ∧ s.stopClosed then some { s with g := .exited } else none
  | .uStep => stopper oldStop s s.u (fun s p => { s with u := p }) (fun s => { s with held := false })
  | .cStep => stopper oldStop s s.c (fun s p => { s with c := p }) (fun s => { s with connClosed := true })

def init : St :=
  { g := .sel, u := .u0, c := .u0, stopClosed := false, held := true, connClosed := false, late := false }

def run (oldStop : Bool) : St → List Act → Option St
  | s, [] => some s
  | s, a :: as => match step oldStop s a with
    | none => none
    | some s' => run oldStop s' as

end Ldlm.ClientConc
