// Added to package server through `go test -overlay` by /verif (guard "verif"); never part of /repo.
package server

import (
	"sync"

	"github.com/imoore76/ldlm/lock"
	cl "github.com/imoore76/ldlm/server/clientlock"
	"github.com/imoore76/ldlm/timermap"
)

func (l *LockServer) VerifManager() *lock.Manager {
	lm := l.lockMgr
	if d, ok := lm.(verifLockMgr); ok {
		lm = d.lockManager
	}
	m, _ := lm.(*lock.Manager)
	return m
}

func (l *LockServer) VerifSessionLocks() map[string][]cl.Lock { return l.sessionMgr.Locks() }

func (l *LockServer) VerifTimerKeys() []string {
	t := l.lockTimerMgr
	if d, ok := t.(verifTimerMgr); ok {
		t = d.timerManager
	}
	tm, ok := t.(*timermap.TimerMap)
	if !ok {
		return nil
	}
	return tm.VerifKeys()
}

// ---- manager-call tracing (trace validation of the interleaving models)

// VerifMgrEvent is the invocation ("inv") or the return ("ret") of one call the lock server makes into
// one of its three managers.
type VerifMgrEvent struct {
	Phase  string // inv | ret
	Id     int
	Method string // lock.Unlock, lock.TryLock, lock.Lock, timer.Add, timer.Remove, timer.Reset, sess.AddLock, sess.RemoveLock, sess.DestroySession
	Name   string
	Key    string // lock key, or the timer-map key for timer.*
	Sid    string
	Ok     bool
	Err    string
	Locks  [][2]string // ret of sess.DestroySession: the (name, key) pairs of the entry it returned
}

type verifTracer struct {
	rec func(VerifMgrEvent)
	mu  sync.Mutex
	n   int
}

func (t *verifTracer) inv(method, name, key, sid string) int {
	t.mu.Lock()
	t.n++
	id := t.n
	t.mu.Unlock()
	t.rec(VerifMgrEvent{Phase: "inv", Id: id, Method: method, Name: name, Key: key, Sid: sid})
	return id
}

func (t *verifTracer) ret(id int, method string, ok bool, err error) {
	e := VerifMgrEvent{Phase: "ret", Id: id, Method: method, Ok: ok}
	if err != nil {
		e.Err = err.Error()
	}
	t.rec(e)
}

func (t *verifTracer) retLocks(id int, method string, ls []cl.Lock) {
	e := VerifMgrEvent{Phase: "ret", Id: id, Method: method, Ok: len(ls) > 0}
	for _, l := range ls {
		e.Locks = append(e.Locks, [2]string{l.Name(), l.Key()})
	}
	t.rec(e)
}

// The recording decorators verifLockMgr / verifSessMgr / verifTimerMgr are generated from the interface
// declarations of the tree under test (tools/gendeco -> server_deco.go), so that a changed method
// signature does not stop the harness from compiling.

// VerifTrace reports every call into the three managers from now on (invocation and return).
func (l *LockServer) VerifTrace(rec func(VerifMgrEvent)) {
	t := &verifTracer{rec: rec}
	l.lockMgr = verifLockMgr{l.lockMgr, t}
	l.sessionMgr = verifSessMgr{l.sessionMgr, t}
	l.lockTimerMgr = verifTimerMgr{l.lockTimerMgr, t}
}

// VerifTimerKey is the lease-timer key of a hold.
func VerifTimerKey(name, key string) string { return lockTimerKey(name, key) }
