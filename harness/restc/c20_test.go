package restc

// C20 (sequential part) — REST sessions live exactly while active and end exactly once.
//
// One lock server + gateway per history, session timeout T ∈ {2 s, 10 s}. The monitor keeps, by
// plain arithmetic on the virtual clock, when every session was created / last accepted a request,
// and checks after EVERY operation: who is accepted and who gets 401, that refusals change nothing,
// that each ended session received exactly one ConnEnd (counted by the service decorator), and that
// the hold listing is exactly the union of the holds of the sessions still alive.

import (
	"fmt"
	"sort"
	"strings"
	"testing"
	"testing/synctest"
	"time"

	pb "github.com/imoore76/ldlm/protos"
	"google.golang.org/protobuf/encoding/protojson"

	"verif/harness/common"
	"verif/harness/impl"
)

type c20op struct {
	Kind   string // create | lock | unlock | renew | delete | adv
	Cookie string // "s<i>" (cookie of session i, whatever its state) | "missing" | "garbage"
	Sess   int
	Garb   string
	Name   string
	Size   *int32
	Lt     *int32
	KeyOf  int // unlock/renew: hold owner session (-1: garbage key)
	KeyIdx int // index into that session's granted list (all grants, live or not)
	Gap    time.Duration
	GapWhy string
}

func (o c20op) canon() string {
	ck := o.Cookie
	if o.Cookie == "garbage" {
		ck = "garbage" + impl.Tok(o.Garb)
	}
	switch o.Kind {
	case "create":
		return "create"
	case "lock":
		return fmt.Sprintf("lock[%s] %s %s %s", ck, o.Name, optS(o.Size), optS(o.Lt))
	case "unlock", "renew":
		return fmt.Sprintf("%s[%s] k%d.%d", o.Kind, ck, o.KeyOf, o.KeyIdx)
	case "delete":
		return fmt.Sprintf("delete[%s]", ck)
	}
	return fmt.Sprintf("adv %d(%s)", int64(o.Gap), o.GapWhy)
}

type c20grant struct{ Name, Key string }

type c20sess struct {
	cookie  string
	lsID    string
	last    time.Duration // creation or last accepted request
	deleted bool
	expired bool // sticky: a full timeout of idleness has been observed by arithmetic
	grants  []c20grant
	holds   map[string]string // key -> name, while the model says the hold exists
}

func (s *c20sess) ended() bool { return s.deleted || s.expired }

type c20state struct {
	T    time.Duration
	now  time.Duration
	sess []*c20sess
	maxS int
}

type c20source interface {
	next(st *c20state) (c20op, bool)
}

// ---------------------------------------------------------------- random histories

type c20rand struct {
	r    *common.Rng
	left int
}

var c20garbage = []string{"deadbeef", "", "0123456789abcdef0123456789abcdef", "a b", `"q"`, "é"}

func (g *c20rand) next(st *c20state) (c20op, bool) {
	if g.left <= 0 {
		return c20op{}, false
	}
	g.left--
	r := g.r
	if len(st.sess) == 0 || (len(st.sess) < st.maxS && r.Chance(10)) {
		return c20op{Kind: "create"}, true
	}
	allEnded := true
	for _, s := range st.sess {
		allEnded = allEnded && s.ended()
	}
	if allEnded {
		if len(st.sess) < st.maxS && r.Chance(50) {
			return c20op{Kind: "create"}, true
		}
		g.left = min(g.left, 3) // only refusals can follow: a few of them, then stop
	}
	cookie := func(o *c20op) {
		switch x := r.Intn(100); {
		case x < 80:
			o.Cookie, o.Sess = "s", r.Intn(len(st.sess))
			o.Cookie = fmt.Sprintf("s%d", o.Sess)
		case x < 88:
			o.Cookie, o.Sess = "missing", -1
		default:
			o.Cookie, o.Sess, o.Garb = "garbage", -1, common.Pick(r, c20garbage)
			if r.Chance(30) { // a live cookie with its last character changed
				c := st.sess[r.Intn(len(st.sess))].cookie
				o.Garb = c[:len(c)-1] + map[bool]string{true: "0", false: "1"}[c[len(c)-1] != '0']
			}
		}
	}
	key := func(o *c20op) {
		o.KeyOf, o.KeyIdx = -1, 0
		cands := []int{}
		for i, s := range st.sess {
			if len(s.grants) > 0 {
				cands = append(cands, i)
			}
		}
		if len(cands) == 0 || r.Chance(8) {
			return
		}
		o.KeyOf = common.Pick(r, cands)
		if o.Sess >= 0 && len(st.sess[o.Sess].grants) > 0 && r.Chance(75) {
			o.KeyOf = o.Sess
		}
		n := len(st.sess[o.KeyOf].grants)
		o.KeyIdx = n - 1 - r.Intn(min(n, 3))
	}
	switch x := r.Intn(100); {
	case x < 32: // time
		o := c20op{Kind: "adv"}
		live := []*c20sess{}
		for _, s := range st.sess {
			if !s.ended() {
				live = append(live, s)
			}
		}
		kind := weighted(r, []string{"T-1ns", "T", "T+1ns", "T/2", "1ns", "2T"}, []int{30, 10, 18, 28, 8, 6})
		off := map[string]time.Duration{"T-1ns": st.T - 1, "T": st.T, "T+1ns": st.T + 1, "T/2": st.T / 2, "1ns": 1, "2T": 2 * st.T}[kind]
		o.Gap, o.GapWhy = off, kind
		if len(live) > 0 && r.Chance(70) { // aim at one session's deadline rather than at "now"
			s := common.Pick(r, live)
			if d := s.last + off - st.now; d > 0 {
				o.Gap, o.GapWhy = d, "last+"+kind
			}
		}
		return o, true
	case x < 58:
		o := c20op{Kind: "lock", Name: common.Pick(r, []string{"x", "y", "z"})}
		cookie(&o)
		o.Size = weighted(r, []*int32{nil, p32(2)}, []int{60, 40})
		o.Lt = weighted(r, []*int32{nil, p32(3600)}, []int{50, 50})
		return o, true
	case x < 74:
		o := c20op{Kind: "unlock"}
		cookie(&o)
		key(&o)
		return o, true
	case x < 86:
		o := c20op{Kind: "renew"}
		cookie(&o)
		key(&o)
		return o, true
	}
	o := c20op{Kind: "delete"}
	cookie(&o)
	return o, true
}

// ---------------------------------------------------------------- bounded-exhaustive histories

// Every word over: create, lock[s0], lock[s1], delete[s0], delete[s1], adv to s0.last+T-1ns / +T /
// +T+1ns (plain T-1ns / T / T+1ns when that is not in the future), adv T/2.
type c20word struct {
	word []int
	i    int
}

const c20Alphabet = 9

var c20SymNames = []string{"create", "lock[s0]", "lock[s1]", "delete[s0]", "delete[s1]", "adv(T-1ns)", "adv(T)", "adv(T+1ns)", "adv(T/2)"}

func (w *c20word) next(st *c20state) (c20op, bool) {
	if len(st.sess) == 0 {
		return c20op{Kind: "create"}, true
	}
	if w.i >= len(w.word) {
		return c20op{}, false
	}
	sym := w.word[w.i]
	w.i++
	ck := func(i int) (string, int) {
		if i < len(st.sess) {
			return fmt.Sprintf("s%d", i), i
		}
		return "missing", -1
	}
	adv := func(off time.Duration, why string) (c20op, bool) {
		o := c20op{Kind: "adv", Gap: off, GapWhy: why}
		if d := st.sess[0].last + off - st.now; d > 0 && !st.sess[0].ended() {
			o.Gap, o.GapWhy = d, "last+"+why
		}
		return o, true
	}
	switch sym {
	case 0:
		return c20op{Kind: "create"}, true
	case 1, 2:
		o := c20op{Kind: "lock", Name: []string{"x", "y"}[sym-1]}
		o.Cookie, o.Sess = ck(sym - 1)
		return o, true
	case 3, 4:
		o := c20op{Kind: "delete"}
		o.Cookie, o.Sess = ck(sym - 3)
		return o, true
	case 5:
		return adv(st.T-1, "T-1ns")
	case 6:
		return adv(st.T, "T")
	case 7:
		return adv(st.T+1, "T+1ns")
	}
	return c20op{Kind: "adv", Gap: st.T / 2, GapWhy: "T/2"}, true
}

// ---------------------------------------------------------------- one history

type c20trace struct {
	Op     string `json:"op"`
	At     int64  `json:"at_ns"`
	Status int    `json:"status,omitempty"`
	Body   string `json:"body,omitempty"`
	Expect string `json:"expected,omitempty"`
}

type c20out struct {
	canon                      []string
	accepted, refused          int
	endedByDelete, endedByIdle int
	found                      bool
}

func runC20History(t *testing.T, res *common.Result, label string, T time.Duration, maxS int, src c20source) (out c20out) {
	const prop = "C20"
	synctest.Test(t, func(t *testing.T) {
		start := time.Now()
		sd, err := newSide(true, T)
		if err != nil {
			t.Fatalf("server.New/NewRestServer: %v", err)
		}
		defer sd.close()
		st := &c20state{T: T, maxS: maxS}
		var tr []c20trace
		find := func(sig, what string) {
			out.found = true
			sess := []map[string]any{}
			for i, s := range st.sess {
				sess = append(sess, map[string]any{"session": i, "last_accepted_ns": int64(s.last), "deleted": s.deleted, "expired_by_arithmetic": s.expired,
					"conn_end_events": sd.svc.ended(s.lsID), "model_holds": len(s.holds)})
			}
			res.Find(common.Finding{Kind: "violation", Property: prop, Signature: sig, What: what,
				Replay: map[string]any{"history": label, "seed": common.Seed(), "session_timeout_ns": int64(T), "ops": tr, "sessions": sess,
					"locks_listed": locksCanon(sd.ls, true), "now_ns": int64(time.Since(start))}})
		}
		// classify: "alive", "ended" or "tie" (exactly one timeout after the last accepted request:
		// the idle timer fires at this very instant, either order is legitimate)
		class := func(s *c20sess) string {
			switch {
			case s.ended():
				return "ended"
			case st.now-s.last < T:
				return "alive"
			case st.now-s.last == T:
				return "tie"
			}
			return "ended"
		}
		// audit: ConnEnd counts and the hold listing against the model, after every operation
		audit := func(after string) {
			st.now = time.Since(start)
			listed := map[string]bool{}
			for _, l := range sd.ls.Locks() {
				listed[l.Key()] = true
			}
			total := 0
			for i, s := range st.sess {
				n := sd.svc.ended(s.lsID)
				total += n
				if !s.ended() && st.now-s.last > T {
					s.expired = true
					out.endedByIdle++
					res.Count("session-ended-by:idle-timeout")
				}
				if !s.ended() && st.now-s.last == T { // tie: adopt what happened
					if n > 0 {
						s.expired = true
						out.endedByIdle++
						res.Count("session-ended-by:idle-timeout")
						res.Count("tie-at-deadline:timer-first")
					} else {
						res.Count("tie-at-deadline:still-alive")
					}
				}
				switch {
				case s.ended() && n == 0:
					find("rest:session:connend-count:0", fmt.Sprintf("session %d has ended (deleted=%v, idle for %v of timeout %v) but no ConnEnd was delivered for it after %s; required exactly one", i, s.deleted, st.now-s.last, T, after))
				case s.ended() && n > 1:
					find("rest:session:connend-count:2+", fmt.Sprintf("session %d received %d ConnEnd events after %s; required exactly one", i, n, after))
				case !s.ended() && n > 0:
					find("rest:session:connend-count:early", fmt.Sprintf("session %d is still valid (idle for %v of timeout %v, not deleted) but %d ConnEnd event(s) were delivered for it after %s", i, st.now-s.last, T, n, after))
				}
				if out.found {
					return
				}
				if s.ended() {
					for k, name := range s.holds {
						if listed[k] {
							find("rest:session:holds-survive-end", fmt.Sprintf("hold on %q of session %d is still listed after the session ended (%s)", name, i, after))
							return
						}
					}
					s.holds = map[string]string{}
				} else {
					for k, name := range s.holds {
						if !listed[k] {
							find("rest:session:other-session-affected", fmt.Sprintf("hold on %q of session %d, which is still valid, disappeared from the listing after %s", name, i, after))
							return
						}
						delete(listed, k)
					}
				}
			}
			if len(listed) > 0 {
				find("rest:session:holds-survive-end", fmt.Sprintf("%d hold(s) listed that belong to no live session after %s", len(listed), after))
				return
			}
			if total != sd.svc.totalEnds() {
				find("rest:session:connend-count:2+", fmt.Sprintf("%d ConnEnd events were delivered in total but only %d belong to sessions created through POST /session (after %s)", sd.svc.totalEnds(), total, after))
			}
		}
		keyOf := func(o c20op) (string, string) {
			if o.KeyOf < 0 || o.KeyOf >= len(st.sess) || o.KeyIdx >= len(st.sess[o.KeyOf].grants) {
				return "x", "no-such-key"
			}
			g := st.sess[o.KeyOf].grants[o.KeyIdx]
			return g.Name, g.Key
		}

		for !out.found {
			o, ok := src.next(st)
			if !ok {
				break
			}
			out.canon = append(out.canon, o.canon())
			st.now = time.Since(start)
			e := c20trace{Op: o.canon(), At: int64(st.now)}
			res.Count("op:" + o.Kind)
			switch o.Kind {
			case "adv":
				res.Count("gap:" + o.GapWhy)
				time.Sleep(o.Gap)
				synctest.Wait()
				tr = append(tr, e)
			case "create":
				// every third create carries the cookie of the latest session (a client that always logs in
				// first, a retry): whatever cookie the 201 hands out is valid for a full timeout from now
				var carried *string
				if len(st.sess) > 0 && len(tr)%3 == 0 {
					carried = &st.sess[len(st.sess)-1].cookie
					res.Count("create:with-a-session-cookie")
				}
				h := sd.do("POST", "/session", carried, "")
				e.Status, e.Body = h.Code, strings.TrimSpace(h.Body)
				tr = append(tr, e)
				if h.Panic != "" {
					find("rest:session:panic", "POST /session panicked: "+h.Panic)
					return
				}
				if h.Code != 201 || h.Cookie == nil || h.Cookie.Value == "" {
					find("rest:session:create-failed", fmt.Sprintf("POST /session answered %d, cookie present %v; required 201 and a session cookie", h.Code, h.Cookie != nil))
					return
				}
				if want := start.Add(st.now + T).UTC().Truncate(time.Second); !h.Cookie.Expires.Equal(want) {
					find("rest:session:cookie-not-refreshed", fmt.Sprintf("the cookie of a new session expires at %v; required now+timeout = %v", h.Cookie.Expires, want))
					return
				}
				reused := false
				for _, x := range st.sess {
					if x.cookie == h.Cookie.Value { // the gateway handed the same session out again: it was told "valid from now"
						x.last, reused = st.now, true
					}
				}
				if !reused {
					st.sess = append(st.sess, &c20sess{cookie: h.Cookie.Value, lsID: sd.svc.lastTagged(), last: st.now, holds: map[string]string{}})
				}
			case "lock", "unlock", "renew", "delete":
				var ck *string
				var s *c20sess
				switch o.Cookie {
				case "missing":
				case "garbage":
					g := o.Garb
					ck = &g
				default:
					s = st.sess[o.Sess]
					ck = &s.cookie
				}
				expect := "refuse"
				if s != nil {
					expect = map[string]string{"alive": "accept", "tie": "either", "ended": "refuse"}[class(s)]
				}
				res.Count("cookie:" + strings.TrimRight(o.Cookie, "0123456789") + ":" + expect)
				before, endsBefore := stateCanon(sd.ls), sd.svc.totalEnds()
				var h httpResp
				name, key := "", ""
				switch o.Kind {
				case "lock":
					body := fmt.Sprintf(`{"name":%q`, o.Name)
					if o.Size != nil {
						body += fmt.Sprintf(`,"size":%d`, *o.Size)
					}
					if o.Lt != nil {
						body += fmt.Sprintf(`,"lock_timeout_seconds":%d`, *o.Lt)
					}
					h = sd.do("POST", "/v1/lock", ck, body+"}")
				case "unlock":
					name, key = keyOf(o)
					h = sd.do("POST", "/v1/unlock", ck, fmt.Sprintf(`{"name":%q,"key":%q}`, name, key))
				case "renew":
					name, key = keyOf(o)
					h = sd.do("POST", "/v1/renew", ck, fmt.Sprintf(`{"name":%q,"key":%q,"lock_timeout_seconds":3600}`, name, key))
				case "delete":
					h = sd.do("DELETE", "/session", ck, "")
				}
				e.Status, e.Body, e.Expect = h.Code, strings.TrimSpace(h.Body), expect
				tr = append(tr, e)
				if h.Panic != "" {
					find("rest:session:panic", fmt.Sprintf("%s panicked: %s", o.Kind, h.Panic))
					return
				}
				accepted := h.Code == 200
				refusedOK := h.Code == 401
				if o.Kind == "delete" {
					refusedOK = h.Code >= 400
				}
				if expect == "either" {
					if accepted {
						expect = "accept"
						res.Count("tie-at-deadline:request-accepted")
					} else {
						expect = "refuse"
						s.expired = true
						out.endedByIdle++
						res.Count("session-ended-by:idle-timeout")
						res.Count("tie-at-deadline:request-refused")
					}
				}
				switch {
				case expect == "accept" && accepted:
					out.accepted++
					res.Count("accepted:" + o.Kind)
				case expect == "accept" && h.Code == 401, expect == "accept" && o.Kind == "delete" && h.Code >= 400:
					find("rest:session:refused-while-valid", fmt.Sprintf("%s with the cookie of session %d was refused with %d although the session was created, not deleted and idle for only %v of its %v timeout", o.Kind, o.Sess, h.Code, st.now-s.last, T))
				case expect == "accept":
					find("rest:session:unexpected-status", fmt.Sprintf("%s on a valid session answered HTTP %d; required 200", o.Kind, h.Code))
				case expect == "refuse" && accepted:
					why := "a missing or unknown cookie"
					if s != nil {
						why = fmt.Sprintf("the cookie of session %d (deleted=%v, idle for %v of its %v timeout)", o.Sess, s.deleted, st.now-s.last, T)
					}
					find("rest:session:accepted-after-expiry", fmt.Sprintf("%s with %s was accepted (HTTP 200); required a refusal", o.Kind, why))
				case expect == "refuse" && !refusedOK:
					find("rest:session:refused-not-401", fmt.Sprintf("%s with an invalid session was answered with HTTP %d; required 401", o.Kind, h.Code))
				case expect == "refuse":
					out.refused++
					res.Count(fmt.Sprintf("refused:%s:%s:http-%d", o.Kind, strings.TrimRight(o.Cookie, "0123456789"), h.Code))
					if after := stateCanon(sd.ls); after != before || sd.svc.totalEnds() != endsBefore {
						find("rest:session:refused-had-effect", fmt.Sprintf("a refused %s (HTTP %d) changed the server: state before/after differ = %v, ConnEnd events %d -> %d", o.Kind, h.Code, after != before, endsBefore, sd.svc.totalEnds()))
					}
				}
				if out.found {
					return
				}
				if expect == "accept" {
					if o.Kind == "delete" {
						s.deleted = true
						out.endedByDelete++
						res.Count("session-ended-by:delete")
						if h.Cookie == nil || h.Cookie.Value != "" {
							find("rest:session:cookie-not-refreshed", "DELETE /session did not clear the session cookie")
							return
						}
					} else {
						s.last = st.now
						want := start.Add(st.now + T).UTC().Truncate(time.Second)
						if h.Cookie == nil || h.NCookie != 1 || h.Cookie.Value != s.cookie || !h.Cookie.Expires.Equal(want) {
							find("rest:session:cookie-not-refreshed", fmt.Sprintf("an accepted %s did not refresh the session cookie to now+timeout (%v): Set-Cookie %v", o.Kind, want, h.Cookie))
							return
						}
						switch o.Kind {
						case "lock":
							m := &pb.LockResponse{}
							if err := protojson.Unmarshal([]byte(h.Body), m); err != nil {
								find("rest:session:unexpected-status", "200 body of /v1/lock is not a LockResponse")
								return
							}
							if m.Locked {
								s.grants = append(s.grants, c20grant{o.Name, m.Key})
								s.holds[m.Key] = o.Name
								res.Count("hold-granted")
							}
						case "unlock":
							m := &pb.UnlockResponse{}
							if err := protojson.Unmarshal([]byte(h.Body), m); err != nil {
								find("rest:session:unexpected-status", "200 body of /v1/unlock is not an UnlockResponse")
								return
							}
							if m.Unlocked {
								for _, x := range st.sess {
									if _, ok := x.holds[key]; ok {
										delete(x.holds, key)
										res.Count("hold-released")
									}
								}
							}
						}
					}
				}
			}
			audit(o.canon())
		}
		if out.found {
			return
		}
		// drain: after 3T of silence every session has ended, exactly once, and nothing is held
		time.Sleep(3 * T)
		synctest.Wait()
		tr = append(tr, c20trace{Op: "adv 3T (final)", At: int64(time.Since(start))})
		audit("the final 3T of silence")
		if !out.found {
			for i, s := range st.sess {
				if !s.ended() {
					find("rest:session:connend-count:0", fmt.Sprintf("session %d is not ended after 3T of silence", i))
				}
			}
		}
	})
	return out
}

func runC20(t *testing.T, res *common.Result) {
	res.Rule = "histories of create / lock / unlock / renew / DELETE / time advance over 1-3 REST sessions, session timeout 2 s or 10 s, cookies valid / missing / garbage / of a deleted or expired session, time steps to exactly deadline-1ns, deadline, deadline+1ns of a chosen session (and T/2, 1 ns, 2T); every history on a fresh server + gateway in its own synctest bubble; acceptance, 401s, no-effect of refusals, ConnEnd count per session and the hold listing audited after every operation, then after a final 3T of silence. Plus every word of a fixed length over a 9-symbol alphabet for both timeouts. distinct = distinct (timeout, operation sequence incl. exact gaps); non-trivial = at least one accepted and one refused request and one session ended before the final drain"
	rng := common.NewRng(common.Seed())
	nHist, nOps, wordLen := 5000, 30, 5
	if common.Thorough() {
		nHist, nOps, wordLen = 200000, 45, 6
	}
	nHist = common.EnvInt("VERIF_C20_HISTORIES", nHist)
	for i := 0; i < nHist; i++ {
		r := rng.Fork(uint64(i))
		T := common.Pick(r, []time.Duration{2 * time.Second, 10 * time.Second})
		maxS := 1 + r.Intn(3)
		n := nOps - 8 + r.Intn(17)
		label := fmt.Sprintf("random#%d", i)
		out := runC20History(t, res, label, T, maxS, &c20rand{r: r.Fork(1), left: n})
		res.Count(fmt.Sprintf("timeout:%v", T))
		res.Count(fmt.Sprintf("max-sessions:%d", maxS))
		res.Eval(fmt.Sprintf("T=%d|%s", int64(T), strings.Join(out.canon, ";")), out.accepted > 0 && out.refused > 0 && out.endedByDelete+out.endedByIdle > 0)
		if i < 2 {
			res.Sample(map[string]any{"history": label, "timeout": T.String(), "ops": out.canon})
		}
	}
	nWords := 0
	for _, T := range []time.Duration{2 * time.Second, 10 * time.Second} {
		word := make([]int, wordLen)
		for {
			names := []string{}
			for _, x := range word {
				names = append(names, c20SymNames[x])
			}
			out := runC20History(t, res, fmt.Sprintf("word(T=%v): %s", T, strings.Join(names, " ")), T, 3, &c20word{word: append([]int{}, word...)})
			nWords++
			res.Count("exhaustive-word")
			res.Eval(fmt.Sprintf("T=%d|%s", int64(T), strings.Join(out.canon, ";")), out.accepted > 0 && out.refused > 0 && out.endedByDelete+out.endedByIdle > 0)
			i := wordLen - 1
			for ; i >= 0; i-- {
				word[i]++
				if word[i] < c20Alphabet {
					break
				}
				word[i] = 0
			}
			if i < 0 {
				break
			}
		}
	}
	ks := []string{}
	for k := range res.Distribution {
		if strings.HasPrefix(k, "refused:delete:") {
			ks = append(ks, k)
		}
	}
	sort.Strings(ks)
	res.Note("%d random histories (about %d ops), %d exhaustive words of length %d; DELETE refusals observed: %s", nHist, nOps, nWords, wordLen, strings.Join(ks, ", "))
}
