// C16: password and TLS settings are enforced on every entry point, or the server refuses to
// start. All 2^5 combinations of {--tls_cert, --tls_key, --client_cert_verify, --client_ca,
// --password}, and for serving configurations with a password every credential shape on every gRPC
// method and REST route.
package stack

import (
	"context"
	"crypto/tls"
	"encoding/base64"
	"fmt"
	"os"
	"path/filepath"
	"strings"
	"testing"
	"time"

	"google.golang.org/grpc/codes"
	"google.golang.org/grpc/metadata"
	"google.golang.org/grpc/status"

	pb "github.com/imoore76/ldlm/protos"

	"verif/harness/common"
)

const c16Password = "s3cret:x"

type secCfg struct {
	cert, key, verify, ca, pw bool
	bundle                    bool // --tls_cert names a PEM file that holds the certificate AND its private key (no --tls_key)
}

var certBundle string // written once per run: server certificate followed by its key

func (c secCfg) slug() string {
	var p []string
	for _, f := range []struct {
		on bool
		n  string
	}{{c.cert && !c.bundle, "cert"}, {c.bundle, "cert(bundle-with-key)"}, {c.key, "key"}, {c.verify, "verify"}, {c.ca, "ca"}, {c.pw, "pw"}} {
		if f.on {
			p = append(p, f.n)
		}
	}
	if len(p) == 0 {
		return "none"
	}
	return strings.Join(p, "+")
}

func (c secCfg) flags() []string {
	var f []string
	if c.bundle {
		f = append(f, "--tls_cert", certBundle)
	} else if c.cert {
		f = append(f, "--tls_cert", certServer)
	}
	if c.key {
		f = append(f, "--tls_key", keyServer)
	}
	if c.verify {
		f = append(f, "--client_cert_verify")
	}
	if c.ca {
		f = append(f, "--client_ca", certClientCA)
	}
	if c.pw {
		f = append(f, "--password", c16Password)
	}
	return f
}

func (c secCfg) tlsOn() bool      { return c.cert && c.key }
func (c secCfg) clientAuth() bool { return c.verify || c.ca }
func (c secCfg) anyTLS() bool     { return c.cert || c.verify || c.ca }

type c16run struct {
	t   *testing.T
	res *common.Result
	rng *common.Rng
	seq int
}

func (k *c16run) name(p string) string {
	k.seq++
	return fmt.Sprintf("%s-%d", randName(k.rng, p), k.seq)
}

func withPw(ctx context.Context, pw string) context.Context {
	if pw == "" {
		return ctx
	}
	return metadata.AppendToOutgoingContext(ctx, "authorization", pw)
}

func basic(userpass string) string {
	return "Basic " + base64.StdEncoding.EncodeToString([]byte(userpass))
}

// probeGrpc: does a TryLock over this kind of connection get an application response?
func (k *c16run) probeGrpc(addr string, tc *tls.Config, pw string) (served bool, detail string) {
	g := dialGrpc(k.t, addr, tc)
	defer g.close()
	ctx, cancel := rpcCtx(3 * time.Second)
	defer cancel()
	name := k.name("probe")
	r, err := g.c.TryLock(withPw(ctx, pw), &pb.TryLockRequest{Name: name})
	if err != nil {
		return false, status.Code(err).String()
	}
	if r.Locked {
		g.c.Unlock(withPw(ctx, pw), &pb.UnlockRequest{Name: name, Key: r.Key})
	}
	return true, fmt.Sprintf("locked=%v", r.Locked)
}

// probeRest: does POST /session over this kind of connection reach the handler?
func (k *c16run) probeRest(addr string, tc *tls.Config, pw string) (served bool, detail string) {
	c := newRestClient(addr, tc)
	c.hc.Timeout = 3 * time.Second
	defer c.closeIdle()
	if pw != "" {
		a := basic("user:" + pw)
		c.auth = &a
	}
	r := c.createSession()
	if r.Err != "" {
		return false, "transport error"
	}
	// net/http answers a plaintext request on a TLS listener with a bare 400 without running the handler
	if r.Status == 400 {
		return false, "HTTP 400 from the TLS listener"
	}
	if r.Status == 201 {
		c.deleteSession()
	}
	return true, fmt.Sprintf("HTTP %d", r.Status)
}

func runC16(t *testing.T, res *common.Result, rng *common.Rng) {
	res.Rule = "enumeration of all 32 combinations of {--tls_cert, --tls_key, --client_cert_verify, --client_ca, --password} set/unset on the real server binary, once with the REST listener enabled and once without it: " +
		"start-up classification (refuses / serves) and, when it serves, connection probes on both listeners (plaintext, TLS without client certificate, TLS with the test client certificate); " +
		"for serving configurations with a password (quick: `pw` and `cert+key+pw`; thorough: all a client can connect to) the credential matrix: " +
		"shapes {missing, empty, wrong, prefix, suffix, padded with white space, credentials without a scheme, wrong metadata key / wrong scheme, bearer, basic without user, lowercase scheme, malformed base64, extra colons, shifted colon, raw, gateway metadata header, correct, correct with empty user} " +
		"x {Lock, TryLock, Unlock, Renew} over gRPC and {POST /session, DELETE /session, POST /v1/lock, /v1/unlock, /v1/renew} over REST, with `ldlm-lock list` compared before/after every rejected request. " +
		"A case is (configuration, start-up class) or (configuration, listener, probe) or (configuration, transport, method/route, shape); non-trivial unless it is the start-up class of the empty configuration"
	k := &c16run{t: t, res: res, rng: rng}
	var cfgs []secCfg
	for m := 0; m < 32; m++ {
		cfgs = append(cfgs, secCfg{cert: m&1 != 0, key: m&2 != 0, verify: m&4 != 0, ca: m&8 != 0, pw: m&16 != 0})
	}
	// a combined PEM (certificate + key in one file) as --tls_cert with no --tls_key: an incomplete TLS
	// configuration like any other certificate without key - enforce on both listeners or refuse
	if cb, err1 := os.ReadFile(certServer); err1 == nil {
		if kb, err2 := os.ReadFile(keyServer); err2 == nil {
			certBundle = filepath.Join(rootDir, "bundle.pem")
			if os.WriteFile(certBundle, append(append(cb, '\n'), kb...), 0o600) == nil {
				for m := 0; m < 8; m++ {
					cfgs = append(cfgs, secCfg{cert: true, bundle: true, verify: m&1 != 0, ca: m&2 != 0, pw: m&4 != 0})
				}
			}
		}
	}
	shuffle(rng, cfgs)
	for _, c := range cfgs {
		k.config(c, true)
	}
	// the same enumeration with the REST listener off (the default deployment): the gRPC listener alone
	// must enforce the settings or the server must refuse to start
	for _, c := range cfgs {
		k.config(c, false)
	}
}

func (k *c16run) config(c secCfg, rest bool) {
	res, t := k.res, k.t
	slug := c.slug()
	if !rest {
		slug += "(rest-off)"
	}
	srv := startServer(t, srvCfg{rest: rest, extra: c.flags()})
	defer srv.stop()
	replay := func(extra map[string]any) map[string]any {
		m := map[string]any{"config": slug, "server_flags": srv.args}
		for key, v := range extra {
			m[key] = v
		}
		return m
	}
	find := func(sig, what string, extra map[string]any) {
		res.Find(common.Finding{Kind: "violation", Property: "C16", Signature: sig, What: what, Replay: replay(extra)})
	}

	// ---- start-up class
	class := "serves"
	switch {
	case srv.started:
	case srv.exited():
		code, _, _ := srv.waitExit(time.Second)
		class = "refuses"
		if srv.crashed() {
			class = "refuses-by-panic"
		}
		if code == 0 {
			class = "exits-with-status-0"
		}
	default:
		class = "neither-serves-nor-exits"
	}
	res.Eval("startup|"+slug+"|"+class, slug != "none")
	res.Count(fmt.Sprintf("startup:rest=%v", rest))
	res.Count("startup:" + class)
	res.Count("startup:" + slug + ":" + class)
	res.Sample(map[string]any{"config": slug, "flags": c.flags(), "class": class})
	if class == "refuses-by-panic" || class == "exits-with-status-0" || class == "neither-serves-nor-exits" {
		res.Note("C16 config %s: start-up class %s; log tail: %v", slug, class, srv.logTail(8))
	}
	if class == "neither-serves-nor-exits" {
		find("stack:tls:"+slug+":startup-hang", "the server neither listens on both ports nor exits within 15 s of its start", map[string]any{"log_tail": srv.logTail(40)})
		return
	}
	if class != "serves" {
		// refusing to start is always allowed by the property; record which configurations do
		if !c.anyTLS() && !c.key {
			find("stack:tls:"+slug+":refuses-without-reason", "a configuration without any TLS setting does not start", map[string]any{"log_tail": srv.logTail(40)})
		}
		return
	}

	// ---- connection probes
	pw := ""
	if c.pw {
		pw = c16Password
	}
	type probe struct {
		listener, kind string
		served         bool
		detail         string
	}
	var probes []probe
	run := func(kind string, tc *tls.Config) (g, r bool) {
		gs, gd := k.probeGrpc(srv.grpcAddr, tc, pw)
		rs, rd := false, "REST listener off"
		if rest {
			rs, rd = k.probeRest(srv.restAddr, tc, pw)
		}
		probes = append(probes, probe{"grpc", kind, gs, gd}, probe{"rest", kind, rs, rd})
		for _, p := range probes[len(probes)-2:] {
			res.Eval("probe|"+slug+"|"+p.listener+"|"+kind, true)
			res.Count(fmt.Sprintf("probe:%s:%s:served=%v", kind, p.listener, p.served))
		}
		return gs, rs
	}
	plainG, plainR := run("plaintext", nil)
	tlsG, tlsR := run("tls-no-client-cert", clientTLS(t, false))
	certG, certR := run("tls-with-client-cert", clientTLS(t, true))
	pr := map[string]any{"probes": fmt.Sprintf("%+v", probes)}

	for _, l := range []struct {
		n             string
		plain, noCert bool
	}{{"grpc", plainG, tlsG}, {"rest", plainR, tlsR}} {
		if c.tlsOn() && l.plain {
			find(fmt.Sprintf("stack:tls:%s:plaintext-served:%s", slug, l.n),
				fmt.Sprintf("with a certificate and key configured the %s listener serves a plaintext request", l.n), pr)
		}
		if c.clientAuth() && l.noCert {
			find(fmt.Sprintf("stack:tls:%s:no-client-cert-accepted:%s", slug, l.n),
				fmt.Sprintf("with client-certificate verification requested the %s listener serves a TLS client that presents no certificate", l.n), pr)
		}
	}
	if c.anyTLS() && !c.tlsOn() && (plainG || plainR) {
		find("stack:tls:"+slug+":started-without-enforcement",
			"TLS settings were given but incomplete, and the server started and serves plaintext instead of refusing to start", pr)
	}
	if c.key && !c.cert && !c.clientAuth() && (plainG || plainR) {
		res.Note("stack:tls:key-without-cert-serves-plaintext: config %s: --tls_key without --tls_cert is read as 'TLS not configured'; the server starts and serves plaintext (grpc=%v rest=%v)", slug, plainG, plainR)
		res.Count("note:key-without-cert-serves-plaintext")
	}
	// controls: the probes themselves work
	switch {
	case !rest:
	case !c.anyTLS():
		if !plainG || !plainR {
			res.Note("C16 control failed: config %s serves no plaintext although no TLS is configured: %+v", slug, probes)
			res.Count("control-failed:plaintext")
		}
	case c.tlsOn() && !c.clientAuth():
		if !tlsG || !tlsR {
			res.Note("C16 control failed: config %s (TLS, no client verification) rejects a TLS client: %+v", slug, probes)
			res.Count("control-failed:tls")
		}
	case c.tlsOn() && c.ca:
		if !certG || !certR {
			res.Note("C16 control failed: config %s rejects the test client certificate signed by its --client_ca: %+v", slug, probes)
			res.Count("control-failed:client-cert")
		}
	}

	// ---- credential matrix
	if !c.pw || !rest {
		return
	}
	if !common.Thorough() && slug != "pw" && slug != "cert+key+pw" {
		res.Count("credential-matrix:skipped-in-quick-tier")
		return
	}
	var tc *tls.Config
	switch {
	case c.tlsOn() && c.clientAuth():
		tc = clientTLS(t, true)
		if !certG || !certR {
			res.Count("credential-matrix:skipped-no-client-can-connect")
			res.Note("C16 config %s: no client certificate at hand is acceptable (verification against the system roots); credential matrix not applicable", slug)
			return
		}
	case c.tlsOn():
		tc = clientTLS(t, false)
	}
	res.Count("credential-matrix:run")
	k.grpcMatrix(c, srv, tc, find)
	k.restMatrix(c, srv, tc, find)
}

type findFn func(sig, what string, extra map[string]any)

func listKey(sock string) string {
	hs, raw, ok := adminList(sock)
	if !ok {
		return "list failed: " + raw.Stdout + raw.Stderr
	}
	return strings.Join(holdStrings(hs), ",")
}

// ---------------------------------------------------------------- gRPC

type grpcShape struct {
	name    string
	md      []string // key, value pairs; nil = no metadata
	correct bool
}

func grpcShapes() []grpcShape {
	pw := c16Password
	s := []grpcShape{
		{"missing", nil, false},
		{"empty", []string{"authorization", ""}, false},
		{"wrong", []string{"authorization", "hunter2"}, false},
		{"prefix", []string{"authorization", pw[:len(pw)-1]}, false},
		{"prefix", []string{"authorization", strings.SplitN(pw, ":", 2)[0]}, false},
		{"suffix", []string{"authorization", pw + "x"}, false},
		{"wrong-metadata-key", []string{"password", pw}, false},
		{"wrong-scheme", []string{"authorization", basic("user:" + pw)}, false},
		{"wrong-scheme", []string{"authorization", "Bearer " + pw}, false},
		{"correct", []string{"authorization", pw}, true},
	}
	if common.Thorough() {
		s = append(s,
			grpcShape{"prefix", []string{"authorization", pw[:1]}, false},
			grpcShape{"suffix", []string{"authorization", pw + ":"}, false},
			grpcShape{"case-changed", []string{"authorization", strings.ToUpper(pw)}, false},
			grpcShape{"wrong-metadata-key", []string{"x-authorization", pw}, false})
	}
	return s
}

func (k *c16run) grpcMatrix(c secCfg, srv *proc, tc *tls.Config, find findFn) {
	res, t := k.res, k.t
	slug := c.slug()
	admin := &grpcT{g: dialGrpc(t, srv.grpcAddr, tc), md: func(ctx context.Context) context.Context { return withPw(ctx, c16Password) }}
	defer admin.g.close()
	xName := k.name("x")
	var xKey string
	holdX := func() bool {
		o := admin.tryLock(lockArgs{name: xName, lockTO: i32(60)})
		if !o.Flag {
			res.Note("C16 %s: cannot set up the victim hold over gRPC with the correct password: %+v", slug, o)
			return false
		}
		xKey = o.Key
		return true
	}
	if !holdX() {
		res.Count("credential-matrix:grpc-setup-failed")
		return
	}
	shapes := grpcShapes()
	shuffle(k.rng, shapes)
	before := listKey(srv.sock)
	for _, sh := range shapes {
		g := dialGrpc(t, srv.grpcAddr, tc)
		mdctx := func(ctx context.Context) context.Context {
			if sh.md == nil {
				return ctx
			}
			return metadata.NewOutgoingContext(ctx, metadata.Pairs(sh.md...))
		}
		methods := []string{"Lock", "TryLock", "Unlock", "Renew"}
		shuffle(k.rng, methods)
		var ownName, ownKey string // correct shape: a hold of its own to renew / unlock
		if sh.correct {
			methods = []string{"Lock", "Renew", "Unlock", "TryLock"}
		}
		for _, m := range methods {
			free := k.name("f")
			ctx, cancel := rpcCtx(10 * time.Second)
			ctx = mdctx(ctx)
			var err error
			var lr *pb.LockResponse
			var ur *pb.UnlockResponse
			req := ""
			switch m {
			case "Lock":
				req = fmt.Sprintf("Lock name=%s wait_timeout=1 lock_timeout=60", free)
				lr, err = g.c.Lock(ctx, &pb.LockRequest{Name: free, WaitTimeoutSeconds: i32(1), LockTimeoutSeconds: i32(60)})
				if err == nil && lr.Locked && sh.correct {
					ownName, ownKey = free, lr.Key
				}
			case "TryLock":
				req = fmt.Sprintf("TryLock name=%s", free)
				lr, err = g.c.TryLock(ctx, &pb.TryLockRequest{Name: free})
			case "Unlock":
				n, key := xName, xKey
				if sh.correct && ownKey != "" {
					n, key = ownName, ownKey
				}
				req = fmt.Sprintf("Unlock name=%s key=%s (a live hold)", n, key)
				ur, err = g.c.Unlock(ctx, &pb.UnlockRequest{Name: n, Key: key})
			case "Renew":
				n, key := xName, xKey
				if sh.correct && ownKey != "" {
					n, key = ownName, ownKey
				}
				req = fmt.Sprintf("Renew name=%s key=%s lock_timeout=60 (a live leased hold)", n, key)
				lr, err = g.c.Renew(ctx, &pb.RenewRequest{Name: n, Key: key, LockTimeoutSeconds: 60})
			}
			cancel()
			code := status.Code(err)
			res.Eval(fmt.Sprintf("cred|%s|grpc|%s|%s|%v", slug, m, sh.name, sh.md), true)
			res.Count("cred:grpc:shape=" + sh.name)
			res.Count("cred:grpc:method=" + m)
			res.Count("cred:grpc:outcome=" + code.String())
			after := listKey(srv.sock)
			rp := map[string]any{"transport": "grpc", "metadata": sh.md, "request": req, "status": code.String(),
				"response": fmt.Sprintf("%v%v", lr, ur), "list_before": before, "list_after": after}
			switch {
			case sh.correct:
				if err != nil {
					find(fmt.Sprintf("stack:auth:grpc:%s:correct:rejected", m),
						fmt.Sprintf("%s over gRPC with the correct password in the authorization metadata is rejected with status %s", m, code), rp)
				} else if (lr != nil && (!lr.Locked || lr.Error != nil)) || (ur != nil && (!ur.Unlocked || ur.Error != nil)) {
					res.Note("C16 %s: correct-password %s was accepted but not granted: %v%v", slug, m, lr, ur)
				}
				if m == "TryLock" && err == nil && lr.Locked {
					admin.unlock(free, lr.Key)
				}
			case err == nil:
				find(fmt.Sprintf("stack:auth:grpc:%s:%s:accepted", m, sh.name),
					fmt.Sprintf("%s over gRPC with credential shape %q (metadata %q) is served instead of rejected as Unauthenticated", m, sh.name, sh.md), rp)
				// undo what it did
				if lr != nil && lr.Locked && m != "Renew" {
					admin.unlock(free, lr.Key)
				}
				if ur != nil && ur.Unlocked {
					holdX()
				}
			case code != codes.Unauthenticated:
				res.Count("cred:grpc:inconclusive")
				res.Note("C16 %s: %s with shape %s ended with status %s (neither served nor Unauthenticated): %v", slug, m, sh.name, code, err)
			default:
				if after != before {
					find("stack:auth:rejected-request-had-effect",
						fmt.Sprintf("%s over gRPC was rejected as Unauthenticated (shape %q) but the set of holds changed", m, sh.name), rp)
				}
			}
			before = listKey(srv.sock)
		}
		g.close()
	}
	admin.unlock(xName, xKey)
}

// ---------------------------------------------------------------- REST

type restShape struct {
	name    string
	auth    *string
	hdr     map[string]string
	correct bool
}

func sp(s string) *string { return &s }

func restShapes() []restShape {
	pw := c16Password
	s := []restShape{
		{"missing", nil, nil, false},
		{"empty", sp(""), nil, false},
		{"wrong", sp(basic("user:hunter2")), nil, false},
		{"prefix", sp(basic("user:" + pw[:len(pw)-1])), nil, false},
		{"prefix", sp(basic("user:" + strings.SplitN(pw, ":", 2)[0])), nil, false},
		{"suffix", sp(basic("user:" + pw + "x")), nil, false},
		{"bearer", sp("Bearer " + pw), nil, false},
		{"basic-without-user", sp(basic(pw)), nil, false},
		{"lowercase-scheme", sp("basic " + base64.StdEncoding.EncodeToString([]byte("user:"+pw))), nil, false},
		{"malformed-base64", sp("Basic %%%" + pw + "%%%"), nil, false},
		{"extra-colons", sp(basic("user:" + pw + ":extra")), nil, false},
		{"shifted-colon", sp(basic("user:extra:" + pw)), nil, false},
		{"padded", sp(basic("user:" + pw + "\n")), nil, false}, // the password followed / preceded by white space is a different string
		{"padded", sp(basic("user:" + pw + " ")), nil, false},
		{"padded", sp(basic("user: " + pw)), nil, false},
		{"padded", sp(basic("user:" + pw + "\r\n")), nil, false},
		{"no-scheme", sp(base64.StdEncoding.EncodeToString([]byte("user:" + pw))), nil, false}, // the right credentials without "Basic "
		{"raw-password", sp(pw), nil, false},
		{"gateway-metadata-header", nil, map[string]string{"Grpc-Metadata-Authorization": pw}, false},
		{"correct", sp(basic("user:" + pw)), nil, true},
		{"correct-empty-user", sp(basic(":" + pw)), nil, true},
	}
	if common.Thorough() {
		s = append(s,
			restShape{"malformed-base64", sp("Basic " + strings.TrimRight(base64.StdEncoding.EncodeToString([]byte("user:"+pw+"!")), "=")), nil, false},
			restShape{"wrong-header", nil, map[string]string{"Proxy-Authorization": basic("user:" + pw), "X-Authorization": basic("user:" + pw)}, false},
			restShape{"case-changed", sp(basic("user:" + strings.ToUpper(pw))), nil, false},
			restShape{"password-as-user", sp(basic(pw + ":")), nil, false},
			restShape{"url-base64", sp("Basic " + base64.URLEncoding.EncodeToString([]byte("user:"+pw+"?>"))), nil, false},
			restShape{"correct-long-user", sp(basic("some.user@example.org:" + pw)), nil, true})
	}
	return s
}

func authStr(a *string, hdr map[string]string) string {
	s := "no Authorization header"
	if a != nil {
		s = "Authorization: " + *a
	}
	for _, k := range common.SortedKeys(hdr) {
		s += "; " + k + ": " + hdr[k]
	}
	return s
}

func (k *c16run) restMatrix(c secCfg, srv *proc, tc *tls.Config, find findFn) {
	res := k.res
	slug := c.slug()
	good := sp(basic("user:" + c16Password))
	var victim *restClient
	yName := k.name("y")
	var yKey string
	setup := func() bool {
		victim = newRestClient(srv.restAddr, tc)
		victim.auth = good
		if r := victim.createSession(); r.Status != 201 {
			res.Note("C16 %s: cannot create a REST session with the correct password: %+v", slug, r)
			return false
		}
		r := victim.tryLock(yName, nil, i32(60))
		if !r.flag("locked") {
			res.Note("C16 %s: cannot set up the victim hold over REST: %+v", slug, r)
			return false
		}
		yKey = r.str("key")
		return true
	}
	if !setup() {
		res.Count("credential-matrix:rest-setup-failed")
		return
	}
	shapes := restShapes()
	shuffle(k.rng, shapes)
	before := listKey(srv.sock)
	for _, sh := range shapes {
		routes := []string{"POST_session", "DELETE_session", "POST_v1_lock", "POST_v1_unlock", "POST_v1_renew"}
		shuffle(k.rng, routes)
		var own *restClient
		var ownName, ownKey string
		if sh.correct {
			routes = []string{"POST_session", "POST_v1_lock", "POST_v1_renew", "POST_v1_unlock", "DELETE_session"}
			own = newRestClient(srv.restAddr, tc)
			own.auth, own.hdr = sh.auth, sh.hdr
		}
		for _, route := range routes {
			free := k.name("f")
			var r restResp
			req := ""
			// wrong shapes ride on the victim's valid session cookie (except session creation)
			cl := victim.withAuth(sh.auth, sh.hdr)
			if sh.correct {
				cl = own
			}
			switch route {
			case "POST_session":
				if !sh.correct {
					cl = newRestClient(srv.restAddr, tc)
					cl.auth, cl.hdr = sh.auth, sh.hdr
				}
				req = "POST /session"
				r = cl.createSession()
			case "DELETE_session":
				req = "DELETE /session (with a valid session cookie)"
				r = cl.deleteSession()
			case "POST_v1_lock":
				req = fmt.Sprintf("POST /v1/lock name=%s lock_timeout_seconds=60 (with a valid session cookie)", free)
				r = cl.tryLock(free, nil, i32(60))
				if sh.correct && r.flag("locked") {
					ownName, ownKey = free, r.str("key")
				}
			case "POST_v1_unlock":
				n, key := yName, yKey
				if sh.correct {
					n, key = ownName, ownKey
				}
				req = fmt.Sprintf("POST /v1/unlock name=%s key=%s (a live hold, with a valid session cookie)", n, key)
				r = cl.unlock(n, key)
			case "POST_v1_renew":
				n, key := yName, yKey
				if sh.correct {
					n, key = ownName, ownKey
				}
				req = fmt.Sprintf("POST /v1/renew name=%s key=%s lock_timeout_seconds=60 (a live leased hold, with a valid session cookie)", n, key)
				r = cl.renew(n, key, i32(60))
			}
			res.Eval(fmt.Sprintf("cred|%s|rest|%s|%s|%s", slug, route, sh.name, authStr(sh.auth, sh.hdr)), true)
			res.Count("cred:rest:shape=" + sh.name)
			res.Count("cred:rest:route=" + route)
			res.Count(fmt.Sprintf("cred:rest:outcome=HTTP-%d", r.Status))
			after := listKey(srv.sock)
			rp := map[string]any{"transport": "rest", "headers": authStr(sh.auth, sh.hdr), "request": req,
				"response": r, "list_before": before, "list_after": after}
			switch {
			case r.Err != "":
				res.Count("cred:rest:inconclusive")
				res.Note("C16 %s: %s with shape %s failed at the transport level: %s", slug, req, sh.name, r.Err)
			case sh.correct:
				if r.Status == 401 || r.Status >= 500 {
					find(fmt.Sprintf("stack:auth:rest:%s:correct:rejected", route),
						fmt.Sprintf("%s with the correct password after the first colon of the basic credentials (%s) is answered with HTTP %d", req, sh.name, r.Status), rp)
				} else if r.Status != 200 && r.Status != 201 {
					res.Note("C16 %s: correct-password %s answered HTTP %d: %s", slug, req, r.Status, r.Body)
				}
			case r.Status != 401:
				find(fmt.Sprintf("stack:auth:rest:%s:%s:accepted", route, sh.name),
					fmt.Sprintf("%s with credential shape %q (%s) is answered with HTTP %d instead of 401", req, sh.name, authStr(sh.auth, sh.hdr), r.Status), rp)
				// the victim session / hold may be gone or changed: rebuild them
				victim.deleteSession()
				yName = k.name("y")
				if !setup() {
					return
				}
			default:
				_, hasKey := r.J["key"]
				_, hasLocked := r.J["locked"]
				if hasKey || hasLocked || strings.Contains(r.Body, yKey) || len(r.Cookies) > 0 {
					find(fmt.Sprintf("stack:auth:rest:%s:%s:leaked-data", route, sh.name),
						fmt.Sprintf("%s was answered 401 (shape %q) but the response carries lock data or a session cookie", req, sh.name), rp)
				}
				if after != before {
					find("stack:auth:rejected-request-had-effect",
						fmt.Sprintf("%s was answered 401 (shape %q) but the set of holds changed", req, sh.name), rp)
				}
			}
			before = listKey(srv.sock)
		}
		if own != nil {
			own.closeIdle()
		}
	}
	// the victim session survived all the rejected DELETE /session requests: its hold is still listed
	if !strings.Contains(listKey(srv.sock), yKey) {
		find("stack:auth:rejected-request-had-effect", "after the credential matrix the victim REST session's hold is gone although every unauthenticated request was answered 401",
			map[string]any{"list": listKey(srv.sock), "victim_hold": yName + "/" + yKey})
	}
	victim.deleteSession()
	victim.closeIdle()
}
