import Ldlm.Model.Codec
import Ldlm.Driver.Util
/-! `driver codec`: one hex-encoded file image per line (`-` = empty file) →
`<peak> ok reenc=<0|1> <canonical map>` | `<peak> err` | `<peak> panic <kind>`. -/
namespace Ldlm.Driver
open Ldlm.Codec

/-- last write wins, then sort by key: how a Go map presents the entries after canonicalisation -/
def canon (es : List (Bytes × List Hold)) : List (String × List Hold) :=
  let dedup := es.foldl (fun acc kv => (acc.filter (fun p => p.1 ≠ kv.1)) ++ [kv]) []
  let strs := dedup.map fun kv => (hex kv.1, kv.2)
  strs.mergeSort (fun a b => a.1 ≤ b.1)

def showHold (h : Hold) : String := s!"{hex h.name}/{hex h.key}/{h.size}"

def showPanic : PanicKind → String
  | .sliceStart => "sliceStart"
  | .negLength => "negLength"
  | .makeslice => "makeslice"

def codecLine (line : String) : String :=
  let f : File := { bytes := if line = "-" then [] else parseHex line }
  match f.load with
  | (.ok es, p) =>
    let re := if f.bytes = [] then true else decide (encMap es = f.bytes)
    s!"{p} ok reenc={if re then 1 else 0} " ++
      String.intercalate ";" ((canon es).map fun kv => kv.1 ++ "=" ++ String.intercalate "," (kv.2.map showHold))
  | (.err _, p) => s!"{p} err"
  | (.panic w, p) => s!"{p} panic {showPanic w}"

def codecMain : IO Unit := do
  let out ← IO.getStdout
  let _ ← lines (← IO.getStdin) () fun _ l => do out.putStrLn (codecLine l)
  out.flush

end Ldlm.Driver
