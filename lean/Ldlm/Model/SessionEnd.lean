import Ldlm.Model.Lease
/-!
M3b — a session ends while requests of that session are in flight (C06).

Holds are independent of each other (unique keys, injective timer keys), so the model follows ONE
hold of the ending session through every thread that can touch it, one step per call into a manager:

  grant (Lock/TryLock)   G1 table acquisition → G2 `AddLock` (+Save) → G3 lease-timer `Add` → answer
  Unlock threads, Renew, lease callback: as in M3a
  DestroySession         D1 delete the session entry, take its list of holds (+Save)
                         then for THIS hold, if it was in the list:  D2 `lockMgr.Unlock` → (only if that succeeded) D3 timer `Remove`

`AddLock` on a deleted entry re-creates it (the code's behaviour: known finding K2).  Ghost field
`dirty` records that D1 ran while the grant of this hold had not been answered yet.  Any number of Unlock threads, any schedule.
-/
namespace Ldlm.SessionEnd
open Ldlm.Lease (TimerSt Cb UPc)

inductive GPc | g0 | g1 | g2 | gdone
deriving DecidableEq, Repr

inductive DPc
  | d0        -- session alive
  | dskip     -- D1 ran; this hold was not in the session's list
  | d2        -- in the list: `lockMgr.Unlock` pending
  | d3        -- unlocked by the destroy thread: timer `Remove` pending
  | ddone
deriving DecidableEq, Repr

structure St where
  lease  : Bool           -- the request asked for a lock timeout
  held   : Bool
  timer  : TimerSt
  booked : Bool
  entry  : Bool           -- the session's bookkeeping entry exists
  cb     : Cb
  g      : GPc
  d      : DPc
  unl    : List (Nat × UPc)
  dirty  : Bool           -- ghost: D1 ran while this hold's grant had not been answered yet (K2)
deriving DecidableEq, Repr

inductive Act
  | grantStep
  | destroyStart
  | destroyStep
  | fire
  | cbStep
  | startUnlock (t : Nat)
  | unlockStep (t : Nat)
deriving DecidableEq, Repr

def step (s : St) : Act → Option St
  | .grantStep =>
    match s.g with
    | .g0 => some { s with held := true, g := .g1 }
    | .g1 => some { s with booked := true, entry := true, g := .g2 }          -- AddLock: creates the entry if it is gone
    | .g2 => some { s with timer := (if s.lease then .armed else s.timer), g := .gdone }
    | .gdone => none
  | .destroyStart =>
    if s.d ≠ .d0 then none else
    some { s with entry := false, booked := false, d := (if s.booked then .d2 else .dskip), dirty := (s.dirty || decide (s.g ≠ .gdone)) }
  | .destroyStep =>
    match s.d with
    | .d2 => if s.held then some { s with held := false, d := .d3 } else some { s with d := .ddone }
    | .d3 => some { s with timer := .none, d := .ddone }
    | _ => none
  | .fire =>
    if s.timer = .armed ∧ s.cb = .none then some { s with timer := .fired, cb := .c1 } else none
  | .cbStep =>
    match s.cb with
    | .none => none
    | .c1 => some { s with held := false, cb := .c2 }
    | .c2 => some { s with booked := false, cb := .c3 }
    | .c3 => some { s with timer := (if s.timer = .fired then .none else s.timer), cb := .none }
  | .startUnlock t =>
    -- a client can only present the key once the grant has been answered
    if s.g ≠ .gdone ∨ s.unl.any (·.1 = t) then none else some { s with unl := s.unl ++ [(t, .u0)] }
  | .unlockStep t =>
    match s.unl.find? (·.1 = t) with
    | none => none
    | some (_, pc) =>
      let rest := s.unl.filter (·.1 ≠ t)
      match pc with
      | .u0 => some { s with timer := .none, unl := (if s.timer = .fired then rest ++ [(t, .u2f)] else rest ++ [(t, .u1)]) }
      | .u1 => if s.held then some { s with held := false, unl := rest ++ [(t, .u2)] } else some { s with unl := rest }
      | .u2 => some { s with booked := false, unl := rest }
      | .u2f => some { s with booked := false, unl := rest }

def init (lease : Bool) : St :=
  { lease := lease, held := false, timer := .none, booked := false, entry := true, cb := .none, g := .g0, d := .d0,
    unl := [], dirty := false }

def run : St → List Act → Option St
  | s, [] => some s
  | s, a :: as => match step s a with
    | none => none
    | some s' => run s' as

/-- nothing of this hold is in flight any more -/
def quiescent (s : St) : Prop :=
  (s.g = .g0 ∨ s.g = .gdone) ∧ s.cb = .none ∧ s.unl = [] ∧ (s.d = .dskip ∨ s.d = .ddone)

end Ldlm.SessionEnd
