import Ldlm.Model.Threads
import Ldlm.Proofs.Table
/-! M1t: for every schedule of threaded calls on a lock object the event trace is well formed (`wf`):
every specification operation is attributed to a call that has been invoked and has not returned,
and every call returns the result its operations determine.  Together with the forward simulation
of M1 (`sim_obj`) this is linearizability with real-time order. -/
namespace Ldlm.Threads
open Ldlm Ldlm.Table

/-! ### the checker's view of the thread table -/

def view (ths : List (Tid × Th)) : List (Tid × Call × List AOp) := ths.map fun p => (p.1, p.2.call, p.2.lins)

theorem get_view (ths : List (Tid × Th)) (t : Tid) :
    AMap.get (view ths) t = (AMap.get ths t).map fun th => (th.call, th.lins) := by
  induction ths with
  | nil => simp [view, AMap.get]
  | cons p m ih =>
    obtain ⟨a, b⟩ := p
    simp only [view, List.map_cons, AMap.get] at ih ⊢
    by_cases h : a = t <;> simp [h]
    exact ih

theorem view_set (ths : List (Tid × Th)) (t : Tid) (th : Th) :
    view (AMap.set ths t th) = AMap.set (view ths) t (th.call, th.lins) := by
  induction ths with
  | nil => simp [view, AMap.set]
  | cons p m ih =>
    obtain ⟨a, b⟩ := p
    simp only [view, List.map_cons, AMap.set] at ih ⊢
    by_cases h : a = t <;> simp [h]
    exact ih

theorem view_del (ths : List (Tid × Th)) (t : Tid) : view (AMap.del ths t) = AMap.del (view ths) t := by
  induction ths with
  | nil => simp [view, AMap.del]
  | cons p m ih =>
    obtain ⟨a, b⟩ := p
    simp only [view, List.map_cons, AMap.del] at ih ⊢
    by_cases h : a = t <;> simp [h]
    · exact ih
    · exact ih

theorem set_same {α β} [DecidableEq α] (m : List (α × β)) (x : α) (v : β) (h : AMap.get m x = some v) :
    AMap.set m x v = m := by
  induction m with
  | nil => simp [AMap.get] at h
  | cons p m ih =>
    obtain ⟨a, b⟩ := p
    simp only [AMap.get] at h
    by_cases e : a = x
    · simp [e] at h; simp [AMap.set, e, h]
    · simp [e] at h; simp [AMap.set, e, ih h]

/-- a step that changes only the program counter is invisible to the checker -/
theorem view_set_same (ths : List (Tid × Th)) (t : Tid) (th th' : Th) (hg : AMap.get ths t = some th)
    (hc : th'.call = th.call) (hl : th'.lins = th.lins) : view (AMap.set ths t th') = view ths := by
  rw [view_set, hc, hl]
  exact set_same _ _ _ (by rw [get_view, hg]; rfl)

/-! ### the invariant linking the object's pools to the threads' program counters -/

/-- a thread that has a unit and has not recorded its key -/
def Aok (n : Str) (w : Tid × Str) (th : Th) : Prop :=
  (th.call = .lock w.2 ∧ (th.pc = .wait ∨ th.pc = .unit) ∧ th.lins = [.grant n w.2]) ∨
  (th.call = .tryLock w.2 ∧ th.pc = .unit ∧ th.lins = [.try n w.2 true])

def ThOK (n : Str) (th : Th) : Prop :=
  match th.pc with
  | .start | .got => th.lins = []
  | .drop ok => resOK n th.call th.lins ok = true
  | _ => True

structure TInv (n : Str) (s : TSt) : Prop where
  obj : ObjInv s.o
  qnd : s.o.q.Nodup
  and : s.o.acq.Nodup
  Q : ∀ w ∈ s.o.q, AMap.get s.ths w.1 = some ⟨.lock w.2, .wait, []⟩
  A : ∀ w ∈ s.o.acq, ∃ th, AMap.get s.ths w.1 = some th ∧ Aok n w th
  T : ∀ t th, AMap.get s.ths t = some th → ThOK n th


/-- what one step must establish: the invariant, and the checker consumes the step's events -/
def Good (n : Str) (s s' : TSt) (evs : List Ev) : Prop :=
  TInv n s' ∧ ∀ es, wf n (view s.ths) (evs ++ es) = wf n (view s'.ths) es

theorem aok_pc {n : Str} {w : Tid × Str} {th : Th} (h : Aok n w th) : th.pc = .wait ∨ th.pc = .unit := by
  rcases h with ⟨_, h, _⟩ | ⟨_, h, _⟩
  · exact h
  · exact Or.inr h

/-- changing the entry of a thread that is neither queued nor holds an unrecorded unit -/
theorem frame_set {n : Str} {s : TSt} (h : TInv n s) (t : Tid) (th' : Th) (o' : Obj)
    (ho : ObjInv o') (hq : o'.q = s.o.q) (ha : o'.acq = s.o.acq)
    (hpc : ∀ th, AMap.get s.ths t = some th → th.pc ≠ .wait ∧ th.pc ≠ .unit) (hok : ThOK n th') :
    TInv n ⟨o', AMap.set s.ths t th'⟩ := by
  have hQt : ∀ w ∈ s.o.q, w.1 ≠ t := by
    intro w hw e
    have := h.Q w hw
    rw [e] at this
    exact (hpc _ this).1 rfl
  have hAt : ∀ w ∈ s.o.acq, w.1 ≠ t := by
    intro w hw e
    obtain ⟨th, hg, hk⟩ := h.A w hw
    rw [e] at hg
    rcases aok_pc hk with p | p
    · exact (hpc _ hg).1 p
    · exact (hpc _ hg).2 p
  refine ⟨ho, by rw [hq]; exact h.qnd, by rw [ha]; exact h.and, ?_, ?_, ?_⟩
  · intro w hw
    simp only [hq] at hw
    rw [AMap.get_set_ne _ _ _ _ (fun e => hQt w hw e.symm)]
    exact h.Q w hw
  · intro w hw
    simp only [ha] at hw
    obtain ⟨th, hg, hk⟩ := h.A w hw
    exact ⟨th, by rw [AMap.get_set_ne _ _ _ _ (fun e => hAt w hw e.symm)]; exact hg, hk⟩
  · intro t' th hg
    rw [AMap.get_set] at hg
    by_cases e : t = t'
    · simp [e] at hg; rw [← hg]; exact hok
    · simp [e] at hg; exact h.T t' th hg

/-- removing the entry of such a thread -/
theorem frame_del {n : Str} {s : TSt} (h : TInv n s) (t : Tid) (o' : Obj)
    (ho : ObjInv o') (hq : o'.q = s.o.q) (ha : o'.acq = s.o.acq)
    (hpc : ∀ th, AMap.get s.ths t = some th → th.pc ≠ .wait ∧ th.pc ≠ .unit) :
    TInv n ⟨o', AMap.del s.ths t⟩ := by
  have hQt : ∀ w ∈ s.o.q, w.1 ≠ t := by
    intro w hw e
    have := h.Q w hw
    rw [e] at this
    exact (hpc _ this).1 rfl
  have hAt : ∀ w ∈ s.o.acq, w.1 ≠ t := by
    intro w hw e
    obtain ⟨th, hg, hk⟩ := h.A w hw
    rw [e] at hg
    rcases aok_pc hk with p | p
    · exact (hpc _ hg).1 p
    · exact (hpc _ hg).2 p
  refine ⟨ho, by rw [hq]; exact h.qnd, by rw [ha]; exact h.and, ?_, ?_, ?_⟩
  · intro w hw
    simp only [hq] at hw
    rw [AMap.get_del_ne _ _ _ (fun e => hQt w hw e.symm)]
    exact h.Q w hw
  · intro w hw
    simp only [ha] at hw
    obtain ⟨th, hg, hk⟩ := h.A w hw
    exact ⟨th, by rw [AMap.get_del_ne _ _ _ (fun e => hAt w hw e.symm)]; exact hg, hk⟩
  · intro t' th hg
    rw [AMap.get_del] at hg
    by_cases e : t = t'
    · simp [e] at hg
    · simp [e] at hg; exact h.T t' th hg

theorem resOK_nil (n : Str) (c : Call) : resOK n c [] false = true := by
  cases c <;> simp [resOK]

theorem good_invoke {n : Str} {s s' : TSt} {evs : List Ev} {t : Tid} {c : Call} (h : TInv n s)
    (hs : tstep n s (.invoke t c) = some (s', evs)) : Good n s s' evs := by
  simp only [tstep] at hs
  split at hs
  · cases hs
  · rename_i hg
    cases hs
    refine ⟨frame_set h t _ s.o h.obj rfl rfl (by intro th e; simp [hg] at e) (by simp [ThOK]), ?_⟩
    intro es
    simp [wf, get_view, hg, view_set]

theorem good_refuse {n : Str} {s s' : TSt} {evs : List Ev} {t : Tid} (h : TInv n s)
    (hs : tstep n s (.refuse t) = some (s', evs)) : Good n s s' evs := by
  simp only [tstep] at hs
  split at hs
  · rename_i c l hg
    cases hs
    have hl : l = [] := by simpa [ThOK] using h.T t _ hg
    subst hl
    refine ⟨frame_del h t s.o h.obj rfl rfl (by intro th e; rw [hg] at e; cases e; simp), ?_⟩
    intro es
    simp [wf, get_view, hg, view_del, resOK_nil]
  · cases hs


/-- rebuilding the invariant after a step that changed the object and at most two thread entries -/
theorem mk_inv {n : Str} {s : TSt} (h : TInv n s) (t1 t2 : Tid) (th1 th2 : Th) (o' : Obj) (ths' : List (Tid × Th))
    (hget : ∀ x, AMap.get ths' x = if x = t1 then some th1 else if x = t2 then some th2 else AMap.get s.ths x)
    (ho : ObjInv o') (hqnd : o'.q.Nodup) (hand : o'.acq.Nodup)
    (hQ : ∀ w ∈ o'.q, (w.1 = t1 → th1 = ⟨.lock w.2, .wait, []⟩) ∧
        (w.1 ≠ t1 → w.1 = t2 → th2 = ⟨.lock w.2, .wait, []⟩) ∧ (w.1 ≠ t1 → w.1 ≠ t2 → w ∈ s.o.q))
    (hA : ∀ w ∈ o'.acq, (w.1 = t1 → Aok n w th1) ∧ (w.1 ≠ t1 → w.1 = t2 → Aok n w th2) ∧
        (w.1 ≠ t1 → w.1 ≠ t2 → w ∈ s.o.acq))
    (hok1 : ThOK n th1) (hok2 : ThOK n th2) : TInv n ⟨o', ths'⟩ := by
  refine ⟨ho, hqnd, hand, ?_, ?_, ?_⟩
  · intro w hw
    obtain ⟨h1, h2, h3⟩ := hQ w hw
    show AMap.get ths' w.1 = _
    rw [hget]
    by_cases e1 : w.1 = t1
    · simp [e1, ← h1 e1]
    · by_cases e2 : w.1 = t2
      · rw [if_neg e1, if_pos e2, h2 e1 e2]
      · simp [e1, e2]; exact h.Q w (h3 e1 e2)
  · intro w hw
    obtain ⟨h1, h2, h3⟩ := hA w hw
    show ∃ th, AMap.get ths' w.1 = some th ∧ _
    rw [hget]
    by_cases e1 : w.1 = t1
    · exact ⟨th1, by simp [e1], h1 e1⟩
    · by_cases e2 : w.1 = t2
      · exact ⟨th2, by rw [if_neg e1, if_pos e2], h2 e1 e2⟩
      · obtain ⟨th, hg, hk⟩ := h.A w (h3 e1 e2)
        exact ⟨th, by simp [e1, e2, hg], hk⟩
  · intro x th hg
    show ThOK n th
    have hg' : AMap.get ths' x = some th := hg
    rw [hget] at hg'
    by_cases e1 : x = t1
    · simp [e1] at hg'; rw [← hg']; exact hok1
    · by_cases e2 : x = t2
      · subst e2; simp [e1] at hg'; rw [← hg']; exact hok2
      · simp [e1, e2] at hg'; exact h.T x th hg'

theorem get_set1 (ths : List (Tid × Th)) (t : Tid) (th : Th) :
    ∀ x, AMap.get (AMap.set ths t th) x = if x = t then some th else if x = t then some th else AMap.get ths x := by
  intro x
  rw [AMap.get_set]
  by_cases e : t = x
  · simp [e]
  · have : ¬ x = t := fun e' => e e'.symm
    simp [e, this]

/-- a thread that is not waiting and holds no unrecorded unit is in neither pool -/
theorem not_in_pools {n : Str} {s : TSt} (h : TInv n s) {t : Tid} {th : Th} (hg : AMap.get s.ths t = some th)
    (hpc : th.pc ≠ .wait ∧ th.pc ≠ .unit) : (∀ w ∈ s.o.q, w.1 ≠ t) ∧ (∀ w ∈ s.o.acq, w.1 ≠ t) := by
  constructor
  · intro w hw e
    have := h.Q w hw
    rw [e, hg] at this
    cases this
    exact hpc.1 rfl
  · intro w hw e
    obtain ⟨th', hg', hk⟩ := h.A w hw
    rw [e, hg] at hg'
    cases hg'
    rcases aok_pc hk with p | p
    · exact hpc.1 p
    · exact hpc.2 p

theorem get_set2 (ths : List (Tid × Th)) (t1 t2 : Tid) (th1 th2 : Th) :
    ∀ x, AMap.get (AMap.set (AMap.set ths t2 th2) t1 th1) x =
      if x = t1 then some th1 else if x = t2 then some th2 else AMap.get ths x := by
  intro x
  rw [AMap.get_set, AMap.get_set]
  by_cases e1 : t1 = x
  · simp [e1]
  · have e1' : ¬ x = t1 := fun e => e1 e.symm
    by_cases e2 : t2 = x
    · simp [e1, e1', e2]
    · have e2' : ¬ x = t2 := fun e => e2 e.symm
      simp [e1, e1', e2, e2']

/-- the waiter at the head of the queue: it is a thread parked in `wait` with nothing attributed to
it yet, it occurs nowhere else in the queue, and it has no unit -/
theorem head_facts {n : Str} {s : TSt} (h : TInv n s) {w : Tid × Str} {q' : List (Tid × Str)} (hq : s.o.q = w :: q') :
    AMap.get s.ths w.1 = some ⟨.lock w.2, .wait, []⟩ ∧ q'.Nodup ∧ (∀ w' ∈ q', w'.1 ≠ w.1) ∧ (∀ a ∈ s.o.acq, a.1 ≠ w.1) := by
  have hw : w ∈ s.o.q := by simp [hq]
  have hnd := h.qnd
  rw [hq] at hnd
  obtain ⟨hnot, hnd'⟩ := List.nodup_cons.mp hnd
  refine ⟨h.Q w hw, hnd', ?_, ?_⟩
  · intro w' hw' e
    have h1 := h.Q w' (by simp [hq, hw'])
    have h2 := h.Q w hw
    rw [e, h2] at h1
    simp at h1
    exact hnot (by
      have : w' = w := Prod.ext e h1.symm
      rw [← this]; exact hw')
  · intro a ha e
    obtain ⟨th, hg, hk⟩ := h.A a ha
    have h2 := h.Q w hw
    rw [e, h2] at hg
    cases hg
    rcases hk with ⟨_, _, hl⟩ | ⟨_, _, hl⟩ <;> simp at hl

/-- addKey by a thread that holds an unrecorded unit -/
theorem good_addKey {n : Str} {s : TSt} (h : TInv n s) {t : Tid} {k : Str} {c : Call} {pc : Pc} {l : List AOp} {o' : Obj} {ops : List AOp}
    (hg : AMap.get s.ths t = some ⟨c, pc, l⟩) (hc : c = .lock k ∨ c = .tryLock k)
    (hso : stepObj n s.o (.addKey t n k) = some (o', ops)) :
    Good n s ⟨o', AMap.set s.ths t ⟨c, .drop true, l⟩⟩ [] := by
  obtain ⟨hi', -⟩ := stepObj_inv n s.o o' _ ops h.obj hso
  simp only [stepObj] at hso
  split at hso
  · rename_i hm
    simp at hso
    obtain ⟨rfl, -⟩ := hso
    obtain ⟨th, hgt, hk⟩ := h.A (t, k) hm
    rw [hg] at hgt
    cases hgt
    have hres : resOK n c l true = true := by
      rcases hk with ⟨h1, _, h3⟩ | ⟨h1, _, h3⟩
      · simp at h1 h3; subst h1; subst h3; simp [resOK]
      · simp at h1 h3; subst h1; subst h3; simp [resOK]
    have hq : ∀ w ∈ s.o.q, w.1 ≠ t := by
      intro w hw e
      have := h.Q w hw
      rw [e, hg] at this
      cases this
      rcases hk with ⟨_, _, h3⟩ | ⟨_, _, h3⟩ <;> simp at h3
    have ha : ∀ a ∈ s.o.acq.erase (t, k), a.1 ≠ t := by
      intro a ha e
      have ha' := List.mem_of_mem_erase ha
      obtain ⟨th, hgt, hk'⟩ := h.A a ha'
      rw [e, hg] at hgt
      cases hgt
      have : a.2 = k := by
        rcases hc with rfl | rfl
        · rcases hk' with ⟨h1, _, _⟩ | ⟨h1, _, _⟩ <;> simp at h1; exact h1.symm
        · rcases hk' with ⟨h1, _, _⟩ | ⟨h1, _, _⟩ <;> simp at h1; exact h1.symm
      have : a = (t, k) := Prod.ext e this
      rw [this] at ha
      exact (h.and.mem_erase_iff.mp ha).1 rfl
    refine ⟨mk_inv h t t _ _ _ _ (get_set1 _ _ _) hi' h.qnd (h.and.erase _) ?_ ?_ (by simpa [ThOK] using hres) (by simpa [ThOK] using hres), ?_⟩
    · intro w hw
      exact ⟨fun e => absurd e (hq w hw), fun e1 e2 => absurd e2 e1, fun _ _ => hw⟩
    · intro a ha'
      exact ⟨fun e => absurd e (ha a ha'), fun e1 e2 => absurd e2 e1, fun _ _ => List.mem_of_mem_erase ha'⟩
    · intro es
      simp [view_set_same _ _ _ _ hg]
  · cases hso

theorem good_next {n : Str} {s s' : TSt} {evs : List Ev} {t : Tid} (h : TInv n s)
    (hs : tstep n s (.next t) = some (s', evs)) : Good n s s' evs := by
  simp only [tstep] at hs
  split at hs
  · cases hs
  · -- start: take a reference
    rename_i c l hg
    cases hs
    have hl : l = [] := by simpa [ThOK] using h.T t _ hg
    subst hl
    refine ⟨frame_set h t _ _ ⟨h.obj.conserve, h.obj.bound, h.obj.nolost⟩ rfl rfl
      (by intro th e; rw [hg] at e; cases e; simp) (by simp [ThOK]), ?_⟩
    intro es
    simp [view_set_same _ _ _ _ hg]
  · -- TryLock: TryAcquire
    rename_i k l hg
    have hl : l = [] := by simpa [ThOK] using h.T t _ hg
    subst hl
    obtain ⟨hnq, hna⟩ := not_in_pools h hg (by simp)
    split at hs
    · rename_i o' ops hso
      cases hs
      obtain ⟨hi', -⟩ := stepObj_inv n s.o o' _ ops h.obj hso
      simp only [stepObj] at hso
      split at hso
      · cases hso
      · split at hso
        · rename_i hfree
          simp at hso
          obtain ⟨rfl, -⟩ := hso
          refine ⟨mk_inv h t t _ _ _ _ (get_set1 _ _ _) hi' h.qnd ?_ ?_ ?_ (by simp [hfree, ThOK]) (by simp [hfree, ThOK]), ?_⟩
          · exact List.nodup_cons.mpr ⟨fun hm => hna _ hm rfl, h.and⟩
          · intro w hw; simp [hfree.2] at hw
          · intro w hw
            simp at hw
            rcases hw with rfl | hw
            · simp [hfree, Aok]
            · exact ⟨fun e => absurd e (hna w hw), fun e1 e2 => absurd e2 e1, fun _ _ => hw⟩
          · intro es
            simp [wf, get_view, hg, view_set, hfree]
        · rename_i hfull
          simp at hso
          obtain ⟨rfl, -⟩ := hso
          refine ⟨mk_inv h t t _ _ _ _ (get_set1 _ _ _) hi' h.qnd h.and ?_ ?_ (by simp [hfull, ThOK, resOK]) (by simp [hfull, ThOK, resOK]), ?_⟩
          · intro w hw
            exact ⟨fun e => absurd e (hnq w hw), fun e1 e2 => absurd e2 e1, fun _ _ => hw⟩
          · intro w hw
            exact ⟨fun e => absurd e (hna w hw), fun e1 e2 => absurd e2 e1, fun _ _ => hw⟩
          · intro es
            simp [wf, get_view, hg, view_set, hfull]
    · cases hs
  · -- Lock: Acquire (fast path or enqueue)
    rename_i k l hg
    have hl : l = [] := by simpa [ThOK] using h.T t _ hg
    subst hl
    obtain ⟨hnq, hna⟩ := not_in_pools h hg (by simp)
    split at hs
    · rename_i o' ops hso
      obtain ⟨hi', -⟩ := stepObj_inv n s.o o' _ ops h.obj hso
      simp only [stepObj] at hso
      split at hso
      · cases hso
      · split at hso
        · rename_i hfree
          simp [hfree] at hs
          simp at hso
          obtain ⟨rfl, -⟩ := hso
          obtain ⟨rfl, rfl⟩ := hs
          refine ⟨mk_inv h t t _ _ _ _ (get_set1 _ _ _) hi' h.qnd ?_ ?_ ?_ (by simp [ThOK]) (by simp [ThOK]), ?_⟩
          · exact List.nodup_cons.mpr ⟨fun hm => hna _ hm rfl, h.and⟩
          · intro w hw; simp [hfree.2] at hw
          · intro w hw
            simp at hw
            rcases hw with rfl | hw
            · simp [Aok]
            · exact ⟨fun e => absurd e (hna w hw), fun e1 e2 => absurd e2 e1, fun _ _ => hw⟩
          · intro es
            simp [wf, get_view, hg, view_set]
        · rename_i hfull
          simp [hfull] at hs
          simp at hso
          obtain ⟨rfl, -⟩ := hso
          obtain ⟨rfl, rfl⟩ := hs
          refine ⟨mk_inv h t t _ _ _ _ (get_set1 _ _ _) hi' ?_ h.and ?_ ?_ (by simp [ThOK]) (by simp [ThOK]), ?_⟩
          · exact List.nodup_append.mpr ⟨h.qnd, by simp, by
              intro a ha b hb
              simp at hb
              subst hb
              exact fun e => hnq a ha (by rw [e])⟩
          · intro w hw
            simp at hw
            rcases hw with hw | rfl
            · exact ⟨fun e => absurd e (hnq w hw), fun e1 e2 => absurd e2 e1, fun _ _ => hw⟩
            · simp
          · intro w hw
            exact ⟨fun e => absurd e (hna w hw), fun e1 e2 => absurd e2 e1, fun _ _ => hw⟩
          · intro es
            simp [view_set_same _ _ _ _ hg]
    · cases hs
  · -- Unlock: remove the key and release in one critical section; the unit may go to the head waiter
    rename_i k l hg
    have hl : l = [] := by simpa [ThOK] using h.T t _ hg
    subst hl
    obtain ⟨hnq, hna⟩ := not_in_pools h hg (by simp)
    split at hs
    · rename_i o' ops hso
      obtain ⟨hi', -⟩ := stepObj_inv n s.o o' _ ops h.obj hso
      simp only [stepObj] at hso
      split at hso
      · cases hso
      · split at hso
        · rename_i hk
          simp only [hk, if_true] at hs
          cases hq : s.o.q with
          | nil =>
            simp [Obj.freeUnit, hq] at hso
            simp [handOver, hq] at hs
            obtain ⟨rfl, -⟩ := hso
            obtain ⟨rfl, rfl⟩ := hs
            refine ⟨mk_inv h t t _ _ _ _ (get_set1 _ _ _) hi' (by simp [hq]) h.and ?_ ?_ (by simp [ThOK, resOK]) (by simp [ThOK, resOK]), ?_⟩
            · intro w hw; simp [hq] at hw
            · intro w hw
              exact ⟨fun e => absurd e (hna w hw), fun e1 e2 => absurd e2 e1, fun _ _ => hw⟩
            · intro es
              simp [wf, get_view, hg, view_set]
          | cons w q' =>
            obtain ⟨hgw, hnd', hq'w, haw⟩ := head_facts h hq
            have hwt : w.1 ≠ t := hnq w (by simp [hq])
            have hgw1 : AMap.get (AMap.set s.ths t ⟨.unlock k, .drop true, [.unlock n k true]⟩) w.1 = some ⟨.lock w.2, .wait, []⟩ := by
              rw [AMap.get_set_ne _ _ _ _ (fun e => hwt e.symm)]; exact hgw
            simp [Obj.freeUnit, hq] at hso
            simp [handOver, hq, credit, hgw1] at hs
            obtain ⟨rfl, -⟩ := hso
            obtain ⟨rfl, rfl⟩ := hs
            refine ⟨mk_inv h w.1 t _ _ _ _ (get_set2 _ _ _ _ _) hi' hnd' ?_ ?_ ?_ (by simp [ThOK]) (by simp [ThOK, resOK]), ?_⟩
            · exact List.nodup_cons.mpr ⟨fun hm => haw w hm rfl, h.and⟩
            · intro w' hw'
              simp at hw'
              exact ⟨fun e => absurd e (hq'w w' hw'), fun _ e => absurd e (hnq w' (by simp [hq, hw'])),
                fun _ _ => by simp [hq, hw']⟩
            · intro a ha
              simp at ha
              rcases ha with rfl | ha
              · simp [Aok]
              · exact ⟨fun e => absurd e (haw a ha), fun _ e => absurd e (hna a ha), fun _ _ => ha⟩
            · intro es
              simp [wf, get_view, hg, view_set, AMap.get_set_ne _ _ _ _ (fun e => hwt e.symm), hgw]
        · rename_i hk
          simp only [hk, if_false] at hs
          simp at hso
          obtain ⟨rfl, -⟩ := hso
          simp at hs
          obtain ⟨rfl, rfl⟩ := hs
          refine ⟨mk_inv h t t _ _ _ _ (get_set1 _ _ _) hi' h.qnd h.and ?_ ?_ (by simp [ThOK, resOK]) (by simp [ThOK, resOK]), ?_⟩
          · intro w hw
            exact ⟨fun e => absurd e (hnq w hw), fun e1 e2 => absurd e2 e1, fun _ _ => hw⟩
          · intro w hw
            exact ⟨fun e => absurd e (hna w hw), fun e1 e2 => absurd e2 e1, fun _ _ => hw⟩
          · intro es
            simp [wf, get_view, hg, view_set]
    · cases hs
  · rename_i k l hg
    split at hs
    · rename_i o' ops hso
      cases hs
      exact good_addKey h hg (Or.inl rfl) hso
    · cases hs
  · rename_i k l hg
    split at hs
    · rename_i o' ops hso
      cases hs
      exact good_addKey h hg (Or.inl rfl) hso
    · cases hs
  · rename_i k l hg
    split at hs
    · rename_i o' ops hso
      cases hs
      exact good_addKey h hg (Or.inr rfl) hso
    · cases hs
  · -- the deferred users.Add(-1): the call returns
    rename_i c ok l hg
    split at hs
    · rename_i o' ops hso
      cases hs
      obtain ⟨hi', -⟩ := stepObj_inv n s.o o' _ ops h.obj hso
      simp only [stepObj] at hso
      split at hso
      · simp at hso
        obtain ⟨rfl, -⟩ := hso
        have hres : resOK n c l ok = true := by simpa [ThOK] using h.T t _ hg
        refine ⟨frame_del h t _ hi' rfl rfl (by intro th e; rw [hg] at e; cases e; simp), ?_⟩
        intro es
        simp [wf, get_view, hg, view_del, hres]
      · cases hso
    · cases hs
  · cases hs


theorem good_giveUp {n : Str} {s s' : TSt} {evs : List Ev} {t : Tid} (h : TInv n s)
    (hs : tstep n s (.giveUp t) = some (s', evs)) : Good n s s' evs := by
  simp only [tstep] at hs
  split at hs
  · -- before the semaphore was touched: nothing to undo
    rename_i c l hg
    cases hs
    have hl : l = [] := by simpa [ThOK] using h.T t _ hg
    subst hl
    refine ⟨frame_set h t _ s.o h.obj rfl rfl (by intro th e; rw [hg] at e; cases e; simp)
      (by simp [ThOK, resOK_nil]), ?_⟩
    intro es
    simp [view_set_same _ _ _ _ hg]
  · rename_i k l hg
    split at hs
    · -- still queued: leave the queue
      rename_i o' ops hso
      cases hs
      obtain ⟨hi', -⟩ := stepObj_inv n s.o o' _ ops h.obj hso
      simp only [stepObj] at hso
      split at hso
      · rename_i hm
        simp at hso
        obtain ⟨rfl, -⟩ := hso
        have hgq := h.Q (t, k) hm
        rw [hg] at hgq
        simp at hgq
        subst hgq
        have hq : ∀ w ∈ s.o.q.erase (t, k), w.1 ≠ t := by
          intro w hw e
          have hw' := List.mem_of_mem_erase hw
          have := h.Q w hw'
          rw [e, hg] at this
          simp at this
          have : w = (t, k) := Prod.ext e this.symm
          rw [this] at hw
          exact (h.qnd.mem_erase_iff.mp hw).1 rfl
        have ha : ∀ a ∈ s.o.acq, a.1 ≠ t := by
          intro a ha e
          obtain ⟨th, hgt, hk⟩ := h.A a ha
          rw [e, hg] at hgt
          cases hgt
          rcases hk with ⟨_, _, h3⟩ | ⟨_, _, h3⟩ <;> simp at h3
        refine ⟨mk_inv h t t _ _ _ _ (get_set1 _ _ _) hi' (h.qnd.erase _) h.and ?_ ?_ (by simp [ThOK, resOK]) (by simp [ThOK, resOK]), ?_⟩
        · intro w hw
          exact ⟨fun e => absurd e (hq w hw), fun e1 e2 => absurd e2 e1, fun _ _ => List.mem_of_mem_erase hw⟩
        · intro a ha'
          exact ⟨fun e => absurd e (ha a ha'), fun e1 e2 => absurd e2 e1, fun _ _ => ha'⟩
        · intro es
          simp [view_set_same _ _ _ _ hg]
      · cases hso
    · split at hs
      · -- already handed the unit: give it back (Release inside Acquire), possibly to the next waiter
        rename_i hnc o' ops hso
        obtain ⟨hi', -⟩ := stepObj_inv n s.o o' _ ops h.obj hso
        simp only [stepObj] at hso
        split at hso
        · rename_i hm
          obtain ⟨th, hgt, hk⟩ := h.A (t, k) hm
          rw [hg] at hgt
          cases hgt
          have hl : l = [.grant n k] := by
            rcases hk with ⟨_, _, h3⟩ | ⟨h1, _, _⟩
            · simpa using h3
            · simp at h1
          subst hl
          have hq : ∀ w ∈ s.o.q, w.1 ≠ t := by
            intro w hw e
            have := h.Q w hw
            rw [e, hg] at this
            simp at this
          have ha : ∀ a ∈ s.o.acq.erase (t, k), a.1 ≠ t := by
            intro a ha e
            have ha' := List.mem_of_mem_erase ha
            obtain ⟨th, hgt, hk'⟩ := h.A a ha'
            rw [e, hg] at hgt
            cases hgt
            have : a.2 = k := by
              rcases hk' with ⟨h1, _, _⟩ | ⟨h1, _, _⟩ <;> simp at h1; exact h1.symm
            have : a = (t, k) := Prod.ext e this
            rw [this] at ha
            exact (h.and.mem_erase_iff.mp ha).1 rfl
          cases hq0 : s.o.q with
          | nil =>
            simp [Obj.freeUnit, hq0] at hso
            simp [handOver, hq0] at hs
            obtain ⟨rfl, -⟩ := hso
            obtain ⟨rfl, rfl⟩ := hs
            refine ⟨mk_inv h t t _ _ _ _ (get_set1 _ _ _) hi' (by simp [hq0]) (h.and.erase _) ?_ ?_ (by simp [ThOK, resOK]) (by simp [ThOK, resOK]), ?_⟩
            · intro w hw; simp [hq0] at hw
            · intro a ha'
              exact ⟨fun e => absurd e (ha a ha'), fun e1 e2 => absurd e2 e1, fun _ _ => List.mem_of_mem_erase ha'⟩
            · intro es
              simp [wf, get_view, hg, view_set]
          | cons w q' =>
            obtain ⟨hgw, hnd', hq'w, haw⟩ := head_facts h hq0
            have hwt : w.1 ≠ t := hq w (by simp [hq0])
            have hgw1 : AMap.get (AMap.set s.ths t ⟨.lock k, .drop false, [.grant n k, .unlock n k true]⟩) w.1 = some ⟨.lock w.2, .wait, []⟩ := by
              rw [AMap.get_set_ne _ _ _ _ (fun e => hwt e.symm)]; exact hgw
            simp [Obj.freeUnit, hq0] at hso
            simp [handOver, hq0, credit, hgw1] at hs
            obtain ⟨rfl, -⟩ := hso
            obtain ⟨rfl, rfl⟩ := hs
            refine ⟨mk_inv h w.1 t _ _ _ _ (get_set2 _ _ _ _ _) hi' hnd' ?_ ?_ ?_ (by simp [ThOK]) (by simp [ThOK, resOK]), ?_⟩
            · exact List.nodup_cons.mpr ⟨fun hm => haw w (List.mem_of_mem_erase hm) rfl, h.and.erase _⟩
            · intro w' hw'
              simp at hw'
              exact ⟨fun e => absurd e (hq'w w' hw'), fun _ e => absurd e (hq w' (by simp [hq0, hw'])),
                fun _ _ => by simp [hq0, hw']⟩
            · intro a ha'
              simp at ha'
              rcases ha' with rfl | ha'
              · simp [Aok]
              · exact ⟨fun e => absurd e (haw a (List.mem_of_mem_erase ha')), fun _ e => absurd e (ha a ha'),
                  fun _ _ => List.mem_of_mem_erase ha'⟩
            · intro es
              simp [wf, get_view, hg, view_set, AMap.get_set_ne _ _ _ _ (fun e => hwt e.symm), hgw]
        · cases hso
      · cases hs
  · cases hs

/-- **every step** keeps the invariant and is accepted by the checker -/
theorem good_step {n : Str} {s s' : TSt} {evs : List Ev} (a : TAct) (h : TInv n s)
    (hs : tstep n s a = some (s', evs)) : Good n s s' evs := by
  cases a with
  | invoke t c => exact good_invoke h hs
  | refuse t => exact good_refuse h hs
  | next t => exact good_next h hs
  | giveUp t => exact good_giveUp h hs

/-- **every schedule**: the trace is well formed from the checker state that mirrors the threads -/
theorem trun_wf (n : Str) : ∀ (as : List TAct) (s s' : TSt) (tr : List Ev), TInv n s →
    trun n s as = some (s', tr) → TInv n s' ∧ wf n (view s.ths) tr = true := by
  intro as
  induction as with
  | nil =>
    intro s s' tr h hr
    simp [trun] at hr
    obtain ⟨rfl, rfl⟩ := hr
    exact ⟨h, by simp [wf]⟩
  | cons a as ih =>
    intro s s' tr h hr
    simp only [trun] at hr
    cases hs : tstep n s a with
    | none => simp [hs] at hr
    | some r =>
      obtain ⟨s1, ev1⟩ := r
      simp only [hs] at hr
      cases hr2 : trun n s1 as with
      | none => simp [hr2] at hr
      | some r2 =>
        simp [hr2] at hr
        obtain ⟨rfl, rfl⟩ := hr
        obtain ⟨h1, hw⟩ := good_step a h hs
        obtain ⟨h2, hw2⟩ := ih s1 r2.1 r2.2 h1 hr2
        exact ⟨h2, by rw [hw]; exact hw2⟩


/-! ### the threaded schedule refines the atomic counting lock (through M1's one-step simulation) -/

theorem handOver_lins (n : Str) (o : Obj) (ths : List (Tid × Th)) :
    lins (handOver n o ths).2 = (o.freeUnit n).2 := by
  cases hq : o.q <;> simp [handOver, Obj.freeUnit, hq, lins]

/-- a threaded step is either invisible to the specification or one critical section of M1 that emits
exactly the step's `lin` operations -/
theorem tstep_obj {n : Str} {s s' : TSt} {evs : List Ev} (a : TAct) (hs : tstep n s a = some (s', evs)) :
    (s'.o.abs = s.o.abs ∧ s'.o.size = s.o.size ∧ lins evs = [] ∧ project n s a = none) ∨
    (∃ act, project n s a = some act ∧ stepObj n s.o act = some (s'.o, lins evs)) := by
  cases a with
  | invoke t c =>
    simp only [tstep] at hs
    split at hs
    · cases hs
    · cases hs; exact Or.inl ⟨rfl, rfl, rfl, rfl⟩
  | refuse t =>
    simp only [tstep] at hs
    split at hs
    · cases hs; exact Or.inl ⟨rfl, rfl, rfl, rfl⟩
    · cases hs
  | giveUp t =>
    simp only [tstep] at hs
    split at hs
    · rename_i c l hg
      cases hs
      exact Or.inl ⟨rfl, rfl, rfl, by simp [project, hg]⟩
    · rename_i k l hg
      split at hs
      · rename_i o' ops hso
        cases hs
        refine Or.inr ⟨.cancel t n k, ?_, ?_⟩
        · have : (t, k) ∈ s.o.q := by
            simp only [stepObj] at hso
            split at hso
            · assumption
            · cases hso
          simp [project, hg, this]
        · have : ops = [] := by
            simp only [stepObj] at hso
            split at hso
            · simp at hso; exact hso.2
            · cases hso
          subst this
          simpa [lins] using hso
      · split at hs
        · rename_i hnc _ o' ops hso
          have hnq : (t, k) ∉ s.o.q := by
            intro hm
            simp [stepObj, hm] at hnc
          refine Or.inr ⟨.handBack t n k, by simp [project, hg, hnq], ?_⟩
          cases hs
          simp only [lins, handOver_lins]
          simp only [stepObj] at hso ⊢
          split at hso
          · rename_i hm
            simp only [hm, if_true]
            simp at hso
            simp [← hso.1]
            cases hq : s.o.q <;> simp [Obj.freeUnit, hq]
          · cases hso
        · cases hs
    · cases hs
  | next t =>
    simp only [tstep] at hs
    split at hs
    · cases hs
    · rename_i c l hg
      cases hs
      exact Or.inl ⟨rfl, rfl, rfl, by simp [project, hg]⟩
    · rename_i k l hg
      split at hs
      · rename_i o' ops hso
        cases hs
        refine Or.inr ⟨.tryAcquire t n k, by simp [project, hg], ?_⟩
        simp only [stepObj] at hso ⊢
        split at hso
        · cases hso
        · rename_i hp
          simp only [hp, if_false]
          split at hso <;> rename_i hf <;> simp at hso <;> obtain ⟨rfl, -⟩ := hso
          · simp only [hf, and_self, if_true]; simp [lins, hf.1, hf.2]
          · simp only [hf, if_false]; simp [lins]
      · cases hs
    · rename_i k l hg
      split at hs
      · rename_i o' ops hso
        refine Or.inr ⟨.acquire t n k, by simp [project, hg], ?_⟩
        simp only [stepObj] at hso ⊢
        split at hso
        · cases hso
        · rename_i hp
          simp only [hp, if_false]
          split at hso <;> rename_i hf <;> simp at hso <;> obtain ⟨rfl, -⟩ := hso <;> simp [hf] at hs <;>
            obtain ⟨rfl, rfl⟩ := hs
          · simp only [hf, and_self, if_true]; simp [lins]
          · simp only [hf, if_false]; simp [lins]
      · cases hs
    · rename_i k l hg
      split at hs
      · rename_i o' ops hso
        refine Or.inr ⟨.unlock t n k, by simp [project, hg], ?_⟩
        simp only [stepObj] at hso ⊢
        split at hso
        · cases hso
        · rename_i hp
          simp only [hp, if_false]
          split at hso
          · rename_i hk
            simp only [hk, if_true] at hs ⊢
            cases hs
            simp only [lins, handOver_lins]
            simp at hso
            simp [← hso.1]
            cases hq : s.o.q <;> simp [Obj.freeUnit, hq]
          · rename_i hk
            simp only [hk, if_false] at hs ⊢
            simp at hs hso
            obtain ⟨rfl, rfl⟩ := hs
            simp [lins, hso.1]
      · cases hs
    · rename_i k l hg
      split at hs
      · rename_i o' ops hso
        cases hs
        refine Or.inr ⟨.addKey t n k, by simp [project, hg], ?_⟩
        have : ops = [] := by
          simp only [stepObj] at hso
          split at hso
          · simp at hso; exact hso.2
          · cases hso
        subst this
        simpa [lins] using hso
      · cases hs
    · rename_i k l hg
      split at hs
      · rename_i o' ops hso
        cases hs
        refine Or.inr ⟨.addKey t n k, by simp [project, hg], ?_⟩
        have : ops = [] := by
          simp only [stepObj] at hso
          split at hso
          · simp at hso; exact hso.2
          · cases hso
        subst this
        simpa [lins] using hso
      · cases hs
    · rename_i k l hg
      split at hs
      · rename_i o' ops hso
        cases hs
        refine Or.inr ⟨.addKey t n k, by simp [project, hg], ?_⟩
        have : ops = [] := by
          simp only [stepObj] at hso
          split at hso
          · simp at hso; exact hso.2
          · cases hso
        subst this
        simpa [lins] using hso
      · cases hs
    · rename_i c ok l hg
      split at hs
      · rename_i o' ops hso
        cases hs
        refine Or.inr ⟨.decref t n, by simp [project, hg], ?_⟩
        have : ops = [] := by
          simp only [stepObj] at hso
          split at hso
          · simp at hso; exact hso.2
          · cases hso
        subst this
        simpa [lins] using hso
      · cases hs
    · cases hs


theorem lins_append (a b : List Ev) : lins (a ++ b) = lins a ++ lins b := by
  induction a with
  | nil => rfl
  | cons e a ih => cases e <;> simp [lins, ih]

/-- M1's side condition at the critical sections of a threaded schedule: a failing Unlock does not
present a key that is in the middle of being granted (no client has been told that key yet) -/
def AllSideT (n : Str) : TSt → List TAct → Prop
  | _, [] => True
  | s, a :: as =>
    (match project n s a with
      | some act => sideOk s.o act
      | none => True) ∧
    (match tstep n s a with
      | some (s', _) => AllSideT n s' as
      | none => True)

theorem trun_refines (n : Str) : ∀ (as : List TAct) (s s' : TSt) (tr : List Ev), TInv n s → AllSideT n s as →
    trun n s as = some (s', tr) →
    ∃ h', arun s.o.size s.o.abs (lins tr) = some h' ∧ h'.Perm s'.o.abs := by
  intro as
  induction as with
  | nil =>
    intro s s' tr _ _ hr
    simp [trun] at hr
    obtain ⟨rfl, rfl⟩ := hr
    exact ⟨s.o.abs, by simp [lins, arun], List.Perm.refl _⟩
  | cons a as ih =>
    intro s s' tr h hside hr
    simp only [trun] at hr
    cases hs : tstep n s a with
    | none => simp [hs] at hr
    | some r =>
      obtain ⟨s1, ev1⟩ := r
      simp only [hs] at hr
      cases hr2 : trun n s1 as with
      | none => simp [hr2] at hr
      | some r2 =>
        simp [hr2] at hr
        obtain ⟨rfl, rfl⟩ := hr
        simp only [AllSideT, hs] at hside
        obtain ⟨h1, -⟩ := good_step a h hs
        obtain ⟨h', hh', hp'⟩ := ih s1 r2.1 r2.2 h1 hside.2 hr2
        rw [lins_append]
        rcases tstep_obj a hs with ⟨habs, hsz, hl, _⟩ | ⟨act, hpr, hso⟩
        · rw [hl, ← hsz, ← habs]
          exact ⟨h', hh', hp'⟩
        · obtain ⟨-, hsz⟩ := stepObj_inv n s.o s1.o act _ h.obj hso
          have hsd : sideOk s.o act := by
            have := hside.1
            rw [hpr] at this
            exact this
          obtain ⟨m, hm, hpm⟩ := sim_obj n s.o s1.o act _ h.obj hsd hso
          rw [hsz] at hh'
          obtain ⟨h2, hh2, hp2⟩ := arun_perm s.o.size (lins r2.2) s1.o.abs m h' hpm.symm hh'
          refine ⟨h2, ?_, hp2.symm.trans hp'⟩
          rw [arun_append s.o.size (lins ev1) (lins r2.2) s.o.abs m hm]
          exact hh2

/-- a lock object nobody is using satisfies the invariant: the theorems apply to every schedule from there -/
theorem idle_inv (n : Str) (o : Obj) (hi : ObjInv o) (hq : o.q = []) (ha : o.acq = []) : TInv n ⟨o, []⟩ :=
  ⟨hi, by simp [hq], by simp [ha], by simp [hq], by simp [ha], by intro t th hg; simp at hg⟩


/-- the size of the lock object never changes -/
theorem trun_size (n : Str) : ∀ (as : List TAct) (s s' : TSt) (tr : List Ev), TInv n s →
    trun n s as = some (s', tr) → s'.o.size = s.o.size := by
  intro as
  induction as with
  | nil => intro s s' tr _ hr; simp [trun] at hr; rw [← hr.1]
  | cons a as ih =>
    intro s s' tr h hr
    simp only [trun] at hr
    cases hs : tstep n s a with
    | none => simp [hs] at hr
    | some r =>
      obtain ⟨s1, ev1⟩ := r
      simp only [hs] at hr
      cases hr2 : trun n s1 as with
      | none => simp [hr2] at hr
      | some r2 =>
        simp [hr2] at hr
        obtain ⟨rfl, -⟩ := hr
        obtain ⟨h1, -⟩ := good_step a h hs
        have e1 : s1.o.size = s.o.size := by
          rcases tstep_obj a hs with ⟨_, hsz, _, _⟩ | ⟨act, _, hso⟩
          · exact hsz
          · exact (stepObj_inv n s.o s1.o act _ h.obj hso).2
        rw [ih s1 r2.1 r2.2 h1 hr2, e1]

/-! ### what `wf` gives: every attributed operation lies inside its call's interval -/

/-- in a well-formed trace an operation attributed to a thread that has no open call is preceded by an
invocation of that thread: no operation before the call's `inv`, none after its `ret` -/
theorem lin_after_inv (n : Str) : ∀ (tr : List Ev) (os : List (Tid × Call × List AOp)) (t : Tid),
    wf n os tr = true → AMap.get os t = none →
    ∀ (p q : List Ev) (op : AOp), tr = p ++ .lin t op :: q → ∃ c, Ev.inv t c ∈ p := by
  intro tr
  induction tr with
  | nil => intro os t _ _ p q op h; simp at h
  | cons e es ih =>
    intro os t hw hg p q op hsplit
    cases p with
    | nil =>
      simp at hsplit
      obtain ⟨rfl, rfl⟩ := hsplit
      simp [wf, hg] at hw
    | cons e' p' =>
      simp at hsplit
      obtain ⟨rfl, hrest⟩ := hsplit
      cases e with
      | inv t' c =>
        by_cases e : t' = t
        · exact ⟨c, by simp [e]⟩
        · simp only [wf, Bool.and_eq_true] at hw
          have hg' : AMap.get (AMap.set os t' (c, [])) t = none := by
            rw [AMap.get_set_ne _ _ _ _ e]; exact hg
          obtain ⟨c', hc'⟩ := ih _ t hw.2 hg' p' q op hrest
          exact ⟨c', by simp [hc']⟩
      | lin t' op' =>
        simp only [wf] at hw
        split at hw
        · rename_i c l hgt
          have e : t' ≠ t := fun e => by rw [e, hg] at hgt; cases hgt
          have hg' : AMap.get (AMap.set os t' (c, l ++ [op'])) t = none := by
            rw [AMap.get_set_ne _ _ _ _ e]; exact hg
          obtain ⟨c', hc'⟩ := ih _ t hw hg' p' q op hrest
          exact ⟨c', by simp [hc']⟩
        · cases hw
      | ret t' ok =>
        simp only [wf] at hw
        split at hw
        · rename_i c l hgt
          simp only [Bool.and_eq_true] at hw
          have hg' : AMap.get (AMap.del os t') t = none := by
            by_cases e : t' = t
            · rw [e]; exact AMap.get_del_eq _ _
            · rw [AMap.get_del_ne _ _ _ e]; exact hg
          obtain ⟨c', hc'⟩ := ih _ t hw.2 hg' p' q op hrest
          exact ⟨c', by simp [hc']⟩
        · cases hw

/-- … and after a call has returned nothing is attributed to its thread until the thread's next invocation -/
theorem no_lin_after_ret (n : Str) (os : List (Tid × Call × List AOp)) (t : Tid) (ok : Bool) (es : List Ev)
    (hw : wf n os (.ret t ok :: es) = true) (p q : List Ev) (op : AOp) (h : es = p ++ .lin t op :: q) :
    ∃ c, Ev.inv t c ∈ p := by
  simp only [wf] at hw
  split at hw
  · simp only [Bool.and_eq_true] at hw
    exact lin_after_inv n es _ t hw.2 (AMap.get_del_eq _ _) p q op h
  · cases hw

end Ldlm.Threads

namespace Ldlm.Threads
open Ldlm Ldlm.Table
/-- a well-formed trace stays well formed from any point on (with the calls open at that point) -/
theorem wf_suffix (n : Str) : ∀ (p q : List Ev) (os : List (Tid × Call × List AOp)),
    wf n os (p ++ q) = true → ∃ os', wf n os' q = true := by
  intro p
  induction p with
  | nil => intro q os h; exact ⟨os, h⟩
  | cons e p ih =>
    intro q os h
    cases e with
    | inv t c =>
      simp only [List.cons_append, wf, Bool.and_eq_true] at h
      exact ih q _ h.2
    | lin t op =>
      simp only [List.cons_append, wf] at h
      split at h
      · exact ih q _ h
      · cases h
    | ret t ok =>
      simp only [List.cons_append, wf] at h
      split at h
      · simp only [Bool.and_eq_true] at h; exact ih q _ h.2
      · cases h
end Ldlm.Threads
