module verif/tools/facts

go 1.26
