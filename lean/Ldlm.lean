import Ldlm.Model.Codec
import Ldlm.Proofs.CodecRoundTrip
import Ldlm.Proofs.CodecSafety
import Ldlm.Props.C17
