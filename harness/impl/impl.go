// Package impl drives the real server.LockServer (real lock table, timer map, session table and
// state file) one operation at a time inside a testing/synctest bubble and renders, after every
// operation, the same canonical line the Lean driver prints for the model (DESIGN §5.4).
// It must be compiled with -overlay harness/overlay/exports.json (accessors only).
package impl

import (
	"context"
	"errors"
	"fmt"
	"log/slog"
	"os"
	"path/filepath"
	"regexp"
	"sort"
	"strconv"
	"strings"
	"testing/synctest"
	"time"

	"github.com/imoore76/ldlm/lock"
	ldlmlog "github.com/imoore76/ldlm/log"
	"github.com/imoore76/ldlm/server"
	cl "github.com/imoore76/ldlm/server/clientlock"
	"github.com/imoore76/ldlm/server/ipc"
	"github.com/imoore76/ldlm/server/session/store"
)

func init() { ldlmlog.SetLevel(slog.Level(12)) }

type Cfg struct {
	Shards  uint32
	GcInt   time.Duration
	GcIdle  time.Duration
	Dlt     time.Duration
	NoClear bool
	File    bool
}

func (c Cfg) Line() string {
	b := func(x bool) int {
		if x {
			return 1
		}
		return 0
	}
	return fmt.Sprintf("cfg gcint=%d gcidle=%d dlt=%d noclear=%d file=%d shards=%d", int64(c.GcInt), int64(c.GcIdle), int64(c.Dlt), b(c.NoClear), b(c.File), c.Shards)
}

// Op is one line of the protocol. Names, keys and session ids are in canonical form (keys of
// requests are written K<req>); Exec substitutes the real uuids.
type Op struct {
	Kind   string // connect disconnect trylock lock unlock renew adv gc restart ipcunlock cancel
	Sid    string // canonical session id, "-" = no session in the context
	Name   string
	Key    string
	Size   *int32
	Lt     *int32
	Wt     *int32
	T      int32 // renew timeout
	D      int64 // adv / gc nanoseconds
	Req    int   // cancel
	Chosen string
	Extra  []ExtraHold `json:",omitempty"` // restartwith: holds appended to session Sid's list in the file before the restart
}

// ExtraHold is one hold written into the state file behind the server's back (a crash image that
// lists more than the server had acknowledged).
type ExtraHold struct {
	Name, Key string
	Size      int32
}

func optS(p *int32) string {
	if p == nil {
		return "-"
	}
	return strconv.Itoa(int(*p))
}

// Tok renders a byte string the way the Lean driver's encTok does.
func Tok(s string) string {
	var b strings.Builder
	b.WriteByte('=')
	for i := 0; i < len(s); i++ {
		c := s[i]
		if c > 32 && c < 127 && !strings.ContainsRune("%,;[]|/:", rune(c)) {
			b.WriteByte(c)
		} else {
			fmt.Fprintf(&b, "%%%02x", c)
		}
	}
	return b.String()
}

// UnTok is the inverse of Tok.
func UnTok(t string) string {
	t = strings.TrimPrefix(t, "=")
	var b strings.Builder
	for i := 0; i < len(t); i++ {
		if t[i] == '%' && i+2 < len(t)+0 && i+2 <= len(t)-1+1 {
			if v, err := strconv.ParseUint(t[i+1:i+3], 16, 8); err == nil {
				b.WriteByte(byte(v))
				i += 2
				continue
			}
		}
		b.WriteByte(t[i])
	}
	return b.String()
}

func sidTok(s string) string {
	if s == "-" {
		return "-"
	}
	return Tok(s)
}

func (o Op) Line() string {
	switch o.Kind {
	case "connect", "disconnect":
		return o.Kind + " " + Tok(o.Sid)
	case "trylock":
		return fmt.Sprintf("trylock %s %s %s %s", sidTok(o.Sid), Tok(o.Name), optS(o.Size), optS(o.Lt))
	case "lock":
		return fmt.Sprintf("lock %s %s %s %s %s", sidTok(o.Sid), Tok(o.Name), optS(o.Size), optS(o.Lt), optS(o.Wt))
	case "unlock":
		return fmt.Sprintf("unlock %s %s %s", sidTok(o.Sid), Tok(o.Name), Tok(o.Key))
	case "renew":
		return fmt.Sprintf("renew %s %s %d", Tok(o.Name), Tok(o.Key), o.T)
	case "adv", "gc":
		return fmt.Sprintf("%s %d", o.Kind, o.D)
	case "restart":
		return "restart"
	case "restartwith":
		p := []string{"restartwith", Tok(o.Sid)}
		for _, e := range o.Extra {
			p = append(p, Tok(e.Name), Tok(e.Key), strconv.Itoa(int(e.Size)))
		}
		return strings.Join(p, " ")
	case "ipcunlock":
		k, c := "-", "-"
		if o.Key != "" {
			k = Tok(o.Key)
		}
		if o.Chosen != "" {
			c = Tok(o.Chosen)
		}
		return fmt.Sprintf("ipcunlock %s %s %s", Tok(o.Name), k, c)
	case "cancel":
		return fmt.Sprintf("cancel %d", o.Req)
	}
	return "bad " + o.Kind
}

type sessRec struct {
	uuid   string
	ctx    context.Context
	cancel context.CancelFunc
}

type completion struct {
	req    int
	locked bool
	key    string
	err    error
}

// Resp is what one operation answered (before rendering).
type Resp struct {
	Ok      bool
	Key     string // canonical
	Err     string
	Pending bool
	Events  []string
	Panic   string
}

type Impl struct {
	Cfg       Cfg
	dir       string
	StatePath string
	LS        *server.LockServer
	closer    func()
	start     time.Time
	sess      map[string]*sessRec
	sidCanon  map[string]string
	keyOf     map[int]string
	canonKey  map[string]string
	Nreq      int
	pend      map[int]context.CancelFunc
	done      chan completion
	StartErr  error
}

func (c Cfg) serverConfig(state string) *server.LockServerConfig {
	sc := &server.LockServerConfig{Shards: c.Shards, LockGcInterval: c.GcInt, LockGcMinIdle: c.GcIdle,
		DefaultLockTimeout: c.Dlt, NoClearOnDisconnect: c.NoClear}
	sc.IPCSocketFile = ""
	sc.StateFile = state
	return sc
}

// New starts a server inside the current synctest bubble.
func New(c Cfg, dir string) *Impl {
	im := &Impl{Cfg: c, dir: dir, start: time.Now(), sess: map[string]*sessRec{}, sidCanon: map[string]string{},
		keyOf: map[int]string{}, canonKey: map[string]string{}, pend: map[int]context.CancelFunc{}, done: make(chan completion, 4096)}
	if c.File {
		im.StatePath = filepath.Join(dir, "state")
	}
	im.boot()
	return im
}

func (im *Impl) boot() {
	defer func() {
		if r := recover(); r != nil {
			im.StartErr = fmt.Errorf("panic in server.New: %v", r)
		}
	}()
	ls, closer, err := server.New(im.Cfg.serverConfig(im.StatePath))
	if err != nil {
		if closer != nil {
			closer()
		}
		im.StartErr = err
		return
	}
	im.LS, im.closer = ls, closer
}

// ProbeStart runs server.New on the state file at path (inside the current bubble) and closes the
// server again: "" if it started, else the error or panic.
func ProbeStart(c Cfg, path string) (res string) {
	defer func() {
		if r := recover(); r != nil {
			res = fmt.Sprintf("panic in server.New: %v", r)
		}
	}()
	_, closer, err := server.New(c.serverConfig(path))
	if closer != nil {
		defer closer()
	}
	if err != nil {
		return err.Error()
	}
	return ""
}

func (im *Impl) Now() int64 { return int64(time.Since(im.start)) }

var kRe = regexp.MustCompile(`K[0-9]+`)

// RealKey turns a canonical key expression into the string sent to the server.
func (im *Impl) RealKey(canon string) string {
	if rest, ok := strings.CutPrefix(canon, "UP:"); ok { // the same key in upper case: a different key
		return strings.ToUpper(im.RealKey(rest))
	}
	return kRe.ReplaceAllStringFunc(canon, func(m string) string {
		n, _ := strconv.Atoi(m[1:])
		if u, ok := im.keyOf[n]; ok {
			return u
		}
		return fmt.Sprintf("00000000-dead-4000-8000-%012d", n)
	})
}

// Canon replaces every known uuid (keys and session ids) in s by its canonical name.
func (im *Impl) Canon(s string) string {
	if c, ok := im.sidCanon[s]; ok { // session ids need not look like uuids
		return c
	}
	if len(s) < 36 {
		return s
	}
	for u, k := range im.canonKey {
		if strings.Contains(s, u) {
			s = strings.ReplaceAll(s, u, k)
		}
	}
	if c, ok := im.sidCanon[s]; ok {
		return c
	}
	return s
}

func ErrName(err error) string {
	switch {
	case err == nil:
		return "-"
	case errors.Is(err, server.ErrSessionDoesNotExist):
		return "SessionDoesNotExist"
	case errors.Is(err, server.ErrEmptyName):
		return "EmptyName"
	case errors.Is(err, server.ErrInvalidLockTimeout):
		return "InvalidLockTimeout"
	case errors.Is(err, server.ErrInvalidWaitTimeout):
		return "InvalidWaitTimeout"
	case errors.Is(err, lock.ErrInvalidLockSize):
		return "InvalidLockSize"
	case errors.Is(err, lock.ErrLockSizeMismatch):
		return "LockSizeMismatch"
	case errors.Is(err, lock.ErrLockDoesNotExist):
		return "LockDoesNotExist"
	case errors.Is(err, lock.ErrInvalidLockKey):
		return "InvalidLockKey"
	case errors.Is(err, server.ErrLockWaitTimeout):
		return "LockWaitTimeout"
	case errors.Is(err, server.ErrLockDoesNotExistOrInvalidKey):
		return "LockDoesNotExistOrInvalidKey"
	case errors.Is(err, context.Canceled):
		return "Canceled"
	case errors.Is(err, lock.ErrManagerShutdown):
		return "ManagerShutdown"
	}
	// the admin IPC transports errors as text
	msg := err.Error()
	for _, e := range []error{server.ErrSessionDoesNotExist, lock.ErrLockDoesNotExist, lock.ErrInvalidLockKey, server.ErrLockDoesNotExistOrInvalidKey} {
		if strings.HasSuffix(msg, e.Error()) {
			return ErrName(e)
		}
	}
	return "Other(" + strings.ReplaceAll(msg, " ", "_") + ")"
}

func (im *Impl) ctxOf(sid string) context.Context {
	if sid == "-" {
		return context.Background()
	}
	if s, ok := im.sess[sid]; ok {
		return s.ctx
	}
	return context.Background()
}

func (im *Impl) noteKey(req int, uuid string) string {
	k := "K" + strconv.Itoa(req)
	im.keyOf[req] = uuid
	im.canonKey[uuid] = k
	return k
}

func (im *Impl) drain() []string {
	ev := []string{}
	for {
		select {
		case c := <-im.done:
			delete(im.pend, c.req)
			k := "-"
			if c.locked {
				k = Tok(im.noteKey(c.req, c.key))
			}
			l := 0
			if c.locked {
				l = 1
			}
			ev = append(ev, fmt.Sprintf("%d:%d:%s:%s", c.req, l, k, ErrName(c.err)))
		default:
			sort.Strings(ev)
			return ev
		}
	}
}

// Exec runs one operation to quiescence.
func (im *Impl) Exec(o Op) (r Resp) {
	r.Err = "-"
	defer func() {
		if p := recover(); p != nil {
			r.Panic = fmt.Sprint(p)
		}
	}()
	switch o.Kind {
	case "connect":
		ctx, cancel := context.WithCancel(context.Background())
		uuid, sctx := im.LS.CreateSession(ctx, map[string]any{})
		im.sess[o.Sid] = &sessRec{uuid: uuid, ctx: sctx, cancel: cancel}
		if _, reused := im.sidCanon[uuid]; !reused { // an id handed out twice keeps its first name: the entries it aliases stay visible
			im.sidCanon[uuid] = o.Sid
		}
	case "disconnect":
		if s, ok := im.sess[o.Sid]; ok {
			s.cancel()
			synctest.Wait()
			im.LS.DestroySession(s.ctx)
		}
	case "skipreq": // metamorphic replays: the request is left out but keeps its request number
		im.Nreq++
	case "trylock":
		req := im.Nreq
		im.Nreq++
		lk, err := im.LS.TryLock(im.ctxOf(o.Sid), o.Name, o.Size, o.Lt)
		r.Err = ErrName(err)
		if lk != nil && lk.Locked {
			r.Ok = true
			r.Key = im.noteKey(req, lk.Key)
		}
	case "lock":
		req := im.Nreq
		im.Nreq++
		ctx, cancel := context.WithCancel(im.ctxOf(o.Sid))
		im.pend[req] = cancel
		go func() {
			c := completion{req: req}
			defer func() { // a panic inside the call is this request's answer, not the end of the run
				if p := recover(); p != nil {
					c.err = fmt.Errorf("panic: %v", p)
					im.done <- c
				}
			}()
			lk, err := im.LS.Lock(ctx, o.Name, o.Size, o.Lt, o.Wt)
			c.err = err
			if lk != nil {
				c.locked, c.key = lk.Locked, lk.Key
			}
			im.done <- c
		}()
		synctest.Wait()
		// the call's own completion, if it did not block, is this operation's response
		rest := []completion{}
		for {
			select {
			case c := <-im.done:
				if c.req == req {
					delete(im.pend, req)
					cancel()
					r.Err = ErrName(c.err)
					if c.err != nil && strings.HasPrefix(c.err.Error(), "panic: ") {
						r.Panic = c.err.Error()
					}
					if c.locked {
						r.Ok = true
						r.Key = im.noteKey(req, c.key)
					}
				} else {
					rest = append(rest, c)
				}
				continue
			default:
			}
			break
		}
		for _, c := range rest {
			im.done <- c
		}
		if _, still := im.pend[req]; still {
			r.Pending = true
		}
	case "unlock":
		ok, err := im.LS.Unlock(im.ctxOf(o.Sid), o.Name, im.RealKey(o.Key))
		r.Ok, r.Err = ok, ErrName(err)
	case "renew":
		// over gRPC and REST a Renew arrives with its session's context like every other request; the
		// session is not part of the line the model gets (M2's Renew does not look at it)
		rctx := context.Background()
		if o.Sid != "" && o.Sid != "-" {
			rctx = im.ctxOf(o.Sid)
		}
		lk, err := im.LS.Renew(rctx, o.Name, im.RealKey(o.Key), o.T)
		r.Err = ErrName(err)
		if lk != nil && lk.Locked {
			r.Ok = true
			r.Key = im.Canon(lk.Key)
		}
	case "adv":
		time.Sleep(time.Duration(o.D))
	case "gc":
		im.LS.VerifManager().VerifGc(time.Duration(o.D))
	case "restart", "restartwith":
		im.CancelAll()
		if len(im.pend) > len(im.done) {
			// a blocked call ignored the cancellation (see Close)
			time.Sleep(2 * time.Hour)
			synctest.Wait()
		}
		im.closer()
		im.closer = nil
		synctest.Wait()
		if o.Kind == "restartwith" && im.Cfg.File {
			uuid := o.Sid
			for u, c := range im.sidCanon {
				if c == o.Sid {
					uuid = u
				}
			}
			st, err := store.New(im.StatePath)
			if err != nil {
				panic(err)
			}
			m, err := st.Read()
			if err != nil {
				panic(err)
			}
			if m == nil {
				m = map[string][]cl.Lock{}
			}
			for _, e := range o.Extra {
				m[uuid] = append(m[uuid], cl.New(e.Name, e.Key, e.Size))
			}
			if err := st.Write(m); err != nil {
				panic(err)
			}
			st.Close()
		}
		im.sess = map[string]*sessRec{}
		im.boot()
	case "ipcunlock":
		var resp ipc.UnlockResponse
		err := ipc.VerifNew(im.LS).Unlock(ipc.UnlockRequest{Name: o.Name, Key: im.RealKey(o.Key)}, &resp)
		r.Ok, r.Err = bool(resp), ErrName(err)
	case "cancel":
		if c, ok := im.pend[o.Req]; ok {
			c()
		}
	}
	synctest.Wait()
	r.Events = im.drain()
	return r
}

// CancelAll cancels every session context (what closing the network layer does).
func (im *Impl) CancelAll() {
	for _, s := range im.sess {
		s.cancel()
	}
	for _, c := range im.pend {
		c()
	}
	synctest.Wait()
}

// Close ends the history: every goroutine of the bubble must be gone afterwards.
func (im *Impl) Close() {
	im.CancelAll()
	im.drain()
	if len(im.pend) > 0 {
		// a blocked call that ignored its cancellation: let its own wait timeout (if any) end it in
		// virtual time before the closer runs, which would otherwise wait for it on a sync mutex (not a
		// durable block: the bubble's clock would never advance and the run would hang in real time)
		time.Sleep(2 * time.Hour)
		synctest.Wait()
		im.drain()
	}
	if im.closer != nil {
		im.closer()
		im.closer = nil
	}
	synctest.Wait()
	for len(im.done) > 0 {
		<-im.done
	}
}

// ---------------------------------------------------------------- snapshot

type View struct {
	L, T, F, TM, P string
	// model-independent structure for the monitors
	Listing map[string][]string // canonical sid → holds "name/key/size" (tokens)
	Table   map[string]TableLock
	File    map[string][]string
	FileErr string
	Admin   []string // what LockServer.Locks() returns - the listing the admin tool and the IPC service show - "name/key/size", sorted
}
type TableLock struct {
	Size int32
	Keys []string // canonical tokens
	La   int64
}

func (im *Impl) holdsLine(m map[string][]cl.Lock) (string, map[string][]string) {
	out := map[string][]string{}
	parts := []string{}
	for sid, ls := range m {
		hs := []string{}
		for _, l := range ls {
			hs = append(hs, fmt.Sprintf("%s/%s/%d", Tok(l.Name()), Tok(im.Canon(l.Key())), l.Size()))
		}
		sort.Strings(hs)
		c := im.Canon(sid)
		out[c] = hs
		parts = append(parts, Tok(c)+":["+strings.Join(hs, ",")+"]")
	}
	sort.Strings(parts)
	return strings.Join(parts, ";"), out
}

func (im *Impl) Snapshot() View {
	v := View{}
	v.L, v.Listing = im.holdsLine(im.LS.VerifSessionLocks())
	v.Admin = []string{}
	for _, l := range im.LS.Locks() {
		v.Admin = append(v.Admin, fmt.Sprintf("%s/%s/%d", Tok(l.Name()), Tok(im.Canon(l.Key())), l.Size()))
	}
	sort.Strings(v.Admin)
	tparts := []string{}
	v.Table = map[string]TableLock{}
	for _, l := range im.LS.VerifManager().VerifTable() {
		ks := []string{}
		for _, k := range l.Keys {
			ks = append(ks, Tok(im.Canon(k)))
		}
		sort.Strings(ks)
		la := int64(l.LastAccessed.Sub(im.start))
		v.Table[l.Name] = TableLock{Size: l.Size, Keys: ks, La: la}
		tparts = append(tparts, fmt.Sprintf("%s:%d:[%s]:la=%d", Tok(l.Name), l.Size, strings.Join(ks, ","), la))
	}
	sort.Strings(tparts)
	v.T = strings.Join(tparts, ";")
	if im.Cfg.File {
		func() {
			defer func() {
				if r := recover(); r != nil {
					v.FileErr = fmt.Sprint("panic: ", r)
				}
			}()
			st, err := store.New(im.StatePath)
			if err != nil {
				v.FileErr = err.Error()
				return
			}
			defer st.Close()
			m, err := st.Read()
			if err != nil {
				v.FileErr = err.Error()
				return
			}
			v.F, v.File = im.holdsLine(m)
		}()
		if v.FileErr != "" {
			v.F = "unreadable(" + strings.ReplaceAll(v.FileErr, " ", "_") + ")"
		}
	} else {
		v.F = "-"
	}
	tm := []string{}
	for _, k := range im.LS.VerifTimerKeys() {
		tm = append(tm, Tok(im.Canon(k)))
	}
	sort.Strings(tm)
	v.TM = strings.Join(tm, ";")
	ps := []int{}
	for r := range im.pend {
		ps = append(ps, r)
	}
	sort.Ints(ps)
	pp := []string{}
	for _, p := range ps {
		pp = append(pp, strconv.Itoa(p))
	}
	v.P = strings.Join(pp, ",")
	return v
}

// Line renders response + snapshot exactly as the Lean driver does (without the tie flag).
func (im *Impl) Line(r Resp, v View) string {
	b := func(x bool) int {
		if x {
			return 1
		}
		return 0
	}
	key := "-"
	if r.Ok && r.Key != "" {
		key = Tok(r.Key)
	}
	return fmt.Sprintf("r ok=%d key=%s err=%s pending=%d ev=[%s] | L=%s | T=%s | F=%s | TM=%s | P=[%s] | now=%d",
		b(r.Ok), key, r.Err, b(r.Pending), strings.Join(r.Events, ","), v.L, v.T, v.F, v.TM, v.P, im.Now())
}

// StateBytes returns the raw state file (for crash images / C09, C10).
func (im *Impl) StateBytes() []byte {
	if !im.Cfg.File {
		return nil
	}
	b, _ := os.ReadFile(im.StatePath)
	return b
}
