package concsrv

// K21 (C02): the hand-back window of x/sync/semaphore, re-observed on the real lock manager in real
// time. A waiter whose context is cancelled just as Release hands it the unit puts the unit back
// itself ("Acquired the semaphore after we were canceled … put the tokens back"); until it has done so
// the lock is full although no hold is live and none will be. The controlled scheduler cannot place a
// step inside semaphore.Acquire (third-party code, not instrumented), so this part races real
// goroutines: hold; a Lock waits; cancel ‖ Unlock; TryLock right after Unlock has returned.
// Lean witness: Props/C02.handback_window_refutes_strict.

import (
	"context"
	"fmt"
	"runtime"
	"sync"
	"time"

	"github.com/imoore76/ldlm/lock"

	"verif/harness/common"
)

func handBackProbe(res *common.Result, prop string) {
	rounds := 25000
	if common.Thorough() {
		rounds = 400000
	}
	m, closer := lock.NewManager(1, time.Hour, time.Hour)
	defer closer()
	hits, first := 0, ""
	for r := 0; r < rounds; r++ {
		if ok, err := m.TryLock("x", "h", 1); !ok || err != nil {
			res.Note("hand-back probe: set-up TryLock failed in round %d (%v %v); probe abandoned", r, ok, err)
			return
		}
		ctx, cancel := context.WithCancel(context.Background())
		var wg sync.WaitGroup
		var lerr error
		wg.Add(1)
		started := make(chan struct{})
		go func() {
			defer wg.Done()
			close(started)
			lerr = m.Lock("x", "w", 1, ctx)
		}()
		<-started
		for i := 0; i < 20+r%40; i++ { // let the waiter reach the semaphore's queue
			runtime.Gosched()
		}
		go cancel()
		un, _ := m.Unlock("x", "h")
		tl, _ := m.TryLock("x", "t", 1)
		wg.Wait()
		if un && !tl && lerr != nil {
			if hits++; first == "" {
				first = fmt.Sprintf("round %d: Unlock(h) = true had returned; then TryLock = false; the only other call, a blocked Lock whose context was cancelled, returned %q", r, lerr.Error())
			}
		}
		if tl {
			m.Unlock("x", "t")
		}
		if lerr == nil {
			m.Unlock("x", "w")
		}
	}
	res.CountN("handback-probe:rounds", rounds)
	res.CountN("handback-probe:window-observed", hits)
	res.Eval("handback-probe", true)
	if hits > 0 {
		res.Find(common.Finding{Kind: "violation", Property: prop, Signature: "conc:nonlinearizable:handback-window",
			What:   fmt.Sprintf("in %d of %d real-time rounds on lock.Manager (size-1 lock): %s - no sequential execution of a counting lock in which the failed Lock has no effect explains that", hits, rounds, first),
			Replay: map[string]any{"program": "hold h; Lock(ctx) waits; cancel(ctx) || Unlock(h); TryLock; all on lock.Manager in real time", "rounds": rounds, "observed": hits, "first": first,
				"lean_witness": "Ldlm.Props.C02.handback_window_refutes_strict"}})
	}
}
