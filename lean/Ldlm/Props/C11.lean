import Ldlm.Generated.Facts
import Ldlm.Proofs.CoreMain
/-!
C11 — Graceful shutdown terminates, fails waiters, and keeps holds in the state file.

`shutdownSeq` interprets the closer sequence of `cmd/server/main.go` AS EXTRACTED from the source on
every run (`Facts.mainCloserOrder`) over M2: "lockSrv.SetShuttingDown" sets the flag that makes
`DestroySession` return early (pinned: `Pins.C11.pin_DestroySession`), "netCloser" cancels every blocked
call and ends every session, "lockSrvCloser" stops timers and the manager.

* `shutdown_keeps_file`        — with the extracted order the state file after shutdown is the file before.
* `shutdown_waiters_error`     — every blocked Lock call is completed with an error, none with a hold,
                                 and nothing is left blocked (so the manager's exclusive step is enabled:
                                 no hang in the model).
* `shutdown_nothing_blocked`, `shutdown_answers_every_waiter` — no call is left pending, and every call that
                                 was blocked gets its (error) answer.
* `shutdown_then_start_restores` — the next start loads exactly the table that was there.
* `old_order_loses_holds`      — refutation witness for the ORIGINAL order (D11, repaired): network
                                 closer first, flag later, and a live hold vanishes from the file.
Exit status, promptness in real time and signal delivery are observed by the stack stream, not proved.
-/
namespace Ldlm.Props.C11
open Ldlm.Core

variable {M : Type} (o : MapOps M) (c : Cfg)

structure Sh (M : Type) where
  st      : St M
  flag    : Bool
  events  : List Event
  live    : List Sid         -- connected sessions (what the network layer will end)

def closer (x : Sh M) : String → Sh M
  | "lockSrv.SetShuttingDown" => { x with flag := true }
  | "netCloser" =>
    -- grpcServer.Stop(): every call's context is cancelled, then every connection ends
    let (s1, ev) := abandonAll o x.st x.st.pending .canceled
    let s2 := if x.flag then s1 else x.live.foldl (fun s sid => (destroy o c s sid).1) s1
    { x with st := s2, events := x.events ++ ev, live := [] }
  | _ => x      -- lockSrvCloser: stops IPC, timers and the manager; touches neither sessions nor file

def shutdownSeq (order : List String) (s : St M) (live : List Sid) : Sh M :=
  order.foldl (closer o c) { st := s, flag := false, events := [], live := live }

theorem order_pinned : Facts.mainCloserOrder = ["lockSrv.SetShuttingDown", "netCloser", "lockSrvCloser"] := by decide

theorem abandonAll_file : ∀ (ps : List Pending) (s : St M) (ev : List Event) (e : Err),
    (ps.foldl (fun (acc : St M × List Event) p =>
      let (s', ev) := abandon o acc.1 p e
      (s', acc.2 ++ ev)) (s, ev)).1.file = s.file ∧
    (ps.foldl (fun (acc : St M × List Event) p =>
      let (s', ev) := abandon o acc.1 p e
      (s', acc.2 ++ ev)) (s, ev)).1.sessions = s.sessions := by
  intro ps
  induction ps with
  | nil => intro s ev e; exact ⟨rfl, rfl⟩
  | cons p ps ih =>
    intro s ev e
    simp only [List.foldl_cons]
    have := ih (abandon o s p e).1 (ev ++ (abandon o s p e).2) e
    exact ⟨this.1, this.2⟩

/-- **C11, second sentence**: with the closer order the binary actually has, the file is untouched -/
theorem shutdown_keeps_file (s : St M) (live : List Sid) :
    (shutdownSeq o c Facts.mainCloserOrder s live).st.file = s.file ∧
    (shutdownSeq o c Facts.mainCloserOrder s live).st.sessions = s.sessions := by
  rw [order_pinned]
  simp only [shutdownSeq, List.foldl_cons, List.foldl_nil, closer]
  simp only [abandonAll, if_true]
  exact abandonAll_file o _ _ _ _

theorem abandonAll_events : ∀ (ps : List Pending) (s : St M) (ev : List Event) (e : Err),
    (∀ x ∈ ev, ∃ r k, x = .done r false k (some e)) →
    ∀ x ∈ (ps.foldl (fun (acc : St M × List Event) p =>
      let (s', ev) := abandon o acc.1 p e
      (s', acc.2 ++ ev)) (s, ev)).2, ∃ r k, x = .done r false k (some e) := by
  intro ps
  induction ps with
  | nil => intro s ev e h; exact h
  | cons p ps ih =>
    intro s ev e h
    simp only [List.foldl_cons]
    apply ih
    intro x hx
    rcases List.mem_append.mp hx with hx | hx
    · exact h x hx
    · simp [abandon] at hx; exact ⟨p.req, p.key, hx⟩

/-- every completion produced by the shutdown is an error, never a hold -/
theorem shutdown_waiters_error (s : St M) (live : List Sid) :
    ∀ x ∈ (shutdownSeq o c Facts.mainCloserOrder s live).events, ∃ r k, x = .done r false k (some .canceled) := by
  rw [order_pinned]
  simp only [shutdownSeq, List.foldl_cons, List.foldl_nil, closer, List.nil_append]
  simp only [abandonAll]
  exact abandonAll_events o _ _ _ _ (by intro x hx; cases hx)

/-- what `abandonAll` leaves blocked and what it answers -/
theorem abandonAll_pending : ∀ (ps : List Pending) (s : St M) (ev : List Event) (e : Err),
    (ps.foldl (fun (acc : St M × List Event) p =>
      let (s', ev) := abandon o acc.1 p e
      (s', acc.2 ++ ev)) (s, ev)).1.pending = s.pending.filter (fun p' => ps.all (fun p => p'.req ≠ p.req)) ∧
    (∀ p ∈ ps, Event.done p.req false p.key (some e) ∈ (ps.foldl (fun (acc : St M × List Event) p =>
      let (s', ev) := abandon o acc.1 p e
      (s', acc.2 ++ ev)) (s, ev)).2) ∧
    (∀ x ∈ ev, x ∈ (ps.foldl (fun (acc : St M × List Event) p =>
      let (s', ev) := abandon o acc.1 p e
      (s', acc.2 ++ ev)) (s, ev)).2) := by
  intro ps
  induction ps with
  | nil =>
    intro s ev e
    refine ⟨?_, by simp, fun x hx => hx⟩
    symm; apply List.filter_eq_self.mpr; intros; rfl
  | cons p ps ih =>
    intro s ev e
    simp only [List.foldl_cons]
    obtain ⟨h1, h2, h3⟩ := ih (abandon o s p e).1 (ev ++ (abandon o s p e).2) e
    refine ⟨?_, ?_, ?_⟩
    · rw [h1]
      simp only [abandon, List.filter_filter, List.all_cons]
      congr 1
      funext p'
      simp only [Bool.and_comm]
    · intro q hq
      rcases List.mem_cons.mp hq with rfl | hq
      · exact h3 _ (by simp [abandon])
      · exact h2 q hq
    · intro x hx
      exact h3 x (List.mem_append_left _ hx)

/-- **nothing is left blocked**: after the shutdown sequence no Lock call is pending any more, so nothing can
keep the manager's closer (which needs every user of the table gone) waiting -/
theorem shutdown_nothing_blocked (s : St M) (live : List Sid) :
    (shutdownSeq o c Facts.mainCloserOrder s live).st.pending = [] := by
  rw [order_pinned]
  have h : (shutdownSeq o c ["lockSrv.SetShuttingDown", "netCloser", "lockSrvCloser"] s live).st.pending =
      (s.pending.foldl (fun (acc : St M × List Event) p =>
        let (s', ev) := abandon o acc.1 p .canceled
        (s', acc.2 ++ ev)) (s, [])).1.pending := rfl
  rw [h, (abandonAll_pending o s.pending s [] .canceled).1]
  apply List.filter_eq_nil_iff.mpr
  intro p hp h
  have := List.all_eq_true.mp h p hp
  simp at this

/-- … and every call that was blocked when the signal came is answered (with the error of the previous theorem) -/
theorem shutdown_answers_every_waiter (s : St M) (live : List Sid) :
    ∀ p ∈ s.pending, Event.done p.req false p.key (some .canceled) ∈ (shutdownSeq o c Facts.mainCloserOrder s live).events := by
  rw [order_pinned]
  have h : (shutdownSeq o c ["lockSrv.SetShuttingDown", "netCloser", "lockSrvCloser"] s live).events =
      [] ++ (s.pending.foldl (fun (acc : St M × List Event) p =>
        let (s', ev) := abandon o acc.1 p .canceled
        (s', acc.2 ++ ev)) (s, [])).2 := rfl
  rw [h, List.nil_append]
  exact (abandonAll_pending o s.pending s [] .canceled).2.1

/-- the next start reads the table that was live at shutdown -/
theorem shutdown_then_start_restores (s : St M) (live : List Sid) (hf : c.hasFile = true) :
    let sd := (shutdownSeq o c Facts.mainCloserOrder s live).st
    (if c.hasFile then sd.file else []) = s.file := by
  simp only [hf, if_true]
  exact (shutdown_keeps_file o c s live).1

/-! ### D11 (repaired): the original order, network closer before the flag -/

def cfg0 : Cfg := { gcInterval := 0, gcMinIdle := 0, dlt := 600 * sec, noClear := false, hasFile := true,
                    genKey := fun n => 75 :: natDigits n }
def s1 : Str := [115, 49]
def live1 : St (List (Str × LockRec)) := run flatOps cfg0 [.connect s1, .tryLock (some s1) [97] none none]

theorem old_order_loses_holds :
    live1.file = [(s1, [⟨[97], cfg0.genKey 0, 1⟩])] ∧
    (shutdownSeq flatOps cfg0 ["netCloser", "lockSrvCloser"] live1 [s1]).st.file = [] := by decide

/-- and with the repaired order the same state keeps it (non-vacuity of `shutdown_keeps_file`) -/
example : (shutdownSeq flatOps cfg0 ["lockSrv.SetShuttingDown", "netCloser", "lockSrvCloser"] live1 [s1]).st.file
    = [(s1, [⟨[97], cfg0.genKey 0, 1⟩])] := by decide

end Ldlm.Props.C11
