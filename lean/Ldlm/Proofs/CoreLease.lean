import Ldlm.Proofs.CoreMain
/-! Lease timing over M2 (C04): what arms, restarts, removes and fires a lease timer, and what an
`advance` does and does not do to the timers. -/
namespace Ldlm.Core
variable {M : Type} {o : MapOps M} {c : Cfg}

/-! ### timers of the building blocks -/

theorem timers_addBook (s : St M) (sid : Sid) (h : Hold) : (addBook s sid h).timers = s.timers := rfl
theorem timers_removeBook (s : St M) (n k : Str) : (removeBook s n k).timers = s.timers := rfl

/-- `arm` either leaves the timers alone or stores exactly one entry under `tkey n k` -/
theorem get_timers_arm (s : St M) (n k : Str) (sid : Sid) (lt : Option Int) (tk : Str) (hne : tk ≠ tkey n k) :
    AMap.get (arm s n k sid lt).timers tk = AMap.get s.timers tk := by
  unfold arm
  split
  · split
    · simp only; rw [AMap.get_set_ne]; exact fun e => hne e.symm
    · rfl
  · rfl

theorem get_timers_book (s : St M) (sid : Sid) (n k : Str) (sz : Int) (lt : Option Int) (tk : Str)
    (hne : tk ≠ tkey n k) : AMap.get (book s sid n k sz lt).timers tk = AMap.get s.timers tk := by
  unfold book; rw [get_timers_arm _ _ _ _ _ _ hne]; rfl

theorem arm_positive (s : St M) (n k : Str) (sid : Sid) (t : Int) (ht : 0 < t) :
    AMap.get (arm s n k sid (some t)).timers (tkey n k) = some ⟨s.now + t.toNat * sec, n, k, sid⟩ := by
  simp [arm, ht]

/-- timers after `mgrUnlock`: untouched except possibly a new lease for the waiter that got the unit,
whose key was queued (not held) before -/
theorem get_timers_mgrUnlock {s : St M} (h : Inv' o c s) (n k : Str) (tk : Str) (tm : Timer)
    (hg : AMap.get s.timers tk = some tm) :
    AMap.get (mgrUnlock o s n k).1.timers tk = some tm := by
  unfold mgrUnlock
  split
  · exact hg
  · rename_i r0 hg0
    simp only
    split
    · unfold handOver
      split
      · exact hg
      · rename_i p q' hq
        simp only
        rw [get_timers_book]
        · exact hg
        · -- the waiter's key is queued, hence not held, hence owns no timer
          intro e
          obtain ⟨etk, hh⟩ := h.timer tk tm (AMap.get_some_mem _ _ _ hg)
          rw [etk] at e
          obtain ⟨e1, e2⟩ := tkey_injective e
          rcases hh with ⟨r, hgr, hkr⟩ | hx
          · rw [e1, hg0] at hgr; cases hgr
            have hnd := (h.recs n r0 hg0).nodup
            unfold allKeys at hnd
            have hq0 : r0.q = p :: q' := hq
            exact (List.nodup_append.mp hnd).2.2 _ (e2 ▸ hkr) _ (by rw [hq0]; simp) rfl
          · cases hx
    · exact hg

/-- firing lease `tk0` leaves every other lease timer exactly as it was -/
theorem get_timers_fireLease {s : St M} (h : Inv' o c s) (tk0 : Str) (tm0 : Timer) (tk : Str) (tm : Timer)
    (hg : AMap.get s.timers tk = some tm) (hne : tk ≠ tk0) :
    AMap.get (fireLease o s tk0 tm0).1.timers tk = some tm := by
  unfold fireLease
  simp only
  rw [AMap.get_del_ne _ _ _ (fun e => hne e.symm)]
  exact get_timers_mgrUnlock h tm0.name tm0.key tk tm hg

/-! ### minimum search -/

theorem earliestLease_le {s : St M} {e : Str × Timer} (h : earliestLease s = some e) :
    ∀ e' ∈ s.timers, e.2.deadline ≤ e'.2.deadline := by
  unfold earliestLease at h
  have key : ∀ (l : List (Str × Timer)) (acc : Option (Str × Timer)) (e : Str × Timer),
      l.foldl (fun acc e => match acc with
        | none => some e
        | some a => if e.2.deadline < a.2.deadline then some e else some a) acc = some e →
      (∀ e' ∈ l, e.2.deadline ≤ e'.2.deadline) ∧ (∀ a, acc = some a → e.2.deadline ≤ a.2.deadline) := by
    intro l
    induction l with
    | nil => intro acc e h; simp at h; exact ⟨by simp, fun a ha => by rw [h] at ha; cases ha; exact Nat.le_refl _⟩
    | cons x l ih =>
      intro acc e h
      simp only [List.foldl_cons] at h
      obtain ⟨i1, i2⟩ := ih _ _ h
      cases acc with
      | none =>
        have := i2 x rfl
        exact ⟨by intro e' he'; rcases List.mem_cons.mp he' with rfl | he'; exact this; exact i1 e' he',
               by intro a ha; cases ha⟩
      | some a =>
        simp only at i2
        by_cases hlt : x.2.deadline < a.2.deadline
        · simp only [hlt, if_true] at i2
          have := i2 x rfl
          refine ⟨by intro e' he'; rcases List.mem_cons.mp he' with rfl | he'; exact this; exact i1 e' he', ?_⟩
          intro a' ha'; cases ha'; omega
        · simp only [hlt, if_false] at i2
          have := i2 a rfl
          refine ⟨by intro e' he'; rcases List.mem_cons.mp he' with rfl | he'; omega; exact i1 e' he', ?_⟩
          intro a' ha'; cases ha'; exact this
  exact (key _ _ _ h).1

theorem earliestLease_none {s : St M} (h : earliestLease s = none) : s.timers = [] := by
  unfold earliestLease at h
  cases hl : s.timers with
  | nil => rfl
  | cons x l =>
    exfalso
    rw [hl] at h
    simp only [List.foldl_cons] at h
    have : ∀ (l : List (Str × Timer)) (a : Str × Timer),
        l.foldl (fun acc e => match acc with
          | none => some e
          | some a => if e.2.deadline < a.2.deadline then some e else some a) (some a) ≠ none := by
      intro l
      induction l with
      | nil => intro a; simp
      | cons y l ih =>
        intro a
        simp only [List.foldl_cons]
        split <;> exact ih _
    exact this l x h

theorem minOpt_le_left {a b : Option Nat} {t x : Nat} (h : minOpt a b = some t) (ha : a = some x) : t ≤ x := by
  subst ha
  cases b with
  | none => simp [minOpt] at h; omega
  | some y => simp [minOpt] at h; omega

theorem minOpt3_le {b g : Option Nat} {d t : Nat} (h : minOpt (minOpt (some d) b) g = some t) : t ≤ d := by
  cases b <;> cases g <;> simp [minOpt] at h <;> omega

theorem minOpt_none_left {a b : Option Nat} (h : minOpt a b = none) : a = none := by
  cases a with
  | none => rfl
  | some x => cases b <;> simp [minOpt] at h

end Ldlm.Core

namespace Ldlm.Core
variable {M : Type} {o : MapOps M} {c : Cfg}

/-! ### what `advance` does to the timers -/

/-- **no early release**: a lease whose deadline lies beyond the target survives the advance untouched -/
theorem advanceTo_keeps_later (ho : o.Lawful) (hinj : KeysInjective c) (target : Nat) (tk : Str) (tm : Timer)
    (hd : target < tm.deadline) : ∀ (fuel : Nat) {s : St M}, Inv' o c s →
    AMap.get s.timers tk = some tm → AMap.get (advanceTo o c target fuel s).1.timers tk = some tm := by
  intro fuel
  induction fuel with
  | zero => intro s _ hg; exact hg
  | succ f ih =>
    intro s h hg
    unfold advanceTo
    simp only
    split
    · exact hg
    · split
      · exact hg
      · rename_i t hmin hle
        have hle' : t ≤ target := by omega
        have h0 : Inv' o c { s with now := max s.now t } := (inv_blocks ho hinj).tick s t h
        have hg0 : AMap.get ({ s with now := max s.now t } : St M).timers tk = some tm := hg
        split
        · -- a lease fires
          rename_i htl
          split
          · rename_i tk0 tm0 he
            have hm0 := earliestLease_mem he
            have hne : tk ≠ tk0 := by
              intro e
              subst e
              have := AMap.uniq_get_of_mem _ _ _ h0.tu hm0
              rw [hg0] at this
              cases this
              -- the firing lease is the earliest, and its deadline is t ≤ target < tm.deadline
              have hmap : (earliestLease ({ s with now := max s.now t } : St M)).map (·.2.deadline) = some tm.deadline := by
                rw [he]; rfl
              have : (earliestLease s).map (·.2.deadline) = some t := by simpa using htl
              have he' : earliestLease ({ s with now := max s.now t } : St M) = earliestLease s := rfl
              rw [he'] at hmap
              rw [this] at hmap
              cases hmap
              omega
            exact ih (block_fire ho _ tk0 tm0 hm0 h0) (get_timers_fireLease h0 tk0 tm0 tk tm hg0 hne)
          · exact ih h0 hg0
        · split
          · split
            · exact ih ((inv_blocks ho hinj).abandon _ _ _ h0) hg0
            · exact ih h0 hg0
          · exact ih ((inv_blocks ho hinj).gc { s with now := max s.now t } c.gcMinIdle (t + c.gcInterval) h0) hg0

/-- **prompt expiry**: unless the advance ran out of fuel (reported), no lease with a deadline at or
before the target is left -/
theorem advanceTo_prompt (target : Nat) : ∀ (fuel : Nat) (s : St M),
    (advanceTo o c target fuel s).2.2.2 = false →
    ∀ e ∈ (advanceTo o c target fuel s).1.timers, target < e.2.deadline := by
  intro fuel
  induction fuel with
  | zero => intro s h; simp [advanceTo] at h
  | succ f ih =>
    intro s h
    unfold advanceTo at h ⊢
    simp only at h ⊢
    split
    · -- nothing pending at all
      rename_i hmin
      have h1 := minOpt_none_left (minOpt_none_left hmin)
      have : earliestLease s = none := by
        cases he : earliestLease s with
        | none => rfl
        | some e => simp [he] at h1
      intro e he
      have := earliestLease_none this
      simp only at he
      rw [this] at he; cases he
    · rename_i t hmin
      split
      · rename_i hgt
        intro e he
        simp only at he
        cases hel : earliestLease s with
        | none => rw [earliestLease_none hel] at he; cases he
        | some e0 =>
          have hle := earliestLease_le hel e he
          have : t ≤ e0.2.deadline := by
            rw [hel] at hmin
            exact minOpt3_le hmin
          omega
      · rename_i hle
        rw [hmin] at h
        simp only [hle, if_false] at h
        exact ih _ (by simpa using h)

/-- the step-level corollaries -/
theorem advance_not_early (ho : o.Lawful) (hinj : KeysInjective c) {s : St M} (h : Inv' o c s) (dt : Nat)
    (tk : Str) (tm : Timer) (hg : AMap.get s.timers tk = some tm) (hd : s.now + dt < tm.deadline) :
    AMap.get (step o c s (.advance dt)).1.timers tk = some tm := by
  simp only [step]
  exact advanceTo_keeps_later ho hinj _ tk tm hd _ h hg

theorem advance_prompt (s : St M) (dt : Nat) (hnt : (step o c s (.advance dt)).2.tie = false) :
    ∀ e ∈ (step o c s (.advance dt)).1.timers, s.now + dt < e.2.deadline := by
  simp only [step] at hnt ⊢
  apply advanceTo_prompt
  cases hx : (advanceTo o c (s.now + dt) (4 * (s.timers.length + s.pending.length) + 100000) s).2.2.2 with
  | false => rfl
  | true => simp [hx] at hnt

end Ldlm.Core
