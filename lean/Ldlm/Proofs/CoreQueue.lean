import Ldlm.Proofs.CorePU
import Ldlm.Proofs.CoreLock
/-! Queue discipline of M2 (C03): every call queued on a lock is one of the blocked calls, under the name of
that lock, and queued once. With `PU` (blocked calls carry distinct request numbers) it follows that a call
that has left the blocked set - it gave up: wait time-out, cancel, disconnect, restart - is in no queue, so
no later release can hand it a unit: **a waiter that gives up is never granted the lock afterwards**, for
every continuation of the history. -/
namespace Ldlm.Core
open Ldlm.AMap
variable {M : Type} (o : MapOps M) (c : Cfg)

def QP (s : St M) : Prop :=
  ∀ n r, o.get s.locks n = some r → r.q.Nodup ∧ ∀ p ∈ r.q, p ∈ s.pending ∧ p.name = n

variable {o} {c}

theorem QP.same {s s' : St M} (h : QP o s) (hl : s'.locks = s.locks) (hp : s'.pending = s.pending) : QP o s' := by
  intro n r hg; rw [hl] at hg; rw [hp]; exact h n r hg

/-- one record replaced; the blocked set may have changed -/
theorem QP.set (ho : o.Lawful) {s s' : St M} (h : QP o s) {n : Str} {r' : LockRec}
    (hl : s'.locks = o.set s.locks n r')
    (hr : r'.q.Nodup ∧ ∀ p ∈ r'.q, p ∈ s'.pending ∧ p.name = n)
    (hoth : ∀ n' r, n' ≠ n → o.get s.locks n' = some r → ∀ p ∈ r.q, p ∈ s'.pending) : QP o s' := by
  intro n' r hg
  rw [hl, ho.get_set] at hg
  by_cases e : n = n'
  · simp only [e, if_true] at hg
    cases hg
    rw [← e]; exact hr
  · simp only [e, if_false] at hg
    have hn : n' ≠ n := fun x => e x.symm
    exact ⟨(h n' r hg).1, fun p hp => ⟨hoth n' r hn hg p hp, ((h n' r hg).2 p hp).2⟩⟩

/-- members of the OTHER queues survive the removal of a blocked call of name `n` -/
theorem others_survive {s : St M} (hu : PU s) (h : QP o s) {n : Str} {p0 : Pending} (hp0 : p0 ∈ s.pending) (hn0 : p0.name = n) :
    ∀ n' r, n' ≠ n → o.get s.locks n' = some r → ∀ p ∈ r.q, p ∈ s.pending.filter (fun p' => p'.req ≠ p0.req) := by
  intro n' r hne hg p hp
  obtain ⟨hm, hnm⟩ := (h n' r hg).2 p hp
  apply List.mem_filter.mpr
  refine ⟨hm, ?_⟩
  simp only [ne_eq, decide_eq_true_eq]
  intro e
  have := hu.unique p0 p hp0 hm e
  rw [this] at hnm
  exact hne (hnm.symm.trans hn0 |>.symm ▸ rfl)

/-! ### release: `handOver`, `mgrUnlock` -/

theorem handOver_q (ho : o.Lawful) {s : St M} (hu : PU s) (h : QP o s) {n : Str} {r r0 : LockRec}
    (hg : o.get s.locks n = some r0) (hq : r.q = r0.q) : QP o (handOver o s n r).1 := by
  obtain ⟨hnd, hmem⟩ := h n r0 hg
  unfold handOver
  split
  · rename_i hnil
    refine QP.set ho h (n := n) (r' := r) rfl ⟨by rw [hnil]; exact List.nodup_nil, by rw [hnil]; intro p hp; cases hp⟩ ?_
    intro n' r1 _ hg1 p hp; exact ((h n' r1 hg1).2 p hp).1
  · rename_i p q' hpq
    have hpq0 : r0.q = p :: q' := by rw [← hq]; exact hpq
    rw [hpq0] at hnd hmem
    obtain ⟨hp0, hn0⟩ := hmem p (by simp)
    have hnd' := List.nodup_cons.mp hnd
    refine QP.set ho h (n := n) (r' := { r with q := q', keys := r.keys ++ [p.key] }) (by simp) ⟨hnd'.2, ?_⟩ ?_
    · intro x hx
      obtain ⟨hxm, hxn⟩ := hmem x (List.mem_cons_of_mem _ hx)
      refine ⟨?_, hxn⟩
      rw [pending_book]
      apply List.mem_filter.mpr
      refine ⟨hxm, ?_⟩
      simp only [ne_eq, decide_eq_true_eq]
      intro e
      have := hu.unique p x hp0 hxm e
      rw [this] at hx
      exact hnd'.1 hx
    · intro n' r1 hne hg1 x hx
      rw [pending_book]
      exact others_survive hu h hp0 hn0 n' r1 hne hg1 x hx

/-- … and whoever it grants was blocked -/
theorem handOver_events_pending {s : St M} (h : QP o s) {n : Str} {r r0 : LockRec}
    (hg : o.get s.locks n = some r0) (hq : r.q = r0.q) :
    ∀ ev ∈ (handOver o s n r).2, ∃ p ∈ s.pending, ev = .done p.req true p.key none := by
  unfold handOver
  split
  · intro ev hev; cases hev
  · rename_i p q' hpq
    intro ev hev
    simp only [List.mem_singleton] at hev
    have : p ∈ r0.q := by rw [← hq, hpq]; simp
    exact ⟨p, ((h n r0 hg).2 p this).1, hev⟩

theorem mgrUnlock_q (ho : o.Lawful) {s : St M} (hu : PU s) (h : QP o s) (n k : Str) : QP o (mgrUnlock o s n k).1 := by
  unfold mgrUnlock
  split
  · exact h
  · rename_i r hg
    simp only
    split
    · exact handOver_q ho hu h hg rfl
    · refine QP.set ho h (n := n) (r' := { r with lastAccessed := s.now }) rfl (h n r hg) ?_
      intro n' r1 _ hg1 p hp; exact ((h n' r1 hg1).2 p hp).1

theorem mgrUnlock_events_pending {s : St M} (h : QP o s) (n k : Str) :
    ∀ ev ∈ (mgrUnlock o s n k).2.2.2, ∃ p ∈ s.pending, ev = .done p.req true p.key none := by
  unfold mgrUnlock
  split
  · intro ev hev; cases hev
  · rename_i r hg
    simp only
    split
    · exact handOver_events_pending h hg rfl
    · intro ev hev; cases hev

/-! ### requests -/

theorem getLockCreate_q {s : St M} (h : QP o s) {n : Str} {sz : Int} {r : LockRec}
    (hg : getLockCreate o s n sz = .ok r) : r.q.Nodup ∧ ∀ p ∈ r.q, p ∈ s.pending ∧ p.name = n := by
  unfold getLockCreate at hg
  split at hg
  · cases hg
  · split at hg
    · rename_i r0 hr0
      split at hg
      · cases hg
      · cases hg; exact h n r0 hr0
    · cases hg
      exact ⟨List.nodup_nil, by intro p hp; cases hp⟩

theorem keep_others {s : St M} (h : QP o s) (n : Str) :
    ∀ n' r, n' ≠ n → o.get s.locks n' = some r → ∀ p ∈ r.q, p ∈ s.pending :=
  fun n' r _ hg p hp => ((h n' r hg).2 p hp).1

theorem srvTryLock_q (ho : o.Lawful) {s : St M} (h : QP o s) (sid : Option Sid) (n : Str) (sz lt : Option Int) :
    QP o (srvTryLock o c s sid n sz lt).1 := by
  unfold srvTryLock
  simp only
  split
  · exact h.same rfl rfl
  · split
    · exact h.same rfl rfl
    · split
      · exact h.same rfl rfl
      · split
        · exact h.same rfl rfl
        · rename_i r hg
          have hr := getLockCreate_q (s := { s with nreq := s.nreq + 1 }) (h.same rfl rfl) hg
          split
          · refine QP.set ho h (n := n) (r' := { r with keys := r.keys ++ [c.genKey s.nreq] }) (by simp) ?_ ?_
            · rw [pending_book]; exact hr
            · rw [pending_book]; exact keep_others h n
          · exact QP.set ho h (n := n) (r' := r) rfl hr (keep_others h n)

theorem srvLock_q (ho : o.Lawful) {s : St M} (hu : PU s) (h : QP o s) (sid : Option Sid) (n : Str) (sz lt wt : Option Int) :
    QP o (srvLock o c s sid n sz lt wt).1 := by
  unfold srvLock
  simp only
  split
  · exact h.same rfl rfl
  · split
    · exact h.same rfl rfl
    · split
      · exact h.same rfl rfl
      · split
        · exact h.same rfl rfl
        · split
          · exact h.same rfl rfl
          · rename_i r hg
            have hr := getLockCreate_q (s := { s with nreq := s.nreq + 1 }) (h.same rfl rfl) hg
            split
            · refine QP.set ho h (n := n) (r' := { r with keys := r.keys ++ [c.genKey s.nreq] }) (by simp) ?_ ?_
              · rw [pending_book]; exact hr
              · rw [pending_book]; exact keep_others h n
            · -- the call joins the queue of `n` and the blocked set, under the old counter value
              refine QP.set ho h (n := n) rfl ⟨?_, ?_⟩ ?_
              · simp only
                refine List.nodup_append.mpr ⟨hr.1, by simp, ?_⟩
                intro a ha b hb
                simp only [List.mem_singleton] at hb
                intro e
                have hlt := hu.2 a (hr.2 a ha).1
                rw [e, hb] at hlt
                simp at hlt
              · intro p hp
                simp only at hp ⊢
                rcases List.mem_append.mp hp with hp | hp
                · exact ⟨List.mem_append_left _ (hr.2 p hp).1, (hr.2 p hp).2⟩
                · simp only [List.mem_singleton] at hp
                  subst hp
                  exact ⟨by simp, rfl⟩
              · intro n' r1 hne hg1 p hp
                exact List.mem_append_left _ (keep_others h n n' r1 hne hg1 p hp)

theorem srvUnlock_q (ho : o.Lawful) {s : St M} (hu : PU s) (h : QP o s) (n k : Str) : QP o (srvUnlock o s n k).1 := by
  unfold srvUnlock
  simp only
  have h1 := mgrUnlock_q ho (s := { s with timers := del s.timers (tkey n k) }) (hu.shrink (Shr.same rfl rfl)) (h.same rfl rfl) n k
  split
  · exact h1.same rfl rfl
  · exact h1

/-! ### giving up -/

/-- the call is blocked, or nothing with its request number is (it has been answered already) -/
def Okp (p : Pending) (s : St M) : Prop := p ∈ s.pending ∨ ∀ x ∈ s.pending, x.req ≠ p.req

theorem abandon_q (ho : o.Lawful) {s : St M} (hu : PU s) (h : QP o s) (p : Pending) (e : Err) (hp : Okp p s) :
    QP o (abandon o s p e).1 := by
  -- a queued call with p's request number is p itself, queued under p's name
  have key : ∀ n r, o.get s.locks n = some r → ∀ x ∈ r.q, x.req = p.req → n = p.name := by
    intro n r hg x hx e1
    obtain ⟨hxm, hxn⟩ := (h n r hg).2 x hx
    rcases hp with hp | hp
    · have := hu.unique p x hp hxm e1
      rw [this] at hxn; exact hxn.symm
    · exact absurd e1 (hp x hxm)
  unfold abandon
  simp only
  split
  · rename_i r hg
    refine QP.set ho h (n := p.name) (r' := { r with q := r.q.filter (fun p' => p'.req ≠ p.req) }) rfl ⟨?_, ?_⟩ ?_
    · exact (h p.name r hg).1.sublist List.filter_sublist
    · intro x hx
      obtain ⟨hx1, hx2⟩ := List.mem_filter.mp hx
      obtain ⟨hxm, hxn⟩ := (h p.name r hg).2 x hx1
      exact ⟨List.mem_filter.mpr ⟨hxm, hx2⟩, hxn⟩
    · intro n' r1 hne hg1 x hx
      apply List.mem_filter.mpr
      refine ⟨((h n' r1 hg1).2 x hx).1, ?_⟩
      simp only [ne_eq, decide_eq_true_eq]
      intro e1
      exact hne (key n' r1 hg1 x hx e1)
  · rename_i hnone
    intro n r hg
    have hg' : o.get s.locks n = some r := hg
    refine ⟨(h n r hg').1, fun x hx => ⟨?_, ((h n r hg').2 x hx).2⟩⟩
    apply List.mem_filter.mpr
    refine ⟨((h n r hg').2 x hx).1, ?_⟩
    simp only [ne_eq, decide_eq_true_eq]
    intro e1
    have := key n r hg' x hx e1
    rw [this] at hg'
    rw [hnone] at hg'
    cases hg'

theorem okp_abandon {s : St M} (p p0 : Pending) (e : Err) (h : Okp p s) : Okp p (abandon o s p0 e).1 := by
  unfold abandon Okp
  simp only
  rcases h with h | h
  · by_cases e1 : p.req = p0.req
    · right; intro x hx
      have := (List.mem_filter.mp hx).2
      simp only [ne_eq, decide_eq_true_eq] at this
      rw [e1]; exact this
    · left; exact List.mem_filter.mpr ⟨h, by simp [e1]⟩
  · right; intro x hx; exact h x (List.mem_filter.mp hx).1

theorem pu_abandon {s : St M} (hu : PU s) (p : Pending) (e : Err) : PU (abandon o s p e).1 :=
  hu.shrink ⟨by unfold abandon; exact List.filter_sublist, Nat.le_refl _⟩

theorem abandonAll_q (ho : o.Lawful) (ps : List Pending) (e : Err) : ∀ {s : St M} (ev : List Event),
    PU s → QP o s → (∀ p ∈ ps, Okp p s) →
    QP o (ps.foldl (fun (acc : St M × List Event) p =>
      let (s', ev) := abandon o acc.1 p e
      (s', acc.2 ++ ev)) (s, ev)).1 := by
  induction ps with
  | nil => intro s ev _ h _; exact h
  | cons p ps ih =>
    intro s ev hu h hok
    simp only [List.foldl_cons]
    refine ih _ (pu_abandon hu p e) (abandon_q ho hu h p e (hok p (by simp))) ?_
    intro x hx
    exact okp_abandon x p e (hok x (List.mem_cons_of_mem _ hx))

theorem pu_abandonAll (ps : List Pending) (e : Err) : ∀ {s : St M} (ev : List Event), PU s →
    PU (ps.foldl (fun (acc : St M × List Event) p =>
      let (s', ev) := abandon o acc.1 p e
      (s', acc.2 ++ ev)) (s, ev)).1 := by
  induction ps with
  | nil => intro s ev h; exact h
  | cons p ps ih => intro s ev h; simp only [List.foldl_cons]; exact ih _ (pu_abandon h p e)

/-! ### expiry, session end, collection, time -/

theorem fireLease_q (ho : o.Lawful) {s : St M} (hu : PU s) (h : QP o s) (tk : Str) (tm : Timer) :
    QP o (fireLease o s tk tm).1 := by
  unfold fireLease
  simp only
  exact (mgrUnlock_q ho hu h tm.name tm.key).same rfl rfl

theorem clearHolds_pq (ho : o.Lawful) (hs : List Hold) : ∀ {s : St M} (ev : List Event), PU s → QP o s →
    PU (hs.foldl (fun (acc : St M × List Event) h =>
      let (s', ok, _, ev) := mgrUnlock o acc.1 h.name h.key
      let s' := if ok then { s' with timers := del s'.timers (tkey h.name h.key) } else s'
      (s', acc.2 ++ ev)) (s, ev)).1 ∧
    QP o (hs.foldl (fun (acc : St M × List Event) h =>
      let (s', ok, _, ev) := mgrUnlock o acc.1 h.name h.key
      let s' := if ok then { s' with timers := del s'.timers (tkey h.name h.key) } else s'
      (s', acc.2 ++ ev)) (s, ev)).1 := by
  induction hs with
  | nil => intro s ev hu h; exact ⟨hu, h⟩
  | cons x hs ih =>
    intro s ev hu h
    simp only [List.foldl_cons]
    have hu1 := hu.shrink (shr_mgrUnlock (o := o) s x.name x.key)
    have h1 := mgrUnlock_q ho hu h x.name x.key
    apply ih
    · split
      · exact hu1.shrink (Shr.same rfl rfl)
      · exact hu1
    · split
      · exact h1.same rfl rfl
      · exact h1

theorem destroy_pq (ho : o.Lawful) {s : St M} (hu : PU s) (h : QP o s) (sid : Sid) :
    PU (destroy o c s sid).1 ∧ QP o (destroy o c s sid).1 := by
  unfold destroy
  split
  · exact ⟨hu, h⟩
  · simp only
    split
    · exact ⟨hu.shrink (Shr.same rfl rfl), h.same rfl rfl⟩
    · exact clearHolds_pq ho _ [] (hu.shrink (Shr.same rfl rfl)) (h.same rfl rfl)

theorem gcPass_q (ho : o.Lawful) {s : St M} (h : QP o s) (mi : Nat) : QP o (gcPass o s mi) := by
  intro n r hg
  simp only [gcPass, ho.get_filter] at hg
  cases hx : o.get s.locks n with
  | none => simp [hx] at hg
  | some r0 =>
    simp only [hx, Option.filter] at hg
    split at hg
    · have e := Option.some.inj hg; rw [← e]; exact h n r0 hx
    · cases hg

theorem advanceTo_pq (ho : o.Lawful) (target : Nat) : ∀ (fuel : Nat) {s : St M}, PU s → QP o s →
    PU (advanceTo o c target fuel s).1 ∧ QP o (advanceTo o c target fuel s).1 := by
  intro fuel
  induction fuel with
  | zero => intro s hu h; exact ⟨hu.shrink (Shr.same rfl rfl), h.same rfl rfl⟩
  | succ f ih =>
    intro s hu h
    unfold advanceTo
    simp only
    split
    · exact ⟨hu.shrink (Shr.same rfl rfl), h.same rfl rfl⟩
    · split
      · exact ⟨hu.shrink (Shr.same rfl rfl), h.same rfl rfl⟩
      · rename_i t _ _
        have hu0 : PU ({ s with now := max s.now t } : St M) := hu.shrink (Shr.same rfl rfl)
        have h0 : QP o ({ s with now := max s.now t } : St M) := h.same rfl rfl
        split
        · split
          · rename_i tk tm _
            exact ih (hu0.shrink (Shr.trans (shr_mgrUnlock (o := o) _ tm.name tm.key) (Shr.same rfl rfl))) (fireLease_q ho hu0 h0 tk tm)
          · exact ih hu0 h0
        · split
          · split
            · rename_i p d he
              have hm : p ∈ s.pending := (earliestWait_mem (s := { s with now := max s.now t }) (e := (p, d)) he).1
              exact ih (pu_abandon hu0 p .waitTimeout) (abandon_q ho hu0 h0 p .waitTimeout (Or.inl hm))
            · exact ih hu0 h0
          · exact ih (hu0.shrink (Shr.same rfl rfl)) ((gcPass_q ho h0 c.gcMinIdle).same rfl rfl)

/-! ### restart -/

theorem restoreOne_q (ho : o.Lawful) {s : St M} (h : QP o s) (sid : Sid) (x : Hold) : QP o (restoreOne o c s sid x) := by
  unfold restoreOne
  simp only
  split
  · exact h.same (by simp) rfl
  · rename_i r hg
    have hr := getLockCreate_q h hg
    split
    · exact QP.set ho h (n := x.name) (r' := { r with keys := r.keys ++ [x.key] }) rfl hr (keep_others h x.name)
    · exact QP.set ho (s := removeBook s x.name x.key) (h.same (by simp) rfl) (n := x.name) (r' := r) rfl hr
        (keep_others (h.same (by simp) rfl) x.name)

theorem restart_pq (ho : o.Lawful) (s : St M) : PU (restart o c s).1 ∧ QP o (restart o c s).1 := by
  refine ⟨pu_restart s, ?_⟩
  unfold restart
  simp only
  apply restoreAll_induct (o := o) (c := c) (QP o)
  · intro t sid x ht; exact restoreOne_q ho ht sid x
  · intro n r hg
    simp only [ho.get_empty] at hg
    cases hg

theorem init_pq (ho : o.Lawful) : PU (init o c) ∧ QP o (init o c) := by
  refine ⟨⟨by simp [init], by intro p hp; simp [init] at hp⟩, ?_⟩
  intro n r hg
  simp only [init, ho.get_empty] at hg
  cases hg

/-! ### every operation -/

theorem step_pq (ho : o.Lawful) {s : St M} (hu : PU s) (h : QP o s) (op : Op) :
    PU (step o c s op).1 ∧ QP o (step o c s op).1 := by
  refine ⟨pu_blocks.step (fun s _ => pu_restart s) hu op, ?_⟩
  cases op with
  | connect sid =>
    simp only [step]
    split <;> exact h.same rfl rfl
  | disconnect sid =>
    simp only [step]
    have hok : ∀ p ∈ s.pending.filter (fun p => p.sid = sid), Okp p s := fun p hp => Or.inl (List.mem_filter.mp hp).1
    exact (destroy_pq ho (pu_abandonAll _ _ [] hu) (abandonAll_q ho _ _ [] hu h hok) sid).2
  | tryLock sid n sz lt => exact srvTryLock_q ho h sid n sz lt
  | lock sid n sz lt wt => exact srvLock_q ho hu h sid n sz lt wt
  | unlock sid n k => exact srvUnlock_q ho hu h n k
  | renew n k t =>
    simp only [step, srvRenew]
    split
    · exact h
    · split <;> exact h.same rfl rfl
  | advance dt => simp only [step]; exact (advanceTo_pq ho _ _ hu h).2
  | gc mi => exact gcPass_q ho h mi
  | restart => simp only [step]; exact (restart_pq ho s).2
  | ipcUnlock n k ch =>
    simp only [step]
    split
    · exact h
    · exact srvUnlock_q ho hu h n _
  | cancel req =>
    simp only [step]
    split
    · exact h
    · rename_i p hf
      exact abandon_q ho hu h p .canceled (Or.inl (List.mem_of_find?_eq_some hf))

/-- the queue discipline holds in every reachable state (any history, restarts included) -/
theorem run_pq (ho : o.Lawful) (ops : List Op) : PU (run o c ops) ∧ QP o (run o c ops) := by
  unfold run
  have : ∀ (s : St M), PU s ∧ QP o s → PU (ops.foldl (fun s op => (step o c s op).1) s) ∧ QP o (ops.foldl (fun s op => (step o c s op).1) s) := by
    induction ops with
    | nil => intro s h; exact h
    | cons op ops ih => intro s h; exact ih _ (step_pq ho h.1 h.2 op)
  exact this _ (init_pq ho)

/-! ### who can be granted: only blocked calls -/

/-- a completion event is the grant of, or an error answer to, a call blocked in `s` -/
def EvOk (s : St M) (ev : Event) : Prop :=
  (∃ p ∈ s.pending, ev = .done p.req true p.key none) ∨ (∃ p ∈ s.pending, ∃ e, ev = .done p.req false p.key (some e))

theorem EvOk.mono {s s' : St M} {ev : Event} (h : EvOk s' ev) (hsub : ∀ p ∈ s'.pending, p ∈ s.pending) : EvOk s ev := by
  rcases h with ⟨p, hp, e⟩ | ⟨p, hp, e⟩
  · exact Or.inl ⟨p, hsub p hp, e⟩
  · exact Or.inr ⟨p, hsub p hp, e⟩

theorem evok_mgrUnlock {s : St M} (h : QP o s) (n k : Str) : ∀ ev ∈ (mgrUnlock o s n k).2.2.2, EvOk s ev :=
  fun ev hev => Or.inl (mgrUnlock_events_pending h n k ev hev)

theorem evok_abandonAll (ps : List Pending) (e : Err) : ∀ (s : St M) (ev0 : List Event) (s0 : St M),
    (∀ p ∈ ps, p ∈ s0.pending) → (∀ ev ∈ ev0, EvOk s0 ev) →
    ∀ ev ∈ (ps.foldl (fun (acc : St M × List Event) p =>
      let (s', ev) := abandon o acc.1 p e
      (s', acc.2 ++ ev)) (s, ev0)).2, EvOk s0 ev := by
  induction ps with
  | nil => intro s ev0 s0 _ h; exact h
  | cons p ps ih =>
    intro s ev0 s0 hps h
    simp only [List.foldl_cons]
    apply ih _ _ _ (fun x hx => hps x (List.mem_cons_of_mem _ hx))
    intro ev hev
    rcases List.mem_append.mp hev with hev | hev
    · exact h ev hev
    · right
      simp only [abandon, List.mem_singleton] at hev
      exact ⟨p, hps p (by simp), _, hev⟩

theorem abandonAll_pending_sub (ps : List Pending) (e : Err) : ∀ (s : St M) (ev0 : List Event),
    ∀ p ∈ (ps.foldl (fun (acc : St M × List Event) p =>
      let (s', ev) := abandon o acc.1 p e
      (s', acc.2 ++ ev)) (s, ev0)).1.pending, p ∈ s.pending := by
  induction ps with
  | nil => intro s ev0 p hp; exact hp
  | cons x ps ih =>
    intro s ev0 p hp
    simp only [List.foldl_cons] at hp
    exact pending_abandon s x e p (ih _ _ p hp)

theorem evok_clearHolds (ho : o.Lawful) (hs : List Hold) : ∀ (s : St M) (ev0 : List Event) (s0 : St M),
    PU s → QP o s → (∀ p ∈ s.pending, p ∈ s0.pending) → (∀ ev ∈ ev0, EvOk s0 ev) →
    ∀ ev ∈ (hs.foldl (fun (acc : St M × List Event) h =>
      let (s', ok, _, ev) := mgrUnlock o acc.1 h.name h.key
      let s' := if ok then { s' with timers := del s'.timers (tkey h.name h.key) } else s'
      (s', acc.2 ++ ev)) (s, ev0)).2, EvOk s0 ev := by
  induction hs with
  | nil => intro s ev0 s0 _ _ _ h; exact h
  | cons x hs ih =>
    intro s ev0 s0 hu h hsub hev0
    simp only [List.foldl_cons]
    have hu1 := hu.shrink (shr_mgrUnlock (o := o) s x.name x.key)
    have h1 := mgrUnlock_q ho hu h x.name x.key
    have hsub1 : ∀ p ∈ (mgrUnlock o s x.name x.key).1.pending, p ∈ s0.pending :=
      fun p hp => hsub p (pending_mgrUnlock s x.name x.key p hp)
    have hev1 : ∀ ev ∈ ev0 ++ (mgrUnlock o s x.name x.key).2.2.2, EvOk s0 ev := by
      intro ev hev
      rcases List.mem_append.mp hev with hev | hev
      · exact hev0 ev hev
      · exact (evok_mgrUnlock h x.name x.key ev hev).mono hsub
    split
    · exact ih _ _ s0 (hu1.shrink (Shr.same rfl rfl)) (h1.same rfl rfl) hsub1 hev1
    · exact ih _ _ s0 hu1 h1 hsub1 hev1

theorem pu_fireLease {s : St M} (hu : PU s) (tk : Str) (tm : Timer) : PU (fireLease o s tk tm).1 := by
  unfold fireLease
  simp only
  exact (hu.shrink (shr_mgrUnlock (o := o) s tm.name tm.key)).shrink (Shr.same rfl rfl)

theorem evok_destroy (ho : o.Lawful) {s : St M} (hu : PU s) (h : QP o s) (sid : Sid) :
    ∀ ev ∈ (destroy o c s sid).2, EvOk s ev := by
  unfold destroy
  split
  · intro ev hev; cases hev
  · simp only
    split
    · intro ev hev; cases hev
    · exact evok_clearHolds ho _ _ [] s (hu.shrink (Shr.same rfl rfl)) (h.same rfl rfl) (fun p hp => hp) (by intro ev hev; cases hev)

theorem evok_advanceTo (ho : o.Lawful) (target : Nat) : ∀ (fuel : Nat) (s : St M), PU s → QP o s →
    ∀ ev ∈ (advanceTo o c target fuel s).2.1, EvOk s ev := by
  intro fuel
  induction fuel with
  | zero => intro s _ _ ev hev; simp [advanceTo] at hev
  | succ f ih =>
    intro s hu h ev hev
    unfold advanceTo at hev
    simp only at hev
    split at hev
    · cases hev
    · split at hev
      · cases hev
      · rename_i t _ _
        have hu0 : PU ({ s with now := max s.now t } : St M) := hu.shrink (Shr.same rfl rfl)
        have h0 : QP o ({ s with now := max s.now t } : St M) := h.same rfl rfl
        simp only at hev
        split at hev
        · split at hev
          · rename_i tk tm _
            rcases List.mem_append.mp hev with h1 | h2
            · have : ev ∈ (mgrUnlock o ({ s with now := max s.now t } : St M) tm.name tm.key).2.2.2 := by
                unfold fireLease at h1; exact h1
              exact (evok_mgrUnlock h0 tm.name tm.key ev this).mono (fun p hp => hp)
            · have hu1 : PU (fireLease o ({ s with now := max s.now t } : St M) tk tm).1 := pu_fireLease hu0 tk tm
              have := ih _ hu1 (fireLease_q ho hu0 h0 tk tm) ev h2
              exact this.mono (fun p hp => pending_fireLease (o := o) ({ s with now := max s.now t } : St M) tk tm p hp)
          · rcases List.mem_append.mp hev with h1 | h2
            · cases h1
            · exact (ih _ hu0 h0 ev h2).mono (fun p hp => hp)
        · split at hev
          · split at hev
            · rename_i p d he
              have hm : p ∈ s.pending := (earliestWait_mem (s := { s with now := max s.now t }) (e := (p, d)) he).1
              rcases List.mem_append.mp hev with h1 | h2
              · right
                simp only [abandon, List.mem_singleton] at h1
                exact ⟨p, hm, _, h1⟩
              · have := ih _ (pu_abandon hu0 p .waitTimeout) (abandon_q ho hu0 h0 p .waitTimeout (Or.inl hm)) ev h2
                exact this.mono (fun x hx => pending_abandon (o := o) ({ s with now := max s.now t } : St M) p _ x hx)
            · rcases List.mem_append.mp hev with h1 | h2
              · cases h1
              · exact (ih _ hu0 h0 ev h2).mono (fun p hp => hp)
          · rcases List.mem_append.mp hev with h1 | h2
            · cases h1
            · have hu2 : PU ({ gcPass o ({ s with now := max s.now t } : St M) c.gcMinIdle with gcNext := t + c.gcInterval } : St M) :=
                hu0.shrink (Shr.same rfl rfl)
              have h2q : QP o ({ gcPass o ({ s with now := max s.now t } : St M) c.gcMinIdle with gcNext := t + c.gcInterval } : St M) :=
                (gcPass_q ho h0 c.gcMinIdle).same rfl rfl
              exact (ih _ hu2 h2q ev h2).mono (fun p hp => hp)

/-- every completion event of every operation is the grant of a call blocked before it, or an error answer -/
theorem step_evok (ho : o.Lawful) {s : St M} (hu : PU s) (h : QP o s) (op : Op) :
    ∀ ev ∈ (step o c s op).2.events, EvOk s ev := by
  cases op with
  | connect sid =>
    simp only [step]
    intro ev hev; cases hev
  | disconnect sid =>
    simp only [step]
    intro ev hev
    rcases List.mem_append.mp hev with h1 | h2
    · exact evok_abandonAll (o := o) _ _ s [] s (fun p hp => (List.mem_filter.mp hp).1) (by intro ev hev; cases hev) ev h1
    · have hok : ∀ p ∈ s.pending.filter (fun p => p.sid = sid), Okp p s := fun p hp => Or.inl (List.mem_filter.mp hp).1
      have := evok_destroy (c := c) ho (pu_abandonAll _ _ [] hu) (abandonAll_q ho _ _ [] hu h hok) sid ev h2
      exact this.mono (abandonAll_pending_sub _ _ s [])
  | tryLock sid n sz lt =>
    simp only [step]
    unfold srvTryLock
    simp only
    intro ev hev
    repeat' split at hev
    all_goals cases hev
  | lock sid n sz lt wt =>
    simp only [step]
    unfold srvLock
    simp only
    intro ev hev
    repeat' split at hev
    all_goals cases hev
  | unlock sid n k =>
    simp only [step]
    unfold srvUnlock
    simp only
    intro ev hev
    exact (evok_mgrUnlock (s := { s with timers := del s.timers (tkey n k) }) (h.same rfl rfl) n k ev hev).mono (fun p hp => hp)
  | renew n k t =>
    simp only [step, srvRenew]
    intro ev hev
    repeat' split at hev
    all_goals cases hev
  | advance dt => simp only [step]; exact evok_advanceTo ho _ _ s hu h
  | gc mi => simp only [step]; intro ev hev; cases hev
  | restart =>
    simp only [step]
    unfold restart
    simp only
    exact evok_abandonAll (o := o) _ _ s [] s (fun p hp => hp) (by intro ev hev; cases hev)
  | ipcUnlock n k ch =>
    simp only [step]
    split
    · intro ev hev; cases hev
    · unfold srvUnlock
      simp only
      intro ev hev
      rename_i k' _
      exact (evok_mgrUnlock (s := { s with timers := del s.timers (tkey n k') }) (h.same rfl rfl) n k' ev hev).mono (fun p hp => hp)
  | cancel req =>
    simp only [step]
    split
    · intro ev hev; cases hev
    · rename_i p hf
      intro ev hev
      right
      simp only [abandon, List.mem_singleton] at hev
      exact ⟨p, List.mem_of_find?_eq_some hf, _, hev⟩

/-! ### a call that has left the blocked set stays out, and is never granted -/

/-- request `q` has been issued and is not blocked (any more) -/
def Gone (q : Nat) (s : St M) : Prop := q < s.nreq ∧ ∀ p ∈ s.pending, p.req ≠ q

theorem Gone.shrink {q : Nat} {s s' : St M} (h : Gone q s) (r : Shr s s') : Gone q s' :=
  ⟨Nat.lt_of_lt_of_le h.1 r.2, fun p hp => h.2 p (r.1.subset hp)⟩

theorem Gone.not_answered {q : Nat} {s : St M} (h : Gone q s) {ev : Event} (he : EvOk s ev) (b : Bool) (k : Str) (e : Option Err) :
    ev ≠ .done q b k e := by
  intro heq
  rcases he with ⟨p, hp, e1⟩ | ⟨p, hp, e', e1⟩
  · rw [heq] at e1
    cases e1
    exact h.2 p hp rfl
  · rw [heq] at e1
    cases e1
    exact h.2 p hp rfl

theorem Gone.not_granted {q : Nat} {s : St M} (h : Gone q s) {ev : Event} (he : EvOk s ev) (k : Str) (e : Option Err) :
    ev ≠ .done q true k e := h.not_answered he true k e

theorem gone_blocks (q : Nat) : Blocks (o := o) (c := c) (Gone q) where
  connect := by
    intro s sid h
    simp only [step]
    split
    · exact h.shrink (Shr.same rfl rfl)
    · exact h
  abandon := by
    intro s p e h
    exact h.shrink ⟨by unfold abandon; exact List.filter_sublist, Nat.le_refl _⟩
  destroy := by
    intro s sid h
    unfold destroy
    split
    · exact h
    · simp only
      have h1 : Gone q (save { s with sessions := del s.sessions sid }) := h.shrink (Shr.same rfl rfl)
      split
      · exact h1
      · exact h1.shrink (shr_clearHolds _ _ [])
  tryLock := by
    intro s sid n sz lt h
    have h0 : Shr s { s with nreq := s.nreq + 1 } := ⟨List.Sublist.refl _, Nat.le_succ _⟩
    unfold srvTryLock
    simp only
    split
    · exact h.shrink h0
    · split
      · exact h.shrink h0
      · split
        · exact h.shrink h0
        · split
          · exact h.shrink h0
          · split
            · exact h.shrink (Shr.trans h0 (Shr.trans (Shr.same (s' := { s with nreq := s.nreq + 1, locks := _ }) rfl rfl) (shr_book _ _ _ _ _ _)))
            · exact h.shrink (Shr.trans h0 (Shr.same rfl rfl))
  lock := by
    intro s sid n sz lt wt h
    have h0 : Shr s { s with nreq := s.nreq + 1 } := ⟨List.Sublist.refl _, Nat.le_succ _⟩
    unfold srvLock
    simp only
    split
    · exact h.shrink h0
    · split
      · exact h.shrink h0
      · split
        · exact h.shrink h0
        · split
          · exact h.shrink h0
          · split
            · exact h.shrink h0
            · split
              · exact h.shrink (Shr.trans h0 (Shr.trans (Shr.same (s' := { s with nreq := s.nreq + 1, locks := _ }) rfl rfl) (shr_book _ _ _ _ _ _)))
              · -- the new blocked call carries the old counter value, which is above q
                refine ⟨by simp only; have := h.1; omega, ?_⟩
                intro p hp
                rcases List.mem_append.mp hp with hp | hp
                · exact h.2 p hp
                · simp only [List.mem_singleton] at hp; subst hp; simp only; have := h.1; omega
  unlock := by
    intro s n k h
    unfold srvUnlock
    simp only
    have := (h.shrink (Shr.same (s' := { s with timers := del s.timers (tkey n k) }) rfl rfl)).shrink (shr_mgrUnlock (o := o) _ n k)
    split
    · exact this.shrink (Shr.same rfl rfl)
    · exact this
  renew := by
    intro s n k t h
    unfold srvRenew
    split
    · exact h
    · split
      · exact h
      · exact h.shrink (Shr.same rfl rfl)
  tick := by intro s t h; exact h.shrink (Shr.same rfl rfl)
  fire := by
    intro s tk tm _ h
    unfold fireLease
    simp only
    exact (h.shrink (shr_mgrUnlock (o := o) s tm.name tm.key)).shrink (Shr.same rfl rfl)
  gc := by intro s mi g h; exact h.shrink (Shr.same rfl rfl)


theorem restart_nreq_pending (s : St M) : (restart o c s).1.nreq = s.nreq ∧ (restart o c s).1.pending = [] := by
  have hn : ∀ (ps : List Pending) (e : Err) (t : St M) (ev : List Event),
      (ps.foldl (fun (acc : St M × List Event) p =>
        let (s', ev) := abandon o acc.1 p e
        (s', acc.2 ++ ev)) (t, ev)).1.nreq = t.nreq := by
    intro ps e
    induction ps with
    | nil => intro t ev; rfl
    | cons p ps ih => intro t ev; simp only [List.foldl_cons]; rw [ih]; rfl
  unfold restart
  simp only
  apply restoreAll_induct (o := o) (c := c) (fun t => t.nreq = s.nreq ∧ t.pending = [])
  · intro t sid x ht
    refine ⟨?_, by rw [pending_restoreOne]; exact ht.2⟩
    rw [← ht.1]
    unfold restoreOne
    simp only
    split
    · rfl
    · split <;> rfl
  · exact ⟨hn _ _ _ _, rfl⟩

theorem gone_restart {q : Nat} {s : St M} (h : Gone q s) : Gone q (restart o c s).1 := by
  obtain ⟨e1, e2⟩ := restart_nreq_pending (o := o) (c := c) s
  exact ⟨by rw [e1]; exact h.1, by rw [e2]; intro p hp; cases hp⟩

/-- **gone stays gone**: no operation brings a request number back into the blocked set -/
theorem step_gone {q : Nat} {s : St M} (h : Gone q s) (op : Op) : Gone q (step o c s op).1 :=
  (gone_blocks q).step (fun _ hs => gone_restart hs) h op

theorem shr_destroy (s : St M) (sid : Sid) : Shr s (destroy o c s sid).1 := by
  unfold destroy
  split
  · exact Shr.refl s
  · simp only
    split
    · exact Shr.same rfl rfl
    · exact Shr.trans (Shr.same (s' := save { s with sessions := del s.sessions sid }) rfl rfl) (shr_clearHolds _ _ [])

/-! ### an answered call leaves the blocked set in the same operation -/

/-- the request numbers of these events are not blocked in `s` -/
def EvGone (s : St M) (evs : List Event) : Prop :=
  ∀ ev ∈ evs, ∀ q b k e, ev = Event.done q b k e → ∀ x ∈ s.pending, x.req ≠ q

theorem EvGone.mono {s s' : St M} {evs : List Event} (h : EvGone s evs) (hsub : ∀ p ∈ s'.pending, p ∈ s.pending) : EvGone s' evs :=
  fun ev hev q b k e heq x hx => h ev hev q b k e heq x (hsub x hx)

theorem EvGone.append {s : St M} {a b : List Event} (ha : EvGone s a) (hb : EvGone s b) : EvGone s (a ++ b) := by
  intro ev hev
  rcases List.mem_append.mp hev with h | h
  · exact ha ev h
  · exact hb ev h

theorem evgone_nil (s : St M) : EvGone s [] := fun ev hev => by cases hev

theorem evgone_handOver (s : St M) (n : Str) (r : LockRec) : EvGone (handOver o s n r).1 (handOver o s n r).2 := by
  unfold handOver
  split
  · exact evgone_nil _
  · rename_i p q' _
    intro ev hev q b k e heq x hx
    simp only [List.mem_singleton] at hev
    rw [hev] at heq
    cases heq
    simp only at hx
    rw [pending_book] at hx
    have := (List.mem_filter.mp hx).2
    simpa using this

theorem evgone_mgrUnlock (s : St M) (n k : Str) : EvGone (mgrUnlock o s n k).1 (mgrUnlock o s n k).2.2.2 := by
  unfold mgrUnlock
  split
  · exact evgone_nil _
  · simp only
    split
    · exact evgone_handOver _ _ _
    · exact evgone_nil _

theorem evgone_abandon (s : St M) (p : Pending) (e : Err) : EvGone (abandon o s p e).1 (abandon o s p e).2 := by
  intro ev hev q b k e' heq x hx
  simp only [abandon, List.mem_singleton] at hev
  rw [hev] at heq
  cases heq
  unfold abandon at hx
  have := (List.mem_filter.mp hx).2
  simpa using this

theorem evgone_abandonAll (ps : List Pending) (e : Err) : ∀ (s : St M) (ev0 : List Event), EvGone s ev0 →
    EvGone (ps.foldl (fun (acc : St M × List Event) p =>
      let (s', ev) := abandon o acc.1 p e
      (s', acc.2 ++ ev)) (s, ev0)).1 (ps.foldl (fun (acc : St M × List Event) p =>
      let (s', ev) := abandon o acc.1 p e
      (s', acc.2 ++ ev)) (s, ev0)).2 := by
  induction ps with
  | nil => intro s ev0 h; exact h
  | cons p ps ih =>
    intro s ev0 h
    simp only [List.foldl_cons]
    apply ih
    exact (h.mono (pending_abandon s p e)).append (evgone_abandon s p e)

theorem evgone_clearHolds (hs : List Hold) : ∀ (s : St M) (ev0 : List Event), EvGone s ev0 →
    EvGone (hs.foldl (fun (acc : St M × List Event) h =>
      let (s', ok, _, ev) := mgrUnlock o acc.1 h.name h.key
      let s' := if ok then { s' with timers := del s'.timers (tkey h.name h.key) } else s'
      (s', acc.2 ++ ev)) (s, ev0)).1 (hs.foldl (fun (acc : St M × List Event) h =>
      let (s', ok, _, ev) := mgrUnlock o acc.1 h.name h.key
      let s' := if ok then { s' with timers := del s'.timers (tkey h.name h.key) } else s'
      (s', acc.2 ++ ev)) (s, ev0)).2 := by
  induction hs with
  | nil => intro s ev0 h; exact h
  | cons x hs ih =>
    intro s ev0 h
    simp only [List.foldl_cons]
    apply ih
    have h1 : EvGone (mgrUnlock o s x.name x.key).1 (ev0 ++ (mgrUnlock o s x.name x.key).2.2.2) :=
      (h.mono (pending_mgrUnlock s x.name x.key)).append (evgone_mgrUnlock s x.name x.key)
    split
    · exact h1.mono (fun p hp => hp)
    · exact h1

theorem evgone_destroy (s : St M) (sid : Sid) : EvGone (destroy o c s sid).1 (destroy o c s sid).2 := by
  unfold destroy
  split
  · exact evgone_nil _
  · simp only
    split
    · exact evgone_nil _
    · exact evgone_clearHolds _ _ [] (evgone_nil _)

theorem evgone_advanceTo (target : Nat) : ∀ (fuel : Nat) (s : St M),
    EvGone (advanceTo o c target fuel s).1 (advanceTo o c target fuel s).2.1 := by
  intro fuel
  induction fuel with
  | zero => intro s; simp only [advanceTo]; exact evgone_nil _
  | succ f ih =>
    intro s
    unfold advanceTo
    simp only
    split
    · exact evgone_nil _
    · split
      · exact evgone_nil _
      · rename_i t _ _
        simp only
        split
        · split
          · rename_i tk tm _
            refine EvGone.append ?_ (ih _)
            have h1 : EvGone (fireLease o ({ s with now := max s.now t } : St M) tk tm).1 (fireLease o ({ s with now := max s.now t } : St M) tk tm).2 := by
              unfold fireLease
              simp only
              exact (evgone_mgrUnlock ({ s with now := max s.now t } : St M) tm.name tm.key).mono (fun p hp => hp)
            exact h1.mono (advanceTo_pending_sub target f _)
          · exact (evgone_nil _).append (ih _)
        · split
          · split
            · rename_i p d _
              refine EvGone.append ?_ (ih _)
              exact (evgone_abandon ({ s with now := max s.now t } : St M) p .waitTimeout).mono (advanceTo_pending_sub target f _)
            · exact (evgone_nil _).append (ih _)
          · exact (evgone_nil _).append (ih _)

/-- **answered means gone**: the calls an operation answers are not blocked after it -/
theorem step_evgone (s : St M) (op : Op) : EvGone (step o c s op).1 (step o c s op).2.events := by
  cases op with
  | connect sid => simp only [step]; split <;> exact evgone_nil _
  | disconnect sid =>
    simp only [step]
    refine EvGone.append ?_ (evgone_destroy _ sid)
    have h1 := evgone_abandonAll (o := o) (s.pending.filter (fun p => p.sid = sid)) .canceled s [] (evgone_nil _)
    exact h1.mono (fun p hp => (shr_destroy (o := o) (c := c) _ sid).1.subset hp)
  | tryLock sid n sz lt =>
    simp only [step]
    intro ev hev
    unfold srvTryLock at hev
    simp only at hev
    repeat' split at hev
    all_goals cases hev
  | lock sid n sz lt wt =>
    simp only [step]
    intro ev hev
    unfold srvLock at hev
    simp only at hev
    repeat' split at hev
    all_goals cases hev
  | unlock sid n k =>
    simp only [step]
    unfold srvUnlock
    simp only
    have h1 := evgone_mgrUnlock (o := o) ({ s with timers := del s.timers (tkey n k) } : St M) n k
    split
    · exact h1.mono (fun p hp => hp)
    · exact h1
  | renew n k t =>
    simp only [step, srvRenew]
    intro ev hev
    repeat' split at hev
    all_goals cases hev
  | advance dt => simp only [step]; exact evgone_advanceTo _ _ s
  | gc mi => simp only [step]; exact evgone_nil _
  | restart =>
    simp only [step]
    intro ev hev q b k e heq x hx
    rw [(restart_nreq_pending (o := o) (c := c) s).2] at hx
    cases hx
  | ipcUnlock n k ch =>
    simp only [step]
    split
    · exact evgone_nil _
    · unfold srvUnlock
      simp only
      rename_i k' _
      have h1 := evgone_mgrUnlock (o := o) ({ s with timers := del s.timers (tkey n k') } : St M) n k'
      split
      · exact h1.mono (fun p hp => hp)
      · exact h1
  | cancel req =>
    simp only [step]
    split
    · exact evgone_nil _
    · exact evgone_abandon s _ .canceled

/-! ### the request counter never goes back -/

def NGe (n0 : Nat) (s : St M) : Prop := n0 ≤ s.nreq

theorem NGe.shrink {n0 : Nat} {s s' : St M} (h : NGe n0 s) (r : Shr s s') : NGe n0 s' := Nat.le_trans h r.2

theorem nge_blocks (n0 : Nat) : Blocks (o := o) (c := c) (NGe n0) where
  connect := by
    intro s sid h
    simp only [step]
    split
    · exact h.shrink (Shr.same rfl rfl)
    · exact h
  abandon := by
    intro s p e h
    exact h.shrink ⟨by unfold abandon; exact List.filter_sublist, Nat.le_refl _⟩
  destroy := by
    intro s sid h
    unfold destroy
    split
    · exact h
    · simp only
      have h1 : NGe n0 (save { s with sessions := del s.sessions sid }) := h.shrink (Shr.same rfl rfl)
      split
      · exact h1
      · exact h1.shrink (shr_clearHolds _ _ [])
  tryLock := by
    intro s sid n sz lt h
    have h0 : Shr s { s with nreq := s.nreq + 1 } := ⟨List.Sublist.refl _, Nat.le_succ _⟩
    unfold srvTryLock
    simp only
    split
    · exact h.shrink h0
    · split
      · exact h.shrink h0
      · split
        · exact h.shrink h0
        · split
          · exact h.shrink h0
          · split
            · exact h.shrink (Shr.trans h0 (Shr.trans (Shr.same (s' := { s with nreq := s.nreq + 1, locks := _ }) rfl rfl) (shr_book _ _ _ _ _ _)))
            · exact h.shrink (Shr.trans h0 (Shr.same rfl rfl))
  lock := by
    intro s sid n sz lt wt h
    have h0 : Shr s { s with nreq := s.nreq + 1 } := ⟨List.Sublist.refl _, Nat.le_succ _⟩
    unfold srvLock
    simp only
    split
    · exact h.shrink h0
    · split
      · exact h.shrink h0
      · split
        · exact h.shrink h0
        · split
          · exact h.shrink h0
          · split
            · exact h.shrink h0
            · split
              · exact h.shrink (Shr.trans h0 (Shr.trans (Shr.same (s' := { s with nreq := s.nreq + 1, locks := _ }) rfl rfl) (shr_book _ _ _ _ _ _)))
              · show n0 ≤ s.nreq + 1
                have : n0 ≤ s.nreq := h
                omega
  unlock := by
    intro s n k h
    unfold srvUnlock
    simp only
    have := (h.shrink (Shr.same (s' := { s with timers := del s.timers (tkey n k) }) rfl rfl)).shrink (shr_mgrUnlock (o := o) _ n k)
    split
    · exact this.shrink (Shr.same rfl rfl)
    · exact this
  renew := by
    intro s n k t h
    unfold srvRenew
    split
    · exact h
    · split
      · exact h
      · exact h.shrink (Shr.same rfl rfl)
  tick := by intro s t h; exact h.shrink (Shr.same rfl rfl)
  fire := by
    intro s tk tm _ h
    unfold fireLease
    simp only
    exact (h.shrink (shr_mgrUnlock (o := o) s tm.name tm.key)).shrink (Shr.same rfl rfl)
  gc := by intro s mi g h; exact h.shrink (Shr.same rfl rfl)


theorem step_nreq_mono (s : St M) (op : Op) : s.nreq ≤ (step o c s op).1.nreq :=
  (nge_blocks s.nreq).step (fun t ht => by
    show s.nreq ≤ (restart o c t).1.nreq
    rw [(restart_nreq_pending (o := o) (c := c) t).1]; exact ht) (Nat.le_refl _) op

/-- **answered means gone**, as a `Gone` fact: a call an operation answers was blocked before it (so its number is
below the counter) and is not blocked after it -/
theorem step_answered_gone (ho : o.Lawful) {s : St M} (hu : PU s) (h : QP o s) (op : Op) (q : Nat) (b : Bool) (k : Str) (e : Option Err)
    (hev : Event.done q b k e ∈ (step o c s op).2.events) : Gone q (step o c s op).1 := by
  have hlt : q < s.nreq := by
    rcases step_evok ho hu h op _ hev with ⟨p, hp, e1⟩ | ⟨p, hp, _, e1⟩
    · cases e1; exact hu.2 p hp
    · cases e1; exact hu.2 p hp
  exact ⟨Nat.lt_of_lt_of_le hlt (step_nreq_mono s op), step_evgone s op _ hev q b k e rfl⟩

end Ldlm.Core
