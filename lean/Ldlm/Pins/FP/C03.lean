import Ldlm.Generated.Facts
/-!
Source fingerprints for C03: the functions of /repo its models were written against (verifcfg.FPMAP).
`Facts.fp_*` is regenerated from the working tree by every check (first 16 hex digits of SHA-256 of the
normalised signature and body); the right-hand sides were copied from a reviewed tree by tools/mkfp.py and
are NOT regenerated. A pin that no longer checks = this function changed since the models were written.
-/
namespace Ldlm.Pins.FP.C03
open Ldlm

/-- lock/lock.go: NewLock -/
theorem fp_lock_lock_NewLock : Facts.fp_lock_lock_NewLock = "d4400d5fa3fae080" := rfl
/-- lock/lock.go: Lock.Lock -/
theorem fp_lock_lock_Lock_Lock : Facts.fp_lock_lock_Lock_Lock = "24c6305c7d07f030" := rfl
/-- lock/lock.go: Lock.TryLock -/
theorem fp_lock_lock_Lock_TryLock : Facts.fp_lock_lock_Lock_TryLock = "e86ae14f06c9bef9" := rfl
/-- lock/lock.go: Lock.Unlock -/
theorem fp_lock_lock_Lock_Unlock : Facts.fp_lock_lock_Lock_Unlock = "fa37302972cb0b09" := rfl
/-- lock/lock.go: Lock.addKey -/
theorem fp_lock_lock_Lock_addKey : Facts.fp_lock_lock_Lock_addKey = "98ebde1fa6b9a35a" := rfl
/-- lock/lock.go: Lock.Keys -/
theorem fp_lock_lock_Lock_Keys : Facts.fp_lock_lock_Lock_Keys = "7071540bc534505b" := rfl
/-- lock/manager.go: Manager.Lock -/
theorem fp_lock_manager_Manager_Lock : Facts.fp_lock_manager_Manager_Lock = "b3a78f0a87d5a3ad" := rfl
/-- lock/manager.go: Manager.TryLock -/
theorem fp_lock_manager_Manager_TryLock : Facts.fp_lock_manager_Manager_TryLock = "3c861dc7cc9f73de" := rfl
/-- lock/manager.go: Manager.Unlock -/
theorem fp_lock_manager_Manager_Unlock : Facts.fp_lock_manager_Manager_Unlock = "e1e8415d8eb20442" := rfl
/-- lock/manager.go: Manager.shutdown -/
theorem fp_lock_manager_Manager_shutdown : Facts.fp_lock_manager_Manager_shutdown = "a21f5c7d0760606f" := rfl
/-- server/server.go: LockServer.Lock -/
theorem fp_server_server_LockServer_Lock : Facts.fp_server_server_LockServer_Lock = "5d4c78175f668159" := rfl
/-- server/server.go: LockServer.TryLock -/
theorem fp_server_server_LockServer_TryLock : Facts.fp_server_server_LockServer_TryLock = "0ae939aca2e2a058" := rfl

end Ldlm.Pins.FP.C03
