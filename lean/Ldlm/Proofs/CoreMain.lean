import Ldlm.Proofs.CoreInv2
import Ldlm.Proofs.TKey
/-! Reachability theorems for M2 and the per-step facts the property files use. -/
namespace Ldlm.Core
variable {M : Type} {o : MapOps M} {c : Cfg}

theorem init_inv' (ho : o.Lawful) : Inv' o c (init o c) := by
  refine ⟨?_, ?_, ?_, ?_, ?_, ?_, ?_, ?_, ?_, ?_, ?_⟩
  · simp [init, AMap.Uniq]
  · intro n r hg; simp only [init, ho.get_empty] at hg; cases hg
  · intro n r hg; simp only [init, ho.get_empty] at hg; cases hg
  · intro tk tm hm; simp [init] at hm
  · rintro sid x ⟨hs, hg, _⟩; simp [init] at hg
  · rintro a b x y ⟨hs, hg, _⟩; simp [init] at hg
  · intro sid hs hg; simp [init] at hg
  · intro _ n r k hg; simp only [init, ho.get_empty] at hg; cases hg
  · intro p hp; cases hp
  · intro p hp; cases hp
  · intro sid; left; rfl

/-- the invariant holds in every state reachable by operations other than `restart`; with
`hr` (restart preserves it, `CoreRestart.lean`) in every reachable state -/
theorem run_inv (ho : o.Lawful) (hinj : KeysInjective c)
    (hr : ∀ s : St M, Inv' o c s → Inv' o c (restart o c s).1) (ops : List Op) : Inv' o c (run o c ops) :=
  (inv_blocks ho hinj).run hr (init_inv' ho) ops

theorem step_inv (ho : o.Lawful) (hinj : KeysInjective c)
    (hr : ∀ s : St M, Inv' o c s → Inv' o c (restart o c s).1) {s : St M} (h : Inv' o c s) (op : Op) :
    Inv' o c (step o c s op).1 :=
  (inv_blocks ho hinj).step hr h op

/-- deleting a key that is not there is the identity -/
theorem del_of_get_none {α β} [DecidableEq α] : ∀ (m : List (α × β)) (k : α), AMap.get m k = none → AMap.del m k = m := by
  intro m
  induction m with
  | nil => intro k _; rfl
  | cons e m ih =>
    obtain ⟨a, b⟩ := e
    intro k h
    rw [AMap.get_cons] at h
    by_cases e : a = k
    · simp [e] at h
    · simp only [e, if_false] at h
      simp [AMap.del, e, ih k h]

/-- no lease timer is stored under the timer key of a pair that is not a live hold -/
theorem no_timer_of_not_held {s : St M} (h : Inv' o c s) {n k : Str} (hn : ¬ held o s n k) :
    AMap.get s.timers (tkey n k) = none := by
  cases hg : AMap.get s.timers (tkey n k) with
  | none => rfl
  | some tm =>
    exfalso
    obtain ⟨e, hh⟩ := h.timer _ _ (AMap.get_some_mem _ _ _ hg)
    obtain ⟨e1, e2⟩ := tkey_injective e
    rcases hh with hh | hx
    · rw [← e1, ← e2] at hh; exact hn hh
    · cases hx

end Ldlm.Core
