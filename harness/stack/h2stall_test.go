package stack

// A gRPC client that opens a stream and does not finish it: HTTP/2 preface, SETTINGS, HEADERS of a
// TryLock call without END_STREAM and without a message; it keeps acknowledging the server's SETTINGS
// and PINGs (the connection is alive, the request is in flight for as long as the peer likes).

import (
	"bytes"
	"net"
	"time"

	"golang.org/x/net/http2"
	"golang.org/x/net/http2/hpack"
)

func openStalledGrpcStream(addr string) (net.Conn, error) {
	c, err := net.DialTimeout("tcp", addr, 2*time.Second)
	if err != nil {
		return nil, err
	}
	if _, err := c.Write([]byte(http2.ClientPreface)); err != nil {
		c.Close()
		return nil, err
	}
	fr := http2.NewFramer(c, c)
	if err := fr.WriteSettings(); err != nil {
		c.Close()
		return nil, err
	}
	var hb bytes.Buffer
	enc := hpack.NewEncoder(&hb)
	for _, f := range [][2]string{{":method", "POST"}, {":scheme", "http"}, {":path", "/ldlm.LDLM/TryLock"}, {":authority", addr},
		{"content-type", "application/grpc"}, {"te", "trailers"}, {"user-agent", "verif-stalled-client"}} {
		enc.WriteField(hpack.HeaderField{Name: f[0], Value: f[1]})
	}
	if err := fr.WriteHeaders(http2.HeadersFrameParam{StreamID: 1, BlockFragment: hb.Bytes(), EndHeaders: true, EndStream: false}); err != nil {
		c.Close()
		return nil, err
	}
	go func() { // keep the connection healthy from the server's point of view
		for {
			f, err := fr.ReadFrame()
			if err != nil {
				return
			}
			switch x := f.(type) {
			case *http2.SettingsFrame:
				if !x.IsAck() {
					fr.WriteSettingsAck()
				}
			case *http2.PingFrame:
				if !x.IsAck() {
					fr.WritePing(true, x.Data)
				}
			}
		}
	}()
	return c, nil
}
