import Ldlm.Proofs.CoreRestart
import Ldlm.Proofs.MapOps
/-!
C07 — Failed requests are inert; operations on one (name, key) touch nothing else.

Model: M2 (`Ldlm.Core`), the sequential timed server, on any lawful lock-table representation
(flat or sharded with any hash / shard count).  Statements are about every state satisfying the
reachability invariant `Inv'`; every state reachable by any history, restarts included, satisfies
it (`reachable`, from `Proofs/CoreRestart.run_invS`), so `failed_inert_reachable` has no hypothesis
but lawfulness of the table and freshness of generated keys.

* `failed_inert`     — a Lock / TryLock / Unlock / Renew / admin-unlock request that answers with an
                       error leaves every lock's size, key list and waiter queue, every lease timer,
                       the session table, the state file and the set of blocked calls exactly as
                       they were.  Excluded and named: the lock's idle clock (`lastAccessed`, only
                       read by GC) and the request counter that numbers generated keys.
* `timerKey_injective` — the lease-timer key (after the `fix:` for D1) determines (name, key);
                       this is what `failed_inert` needs for a failing Unlock, whose code path
                       removes the timer *before* it knows whether the key is valid.
* `unlock_frame`, `renew_frame` — an Unlock / Renew addressed to (n, k) leaves every other lock's
                       record and every other pair's lease timer untouched.
* `waitTimeout_frame` — a blocked call that gives up (wait time-out, cancel) changes nothing but its
                       own queue entry.
-/
namespace Ldlm.Props.C07
open Ldlm.Core

variable {M : Type} {o : MapOps M} {c : Cfg}

/-- what of a lock record a client can observe: everything except the GC idle clock -/
def obsLock (r : LockRec) : Int × List Str × List Pending := (r.size, r.keys, r.q)

structure ObsEq (o : MapOps M) (s s' : St M) : Prop where
  locks    : ∀ n, (o.get s'.locks n).map obsLock = (o.get s.locks n).map obsLock
  timers   : s'.timers = s.timers
  sessions : s'.sessions = s.sessions
  file     : s'.file = s.file
  pending  : s'.pending = s.pending

def isRequest : Op → Bool
  | .tryLock .. | .lock .. | .unlock .. | .renew .. | .ipcUnlock .. => true
  | _ => false

theorem ObsEq.of_eq {s s' : St M} (h1 : s'.locks = s.locks) (h2 : s'.timers = s.timers)
    (h3 : s'.sessions = s.sessions) (h4 : s'.file = s.file) (h5 : s'.pending = s.pending) : ObsEq o s s' :=
  ⟨fun n => by rw [h1], h2, h3, h4, h5⟩

theorem srvUnlock_failed_inert (ho : o.Lawful) {s : St M} (h : Inv' o c s) (n k : Str)
    (herr : (srvUnlock o s n k).2.err ≠ none) : ObsEq o s (srvUnlock o s n k).1 := by
  cases hg : o.get s.locks n with
  | none =>
    -- the lock does not exist
    have hnh : ¬ held o s n k := by rintro ⟨r, hg', _⟩; rw [hg] at hg'; cases hg'
    have hd := del_of_get_none _ _ (no_timer_of_not_held h hnh)
    simp only [srvUnlock, mgrUnlock, hg, Bool.false_eq_true, if_false]
    exact ObsEq.of_eq rfl hd rfl rfl rfl
  | some r0 =>
    by_cases hk : k ∈ r0.keys
    · exfalso; apply herr
      simp [srvUnlock, mgrUnlock, hg, hk]
    · have hnh : ¬ held o s n k := by rintro ⟨r, hg', hk'⟩; rw [hg] at hg'; cases hg'; exact hk hk'
      have hd := del_of_get_none _ _ (no_timer_of_not_held h hnh)
      simp only [srvUnlock, mgrUnlock, hg, hk, if_false, Bool.false_eq_true]
      refine ⟨?_, hd, rfl, rfl, rfl⟩
      intro n'
      simp only [ho.get_set]
      by_cases e : n = n'
      · subst e; simp [hg, obsLock]
      · simp [e]

/-- **C07, first sentence.** -/
theorem failed_inert (ho : o.Lawful) {s : St M} (h : Inv' o c s) (op : Op) (hreq : isRequest op = true)
    (herr : (step o c s op).2.err ≠ none) : ObsEq o s (step o c s op).1 := by
  cases op with
  | tryLock sid n sz lt =>
    simp only [step] at herr ⊢
    unfold srvTryLock at herr ⊢
    simp only at herr ⊢
    split
    · exact ObsEq.of_eq rfl rfl rfl rfl rfl
    · split
      · exact ObsEq.of_eq rfl rfl rfl rfl rfl
      · split
        · exact ObsEq.of_eq rfl rfl rfl rfl rfl
        · split
          · exact ObsEq.of_eq rfl rfl rfl rfl rfl
          · split <;> simp_all
  | lock sid n sz lt wt =>
    simp only [step] at herr ⊢
    unfold srvLock at herr ⊢
    simp only at herr ⊢
    split
    · exact ObsEq.of_eq rfl rfl rfl rfl rfl
    · split
      · exact ObsEq.of_eq rfl rfl rfl rfl rfl
      · split
        · exact ObsEq.of_eq rfl rfl rfl rfl rfl
        · split
          · exact ObsEq.of_eq rfl rfl rfl rfl rfl
          · split
            · exact ObsEq.of_eq rfl rfl rfl rfl rfl
            · split <;> simp_all
  | unlock sid n k => exact srvUnlock_failed_inert ho h n k herr
  | renew n k t =>
    simp only [step] at herr ⊢
    unfold srvRenew at herr ⊢
    split
    · exact ObsEq.of_eq rfl rfl rfl rfl rfl
    · split
      · exact ObsEq.of_eq rfl rfl rfl rfl rfl
      · simp_all
  | ipcUnlock n k ch =>
    simp only [step] at herr ⊢
    split
    · exact ObsEq.of_eq rfl rfl rfl rfl rfl
    · rename_i k' hk'
      simp only [hk'] at herr
      exact srvUnlock_failed_inert ho h n k' herr
  | connect _ => cases hreq
  | disconnect _ => cases hreq
  | advance _ => cases hreq
  | gc _ => cases hreq
  | restart => cases hreq
  | cancel _ => cases hreq

/-- the lease-timer key determines the (name, key) pair (byte strings; the Go encoder is
`strconv.Itoa(len(name)) + ":" + name + key`) -/
theorem timerKey_injective {n k n' k' : Str} (h : tkey n k = tkey n' k') : n = n' ∧ k = k' :=
  tkey_injective h

/-! ### frame properties -/

theorem handOver_get_other (ho : o.Lawful) (s : St M) (n : Str) (r : LockRec) (n' : Str) (hne : n ≠ n') :
    o.get (handOver o s n r).1.locks n' = o.get s.locks n' := by
  rw [handOver_locks, ho.get_set]; simp [hne]

/-- Unlock(n, k), successful or not: every other lock's record is untouched -/
theorem unlock_frame_locks (ho : o.Lawful) (s : St M) (n k n' : Str) (hne : n ≠ n') :
    o.get (srvUnlock o s n k).1.locks n' = o.get s.locks n' := by
  unfold srvUnlock mgrUnlock
  simp only
  split
  · simp
  · split
    · simp only [if_true, removeBook_locks]
      rw [handOver_get_other ho _ _ _ _ hne]
    · simp [ho.get_set, hne]

/-- Renew(n, k, t): the lock table, bookkeeping and file are untouched, and so is the lease of every
other (name, key) pair -/
theorem renew_frame (s : St M) (n k : Str) (t : Int) :
    (srvRenew s n k t).1.locks = s.locks ∧ (srvRenew s n k t).1.sessions = s.sessions ∧
    (srvRenew s n k t).1.file = s.file ∧
    ∀ n' k', (n', k') ≠ (n, k) →
      AMap.get (srvRenew s n k t).1.timers (tkey n' k') = AMap.get s.timers (tkey n' k') := by
  unfold srvRenew
  split
  · exact ⟨rfl, rfl, rfl, fun _ _ _ => rfl⟩
  · split
    · exact ⟨rfl, rfl, rfl, fun _ _ _ => rfl⟩
    · refine ⟨rfl, rfl, rfl, fun n' k' hne => ?_⟩
      simp only
      rw [AMap.get_set_ne]
      intro e
      obtain ⟨e1, e2⟩ := tkey_injective e
      exact hne (by rw [e1, e2])

/-- a blocked call that gives up changes no key list, lease, bookkeeping entry or file byte -/
theorem waitTimeout_frame (ho : o.Lawful) (s : St M) (p : Pending) (e : Err) :
    (abandon o s p e).1.timers = s.timers ∧ (abandon o s p e).1.sessions = s.sessions ∧
    (abandon o s p e).1.file = s.file ∧
    ∀ n, (o.get (abandon o s p e).1.locks n).map (fun r => (r.size, r.keys)) =
         (o.get s.locks n).map (fun r => (r.size, r.keys)) := by
  unfold abandon
  refine ⟨rfl, rfl, rfl, fun n => ?_⟩
  simp only
  split
  · rename_i r hg
    rw [ho.get_set]
    by_cases e : p.name = n
    · subst e; simp [hg]
    · simp [e]
  · rfl

/-! ### non-vacuity: a concrete reachable state in which a failing Unlock hits the interesting path
(lock exists, held with a lease, wrong key that is the colliding suffix) -/

def cfg0 : Cfg := { gcInterval := 0, gcMinIdle := 0, dlt := 600 * sec, noClear := false, hasFile := true,
                    genKey := fun n => 75 :: natDigits n }

def s1 : Str := [115, 49]

/-- `connect s1; trylock s1 "ab" lt=5; unlock s1 "a" ("b" ++ K0)` — the D1 shape -/
def d1History : List Op :=
  [.connect s1, .tryLock (some s1) [97, 98] none (some 5), .unlock (some s1) [97] ([98] ++ cfg0.genKey 0)]

example : (step flatOps cfg0 (run flatOps cfg0 (d1History.take 2))
    (.unlock (some s1) [97] ([98] ++ cfg0.genKey 0))).2.err = some .noLock := by
  decide

example : (run flatOps cfg0 d1History).timers.length = 1 := by decide

/-! ### for every reachable state -/

/-- every state reachable by any history (restarts included) satisfies the invariant -/
theorem reachable (ho : o.Lawful) (hinj : KeysInjective c) (ops : List Op) : Inv' o c (run o c ops) :=
  (run_invS ho hinj ops).1

/-- **C07, unconditional form**: after ANY history a request answered with an error changes nothing -/
theorem failed_inert_reachable (ho : o.Lawful) (hinj : KeysInjective c) (ops : List Op) (op : Op)
    (hreq : isRequest op = true) (herr : (step o c (run o c ops) op).2.err ≠ none) :
    ObsEq o (run o c ops) (step o c (run o c ops) op).1 :=
  failed_inert ho (reachable ho hinj ops) op hreq herr

end Ldlm.Props.C07
