// Package seq: sequential histories in virtual time, real server vs the Lean model M2 (seqdiff).
package seq

import (
	"fmt"
	"strconv"
	"strings"
	"time"

	"verif/harness/common"
	"verif/harness/impl"
)

func p32(v int32) *int32 { return &v }

// Profile steers the generator towards what a property needs.
type Profile struct {
	Ops          int
	Restart      int  // weight
	Gc           int  // weight of explicit gc passes
	Ipc          int  // weight of admin unlocks (session-less Unlock)
	NoSessionReq int  // weight of Lock/TryLock without a session in the context
	Blocking     int  // weight of blocking Lock calls
	Invalid      int  // percentage of requests with invalid parameters
	StableSizes  bool // size is a function of the name (GC metamorphic runs)
	Foreign      int  // percentage of unlocks issued from a session other than the holder's
	FixedCfg     *impl.Cfg
	GcOn         bool
	RenewW       int // weight of renews (default 10)
	NameCount    int // restrict the name alphabet to its first NameCount entries (0 = all)
	Colliding    bool // use a pair of names with EQUAL 32-bit FNV hashes (same shard for every shard count) in a third of the draws
	WideNames    bool // add three names drawn per history from a family of 2000 (spreads over every shard of every count)
	LeaseFocus   bool
	Disc         int // weight of session ends (default 4)
	InjectFile   int // percentage of restarts that start from a file with extra entries
}

var DefaultProfile = Profile{Ops: 40, Restart: 3, Gc: 3, Ipc: 0, Blocking: 10, Invalid: 15, Foreign: 30}

var names = []string{"a", "ab", "b", "c", "é", "lock-with-a-rather-long-name-0123456789-abcdefghij", "a b", "x:y/z"}

type holdInfo struct {
	req  int
	name string
	sid  string
}

// Gen is the state-aware history generator; it only looks at what a client could know (responses).
type Gen struct {
	r        *common.Rng
	p        Profile
	cfg      impl.Cfg
	live     []string   // connected sessions
	nsess    int
	grants   []holdInfo // acknowledged grants (may be dead by now)
	pending  []int
	nreq     int
	now      int64
	deadline []int64 // instants worth stepping to
	sizeOf   map[string]*int32
	reqInfo  map[int]holdInfo
	wide     []string // this history's names from the wide family
	ninj     int
	reqLt    map[int]*int32
}

func NewGen(r *common.Rng, p Profile) *Gen {
	g := &Gen{r: r, p: p, sizeOf: map[string]*int32{}, reqInfo: map[int]holdInfo{}, reqLt: map[int]*int32{}}
	if p.FixedCfg != nil {
		g.cfg = *p.FixedCfg
	} else {
		g.cfg = impl.Cfg{
			Shards:  common.Pick(r, []uint32{0, 1, 2, 3, 7, 10, 16, 100, 1000}),
			GcInt:   1000 * time.Hour,
			GcIdle:  common.Pick(r, []time.Duration{0, 1, time.Second, 5 * time.Minute}),
			Dlt:     common.Pick(r, []time.Duration{2 * time.Second, 10 * time.Minute, time.Second, 3 * time.Second, 1500 * time.Millisecond, 800 * time.Millisecond, 2*time.Second + 1}),
			NoClear: r.Chance(20),
			File:    r.Chance(85),
		}
		if p.GcOn || r.Chance(40) {
			g.cfg.GcInt = common.Pick(r, []time.Duration{7*time.Second + 3, time.Second + 1, 2*time.Second + 7})
		}
	}
	if int64(g.cfg.GcInt) < int64(500*time.Hour) {
		for k := int64(1); k < 40; k++ {
			g.deadline = append(g.deadline, k*int64(g.cfg.GcInt))
		}
	}
	return g
}

func (g *Gen) Cfg() impl.Cfg { return g.cfg }

func (g *Gen) size(name string) *int32 {
	if g.p.StableSizes {
		if s, ok := g.sizeOf[name]; ok {
			return s
		}
		s := common.Pick(g.r, []*int32{nil, p32(1), p32(2), p32(3)})
		g.sizeOf[name] = s
		return s
	}
	if g.r.Chance(g.p.Invalid) {
		return common.Pick(g.r, []*int32{p32(0), p32(-1), p32(-2147483648), p32(2147483647)})
	}
	if s, ok := g.sizeOf[name]; ok && g.r.Chance(75) {
		return s
	}
	s := common.Pick(g.r, []*int32{nil, nil, p32(1), p32(2), p32(2), p32(3)})
	g.sizeOf[name] = s
	return s
}

func (g *Gen) lt() *int32 {
	if g.r.Chance(g.p.Invalid / 2) {
		return p32(-1)
	}
	if g.p.LeaseFocus {
		return common.Pick(g.r, []*int32{nil, p32(0), p32(1), p32(2), p32(2), p32(3), p32(5)}) // 0 = explicitly no lease
	}
	return common.Pick(g.r, []*int32{nil, nil, p32(0), p32(1), p32(2), p32(2), p32(5)})
}

func (g *Gen) name() string {
	if g.r.Chance(g.p.Invalid / 3) {
		return ""
	}
	if g.p.Colliding && g.r.Chance(33) {
		a, b := common.FnvPair()
		return common.Pick(g.r, []string{a, b})
	}
	if g.p.WideNames {
		if g.wide == nil {
			for i := 0; i < 3; i++ {
				g.wide = append(g.wide, fmt.Sprintf("lock-%d", g.r.Intn(2000)))
			}
		}
		if g.r.Chance(45) {
			return common.Pick(g.r, g.wide)
		}
	}
	if g.p.NameCount > 0 {
		return names[g.r.Intn(g.p.NameCount)]
	}
	if g.r.Chance(70) {
		return names[g.r.Intn(4)]
	}
	return common.Pick(g.r, names)
}

func (g *Gen) sid() string {
	if len(g.live) == 0 {
		return "-"
	}
	return common.Pick(g.r, g.live)
}

// keyFor picks a (name, key) to operate on: mostly a granted hold, sometimes a stale, foreign,
// composite (timer-key collision) or garbage key.
func (g *Gen) keyFor() (string, string, string) {
	if len(g.grants) == 0 || g.r.Chance(8) {
		return g.name(), common.Pick(g.r, []string{"zz", "", "K999", "b"}), g.sid()
	}
	h := g.grants[g.r.Intn(len(g.grants))]
	if g.r.Chance(60) {
		h = g.grants[len(g.grants)-1-g.r.Intn(min(len(g.grants), 4))]
	}
	k := "K" + strconv.Itoa(h.req)
	sid := h.sid
	if g.r.Chance(g.p.Foreign) || !contains(g.live, sid) {
		sid = g.sid()
	}
	switch x := g.r.Intn(100); {
	case x < 72:
		return h.name, k, sid
	case x < 80: // right key, other lock
		return g.name(), k, sid
	case x < 88 && len(h.name) >= 2: // the pair whose concatenation equals h's: ("a", "b"+K) for ("ab", K)
		return h.name[:1], h.name[1:] + k, sid
	case x < 92: // and the other direction: name extended by a prefix of the key
		return h.name + "K", strings.TrimPrefix(k, "K"), sid
	case x < 95:
		return h.name, k + "x", sid
	case x < 98: // the key in another letter case (keys are uuids: hexadecimal digits)
		return h.name, "UP:" + k, sid
	default:
		return h.name, "", sid
	}
}

func contains(xs []string, x string) bool {
	for _, y := range xs {
		if x == y {
			return true
		}
	}
	return false
}

func (g *Gen) addDeadline(d int64) { g.deadline = append(g.deadline, d) }

// Next produces the next operation.
func (g *Gen) Next() impl.Op {
	r := g.r
	if len(g.live) == 0 || (len(g.live) < 3 && r.Chance(12)) {
		g.nsess++
		s := "s" + strconv.Itoa(g.nsess)
		g.live = append(g.live, s)
		return impl.Op{Kind: "connect", Sid: s}
	}
	type choice struct {
		w int
		k string
	}
	cs := []choice{{30, "trylock"}, {g.p.Blocking, "lock"}, {22, "unlock"}, {max(g.p.RenewW, 10), "renew"}, {16, "adv"}, {max(g.p.Disc, 4), "disconnect"},
		{g.p.Restart, "restart"}, {g.p.Gc, "gc"}, {g.p.Ipc, "ipcunlock"}, {g.p.NoSessionReq, "nosession"}}
	if len(g.pending) > 0 {
		cs = append(cs, choice{3, "cancel"})
	}
	tot := 0
	for _, c := range cs {
		tot += c.w
	}
	x := r.Intn(tot)
	kind := ""
	for _, c := range cs {
		if x < c.w {
			kind = c.k
			break
		}
		x -= c.w
	}
	switch kind {
	case "trylock":
		n := g.name()
		return impl.Op{Kind: "trylock", Sid: g.sid(), Name: n, Size: g.size(n), Lt: g.lt()}
	case "nosession":
		n := g.name()
		if r.Chance(50) {
			return impl.Op{Kind: "trylock", Sid: "-", Name: n, Size: g.size(n), Lt: g.lt()}
		}
		return impl.Op{Kind: "lock", Sid: "-", Name: n, Size: g.size(n), Lt: g.lt(), Wt: p32(1)}
	case "lock":
		n := g.name()
		wt := common.Pick(r, []*int32{nil, p32(0), p32(1), p32(2), p32(3), p32(3)})
		if r.Chance(g.p.Invalid / 2) {
			wt = p32(-1)
		}
		return impl.Op{Kind: "lock", Sid: g.sid(), Name: n, Size: g.size(n), Lt: g.lt(), Wt: wt}
	case "unlock":
		n, k, s := g.keyFor()
		return impl.Op{Kind: "unlock", Sid: s, Name: n, Key: k}
	case "ipcunlock":
		n, k, _ := g.keyFor()
		if r.Chance(50) {
			k = ""
		}
		return impl.Op{Kind: "ipcunlock", Name: n, Key: k}
	case "renew":
		n, k, _ := g.keyFor()
		t := common.Pick(r, []int32{1, 2, 2, 3, 5})
		if g.p.LeaseFocus {
			t = common.Pick(r, []int32{1, 1, 2, 3, 5, 8})
		}
		if r.Chance(g.p.Invalid) {
			t = common.Pick(r, []int32{0, -1, -2147483648})
		}
		rs := "-"
		if len(g.live) > 0 && r.Chance(70) {
			rs = common.Pick(r, g.live) // any connected session, the holder's or another one
		}
		return impl.Op{Kind: "renew", Sid: rs, Name: n, Key: k, T: t}
	case "adv":
		return impl.Op{Kind: "adv", D: g.advance()}
	case "disconnect":
		i := r.Intn(len(g.live))
		s := g.live[i]
		g.live = append(g.live[:i:i], g.live[i+1:]...)
		return impl.Op{Kind: "disconnect", Sid: s}
	case "restart":
		g.live = nil
		if g.p.InjectFile > 0 && g.cfg.File && len(g.grants) > 0 && r.Chance(g.p.InjectFile) {
			// a crash image that lists more than was acknowledged: a second entry for a lock some session
			// holds (over capacity when the lock is full, or with another size), followed by an entry for a
			// fresh name, both appended to that session's list
			gi := g.grants[len(g.grants)-1-r.Intn(min(len(g.grants), 3))]
			size := int32(1)
			if p := g.sizeOf[gi.name]; p != nil && *p > 0 {
				size = *p
			}
			if r.Chance(15) {
				size++
			}
			g.ninj++
			ex := []impl.ExtraHold{{Name: gi.name, Key: fmt.Sprintf("xk%d", g.ninj), Size: size}}
			if r.Chance(70) {
				ex = append(ex, impl.ExtraHold{Name: fmt.Sprintf("inj%d", g.ninj), Key: fmt.Sprintf("xy%d", g.ninj), Size: 1})
			}
			if r.Chance(30) {
				ex = append(ex, impl.ExtraHold{Name: gi.name, Key: fmt.Sprintf("xz%d", g.ninj), Size: size})
			}
			return impl.Op{Kind: "restartwith", Sid: gi.sid, Extra: ex}
		}
		return impl.Op{Kind: "restart"}
	case "gc":
		return impl.Op{Kind: "gc", D: int64(common.Pick(r, []time.Duration{0, 1, time.Second, 2 * time.Second, 5 * time.Minute}))}
	case "cancel":
		return impl.Op{Kind: "cancel", Req: common.Pick(r, g.pending)}
	}
	return impl.Op{Kind: "adv", D: 1}
}

// advance picks a step that lands just before, exactly at or just after the nearest deadline the
// client knows about (lease, wait time-out, GC tick), or a plain amount.
func (g *Gen) advance() int64 {
	r := g.r
	var next int64 = -1
	for _, d := range g.deadline {
		if d > g.now && (next < 0 || d < next) {
			next = d
		}
	}
	if next > 0 && r.Chance(75) {
		switch r.Intn(4) {
		case 0:
			if next-1 > g.now {
				return next - 1 - g.now
			}
		case 1:
			return next - g.now
		case 2:
			return next + 1 - g.now
		default:
			return next + int64(r.Intn(3))*int64(time.Second) - g.now
		}
	}
	if len(g.pending) > 0 && r.Chance(15) {
		// a long wait while calls are blocked: anything the server does to a request that has waited "too long"
		// (10 s, 30 s, a minute are the usual thresholds) happens inside such a step
		return common.Pick(r, []int64{10 * int64(time.Second), 10*int64(time.Second) + 1, 12 * int64(time.Second), 31 * int64(time.Second), 61 * int64(time.Second)})
	}
	return common.Pick(r, []int64{1, int64(time.Second), int64(time.Second) - 1, 2 * int64(time.Second), 3*int64(time.Second) + 1, int64(r.Intn(4000000000)) + 1})
}

// Observe feeds back what the operation answered (client-visible only) and the new time.
func (g *Gen) Observe(o impl.Op, resp impl.Resp, now int64) {
	switch o.Kind {
	case "trylock", "lock":
		req := g.nreq
		g.nreq++
		if resp.Ok {
			g.grants = append(g.grants, holdInfo{req: req, name: o.Name, sid: o.Sid})
			if o.Lt != nil && *o.Lt > 0 {
				g.addDeadline(g.now + int64(*o.Lt)*int64(time.Second))
			}
		}
		if resp.Pending {
			g.pending = append(g.pending, req)
			g.reqInfo[req] = holdInfo{req: req, name: o.Name, sid: o.Sid}
			g.reqLt[req] = o.Lt
			if o.Wt != nil && *o.Wt > 0 {
				g.addDeadline(g.now + int64(*o.Wt)*int64(time.Second))
			}
		}
	case "renew":
		if resp.Ok {
			g.addDeadline(g.now + int64(o.T)*int64(time.Second))
		}
	case "restart", "restartwith":
		g.addDeadline(g.now + int64(g.cfg.Dlt))
		g.pending = nil
	}
	// completions of blocked calls
	for _, e := range resp.Events {
		f := strings.SplitN(e, ":", 4)
		req, _ := strconv.Atoi(f[0])
		for i, p := range g.pending {
			if p == req {
				g.pending = append(g.pending[:i:i], g.pending[i+1:]...)
				break
			}
		}
		if f[1] == "1" {
			g.grants = append(g.grants, g.reqInfo[req])
			if lt := g.reqLt[req]; lt != nil && *lt > 0 {
				g.addDeadline(now + int64(*lt)*int64(time.Second))
			}
		}
	}
	g.now = now
}
