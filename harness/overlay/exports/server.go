// Added to package server through `go test -overlay` by /verif (guard "verif"); never part of /repo.
package server

import (
	"github.com/imoore76/ldlm/lock"
	cl "github.com/imoore76/ldlm/server/clientlock"
	"github.com/imoore76/ldlm/timermap"
)

func (l *LockServer) VerifManager() *lock.Manager {
	m, _ := l.lockMgr.(*lock.Manager)
	return m
}

func (l *LockServer) VerifSessionLocks() map[string][]cl.Lock { return l.sessionMgr.Locks() }

func (l *LockServer) VerifTimerKeys() []string {
	tm, ok := l.lockTimerMgr.(*timermap.TimerMap)
	if !ok {
		return nil
	}
	return tm.VerifKeys()
}
