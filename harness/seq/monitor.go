package seq

import (
	"fmt"
	"sort"
	"strings"

	"verif/harness/common"
	"verif/harness/impl"
)

// Monitors are direct predicates on the implementation's trace; they do not consult the model.
// A monitor hit is a property violation with the history prefix as its replay.

func viol(res *common.Result, prop, sig, what string, h *History, at int, extra map[string]any) {
	rp := replay(h, at, "monitor")
	for k, v := range extra {
		rp[k] = v
	}
	// the model agrees iff it has not already been found to differ at or before this step
	rp["model_agrees"] = h.DisAt < 0 || h.DisAt > at
	res.Find(common.Finding{Kind: "violation", Property: prop, Signature: sig, What: what, Replay: rp})
}

func holdsOfListing(v *impl.View) []string {
	out := []string{}
	for _, hs := range v.Listing {
		out = append(out, hs...)
	}
	sort.Strings(out)
	return out
}

func holdsOfTable(v *impl.View) []string {
	out := []string{}
	for name, l := range v.Table {
		for _, k := range l.Keys {
			out = append(out, fmt.Sprintf("%s/%s/%d", impl.Tok(name), k, l.Size))
		}
	}
	sort.Strings(out)
	return out
}

func nonEmpty(m map[string][]string) string {
	parts := []string{}
	for s, hs := range m {
		if len(hs) > 0 {
			parts = append(parts, s+":"+strings.Join(hs, ","))
		}
	}
	sort.Strings(parts)
	return strings.Join(parts, ";")
}

func isRequest(k string) bool {
	return k == "trylock" || k == "lock" || k == "unlock" || k == "renew" || k == "ipcunlock"
}

func monitor(prop string, h *History, res *common.Result) {
	switch prop {
	case "C04":
		leaseMonitor(prop, h, res)
	case "C03":
		waitMonitor(prop, h, res)
	case "C10":
		restartMonitor(prop, h, res)
	case "C12":
		paramMonitor(prop, h, res)
		leaseMonitor(prop, h, res) // "an absent or zero lock timeout means none", by the same plain arithmetic as C04
	case "C13":
		gcIdleMonitor(prop, h, res)
		gcKeepsMonitor(prop, h, res)
	case "C07":
		gcKeepsMonitor(prop, h, res)
	case "C06":
		sessionEndSeqMonitor(prop, h, res)
	case "C08":
		leaseMonitor(prop, h, res) // only seq:views:unlisted-hold-outlives-lease (see lv)
	}
	if (prop == "C10" || prop == "C09") && h.EmptyStart != "-" && h.EmptyStart != "" {
		viol(res, prop, "seq:restart:empty-file-start-failed", "start-up fails on a zero-length state file - the image a kill between Truncate(0) and Write of a state-file rewrite leaves behind, i.e. a file the server itself produced: "+h.EmptyStart, h, len(h.Steps)-1, nil)
	}
	noclearDisc := false
	ownerOf, reqSid, nreqM := map[string]string{}, map[int]string{}, 0 // key token -> session the hold was granted to
	for i := range h.Steps {
		s := &h.Steps[i]
		if s.Op.Kind == "trylock" || s.Op.Kind == "lock" {
			reqSid[nreqM] = s.Op.Sid
			if s.Resp.Ok {
				ownerOf[keyTokOfReq(nreqM)] = s.Op.Sid
			}
			nreqM++
		}
		for _, e := range s.Resp.Events {
			if f := strings.SplitN(e, ":", 4); len(f) > 1 && f[1] == "1" {
				var req int
				fmt.Sscanf(f[0], "%d", &req)
				ownerOf[keyTokOfReq(req)] = reqSid[req]
			}
		}
		if strings.HasPrefix(s.Impl, "panic ") {
			viol(res, prop, "seq:panic:"+s.Op.Kind, "the server panicked in "+s.Op.Kind+": "+s.Resp.Panic, h, i, nil)
			return
		}
		if strings.HasPrefix(s.Impl, "start-failed ") {
			if prop == "C10" || prop == "C09" {
				viol(res, prop, "seq:restart-failed", "server.New failed on a state file the server itself wrote: "+s.Impl, h, i, nil)
			}
			return
		}
		if h.TieAt >= 0 && i >= h.TieAt {
			return
		}
		if s.Op.Kind == "disconnect" && h.Cfg.NoClear {
			noclearDisc = true
		}
		if s.Op.Kind == "restart" || s.Op.Kind == "restartwith" {
			noclearDisc = false
		}
		v := &s.View
		switch prop {
		case "C01":
			for name, l := range v.Table {
				if int64(len(l.Keys)) > int64(l.Size) {
					viol(res, prop, "seq:capacity", fmt.Sprintf("lock %q of size %d has %d holders", name, l.Size, len(l.Keys)), h, i, nil)
					return
				}
			}
			// the same bound on what the server reports as live holds (granted or restored, not ended)
			perName := map[string]int{}
			for _, e := range holdsOfListing(v) {
				perName[strings.SplitN(e, "/", 2)[0]]++
			}
			for nt, cnt := range perName {
				if l, ok := v.Table[impl.UnTok(nt)]; ok && int64(cnt) > int64(l.Size) {
					viol(res, prop, "seq:capacity:listed", fmt.Sprintf("lock %s of size %d has %d live holds in the server's listing: {%s}", nt, l.Size, cnt, strings.Join(holdsOfListing(v), " ")), h, i, nil)
					return
				}
			}
		case "C07":
			failed := isRequest(s.Op.Kind) && s.Resp.Err != "-" && s.Resp.Err != ""
			if failed && s.Before != nil {
				b := s.Before
				for _, c := range [][3]string{{"listing", b.L, v.L}, {"table", stripLa(b.T), stripLa(v.T)}, {"file", nonEmpty(b.File), nonEmpty(v.File)}, {"timers", b.TM, v.TM}, {"waiters", b.P, v.P}} {
					if c[1] != c[2] {
						viol(res, prop, "seq:inert:"+c[0], fmt.Sprintf("%q failed with %s but changed the %s: %q → %q", s.Op.Line(), s.Resp.Err, c[0], c[1], c[2]), h, i, nil)
						return
					}
				}
			}
			// a failing Renew does not even restart a lock's idle period (a failing Unlock with a wrong key on an
			// existing lock is an access and may; Renew never looks at the lock table): it cannot postpone a collection
			if failed && s.Before != nil && s.Op.Kind == "renew" && s.Before.T != v.T {
				viol(res, prop, "seq:inert:idle-clock", fmt.Sprintf("%q failed with %s but restarted the idle period of a lock (lock table with last-access times: %q → %q): the failing request postpones the collection of that lock", s.Op.Line(), s.Resp.Err, s.Before.T, v.T), h, i, nil)
				return
			}
			// a successful Unlock / Renew / admin unlock leaves every OTHER hold's bookkeeping entry alone
			if (s.Op.Kind == "unlock" || s.Op.Kind == "renew" || s.Op.Kind == "ipcunlock") && s.Resp.Ok && s.Before != nil {
				k := s.Op.Key
				if k == "" {
					k = s.Op.Chosen
				}
				self := fmt.Sprintf("%s/%s/", impl.Tok(s.Op.Name), impl.Tok(k))
				after := map[string]bool{}
				for _, e := range holdsOfListing(v) {
					after[e] = true
				}
				for _, e := range holdsOfListing(s.Before) {
					if !after[e] && !strings.HasPrefix(e, self) {
						viol(res, prop, "seq:crosstalk:"+s.Op.Kind+"-removed-other-hold", fmt.Sprintf("%q removed the bookkeeping entry %s of a different hold", s.Op.Line(), e), h, i, nil)
						return
					}
				}
				if s.Op.Kind == "renew" && (s.Before.L != v.L || stripLa(s.Before.T) != stripLa(v.T)) {
					viol(res, prop, "seq:crosstalk:renew-changed-state", fmt.Sprintf("%q changed the listing or the lock table", s.Op.Line()), h, i, nil)
					return
				}
			}
			// a successful Renew / Unlock must address a hold that exists under exactly that (name, key)
			if (s.Op.Kind == "renew" || s.Op.Kind == "unlock") && s.Resp.Ok && s.Before != nil {
				l, ok := s.Before.Table[s.Op.Name]
				if !ok || !contains(l.Keys, impl.Tok(s.Op.Key)) {
					viol(res, prop, "seq:crosstalk:"+s.Op.Kind, fmt.Sprintf("%q succeeded although lock %q has no hold with that key", s.Op.Line(), s.Op.Name), h, i, nil)
					return
				}
			}
		case "C04":
			// after expiry (or any other end) the key is dead: a Renew / Unlock that reports success must
			// address a hold that exists under exactly that (name, key)
			if (s.Op.Kind == "renew" || s.Op.Kind == "unlock") && s.Resp.Ok && s.Before != nil {
				l, ok := s.Before.Table[s.Op.Name]
				if !ok || !contains(l.Keys, impl.Tok(s.Op.Key)) {
					viol(res, prop, "seq:lease:dead-key-accepted", fmt.Sprintf("%q succeeded although lock %q has no live hold with that key", s.Op.Line(), s.Op.Name), h, i, nil)
					return
				}
			}
		case "C14":
			if isRequest(s.Op.Kind) && s.Resp.Ok && s.Resp.Err != "-" && s.Resp.Err != "" {
				viol(res, prop, "seq:code:success-with-error", fmt.Sprintf("%q reports success (locked/unlocked = true) together with the error %s", s.Op.Line(), s.Resp.Err), h, i, nil)
				return
			}
		case "C09":
			// a kill at a quiescent point = the file as it is now: it must load and must record exactly the
			// acknowledged live holds (sequential: nothing is in flight)
			if h.Cfg.File {
				if v.FileErr != "" {
					viol(res, prop, "seq:crash:file-unloadable", fmt.Sprintf("after %q the state file cannot be loaded: %s", s.Op.Line(), v.FileErr), h, i, nil)
					return
				}
				if a, b := nonEmpty(v.Listing), nonEmpty(v.File); a != b && !noclearDisc {
					viol(res, prop, "seq:crash:file-vs-acknowledged", fmt.Sprintf("after %q a kill would leave a file recording {%s} while the acknowledged live holds are {%s}", s.Op.Line(), b, a), h, i, nil)
					return
				}
			}
		case "C18":
			if !noclearDisc {
				if lt, tt := strings.Join(holdsOfListing(v), " "), strings.Join(holdsOfTable(v), " "); lt != tt {
					viol(res, prop, "seq:ipc:listing-vs-holds", fmt.Sprintf("after %q the admin listing shows {%s} but the holds occupying capacity are {%s}", s.Op.Line(), lt, tt), h, i, nil)
					return
				}
			}
			// an admin unlock releases THAT hold (for a name alone: one hold of the name) and no other:
			// every other hold's bookkeeping entry and capacity stay
			if s.Op.Kind == "ipcunlock" && s.Resp.Ok && s.Before != nil {
				k := s.Op.Key
				if k == "" {
					k = s.Op.Chosen
				}
				self := fmt.Sprintf("%s/%s/", impl.Tok(s.Op.Name), impl.Tok(k))
				for _, pair := range [][2][]string{{holdsOfListing(s.Before), holdsOfListing(v)}, {holdsOfTable(s.Before), holdsOfTable(v)}} {
					after := map[string]bool{}
					for _, e := range pair[1] {
						after[e] = true
					}
					for _, e := range pair[0] {
						if !after[e] && !strings.HasPrefix(e, self) {
							viol(res, prop, "seq:ipc:unlock-released-other-hold", fmt.Sprintf("%q also released %s, a different hold (the admin unlock of a name, or of a name and key, releases one hold)", s.Op.Line(), e), h, i, nil)
							return
						}
					}
				}
			}
			// an admin unlock that reports success has the whole effect of the holder's own Unlock: the hold is
			// gone from the lock table, the listing, the state file and the lease timers
			if s.Op.Kind == "ipcunlock" && s.Resp.Ok {
				k := s.Op.Key
				if k == "" {
					k = s.Op.Chosen
				}
				if k != "" {
					kt, nt := impl.Tok(k), impl.Tok(s.Op.Name)
					left := ""
					if l, ok := v.Table[s.Op.Name]; ok && contains(l.Keys, kt) {
						left = "lock table"
					}
					for _, e := range holdsOfListing(v) {
						if strings.HasPrefix(e, nt+"/"+kt+"/") {
							left = "listing"
						}
					}
					if h.Cfg.File && v.FileErr == "" {
						for _, hs := range v.File {
							for _, e := range hs {
								if strings.HasPrefix(e, nt+"/"+kt+"/") {
									left = "state file"
								}
							}
						}
					}
					for _, tk := range strings.Split(v.TM, ";") {
						if tk != "" && strings.HasSuffix(tk, strings.TrimPrefix(kt, "=")) && strings.Contains(tk, strings.TrimPrefix(nt, "=")) {
							left = "lease timers"
						}
					}
					if left != "" {
						viol(res, prop, "seq:ipc:left-behind:"+strings.ReplaceAll(left, " ", "-"), fmt.Sprintf("%q reported success but hold %s/%s is still in the %s", s.Op.Line(), nt, kt, left), h, i, nil)
						return
					}
				}
			}
		case "C08":
			// K1 is about the holds OF the ending session under no-clear-on-disconnect. A hold that was
			// granted to (or restored for) another session and leaves the listing when this session ends
			// is a different disagreement of the views
			if s.Op.Kind == "disconnect" && h.Cfg.NoClear && s.Before != nil {
				after := map[string]bool{}
				for _, e := range holdsOfListing(v) {
					after[e] = true
				}
				for _, e := range holdsOfListing(s.Before) {
					f := strings.Split(e, "/")
					if owner, known := ownerOf[f[len(f)-2]]; !after[e] && len(f) >= 3 && known && owner != s.Op.Sid {
						viol(res, prop, "seq:views:noclear-disconnect-forgot-foreign-hold", fmt.Sprintf("with no-clear-on-disconnect %q removed hold %s from the admin listing although it was granted to session %q, not to the ending one; the lock table keeps it", s.Op.Line(), e, owner), h, i, nil)
						return
					}
				}
			}
			// the listing the admin tool shows (LockServer.Locks()) is the bookkeeping of the sessions, flattened
			if at, st := strings.Join(v.Admin, " "), strings.Join(holdsOfListing(v), " "); at != st {
				viol(res, prop, "seq:views:admin-listing-vs-bookkeeping", fmt.Sprintf("after %q LockServer.Locks() - what `ldlm-lock list` shows - is {%s} but the sessions' bookkeeping (and the state file written from it) is {%s}", s.Op.Line(), at, st), h, i, nil)
				return
			}
			sig := ""
			if noclearDisc {
				sig = ":noclear-disconnect"
			}
			lt, tt := strings.Join(holdsOfListing(v), " "), strings.Join(holdsOfTable(v), " ")
			if lt != tt {
				viol(res, prop, "seq:views:listing-vs-table"+sig, fmt.Sprintf("after %q the admin listing shows {%s} but the lock table holds {%s}", s.Op.Line(), lt, tt), h, i, nil)
				return
			}
			if h.Cfg.File {
				if v.FileErr != "" {
					viol(res, prop, "seq:views:file-unreadable", "the state file cannot be read back: "+v.FileErr, h, i, nil)
					return
				}
				if a, b := nonEmpty(v.Listing), nonEmpty(v.File); a != b {
					viol(res, prop, "seq:views:listing-vs-file"+sig, fmt.Sprintf("after %q the listing is {%s} but the state file records {%s}", s.Op.Line(), a, b), h, i, nil)
					return
				}
			}
		}
	}
}

func stripLa(t string) string { return channels("r | T=" + t)["T"] }


// ---------------------------------------------------------------- C04: leases, by plain arithmetic

type leaseRec struct {
	name     string
	sid      string
	deadline int64 // latest possible deadline; -1 = no lease
	dmin     int64 // earliest possible deadline (a grant inside an advance happened somewhere in that interval)
	ended    bool
}

func keyTokOfReq(req int) string { return impl.Tok(fmt.Sprintf("K%d", req)) }

// lv reports a lease finding, except for C08, which runs the lease arithmetic only to know which
// holds have outlived their lease (its own finding is reported with viol directly)
func lv(res *common.Result, prop, sig, what string, h *History, at int, extra map[string]any) {
	if prop != "C08" {
		viol(res, prop, sig, what, h, at, extra)
	}
}

func leaseMonitor(prop string, h *History, res *common.Result) {
	const sec = int64(1000000000)
	holds := map[string]*leaseRec{} // key token → record
	type reqInfo struct {
		name, sid string
		lt        *int32
	}
	reqs := map[int]reqInfo{}
	nreq := 0
	grant := func(req int, name, sid string, lt *int32, from, now int64) {
		d, dm := int64(-1), int64(-1)
		if lt != nil && *lt > 0 {
			d, dm = now+int64(*lt)*sec, from+int64(*lt)*sec
		}
		holds[keyTokOfReq(req)] = &leaseRec{name: name, sid: sid, deadline: d, dmin: dm}
	}
	prev := int64(0)
	for i := range h.Steps {
		s := &h.Steps[i]
		if h.TieAt >= 0 && i >= h.TieAt || strings.HasPrefix(s.Impl, "panic ") || strings.HasPrefix(s.Impl, "start-failed ") {
			return
		}
		now := s.Now
		switch s.Op.Kind {
		case "trylock", "lock":
			req := nreq
			nreq++
			reqs[req] = reqInfo{s.Op.Name, s.Op.Sid, s.Op.Lt}
			if s.Resp.Ok {
				grant(req, s.Op.Name, s.Op.Sid, s.Op.Lt, now, now)
			}
		case "unlock", "ipcunlock":
			k := s.Op.Key
			if k == "" {
				k = s.Op.Chosen
			}
			if r, ok := holds[impl.Tok(k)]; ok && s.Resp.Ok && r.name == s.Op.Name {
				if !r.ended && r.deadline >= 0 && now >= r.deadline {
					lv(res, prop, "seq:lease:dead-key-accepted", fmt.Sprintf("%q succeeded at %d although the lease of that hold ran out at %d", s.Op.Line(), now, r.deadline), h, i, nil)
					return
				}
				r.ended = true
			}
		case "renew":
			if r, ok := holds[impl.Tok(s.Op.Key)]; ok && s.Resp.Ok && r.name == s.Op.Name {
				if r.ended || r.deadline < 0 || now >= r.deadline {
					lv(res, prop, "seq:lease:dead-key-accepted", fmt.Sprintf("%q answered locked=true at %d for a hold that is ended=%v / lease deadline %d", s.Op.Line(), now, r.ended, r.deadline), h, i, nil)
					return
				}
				r.deadline = now + int64(s.Op.T)*sec
				r.dmin = r.deadline
			}
		case "disconnect":
			if !h.Cfg.NoClear {
				for _, r := range holds {
					if r.sid == s.Op.Sid {
						r.ended = true
					}
				}
			}
		case "restart", "restartwith":
			// what the new process restored is what its listing shows; all with the default lease
			for _, r := range holds {
				r.ended = true
			}
			for sid, hs := range s.View.Listing {
				for _, hd := range hs {
					f := strings.Split(hd, "/")
					holds[f[1]] = &leaseRec{name: impl.UnTok(f[0]), sid: sid, deadline: now + int64(h.Cfg.Dlt), dmin: now + int64(h.Cfg.Dlt)}
				}
			}
		}
		for _, e := range s.Resp.Events {
			f := strings.SplitN(e, ":", 4)
			if f[1] == "1" {
				var req int
				fmt.Sscanf(f[0], "%d", &req)
				ri := reqs[req]
				grant(req, ri.name, ri.sid, ri.lt, prev, now)
			}
		}
		prev = now
		for k, r := range holds {
			if r.ended {
				continue
			}
			l, ok := s.View.Table[r.name]
			in := ok && contains(l.Keys, k)
			switch {
			case r.deadline < 0 && !in:
				lv(res, prop, "seq:lease:unleased-hold-gone", fmt.Sprintf("hold %s of %q was taken without a lock timeout and nobody released it, yet it is gone at %d", k, r.name, now), h, i, nil)
				return
			case r.deadline >= 0 && now < r.dmin && !in:
				lv(res, prop, "seq:lease:early-release", fmt.Sprintf("hold %s of %q is gone at %d, before its lease deadline %d", k, r.name, now, r.deadline), h, i, nil)
				return
			case r.deadline >= 0 && now >= r.deadline && in && prop == "C08":
				// C08 runs this monitor for one thing only: a hold that outlives its lease while the listing
				// (and the file) no longer show it - an orphan of a no-clear session end that never leaves the
				// table - is a disagreement of the three views that K1 (orphans within their lease) does not cover
				if lt, tt := strings.Join(holdsOfListing(&s.View), " "), strings.Join(holdsOfTable(&s.View), " "); lt != tt {
					viol(res, prop, "seq:views:unlisted-hold-outlives-lease", fmt.Sprintf("hold %s of %q still occupies capacity at %d although its lease ran out at %d, and the listing does not show it: listing {%s}, lock table {%s}", k, r.name, now, r.deadline, lt, tt), h, i, nil)
					return
				}
				r.ended = true
			case r.deadline >= 0 && now >= r.deadline && in:
				lv(res, prop, "seq:lease:late-release", fmt.Sprintf("hold %s of %q is still held at %d although its lease ran out at %d", k, r.name, now, r.deadline), h, i, nil)
				return
			case r.deadline >= 0 && now >= r.deadline:
				r.ended = true
			}
		}
	}
}

// ---------------------------------------------------------------- C03: blocked calls

func waitMonitor(prop string, h *History, res *common.Result) {
	const sec = int64(1000000000)
	type pend struct {
		name  string
		sid   string
		start int64
		wt    *int32
		order int
	}
	pending := map[int]*pend{}
	nreq := 0
	for i := range h.Steps {
		s := &h.Steps[i]
		if h.TieAt >= 0 && i >= h.TieAt || strings.HasPrefix(s.Impl, "panic ") || strings.HasPrefix(s.Impl, "start-failed ") {
			return
		}
		if s.Op.Kind == "lock" && s.Resp.Err == "LockWaitTimeout" && !s.Resp.Pending {
			// answered at once with a wait time-out: zero time has passed
			if s.Op.Wt == nil || *s.Op.Wt <= 0 {
				viol(res, prop, "seq:wait:timeout-without-timeout", fmt.Sprintf("%q has no wait timeout (absent/0 = wait without limit) but returned LockWaitTimeout at once", s.Op.Line()), h, i, nil)
			} else {
				viol(res, prop, "seq:wait:early-timeout", fmt.Sprintf("%q returned LockWaitTimeout at once, before its wait timeout", s.Op.Line()), h, i, nil)
			}
			return
		}
		if s.Op.Kind == "trylock" || s.Op.Kind == "lock" {
			req := nreq
			nreq++
			if s.Resp.Pending {
				pending[req] = &pend{name: s.Op.Name, sid: s.Op.Sid, start: s.Now, wt: s.Op.Wt, order: req}
			}
		}
		granted := []int{}
		for _, e := range s.Resp.Events {
			f := strings.Split(e, ":")
			var req int
			fmt.Sscanf(f[0], "%d", &req)
			p := pending[req]
			if p == nil {
				continue
			}
			errName := f[len(f)-1]
			if errName == "LockWaitTimeout" && (s.Op.Kind == "restart" || s.Op.Kind == "restartwith" || s.Op.Kind == "cancel" || s.Op.Kind == "disconnect") {
				// no virtual time passes inside these operations: a wait timeout cannot fire in them unless the
				// harness had to let the clock run because the call ignored its cancellation
				viol(res, prop, "seq:wait:cancel-ignored", fmt.Sprintf("blocked request %d did not return when its caller went away during %q; it ended by its own wait timeout instead", req, s.Op.Line()), h, i, nil)
				return
			}
			if errName == "LockWaitTimeout" {
				if p.wt == nil || *p.wt <= 0 {
					viol(res, prop, "seq:wait:timeout-without-timeout", fmt.Sprintf("blocked request %d had no wait timeout but returned LockWaitTimeout", req), h, i, nil)
					return
				}
				if want := p.start + int64(*p.wt)*sec; s.Now != want && s.Op.Kind == "adv" && s.Now-s.Op.D < want {
					// the advance that completed it must have crossed exactly start+wt; it may overshoot, never undershoot
					if s.Now < want {
						viol(res, prop, "seq:wait:early-timeout", fmt.Sprintf("blocked request %d timed out at %d, before start+wait = %d", req, s.Now, want), h, i, nil)
						return
					}
				}
				if s.Now < p.start+int64(*p.wt)*sec {
					viol(res, prop, "seq:wait:early-timeout", fmt.Sprintf("blocked request %d timed out at %d, before start+wait = %d", req, s.Now, p.start+int64(*p.wt)*sec), h, i, nil)
					return
				}
			}
			if f[1] == "1" {
				granted = append(granted, req)
			}
			delete(pending, req)
		}
		// FIFO: a granted waiter must be older than every waiter of the same lock still blocked
		for _, g := range granted {
			_ = g
		}
		// prompt cancel: a blocked call whose caller went away (cancel of the request, end of its session)
		// returns within that operation
		if s.Op.Kind == "cancel" {
			if p, still := pending[s.Op.Req]; still {
				viol(res, prop, "seq:wait:cancel-ignored", fmt.Sprintf("blocked request %d on %q was cancelled by its caller but is still waiting afterwards (it must return promptly and must not be granted the lock later)", s.Op.Req, p.name), h, i, nil)
				return
			}
		}
		if s.Op.Kind == "disconnect" {
			for req, p := range pending {
				if p.sid == s.Op.Sid {
					viol(res, prop, "seq:wait:cancel-ignored", fmt.Sprintf("blocked request %d on %q is still waiting after its session %s ended", req, p.name, s.Op.Sid), h, i, nil)
					return
				}
			}
		}
		for _, e := range s.Resp.Events {
			f := strings.Split(e, ":")
			if f[1] != "1" {
				continue
			}
			var req int
			fmt.Sscanf(f[0], "%d", &req)
			for r2, p2 := range pending {
				if r2 < req && nameOfReq(h, req) == p2.name {
					viol(res, prop, "seq:wait:fifo", fmt.Sprintf("blocked request %d was granted %q while the older request %d is still waiting for it", req, p2.name, r2), h, i, nil)
					return
				}
			}
		}
		// promptness: a waiter with a deadline that has passed must have returned; a lock with free units has no waiter
		for req, p := range pending {
			if p.wt != nil && *p.wt > 0 && s.Now >= p.start+int64(*p.wt)*sec {
				viol(res, prop, "seq:wait:late-timeout", fmt.Sprintf("blocked request %d is still waiting at %d although start+wait = %d has passed", req, s.Now, p.start+int64(*p.wt)*sec), h, i, nil)
				return
			}
			if l, ok := s.View.Table[p.name]; ok && int64(len(l.Keys)) < int64(l.Size) {
				viol(res, prop, "seq:wait:lost-wakeup", fmt.Sprintf("blocked request %d waits for %q although only %d of %d units are taken", req, p.name, len(l.Keys), l.Size), h, i, nil)
				return
			}
		}
		if s.Op.Kind == "restart" || s.Op.Kind == "restartwith" {
			pending = map[int]*pend{}
		}
	}
}

func nameOfReq(h *History, req int) string {
	n := 0
	for _, s := range h.Steps {
		if s.Op.Kind == "trylock" || s.Op.Kind == "lock" {
			if n == req {
				return s.Op.Name
			}
			n++
		}
	}
	return ""
}

// ---------------------------------------------------------------- C10: restart

func restartMonitor(prop string, h *History, res *common.Result) {
	restoredAt := map[string]int64{} // "name/key" restored by the latest restart and not touched since -> restart instant
	ended := map[string]bool{} // "name/key" that ended at some point (never to come back)
	fresh := map[string]bool{} // sessions connected after the latest restart: they own no restored hold
	for i := range h.Steps {
		s := &h.Steps[i]
		if h.TieAt >= 0 && i >= h.TieAt || strings.HasPrefix(s.Impl, "panic ") || strings.HasPrefix(s.Impl, "start-failed ") {
			return
		}
		switch s.Op.Kind {
		case "restart", "restartwith":
			fresh = map[string]bool{}
		case "connect":
			fresh[s.Op.Sid] = true
		}
		if s.Before != nil {
			// anything held before this step and not held after it has ended
			after := map[string]bool{}
			for n, l := range s.View.Table {
				for _, k := range l.Keys {
					after[impl.Tok(n)+"/"+k] = true
				}
			}
			if s.Op.Kind != "restart" && s.Op.Kind != "restartwith" {
				for n, l := range s.Before.Table {
					for _, k := range l.Keys {
						if !after[impl.Tok(n)+"/"+k] {
							ended[impl.Tok(n)+"/"+k] = true
						}
					}
				}
			}
			// restored holds: the original key works from any session, and without a Renew the hold lasts
			// exactly the default lock timeout
			nk0 := impl.Tok(s.Op.Name) + "/" + impl.Tok(s.Op.Key)
			if t0, ok := restoredAt[nk0]; ok && (s.Op.Kind == "unlock" || s.Op.Kind == "renew" && s.Op.T > 0) {
				beforeHas := false
				if l, ok2 := s.Before.Table[s.Op.Name]; ok2 && contains(l.Keys, impl.Tok(s.Op.Key)) {
					beforeHas = true
				}
				if beforeHas && !s.Resp.Ok {
					viol(res, prop, "seq:restart:original-key-refused", fmt.Sprintf("%q on the restored hold %s (restored at %d) was refused with %s although the hold is live", s.Op.Line(), nk0, t0, s.Resp.Err), h, i, nil)
					return
				}
				delete(restoredAt, nk0) // its lease is no longer the default one
			}
			for nk, t0 := range restoredAt {
				switch {
				case !after[nk] && s.Now < t0+int64(h.Cfg.Dlt):
					if s.Op.Kind == "disconnect" && fresh[s.Op.Sid] {
						viol(res, prop, "seq:restart:restored-hold-ended-by-stranger", fmt.Sprintf("restored hold %s (restart at %d) is gone after %q: the end of a session that connected after the restart and never held it", nk, t0, s.Op.Line()), h, i, nil)
						return
					}
					if s.Op.Kind == "unlock" || s.Op.Kind == "ipcunlock" || s.Op.Kind == "restart" || s.Op.Kind == "restartwith" || s.Op.Kind == "disconnect" {
						delete(restoredAt, nk)
						continue
					}
					viol(res, prop, "seq:restart:restored-hold-early-end", fmt.Sprintf("restored hold %s (restart at %d, default lock timeout %d) is gone at %d after %q, before its default lease ran out", nk, t0, int64(h.Cfg.Dlt), s.Now, s.Op.Line()), h, i, nil)
					return
				case after[nk] && s.Now >= t0+int64(h.Cfg.Dlt) && s.Op.Kind == "adv":
					viol(res, prop, "seq:restart:restored-hold-outlives-default-lease", fmt.Sprintf("restored hold %s (restart at %d, default lock timeout %d) still occupies capacity at %d", nk, t0, int64(h.Cfg.Dlt), s.Now), h, i, nil)
					return
				case !after[nk]:
					delete(restoredAt, nk)
				}
			}
			if s.Op.Kind == "restart" || s.Op.Kind == "restartwith" {
				restoredAt = map[string]int64{}
				for nk := range after {
					restoredAt[nk] = s.Now
				}
			}
			for nk := range after {
				if ended[nk] {
					viol(res, prop, "seq:restart:ended-hold-returned", fmt.Sprintf("hold %s had ended, but after %q it occupies capacity again", nk, s.Op.Line()), h, i, nil)
					return
				}
			}
			if (s.Op.Kind == "restart" || s.Op.Kind == "restartwith") && h.Cfg.File {
				// after a start-up, also from a file that lists more holds than fit: what is listed is what
				// occupies capacity (an entry that could not be re-locked is dropped from the bookkeeping)
				if lt, tt := strings.Join(holdsOfListing(&s.View), " "), strings.Join(holdsOfTable(&s.View), " "); lt != tt {
					viol(res, prop, "seq:restart:listing-vs-holds", fmt.Sprintf("after %q the listing shows {%s} but the holds occupying capacity are {%s}", s.Op.Line(), lt, tt), h, i, nil)
					return
				}
				for n, l := range s.View.Table {
					if int64(len(l.Keys)) > int64(l.Size) {
						viol(res, prop, "seq:restart:over-capacity", fmt.Sprintf("after %q lock %q of size %d has %d holders", s.Op.Line(), n, l.Size, len(l.Keys)), h, i, nil)
						return
					}
				}
			}
			if s.Op.Kind == "restart" && h.Cfg.File {
				// every hold recorded in the file before the restart occupies capacity afterwards (sequential: no conflicts)
				for _, hs := range s.Before.File {
					for _, hd := range hs {
						f := strings.Split(hd, "/")
						if !after[f[0]+"/"+f[1]] {
							viol(res, prop, "seq:restart:hold-not-restored", fmt.Sprintf("hold %s was in the state file but does not occupy capacity after the restart", hd), h, i, nil)
							return
						}
					}
				}
				if len(s.View.TM) == 0 && len(after) > 0 {
					viol(res, prop, "seq:restart:no-default-lease", "restored holds have no lease timer", h, i, nil)
					return
				}
			}
		}
	}
}


// ---------------------------------------------------------------- C12: the rules, stated directly

// paramMonitor re-states the parameter rules of the property as a table and checks every request's
// answer against it, given only the lock table before the request (size of an existing lock).
func paramMonitor(prop string, h *History, res *common.Result) {
	for i := range h.Steps {
		s := &h.Steps[i]
		if h.TieAt >= 0 && i >= h.TieAt || strings.HasPrefix(s.Impl, "panic ") || strings.HasPrefix(s.Impl, "start-failed ") {
			return
		}
		want := ""
		switch s.Op.Kind {
		case "trylock", "lock":
			size := int32(1)
			if s.Op.Size != nil {
				size = *s.Op.Size
			}
			switch {
			case s.Op.Sid == "-":
				want = "SessionDoesNotExist"
			case s.Op.Lt != nil && *s.Op.Lt < 0:
				want = "InvalidLockTimeout"
			case s.Op.Kind == "lock" && s.Op.Wt != nil && *s.Op.Wt < 0:
				want = "InvalidWaitTimeout"
			case s.Op.Name == "":
				want = "EmptyName"
			case size <= 0:
				want = "InvalidLockSize"
			default:
				if l, ok := s.Before.Table[s.Op.Name]; ok && l.Size != size {
					want = "LockSizeMismatch"
				} else {
					want = "-"
				}
			}
			if s.Resp.Err != want {
				viol(res, prop, "seq:param:"+s.Op.Kind+":"+want, fmt.Sprintf("%q must answer %s by the parameter rules (existing lock sizes: %v) but answered %s", s.Op.Line(), want, sizesOf(s.Before), s.Resp.Err), h, i, nil)
				return
			}
			if want == "-" && !s.Resp.Ok && !s.Resp.Pending {
				// refused without error: only legitimate when the lock is full
				if l, ok := s.Before.Table[s.Op.Name]; !ok || int64(len(l.Keys)) < int64(l.Size) {
					viol(res, prop, "seq:param:refused-with-free-capacity", fmt.Sprintf("%q was refused although the lock has free capacity", s.Op.Line()), h, i, nil)
					return
				}
			}
			if want == "-" && (s.Resp.Ok || s.Resp.Pending) {
				if l, ok := s.View.Table[s.Op.Name]; ok && l.Size != size {
					viol(res, prop, "seq:param:wrong-size-recorded", fmt.Sprintf("%q created/used a lock of size %d", s.Op.Line(), l.Size), h, i, nil)
					return
				}
				// an absent or zero lock timeout arms no lease
				if s.Resp.Ok && (s.Op.Lt == nil || *s.Op.Lt == 0) && strings.Contains(s.View.TM, impl.Tok(s.Resp.Key)[1:]) {
					viol(res, prop, "seq:param:lease-without-timeout", fmt.Sprintf("%q armed a lease although no lock timeout was requested", s.Op.Line()), h, i, nil)
					return
				}
			}
		case "renew":
			if s.Op.T <= 0 && s.Resp.Err != "InvalidLockTimeout" {
				viol(res, prop, "seq:param:renew:InvalidLockTimeout", fmt.Sprintf("%q must be refused with InvalidLockTimeout but answered %s", s.Op.Line(), s.Resp.Err), h, i, nil)
				return
			}
		}
	}
}

func sizesOf(v *impl.View) map[string]int32 {
	m := map[string]int32{}
	if v != nil {
		for n, l := range v.Table {
			m[n] = l.Size
		}
	}
	return m
}

// ---------------------------------------------------------------- C13: collected only after the minimum idle time

// gcIdleMonitor: a lock object may disappear from the table only when no client request has touched
// it for more than the minimum idle time. Counted as touching (a subset of what the code counts, so
// the rule can only be too lenient): a Lock/TryLock on the name that got past parameter validation
// and was not refused for its size, and an Unlock / admin unlock naming a lock that exists.
func gcIdleMonitor(prop string, h *History, res *common.Result) {
	last := map[string]int64{}
	for i := range h.Steps {
		s := &h.Steps[i]
		if h.TieAt >= 0 && i >= h.TieAt || strings.HasPrefix(s.Impl, "panic ") || strings.HasPrefix(s.Impl, "start-failed ") {
			return
		}
		if s.Op.Kind == "restart" || s.Op.Kind == "restartwith" {
			last = map[string]int64{}
			continue
		}
		if s.Before != nil {
			for name := range s.Before.Table {
				if _, still := s.View.Table[name]; still {
					continue
				}
				minIdle := int64(h.Cfg.GcIdle)
				if s.Op.Kind == "gc" { // an explicit pass carries its own minimum idle time
					minIdle = s.Op.D
				}
				if t, ok := last[name]; ok && s.Now-t <= minIdle {
					viol(res, prop, "seq:gc:collected-before-min-idle", fmt.Sprintf("lock %q was collected during %q at or before %d ns although a request touched it at %d ns: idle for at most %d ns, minimum idle time %d ns", name, s.Op.Line(), s.Now, t, s.Now-t, minIdle), h, i, nil)
					return
				}
			}
		}
		switch s.Op.Kind {
		case "trylock", "lock":
			switch s.Resp.Err {
			case "-", "LockWaitTimeout", "Canceled":
				if s.Op.Name != "" {
					last[s.Op.Name] = s.Now
				}
			}
		case "unlock", "ipcunlock":
			if s.Before != nil {
				if _, ok := s.Before.Table[s.Op.Name]; ok {
					last[s.Op.Name] = s.Now
				}
			}
		}
	}
}

// gcKeepsMonitor: the converse of gcIdleMonitor. With nothing in flight, an explicit collection pass
// removes every lock that has no holder, no waiter and has been idle for longer than the pass's
// minimum idle time (the collector's own rule, read from the real idle clocks). A record that survives
// is pinned by a reference some earlier request left behind; if that request FAILED this is C07's
// "a failed request leaves no trace", otherwise it is reported for C13 only.
func gcKeepsMonitor(prop string, h *History, res *common.Result) {
	failedOn := map[string]string{}
	for i := range h.Steps {
		s := &h.Steps[i]
		if h.TieAt >= 0 && i >= h.TieAt || strings.HasPrefix(s.Impl, "panic ") || strings.HasPrefix(s.Impl, "start-failed ") {
			return
		}
		if s.Op.Kind == "restart" || s.Op.Kind == "restartwith" {
			failedOn = map[string]string{}
			continue
		}
		if isRequest(s.Op.Kind) && s.Resp.Err != "-" && s.Resp.Err != "" && s.Op.Name != "" {
			failedOn[s.Op.Name] = s.Op.Line() + " (" + s.Resp.Err + ")"
		}
		if s.Op.Kind != "gc" {
			continue
		}
		for name, l := range s.View.Table {
			if len(l.Keys) != 0 || s.Now-l.La <= s.Op.D || strings.Contains(s.View.P, impl.Tok(name)) {
				continue
			}
			if f, ok := failedOn[name]; ok {
				viol(res, prop, "seq:inert:gc-reference-left", fmt.Sprintf("lock %q has no holder and no waiter and has been idle for %d ns, yet the collection pass %q (minimum idle %d ns) kept it: a request left a reference behind; the last failed request on that name was %s", name, s.Now-l.La, s.Op.Line(), s.Op.D, f), h, i, nil)
				return
			}
			if prop == "C13" {
				viol(res, prop, "seq:gc:idle-record-kept", fmt.Sprintf("lock %q has no holder and no waiter and has been idle for %d ns, yet the collection pass %q (minimum idle %d ns) kept it", name, s.Now-l.La, s.Op.Line(), s.Op.D), h, i, nil)
				return
			}
		}
		_ = i
	}
}

// ---------------------------------------------------------------- C06: session end, sequentially

// sessionEndSeqMonitor: a session end with nothing in flight. With clearing, exactly the holds listed
// for that session leave the lock table and lose their lease timers, every other hold and timer stays.
// With no-clear-on-disconnect every hold and every lease timer stays as it was.
func sessionEndSeqMonitor(prop string, h *History, res *common.Result) {
	for i := range h.Steps {
		s := &h.Steps[i]
		if h.TieAt >= 0 && i >= h.TieAt || strings.HasPrefix(s.Impl, "panic ") || strings.HasPrefix(s.Impl, "start-failed ") {
			return
		}
		if s.Op.Kind != "disconnect" || s.Before == nil {
			continue
		}
		b, v := s.Before, &s.View
		mine := map[string]bool{} // "name/key" of the ending session's holds
		for _, e := range b.Listing[s.Op.Sid] {
			f := strings.Split(e, "/")
			mine[f[0]+"/"+f[1]] = true
		}
		tableSet := func(w *impl.View) map[string]bool {
			m := map[string]bool{}
			for n, l := range w.Table {
				for _, k := range l.Keys {
					m[impl.Tok(n)+"/"+k] = true
				}
			}
			return m
		}
		before, after := tableSet(b), tableSet(v)
		if h.Cfg.NoClear {
			for e := range before {
				if !after[e] {
					viol(res, prop, "seq:session-end:noclear:hold-released", fmt.Sprintf("with no-clear-on-disconnect %q released hold %s", s.Op.Line(), e), h, i, nil)
					return
				}
			}
			if b.TM != v.TM {
				viol(res, prop, "seq:session-end:noclear:lease-changed", fmt.Sprintf("with no-clear-on-disconnect %q changed the lease timers: %q -> %q (the holds must stay until unlocked by key or lease expiry)", s.Op.Line(), b.TM, v.TM), h, i, nil)
				return
			}
			continue
		}
		// a unit freed by the session end may be handed to a blocked call of another session at once:
		// compare holds that existed before
		for e := range before {
			switch {
			case mine[e] && after[e]:
				viol(res, prop, "seq:session-end:hold-left", fmt.Sprintf("after %q hold %s of the ended session still occupies the lock", s.Op.Line(), e), h, i, nil)
				return
			case !mine[e] && !after[e]:
				viol(res, prop, "seq:session-end:other-hold-released", fmt.Sprintf("%q released hold %s, which the ended session did not own", s.Op.Line(), e), h, i, nil)
				return
			}
		}
		for _, tk := range strings.Split(b.TM, ";") {
			if tk == "" {
				continue
			}
			isMine := false
			for e := range mine {
				f := strings.Split(e, "/")
				if strings.HasSuffix(tk, strings.TrimPrefix(f[1], "=")) && strings.Contains(tk, strings.TrimPrefix(f[0], "=")) {
					isMine = true
				}
			}
			present := false
			for _, t2 := range strings.Split(v.TM, ";") {
				present = present || t2 == tk
			}
			if isMine && present {
				viol(res, prop, "seq:session-end:lease-left", fmt.Sprintf("after %q the lease timer %s of a hold of the ended session is still armed", s.Op.Line(), tk), h, i, nil)
				return
			}
			if !isMine && !present {
				viol(res, prop, "seq:session-end:other-lease-removed", fmt.Sprintf("%q removed the lease timer %s of a hold the ended session did not own", s.Op.Line(), tk), h, i, nil)
				return
			}
		}
	}
}
