import Ldlm.Generated.Facts
/-!
Source fingerprints for C11: the functions of /repo its models were written against (verifcfg.FPMAP).
`Facts.fp_*` is regenerated from the working tree by every check (first 16 hex digits of SHA-256 of the
normalised signature and body); the right-hand sides were copied from a reviewed tree by tools/mkfp.py and
are NOT regenerated. A pin that no longer checks = this function changed since the models were written.
-/
namespace Ldlm.Pins.FP.C11
open Ldlm

/-- cmd/server/main.go: main -/
theorem fp_cmd_server_main_main : Facts.fp_cmd_server_main_main = "c8efb5ce2f5c413c" := rfl
/-- lock/manager.go: Manager.shutdown -/
theorem fp_lock_manager_Manager_shutdown : Facts.fp_lock_manager_Manager_shutdown = "a21f5c7d0760606f" := rfl
/-- server/server.go: LockServer.CreateSession -/
theorem fp_server_server_LockServer_CreateSession : Facts.fp_server_server_LockServer_CreateSession = "a5cc599441e28bb4" := rfl
/-- server/server.go: LockServer.DestroySession -/
theorem fp_server_server_LockServer_DestroySession : Facts.fp_server_server_LockServer_DestroySession = "8239f3a4034818b5" := rfl
/-- server/server.go: LockServer.SessionId -/
theorem fp_server_server_LockServer_SessionId : Facts.fp_server_server_LockServer_SessionId = "e573c920d6f35761" := rfl
/-- server/server.go: LockServer.SetShuttingDown -/
theorem fp_server_server_LockServer_SetShuttingDown : Facts.fp_server_server_LockServer_SetShuttingDown = "54b9721d804e9da3" := rfl
/-- server/server.go: New -/
theorem fp_server_server_New : Facts.fp_server_server_New = "2983141b82215c42" := rfl
/-- server/ipc/server.go: setUp -/
theorem fp_server_ipc_server_setUp : Facts.fp_server_ipc_server_setUp = "47aa9c3530bbc5c2" := rfl
/-- server/ipc/server.go: Run -/
theorem fp_server_ipc_server_Run : Facts.fp_server_ipc_server_Run = "22e26c857abefc05" := rfl
/-- server/ipc/server.go: socketPathExists -/
theorem fp_server_ipc_server_socketPathExists : Facts.fp_server_ipc_server_socketPathExists = "cc8313c5c9d485f4" := rfl
/-- net/grpc/grpc.go: Run -/
theorem fp_net_grpc_grpc_Run : Facts.fp_net_grpc_grpc_Run = "5ad0b509b3e7a51e" := rfl
/-- net/grpc/grpc.go: authPasswordInterceptor -/
theorem fp_net_grpc_grpc_authPasswordInterceptor : Facts.fp_net_grpc_grpc_authPasswordInterceptor = "863bb5cc0537355a" := rfl
/-- net/net.go: Run -/
theorem fp_net_net_Run : Facts.fp_net_net_Run = "4cc945e928d276ec" := rfl
/-- net/rest/rest.go: Run -/
theorem fp_net_rest_rest_Run : Facts.fp_net_rest_rest_Run = "7444684083624d1f" := rfl
/-- net/rest/rest.go: NewRestServer -/
theorem fp_net_rest_rest_NewRestServer : Facts.fp_net_rest_rest_NewRestServer = "0e5e4a42d37dd44d" := rfl
/-- timermap/timermap.go: New -/
theorem fp_timermap_timermap_New : Facts.fp_timermap_timermap_New = "7bfa6bb474b5152d" := rfl
/-- timermap/timermap.go: TimerMap.Add -/
theorem fp_timermap_timermap_TimerMap_Add : Facts.fp_timermap_timermap_TimerMap_Add = "d8c62d0874a15c32" := rfl
/-- timermap/timermap.go: TimerMap.Remove -/
theorem fp_timermap_timermap_TimerMap_Remove : Facts.fp_timermap_timermap_TimerMap_Remove = "ce8fae6c7455bbd4" := rfl
/-- timermap/timermap.go: TimerMap.Reset -/
theorem fp_timermap_timermap_TimerMap_Reset : Facts.fp_timermap_timermap_TimerMap_Reset = "6e63112ea24222fa" := rfl
/-- timermap/timermap.go: TimerMap.shutdown -/
theorem fp_timermap_timermap_TimerMap_shutdown : Facts.fp_timermap_timermap_TimerMap_shutdown = "c7c679c3e023a667" := rfl
/-- lock/lock.go: NewLock -/
theorem fp_lock_lock_NewLock : Facts.fp_lock_lock_NewLock = "d4400d5fa3fae080" := rfl
/-- lock/lock.go: Lock.Lock -/
theorem fp_lock_lock_Lock_Lock : Facts.fp_lock_lock_Lock_Lock = "24c6305c7d07f030" := rfl
/-- lock/lock.go: Lock.TryLock -/
theorem fp_lock_lock_Lock_TryLock : Facts.fp_lock_lock_Lock_TryLock = "e86ae14f06c9bef9" := rfl
/-- lock/lock.go: Lock.Unlock -/
theorem fp_lock_lock_Lock_Unlock : Facts.fp_lock_lock_Lock_Unlock = "fa37302972cb0b09" := rfl
/-- lock/lock.go: Lock.addKey -/
theorem fp_lock_lock_Lock_addKey : Facts.fp_lock_lock_Lock_addKey = "98ebde1fa6b9a35a" := rfl
/-- lock/lock.go: Lock.Keys -/
theorem fp_lock_lock_Lock_Keys : Facts.fp_lock_lock_Lock_Keys = "7071540bc534505b" := rfl
/-- lock/manager.go: Manager.Lock -/
theorem fp_lock_manager_Manager_Lock : Facts.fp_lock_manager_Manager_Lock = "b3a78f0a87d5a3ad" := rfl
/-- lock/manager.go: Manager.TryLock -/
theorem fp_lock_manager_Manager_TryLock : Facts.fp_lock_manager_Manager_TryLock = "3c861dc7cc9f73de" := rfl
/-- lock/manager.go: Manager.Unlock -/
theorem fp_lock_manager_Manager_Unlock : Facts.fp_lock_manager_Manager_Unlock = "e1e8415d8eb20442" := rfl

end Ldlm.Pins.FP.C11
