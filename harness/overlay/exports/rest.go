// Added to package rest through `go test -overlay` by /verif (guard "verif"); never part of /repo.
package rest

import (
	"net/http"

	"github.com/imoore76/ldlm/timermap"
)

// VerifSessions lists the cookies in the gateway's session table and the keys of its idle-timer map.
func VerifSessions(srv *http.Server) (sessions []string, timers []string) {
	h, ok := srv.Handler.(*restHandler)
	if !ok {
		return nil, nil
	}
	h.sessionsMtx.RLock()
	for k := range h.sessions {
		sessions = append(sessions, k)
	}
	h.sessionsMtx.RUnlock()
	if tm, ok := h.timerMgr.(*timermap.TimerMap); ok {
		timers = tm.VerifKeys()
	}
	return sessions, timers
}
