import Ldlm.Proofs.CoreRestore
/-! The clock of M2 is moved by `advance` only, and `advance dt` moves it by exactly `dt`. -/
namespace Ldlm.Core
open Ldlm.AMap
variable {M : Type} {o : MapOps M} {c : Cfg}

@[simp] theorem removeBook_now (s : St M) (n k : Str) : (removeBook s n k).now = s.now := rfl
@[simp] theorem addBook_now (s : St M) (sid : Sid) (x : Hold) : (addBook s sid x).now = s.now := rfl

@[simp] theorem arm_now (s : St M) (n k : Str) (sid : Sid) (lt : Option Int) : (arm s n k sid lt).now = s.now := by
  unfold arm
  split
  · split <;> rfl
  · rfl

@[simp] theorem book_now (s : St M) (sid : Sid) (n k : Str) (sz : Int) (lt : Option Int) :
    (book s sid n k sz lt).now = s.now := by
  unfold book; simp

@[simp] theorem handOver_now (s : St M) (n : Str) (r : LockRec) : (handOver o s n r).1.now = s.now := by
  unfold handOver
  split
  · rfl
  · simp

@[simp] theorem mgrUnlock_now (s : St M) (n k : Str) : (mgrUnlock o s n k).1.now = s.now := by
  unfold mgrUnlock
  split
  · rfl
  · simp only
    split
    · simp
    · rfl

@[simp] theorem srvUnlock_now (s : St M) (n k : Str) : (srvUnlock o s n k).1.now = s.now := by
  unfold srvUnlock
  simp only
  split <;> simp

@[simp] theorem srvRenew_now (s : St M) (n k : Str) (t : Int) : (srvRenew s n k t).1.now = s.now := by
  unfold srvRenew
  split
  · rfl
  · split <;> rfl

@[simp] theorem srvTryLock_now (s : St M) (sid : Option Sid) (n : Str) (sz lt : Option Int) :
    (srvTryLock o c s sid n sz lt).1.now = s.now := by
  unfold srvTryLock
  simp only
  split
  · rfl
  · split
    · rfl
    · split
      · rfl
      · split
        · rfl
        · split
          · simp
          · rfl

theorem clearHolds_now (hs : List Hold) : ∀ (t : St M) (ev : List Event),
    (hs.foldl (fun (acc : St M × List Event) h =>
      let (s', ok, _, ev) := mgrUnlock o acc.1 h.name h.key
      let s' := if ok then { s' with timers := del s'.timers (tkey h.name h.key) } else s'
      (s', acc.2 ++ ev)) (t, ev)).1.now = t.now := by
  induction hs with
  | nil => intro t ev; rfl
  | cons x hs ih =>
    intro t ev
    simp only [List.foldl_cons]
    rw [ih]
    split <;> simp

@[simp] theorem destroy_now (s : St M) (sid : Sid) : (destroy o c s sid).1.now = s.now := by
  unfold destroy
  split
  · rfl
  · simp only
    split
    · rfl
    · unfold clearHolds; rw [clearHolds_now]; rfl

@[simp] theorem abandon_now (s : St M) (p : Pending) (e : Err) : (abandon o s p e).1.now = s.now := rfl

@[simp] theorem fireLease_now (s : St M) (tk : Str) (tm : Timer) : (fireLease o s tk tm).1.now = s.now := by
  unfold fireLease; simp

theorem connect_now (s : St M) (sid : Sid) : (step o c s (.connect sid)).1.now = s.now := by
  simp only [step]; split <;> rfl

theorem disconnect_now (s : St M) (sid : Sid) : (step o c s (.disconnect sid)).1.now = s.now := by
  simp only [step, destroy_now, abandonAll_now]

theorem advanceTo_now (target : Nat) : ∀ (fuel : Nat) (s : St M),
    (advanceTo o c target fuel s).1.now = max s.now target := by
  intro fuel
  induction fuel with
  | zero => intro s; rfl
  | succ f ih =>
    intro s
    unfold advanceTo
    simp only
    split
    · rfl
    · split
      · rfl
      · rename_i t _ hle
        simp only [ih]
        have hle' : t ≤ target := by omega
        split
        · split
          · simp only [fireLease_now]; omega
          · simp only; omega
        · split
          · split
            · simp only [abandon_now]; omega
            · simp only; omega
          · simp only [gcPass]; omega

theorem advance_now (s : St M) (dt : Nat) : (step o c s (.advance dt)).1.now = s.now + dt := by
  simp only [step, advanceTo_now]; omega

end Ldlm.Core
