//go:build verifconc

package restc

// C20 (concurrent part) — a request, a DELETE and the idle-timer callback racing on one REST
// session, and requests on two sessions racing the timers, under controlled interleaving.
//
// Needs the instrumented overlay (yield points in net/rest, timermap, server, …; the per-session
// mutex becomes verifrt.OpenMutex so that its holder stays preemptible) AND the build tag, because
// this file imports verif/harness/conc -> github.com/imoore76/ldlm/verifrt, a package that exists
// only through that overlay (TestRest must keep compiling with the accessor-only overlay):
//
//	cd /verif/harness && VERIF_PROP=C20 ./conc/run.sh /dev/shm/ov-c20 -tags verifconc -count=1 -run '^TestRestConc$' ./restc

import (
	"fmt"
	"sort"
	"strings"
	"sync"
	"testing"
	"testing/synctest"
	"time"

	pb "github.com/imoore76/ldlm/protos"
	"google.golang.org/protobuf/encoding/protojson"

	"verif/harness/common"
	"verif/harness/conc"

	"github.com/imoore76/ldlm/verifrt"
)

const concT = 10 * time.Second

type concSess struct {
	cookie string
	lsID   string
	keys   []string // holds taken during setup
}

type concWorld struct {
	sd   *side
	sess []*concSess
	mu   sync.Mutex
	resp map[string]httpResp
	err  string
	evs  []string // event log for the validation of M4c (driver linrest): inv / ret / end / tick / quiet
	nid  int
	t0   time.Time
	reqs []reqObs // lock requests in invocation order, with the virtual instant of their invocation
}

type reqObs struct {
	sess int
	at   time.Duration // invoked (the gateway validates the cookie at or after this instant)
	ret  time.Duration // returned (… and at or before this one)
	code int
}

func (w *concWorld) ev(format string, a ...any) {
	w.mu.Lock()
	w.evs = append(w.evs, fmt.Sprintf(format, a...))
	w.mu.Unlock()
}
func (w *concWorld) newID() int {
	w.mu.Lock()
	defer w.mu.Unlock()
	w.nid++
	return w.nid
}

func (w *concWorld) put(th string, r httpResp) {
	w.mu.Lock()
	w.resp[th] = r
	w.mu.Unlock()
}

// newConcWorld: a server + gateway, n sessions, each holding one lock "x<i>" taken over REST.
func newConcWorld(n int) *concWorld {
	sd, err := newSide(true, concT)
	if err != nil {
		panic(err)
	}
	w := &concWorld{sd: sd, resp: map[string]httpResp{}, t0: time.Now()}
	for i := 0; i < n; i++ {
		if i > 0 { // sessions are created 1 s apart: two idle timers never fire at the same instant
			time.Sleep(time.Second) // (the thread names of their callbacks would depend on the Go scheduler)
		}
		h := sd.do("POST", "/session", nil, "")
		if h.Code != 201 || h.Cookie == nil {
			w.err = fmt.Sprintf("setup: POST /session -> %d", h.Code)
			return w
		}
		s := &concSess{cookie: h.Cookie.Value, lsID: sd.svc.lastTagged()}
		l := sd.do("POST", "/v1/lock", &s.cookie, fmt.Sprintf(`{"name":"x%d"}`, i))
		m := &pb.LockResponse{}
		if l.Code != 200 || protojson.Unmarshal([]byte(l.Body), m) != nil || !m.Locked {
			w.err = fmt.Sprintf("setup: lock x%d -> %d %s", i, l.Code, l.Body)
			return w
		}
		s.keys = append(s.keys, m.Key)
		w.sess = append(w.sess, s)
	}
	w.evs = []string{fmt.Sprintf("hist sessions=%d", n)}
	sd.svc.mu.Lock()
	sd.svc.onEnd = func(id string) {
		for j, s := range w.sess {
			if s.lsID == id {
				w.ev("end %d", j)
			}
		}
	}
	sd.svc.mu.Unlock()
	return w
}

func (w *concWorld) lockReq(th string, sess int, name string) {
	id := w.newID()
	w.ev("inv %d req %d", id, sess)
	w.mu.Lock()
	w.reqs = append(w.reqs, reqObs{sess: sess, at: time.Since(w.t0), code: -1})
	ri := len(w.reqs) - 1
	w.mu.Unlock()
	r := w.sd.do("POST", "/v1/lock", &w.sess[sess].cookie, fmt.Sprintf(`{"name":%q}`, name))
	if r.Panic == "" {
		w.ev("ret %d %d", id, r.Code)
		w.mu.Lock()
		w.reqs[ri].code, w.reqs[ri].ret = r.Code, time.Since(w.t0)
		w.mu.Unlock()
	}
	w.put(th, r)
}
func (w *concWorld) deleteReq(th string, sess int) {
	id := w.newID()
	w.ev("inv %d del %d", id, sess)
	r := w.sd.do("DELETE", "/session", &w.sess[sess].cookie, "")
	if r.Panic == "" {
		w.ev("ret %d %d", id, r.Code)
	}
	w.put(th, r)
}

// finish lets everything still armed fire (3T of silence), reads the monitors' inputs and closes.
func (w *concWorld) finish(threads []string) conc.Outcome {
	d := map[string]any{}
	if w.err != "" {
		w.sd.close()
		return conc.Outcome{Key: "setup-failed: " + w.err, Detail: map[string]any{"setup": w.err}}
	}
	synctest.Wait()
	w.ev("tick")
	time.Sleep(3 * concT)
	synctest.Wait()
	w.ev("quiet")
	w.ev("fin")
	parts := []string{}
	w.mu.Lock()
	for _, th := range threads {
		r, ok := w.resp[th]
		switch {
		case !ok:
			parts = append(parts, th+"=no-return")
			d["status:"+th] = -1
		default:
			x := fmt.Sprint(r.Code)
			if r.Panic != "" {
				x += "(panic)"
				d["panic:"+th] = r.Panic
			}
			if strings.Contains(r.Body, `"locked":true`) {
				x += "/locked"
			}
			parts = append(parts, th+"="+x)
			d["status:"+th] = r.Code
		}
	}
	w.mu.Unlock()
	ends := []int{}
	for _, s := range w.sess {
		ends = append(ends, w.sd.svc.ended(s.lsID))
	}
	left := locksCanon(w.sd.ls, false)
	d["ends"], d["left"], d["total_ends"] = ends, left, w.sd.svc.totalEnds()
	// "a session stays valid as long as consecutive requests are less than the session timeout apart": a
	// request less than T after the previous accepted request of its session (or after the session's last
	// setup request at 0 / i seconds) must not be refused - unless a DELETE is part of the program
	last := map[int]time.Duration{}
	for i := range w.sess {
		last[i] = time.Duration(i) * time.Second
	}
	early := []string{}
	w.mu.Lock()
	for _, r := range w.reqs {
		// sound whatever the scheduler did between invocation, validation and return: the refusal was
		// decided no later than r.ret, the previous accepted request re-armed the timer no earlier than its invocation
		if r.code == 401 && r.ret-last[r.sess] < concT {
			early = append(early, fmt.Sprintf("request of session %d (sent at %v) was answered 401 at %v although its previous accepted request arrived at %v, less than the session timeout %v before", r.sess, r.at, r.ret, last[r.sess], concT))
		}
		if r.code == 200 {
			last[r.sess] = r.at
		}
	}
	w.mu.Unlock()
	d["refused_while_active"] = early
	w.mu.Lock()
	d["m4c_history"] = strings.Join(w.evs, "\n")
	w.mu.Unlock()
	w.sd.close()
	return conc.Outcome{Key: fmt.Sprintf("%s ends=%v left=%v", strings.Join(parts, " "), ends, left), Detail: d}
}

type concProgram struct {
	p       conc.Program
	threads []string
	// allowed HTTP statuses per thread (anything else is reported)
	allowed map[string][]int
}

func concPrograms() []concProgram {
	mk := func(name string, n int, ticks []time.Duration, allowed map[string][]int, th ...conc.Thread) concProgram {
		names := []string{}
		for _, x := range th {
			names = append(names, x.Name)
		}
		return concProgram{threads: names, allowed: allowed, p: conc.Program{
			Name:    name,
			Setup:   func() any { return newConcWorld(n) },
			Threads: th,
			Ticks:   ticks,
			OnTick:  func(c any, i int) { c.(*concWorld).ev("tick") },
			Finish:  func(c any) conc.Outcome { return c.(*concWorld).finish(names) },
		}}
	}
	return []concProgram{
		mk("lock(s0);lock(s0)||+6s||+6s", 1, []time.Duration{6 * time.Second, 6 * time.Second}, map[string][]int{"A": {200, 401}},
			conc.Thread{Name: "A", Run: func(c any) {
				c.(*concWorld).lockReq("A1", 0, "y")
				c.(*concWorld).lockReq("A", 0, "z")
			}}),
		mk("lock(s0)||DELETE(s0)||idle-timeout", 1, []time.Duration{concT}, map[string][]int{"A": {200, 401}, "B": {200, 409}},
			conc.Thread{Name: "A", Run: func(c any) { c.(*concWorld).lockReq("A", 0, "y") }},
			conc.Thread{Name: "B", Run: func(c any) { c.(*concWorld).deleteReq("B", 0) }}),
		mk("lock(s0)||lock(s1)||idle-timeouts", 2, []time.Duration{concT + time.Second}, map[string][]int{"A": {200, 401}, "B": {200, 401}},
			conc.Thread{Name: "A", Run: func(c any) { c.(*concWorld).lockReq("A", 0, "y") }},
			conc.Thread{Name: "B", Run: func(c any) { c.(*concWorld).lockReq("B", 1, "y") }}),
		mk("lock(s0)||lock(s0)||DELETE(s0)", 1, nil, map[string][]int{"A": {200, 401}, "B": {200, 401}, "C": {200}},
			conc.Thread{Name: "A", Run: func(c any) { c.(*concWorld).lockReq("A", 0, "y") }},
			conc.Thread{Name: "B", Run: func(c any) { c.(*concWorld).lockReq("B", 0, "z") }},
			conc.Thread{Name: "C", Run: func(c any) { c.(*concWorld).deleteReq("C", 0) }}),
	}
}

func TestRestConc(t *testing.T) {
	// C20 owns the gateway's session life cycle; C06 claims the same runs for "a REST session deleted or
	// idle-expired releases every hold of the session exactly once, whatever is in flight"
	prop := "C20"
	if common.Prop() == "C06" {
		prop = "C06"
	}
	res := common.NewResult("rest")
	res.Property = prop
	defer func() {
		if err := res.Write(); err != nil {
			t.Fatalf("writing the result file: %v", err)
		}
	}()
	res.Rule = "four programs on the instrumented gateway + real lock server (session timeout 10 s, every session holds one lock): (0) two consecutive lock requests of one session and two 6 s ticks placed anywhere, also in the middle of a request: a request less than 10 s after the previous accepted one must not be refused; (1) lock request || DELETE /session on one session, with a 10 s tick so the idle callback runs as a third thread; (2) lock requests on two sessions created 1 s apart, with one 11 s tick during which first one (at 10 s) then the other (at 11 s) session expires unless re-armed; (3) two lock requests || DELETE on one session. Every schedule with at most 2 preemptions (depth-first, capped per tier) plus PCT-style random schedules; each schedule = fresh bubble, fresh server. Monitors: every HTTP call returned, no deadlock, no panic, exactly one ConnEnd per session after a final 3T of silence, no hold left. distinct = distinct (program, schedule trace); non-trivial = at least one preemption, or the tick placed before the last thread finished"
	// 200-370 schedules per second depending on the program and the machine: the quick caps keep the whole test under a minute
	bound, capRuns, nRandom := 2, []int{1500, 6000, 2000, 1500}, 300
	if common.Thorough() {
		capRuns, nRandom = []int{50000, 200000, 50000, 50000}, 3000
	}
	rng := common.NewRng(common.Seed())
	for pi, cp := range concPrograms() {
		outcomes := map[string]int{}
		maxYields := 0
		hists := map[string]func() map[string]any{} // distinct event histories -> replay of the first schedule that produced it (M4c validation)
		visit := func(kind string) func(conc.RunResult) bool {
			return func(r conc.RunResult) bool {
				tr := strings.Join(r.Trace, ",")
				nontrivial := conc.Preemptions(r.Trace, r.Alts) > 0
				if i := strings.Index(tr, "~T"); i >= 0 && strings.ContainsAny(tr[i:], "ABC") {
					nontrivial = true
				}
				res.Eval(cp.p.Name+"|"+tr, nontrivial)
				res.Count("schedules:" + kind + ":" + cp.p.Name)
				outcomes[r.Outcome.Key]++
				maxYields = max(maxYields, r.Yields)
				find := func(sig, what string) {
					res.Find(common.Finding{Kind: "violation", Property: prop, Signature: sig, What: what,
						Replay: map[string]any{"program": cp.p.Name, "exploration": kind, "schedule": r.Trace, "schedule_compressed": conc.Compress(r.Trace),
							"outcome": r.Outcome.Key, "detail": r.Outcome.Detail, "panics": r.Panics, "blocked": r.Blocked, "deadlock": r.Deadlock, "seed": common.Seed()}})
				}
				if strings.HasPrefix(r.Outcome.Key, "setup-failed") {
					t.Fatalf("%s: %s", cp.p.Name, r.Outcome.Key)
				}
				if len(r.Blocked) > 0 || r.Deadlock != "" {
					find("rest:conc:deadlock", fmt.Sprintf("threads %v never finished (deadlock report: %q); every HTTP call must return", r.Blocked, r.Deadlock))
				}
				pan := append([]string{}, r.Panics...)
				for k, v := range r.Outcome.Detail {
					if strings.HasPrefix(k, "panic:") {
						pan = append(pan, fmt.Sprintf("handler called by %s panicked: %v", k[6:], v))
					}
				}
				if len(pan) > 0 {
					sort.Strings(pan)
					find("rest:conc:panic", "panic during the schedule: "+strings.Join(pan, "; "))
				}
				if r.Outcome.Detail == nil {
					return true
				}
				if hh, ok := r.Outcome.Detail["m4c_history"].(string); ok && len(pan) == 0 && len(r.Blocked) == 0 && r.Deadlock == "" {
					if _, seen := hists[hh]; !seen {
						tr, name := append([]string{}, r.Trace...), cp.p.Name
						hists[hh] = func() map[string]any {
							return map[string]any{"program": name, "exploration": kind, "schedule": tr, "schedule_compressed": conc.Compress(tr), "seed": common.Seed()}
						}
					}
				}
				if ends, ok := r.Outcome.Detail["ends"].([]int); ok {
					tot := 0
					for i, n := range ends {
						tot += n
						if n != 1 {
							find("rest:conc:connend-count", fmt.Sprintf("session %d received %d ConnEnd events after its end and 3T of silence; required exactly one", i, n))
						}
					}
					if all, _ := r.Outcome.Detail["total_ends"].(int); all != tot {
						find("rest:conc:connend-count", fmt.Sprintf("%d ConnEnd events delivered in total, %d of them for the sessions of the program", all, tot))
					}
				}
				if ea, _ := r.Outcome.Detail["refused_while_active"].([]string); len(ea) > 0 && !strings.Contains(cp.p.Name, "DELETE") {
					find("rest:conc:active-session-refused", ea[0])
				}
				if left, _ := r.Outcome.Detail["left"].([]string); len(left) > 0 {
					find("rest:conc:hold-left", fmt.Sprintf("holds %v are still listed after every session has ended", left))
				}
				for _, th := range cp.threads {
					code, _ := r.Outcome.Detail["status:"+th].(int)
					okc := false
					for _, a := range cp.allowed[th] {
						okc = okc || a == code
					}
					if !okc && code != -1 {
						find("rest:conc:unexpected-status", fmt.Sprintf("thread %s got HTTP %d; allowed here: %v", th, code, cp.allowed[th]))
					}
				}
				return true
			}
		}
		st := time.Now()
		runs, exhausted := conc.ExploreDFS(t, cp.p, bound, capRuns[pi], visit("dfs"))
		el := time.Since(st)
		if exhausted {
			res.Count("dfs-exhausted:" + cp.p.Name)
		}
		conc.ExploreRandom(t, cp.p, nRandom, rng.Fork(uint64(pi)), visit("random"))
		// second pass with yields live INSIDE critical sections too (the mutexes still exclude): the idle
		// callback, a DELETE or another request can then run while a request is being served under its
		// session mutex (a request that takes longer than it takes the timer to fire)
		open := cp.p
		setup := cp.p.Setup
		open.Setup = func() any { c := setup(); verifrt.SetNoSuppress(true); return c }
		open.Name = cp.p.Name
		conc.ExploreDFS(t, open, bound, capRuns[pi]/2, visit("dfs-open"))
		conc.ExploreRandom(t, open, nRandom, rng.Fork(uint64(pi)+77), visit("random-open"))
		if err := common.ValidateHistories(res, prop, "linrest", "rest:conc:trace:m4c-model@"+cp.p.Name, "the gateway session-table model M4c", hists); err != nil {
			t.Fatal(err)
		}
		res.CountN("m4c-histories-validated:"+cp.p.Name, len(hists))
		ks := common.SortedKeys(outcomes)
		sort.SliceStable(ks, func(i, j int) bool { return outcomes[ks[i]] > outcomes[ks[j]] })
		for _, k := range ks {
			res.CountN("outcome:"+cp.p.Name+": "+k, outcomes[k])
		}
		res.Note("%s: bound %d, %d schedules depth-first (exhausted=%v, %.1fs), %d random, max live yields %d, %d distinct outcomes", cp.p.Name, bound, runs, exhausted, el.Seconds(), nRandom, maxYields, len(outcomes))
		res.Sample(map[string]any{"program": cp.p.Name, "bound": bound, "dfs_schedules": runs, "exhausted": exhausted, "outcomes": ks[:min(len(ks), 8)]})
		t.Logf("%s: %d dfs schedules (exhausted=%v) in %.1fs, %d outcomes", cp.p.Name, runs, exhausted, el.Seconds(), len(outcomes))
	}
}
