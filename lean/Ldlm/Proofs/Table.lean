import Ldlm.Model.Table
/-! M1: the invariant of every lock object under every schedule, GC safety, and the one-step
forward simulation to the atomic counting lock. -/
namespace Ldlm.Table
open Ldlm

structure ObjInv (o : Obj) : Prop where
  conserve : o.cur = o.keys.length + o.acq.length
  bound    : o.cur ≤ o.size
  nolost   : o.q ≠ [] → o.cur = o.size

theorem freeUnit_inv (n : Str) (o : Obj)
    (h1 : o.cur = o.keys.length + o.acq.length + 1)
    (h2 : o.cur ≤ o.size) (h3 : o.q ≠ [] → o.cur = o.size) :
    ObjInv (o.freeUnit n).1 ∧ (o.freeUnit n).1.size = o.size := by
  unfold Obj.freeUnit
  split
  · rename_i w q' hq
    refine ⟨⟨by simp; omega, h2, fun _ => ?_⟩, rfl⟩
    exact h3 (by simp [hq])
  · rename_i hq
    refine ⟨⟨by simp; omega, by simp; omega, fun h => ?_⟩, rfl⟩
    simp [hq] at h

theorem stepObj_inv (n : Str) (o o' : Obj) (a : Act) (ev : List AOp) (h : ObjInv o)
    (hs : stepObj n o a = some (o', ev)) : ObjInv o' ∧ o'.size = o.size := by
  obtain ⟨hc, hb, hn⟩ := h
  cases a with
  | tryAcquire t m k =>
    simp only [stepObj] at hs
    split at hs
    · cases hs
    · split at hs <;> simp at hs <;> obtain ⟨rfl, rfl⟩ := hs
      · rename_i hg
        exact ⟨⟨by simp; omega, by simp; omega, fun hq => absurd hg.2 hq⟩, rfl⟩
      · exact ⟨⟨hc, hb, hn⟩, rfl⟩
  | acquire t m k =>
    simp only [stepObj] at hs
    split at hs
    · cases hs
    · split at hs <;> simp at hs <;> obtain ⟨rfl, rfl⟩ := hs
      · rename_i hg
        exact ⟨⟨by simp; omega, by simp; omega, fun hq => absurd hg.2 hq⟩, rfl⟩
      · rename_i hg
        refine ⟨⟨hc, hb, fun _ => ?_⟩, rfl⟩
        by_cases hq : o.q = []
        · have : ¬ o.cur < o.size := fun h => hg ⟨h, hq⟩
          simp; omega
        · exact hn hq
  | addKey t m k =>
    simp only [stepObj] at hs
    split at hs <;> simp at hs
    obtain ⟨rfl, rfl⟩ := hs
    rename_i hm
    have := List.length_erase_of_mem hm
    have hpos : 0 < o.acq.length := List.length_pos_of_mem hm
    exact ⟨⟨by simp [this]; omega, hb, hn⟩, rfl⟩
  | handBack t m k =>
    simp only [stepObj] at hs
    split at hs <;> simp at hs
    obtain ⟨rfl, rfl⟩ := hs
    rename_i hm
    have := List.length_erase_of_mem hm
    have hpos : 0 < o.acq.length := List.length_pos_of_mem hm
    exact freeUnit_inv n _ (by simp [this]; omega) hb hn
  | cancel t m k =>
    simp only [stepObj] at hs
    split at hs <;> simp at hs
    obtain ⟨rfl, rfl⟩ := hs
    refine ⟨⟨hc, hb, fun hq => hn ?_⟩, rfl⟩
    intro h0; simp [h0] at hq
  | unlock t m k =>
    simp only [stepObj] at hs
    split at hs
    · cases hs
    · split at hs
      · simp at hs
        obtain ⟨rfl, rfl⟩ := hs
        rename_i hm
        have := List.length_erase_of_mem hm
        have hpos : 0 < o.keys.length := List.length_pos_of_mem hm
        exact freeUnit_inv n _ (by simp [this]; omega) hb hn
      · simp at hs; obtain ⟨rfl, rfl⟩ := hs; exact ⟨⟨hc, hb, hn⟩, rfl⟩
  | decref t m =>
    simp only [stepObj] at hs
    split at hs <;> simp at hs
    obtain ⟨rfl, rfl⟩ := hs
    exact ⟨⟨hc, hb, hn⟩, rfl⟩
  | getCreate _ _ _ => simp [stepObj] at hs
  | getExisting _ _ => simp [stepObj] at hs
  | gc _ => simp [stepObj] at hs

def TableInv (s : St) : Prop := ∀ n o, AMap.get s n = some o → ObjInv o ∧ 0 < o.size

theorem TableInv.set {s : St} (h : TableInv s) {n : Str} {o : Obj} (ho : ObjInv o ∧ 0 < o.size) :
    TableInv (AMap.set s n o) := by
  intro n' o' hg
  rw [AMap.get_set] at hg
  by_cases e : n = n'
  · simp [e] at hg; rw [← hg]; exact ho
  · simp [e] at hg; exact h n' o' hg

theorem TableInv.del {s : St} (h : TableInv s) (n : Str) : TableInv (AMap.del s n) := by
  intro n' o' hg
  rw [AMap.get_del] at hg
  by_cases e : n = n'
  · simp [e] at hg
  · simp [e] at hg; exact h n' o' hg

theorem step_inv (s s' : St) (a : Act) (ev : List AOp) (h : TableInv s) (hs : step s a = some (s', ev)) :
    TableInv s' := by
  have generic : ∀ (a : Act), stepOn s a = some (s', ev) → TableInv s' := by
    intro a hs
    unfold stepOn at hs
    cases hg : AMap.get s a.name with
    | none => simp [hg] at hs
    | some o =>
      simp only [hg] at hs
      cases hso : stepObj a.name o a with
      | none => simp [hso] at hs
      | some r =>
        simp [hso] at hs
        obtain ⟨rfl, rfl⟩ := hs
        obtain ⟨hi, hsz⟩ := stepObj_inv a.name o r.1 a r.2 (h _ o hg).1 hso
        exact h.set ⟨hi, by rw [hsz]; exact (h _ o hg).2⟩
  cases a with
  | getCreate t n size =>
    simp only [step] at hs
    split at hs
    · cases hs; exact h
    · rename_i hsz
      split at hs
      · rename_i o hg
        split at hs
        · cases hs; exact h
        · cases hs
          exact h.set ⟨⟨(h n o hg).1.conserve, (h n o hg).1.bound, (h n o hg).1.nolost⟩, (h n o hg).2⟩
      · cases hs
        exact h.set ⟨⟨by simp, by simp, by simp⟩, by simp; omega⟩
  | getExisting t n =>
    simp only [step] at hs
    split at hs
    · rename_i o hg
      cases hs
      exact h.set ⟨⟨(h n o hg).1.conserve, (h n o hg).1.bound, (h n o hg).1.nolost⟩, (h n o hg).2⟩
    · cases hs; exact h
  | gc n =>
    simp only [step] at hs
    split at hs
    · split at hs
      · cases hs; exact h.del n
      · cases hs; exact h
    · cases hs; exact h
  | tryAcquire t n k => exact generic (.tryAcquire t n k) (by simpa [step] using hs)
  | acquire t n k => exact generic (.acquire t n k) (by simpa [step] using hs)
  | addKey t n k => exact generic (.addKey t n k) (by simpa [step] using hs)
  | handBack t n k => exact generic (.handBack t n k) (by simpa [step] using hs)
  | cancel t n k => exact generic (.cancel t n k) (by simpa [step] using hs)
  | unlock t n k => exact generic (.unlock t n k) (by simpa [step] using hs)
  | decref t n => exact generic (.decref t n) (by simpa [step] using hs)

theorem run_inv : ∀ (as : List Act) (s s' : St) (ev : List AOp), TableInv s → run s as = some (s', ev) → TableInv s' := by
  intro as
  induction as with
  | nil => intro s s' ev h hr; simp [run] at hr; rw [← hr.1]; exact h
  | cons a as ih =>
    intro s s' ev h hr
    simp only [run] at hr
    cases hs : step s a with
    | none => simp [hs] at hr
    | some r =>
      obtain ⟨s1, ev1⟩ := r
      simp only [hs] at hr
      cases hr2 : run s1 as with
      | none => simp [hr2] at hr
      | some r2 =>
        simp [hr2] at hr
        obtain ⟨rfl, _⟩ := hr
        exact ih s1 r2.1 r2.2 (step_inv s s1 a ev1 h hs) hr2

theorem empty_inv : TableInv [] := by intro n o hg; simp at hg

/-! ### GC safety -/

/-- a GC step that deletes an object deletes one that nobody holds, is acquiring, waits on or has
fetched — and whose semaphore is completely free (no unit is lost with it) -/
theorem gc_safe (s s' : St) (n : Str) (o : Obj) (h : TableInv s) (hg : AMap.get s n = some o)
    (hs : step s (.gc n) = some (s', [])) (hdel : AMap.get s' n = none) :
    o.keys = [] ∧ o.acq = [] ∧ o.q = [] ∧ o.plain = 0 ∧ o.cur = 0 := by
  simp only [step, hg] at hs
  split at hs
  · rename_i hc
    obtain ⟨hk, hr⟩ := hc
    unfold Obj.refs at hr
    have ha : o.acq = [] := List.eq_nil_of_length_eq_zero (by omega)
    have hq : o.q = [] := List.eq_nil_of_length_eq_zero (by omega)
    have := (h n o hg).1.conserve
    exact ⟨hk, ha, hq, by omega, by rw [this, hk, ha]; rfl⟩
  · simp at hs
    rw [← hs] at hdel
    rw [hg] at hdel; cases hdel

/-- GC never touches any other object, and never changes an object it does not delete -/
theorem gc_frame (s s' : St) (n n' : Str) (hs : step s (.gc n) = some (s', [])) (hne : n ≠ n') :
    AMap.get s' n' = AMap.get s n' := by
  simp only [step] at hs
  split at hs
  · split at hs
    · simp at hs; rw [← hs, AMap.get_del_ne _ _ _ hne]
    · simp at hs; rw [hs]
  · simp at hs; rw [hs]

/-! ### FIFO -/

/-- a release hands the unit to the HEAD of the queue, and to nobody else -/
theorem release_serves_head (n : Str) (o : Obj) (w : Tid × Str) (q' : List (Tid × Str)) (hq : o.q = w :: q') :
    (o.freeUnit n).1.q = q' ∧ (o.freeUnit n).1.acq = w :: o.acq ∧ (o.freeUnit n).2 = [.grant n w.2] := by
  unfold Obj.freeUnit; rw [hq]; exact ⟨rfl, rfl, rfl⟩

/-- arrivals join at the tail -/
theorem enqueue_at_tail (n : Str) (o o' : Obj) (t : Tid) (k : Str) (ev : List AOp)
    (hs : stepObj n o (.acquire t n k) = some (o', ev)) (hfull : ¬ (o.cur < o.size ∧ o.q = [])) :
    o'.q = o.q ++ [(t, k)] := by
  simp only [stepObj] at hs
  split at hs
  · cases hs
  · simp [hfull] at hs; rw [← hs.1]

/-- a waiter that gave up is out of the queue: with distinct entries it cannot be served later -/
theorem cancelled_leaves_queue (n : Str) (o o' : Obj) (t : Tid) (k : Str) (ev : List AOp) (hnd : o.q.Nodup)
    (hs : stepObj n o (.cancel t n k) = some (o', ev)) : (t, k) ∉ o'.q ∧ o'.q.Sublist o.q := by
  simp only [stepObj] at hs
  split at hs <;> simp at hs
  rw [← hs.1]
  exact ⟨fun h => (hnd.mem_erase_iff.mp h).1 rfl, List.erase_sublist⟩

/-! ### refinement to the atomic counting lock -/

theorem abs_length (o : Obj) : o.abs.length = o.keys.length + o.acq.length := by simp [Obj.abs]

/-- side condition of the refinement step: a failing Unlock presents a key that is not in the middle
of being granted (a client cannot know such a key yet: it has not been returned to anybody) -/
def sideOk (o : Obj) : Act → Prop
  | .unlock _ _ k => k ∉ o.keys → k ∉ o.acq.map (·.2)
  | _ => True

theorem freeUnit_sim (n : Str) (o : Obj) (h : List Str)
    (hperm : h.Perm o.abs) (hcur : o.cur = o.abs.length + 1) (hb : o.cur ≤ o.size) (hn : o.q ≠ [] → o.cur = o.size) :
    ∃ h', arun o.size h (o.freeUnit n).2 = some h' ∧ h'.Perm (o.freeUnit n).1.abs := by
  unfold Obj.freeUnit
  split
  · rename_i w q' hq
    refine ⟨w.2 :: h, ?_, ?_⟩
    · have : h.length < o.size := by rw [hperm.length_eq]; have := hn (by simp [hq]); omega
      simp [arun, astep, this]
    · simp only [Obj.abs, List.map_cons]
      exact (List.Perm.cons _ hperm).trans (List.perm_middle (l₁ := o.keys) (a := w.2)).symm
  · exact ⟨h, by simp [arun], by simpa [Obj.abs] using hperm⟩

/-- **one-step forward simulation**: the specification operations emitted by a critical section are
executable from the abstraction of the pre-state and lead to (a permutation of) the abstraction of
the post-state -/
theorem sim_obj (n : Str) (o o' : Obj) (a : Act) (ev : List AOp) (hi : ObjInv o) (hside : sideOk o a)
    (hs : stepObj n o a = some (o', ev)) :
    ∃ h', arun o.size o.abs ev = some h' ∧ h'.Perm o'.abs := by
  obtain ⟨hc, hb, hn⟩ := hi
  have hlen := abs_length o
  cases a with
  | tryAcquire t m k =>
    simp only [stepObj] at hs
    split at hs
    · cases hs
    · split at hs <;> simp at hs <;> obtain ⟨rfl, rfl⟩ := hs
      · refine ⟨k :: o.abs, ?_, ?_⟩
        · simp [arun, astep]; omega
        · simp [Obj.abs]; exact (List.perm_middle (l₁ := o.keys) (a := k)).symm
      · rename_i hg
        refine ⟨o.abs, ?_, List.Perm.refl _⟩
        have hfull : ¬ o.cur < o.size := by
          intro hlt
          by_cases hq : o.q = []
          · exact hg ⟨hlt, hq⟩
          · have := hn hq; omega
        simp [arun, astep]; omega
  | acquire t m k =>
    simp only [stepObj] at hs
    split at hs
    · cases hs
    · split at hs <;> simp at hs <;> obtain ⟨rfl, rfl⟩ := hs
      · refine ⟨k :: o.abs, ?_, ?_⟩
        · simp [arun, astep]; omega
        · simp [Obj.abs]; exact (List.perm_middle (l₁ := o.keys) (a := k)).symm
      · exact ⟨o.abs, by simp [arun], by simp [Obj.abs]⟩
  | addKey t m k =>
    simp only [stepObj] at hs
    split at hs <;> simp at hs
    obtain ⟨rfl, rfl⟩ := hs
    rename_i hm
    refine ⟨o.abs, by simp [arun], ?_⟩
    simp only [Obj.abs, List.append_assoc]
    apply List.Perm.append_left
    have h1 : (o.acq.map (·.2)).Perm (k :: (o.acq.erase (t, k)).map (·.2)) := by
      have := (List.perm_cons_erase hm).map (·.2); simpa using this
    simpa using h1
  | cancel t m k =>
    simp only [stepObj] at hs
    split at hs <;> simp at hs
    obtain ⟨rfl, rfl⟩ := hs
    exact ⟨o.abs, by simp [arun], by simp [Obj.abs]⟩
  | decref t m =>
    simp only [stepObj] at hs
    split at hs <;> simp at hs
    obtain ⟨rfl, rfl⟩ := hs
    exact ⟨o.abs, by simp [arun], by simp [Obj.abs]⟩
  | handBack t m k =>
    simp only [stepObj] at hs
    split at hs <;> simp at hs
    obtain ⟨rfl, rfl⟩ := hs
    rename_i hm
    have hk : k ∈ o.abs := by simp [Obj.abs]; right; exact ⟨t, hm⟩
    have hle := List.length_erase_of_mem hm
    have hpos : 0 < o.acq.length := List.length_pos_of_mem hm
    let o1 : Obj := { o with acq := o.acq.erase (t, k), plain := o.plain + 1 }
    have hperm : (o.abs.erase k).Perm o1.abs := by
      have h1 : (o.acq.map (·.2)).Perm (k :: (o.acq.erase (t, k)).map (·.2)) := by
        have := (List.perm_cons_erase hm).map (·.2); simpa using this
      have h2 : o.abs.Perm (k :: (o.keys ++ (o.acq.erase (t, k)).map (·.2))) := by
        simp only [Obj.abs]
        exact (List.Perm.append_left _ h1).trans List.perm_middle
      have := h2.erase k
      simpa [Obj.abs, o1] using this
    obtain ⟨h', hr, hp⟩ := freeUnit_sim n o1 (o.abs.erase k) hperm
      (by simp [o1, Obj.abs, hle]; omega) hb hn
    exact ⟨h', by simp [arun, astep, hk]; exact hr, hp⟩
  | unlock t m k =>
    simp only [stepObj] at hs
    split at hs
    · cases hs
    · split at hs
      · simp at hs
        obtain ⟨rfl, rfl⟩ := hs
        rename_i hm
        have hk : k ∈ o.abs := by simp [Obj.abs]; left; exact hm
        have hle := List.length_erase_of_mem hm
        have hpos : 0 < o.keys.length := List.length_pos_of_mem hm
        let o1 : Obj := { o with keys := o.keys.erase k }
        have hperm : (o.abs.erase k).Perm o1.abs := by
          have h1 : o.keys.Perm (k :: o.keys.erase k) := List.perm_cons_erase hm
          have h2 : o.abs.Perm (k :: (o.keys.erase k ++ o.acq.map (·.2))) := by
            simp only [Obj.abs]; exact h1.append_right _
          have := h2.erase k
          simpa [Obj.abs, o1] using this
        obtain ⟨h', hr, hp⟩ := freeUnit_sim n o1 (o.abs.erase k) hperm
          (by simp [o1, Obj.abs, hle]; omega) hb hn
        exact ⟨h', by simp [arun, astep, hk]; exact hr, hp⟩
      · simp at hs
        obtain ⟨rfl, rfl⟩ := hs
        rename_i hm
        have hs2 := hside hm
        refine ⟨o.abs, ?_, List.Perm.refl _⟩
        have : k ∉ o.abs := by simp [Obj.abs]; exact ⟨hm, by simpa using hs2⟩
        simp [arun, astep, this]
  | getCreate _ _ _ => simp [stepObj] at hs
  | getExisting _ _ => simp [stepObj] at hs
  | gc _ => simp [stepObj] at hs

end Ldlm.Table

namespace Ldlm.Table
open Ldlm

/-! ### lifting the simulation to whole schedules on one lock object -/

def runObj (n : Str) : Obj → List Act → Option (Obj × List AOp)
  | o, [] => some (o, [])
  | o, a :: as =>
    match stepObj n o a with
    | none => none
    | some (o', ev) => (runObj n o' as).map (fun r => (r.1, ev ++ r.2))

/-- the side condition at every step of the schedule -/
def AllSide (n : Str) : Obj → List Act → Prop
  | _, [] => True
  | o, a :: as => sideOk o a ∧ (match stepObj n o a with
      | some (o', _) => AllSide n o' as
      | none => True)

theorem astep_perm (size : Nat) (h1 h2 : List Str) (hp : h1.Perm h2) (a : AOp) (r1 : List Str)
    (hs : astep size h1 a = some r1) : ∃ r2, astep size h2 a = some r2 ∧ r1.Perm r2 := by
  have hl := hp.length_eq
  cases a with
  | «try» n k ok =>
    cases ok
    · simp only [astep] at hs ⊢
      split at hs
      · cases hs
      · cases hs; rename_i h; exact ⟨h2, by simp [← hl, h], hp⟩
    · simp only [astep] at hs ⊢
      split at hs
      · cases hs; rename_i h; exact ⟨k :: h2, by simp [← hl, h], hp.cons _⟩
      · cases hs
  | grant n k =>
    simp only [astep] at hs ⊢
    split at hs
    · cases hs; rename_i h; exact ⟨k :: h2, by simp [← hl, h], hp.cons _⟩
    · cases hs
  | unlock n k ok =>
    cases ok
    · simp only [astep] at hs ⊢
      split at hs
      · cases hs
      · cases hs; rename_i h
        have hnm : k ∉ h2 := fun hm => h (hp.mem_iff.mpr hm)
        exact ⟨h2, by simp [hnm], hp⟩
    · simp only [astep] at hs ⊢
      split at hs
      · cases hs; rename_i h
        exact ⟨h2.erase k, by simp [hp.mem_iff.mp h], hp.erase k⟩
      · cases hs

theorem arun_perm (size : Nat) : ∀ (ev : List AOp) (h1 h2 r1 : List Str), h1.Perm h2 →
    arun size h1 ev = some r1 → ∃ r2, arun size h2 ev = some r2 ∧ r1.Perm r2 := by
  intro ev
  induction ev with
  | nil => intro h1 h2 r1 hp hr; simp [arun] at hr; exact ⟨h2, by simp [arun], hr ▸ hp⟩
  | cons a ev ih =>
    intro h1 h2 r1 hp hr
    simp only [arun] at hr ⊢
    cases hs : astep size h1 a with
    | none => simp [hs] at hr
    | some m1 =>
      simp [hs] at hr
      obtain ⟨m2, hs2, hpm⟩ := astep_perm size h1 h2 hp a m1 hs
      obtain ⟨r2, hr2, hpr⟩ := ih m1 m2 r1 hpm hr
      exact ⟨r2, by simp [hs2, hr2], hpr⟩

theorem arun_append (size : Nat) : ∀ (e1 e2 : List AOp) (h m : List Str),
    arun size h e1 = some m → arun size h (e1 ++ e2) = arun size m e2 := by
  intro e1
  induction e1 with
  | nil => intro e2 h m hr; simp [arun] at hr; simp [hr]
  | cons a e1 ih =>
    intro e2 h m hr
    simp only [arun, List.cons_append] at hr ⊢
    cases hs : astep size h a with
    | none => simp [hs] at hr
    | some x => simp [hs] at hr ⊢; exact ih e2 x m hr

/-- **refinement, whole schedules**: every schedule of critical sections on a lock object, by any
number of threads, is explained by a sequential execution of the atomic counting lock that performs
the emitted operations in schedule order — each operation takes effect at one of its own steps, so
inside its call's interval (linearizability) — and ends in the abstraction of the final state. -/
theorem refines_obj (n : Str) : ∀ (as : List Act) (o o' : Obj) (ev : List AOp),
    ObjInv o → AllSide n o as → runObj n o as = some (o', ev) →
    ∃ h', arun o.size o.abs ev = some h' ∧ h'.Perm o'.abs := by
  intro as
  induction as with
  | nil =>
    intro o o' ev _ _ hr
    simp [runObj] at hr
    obtain ⟨rfl, rfl⟩ := hr
    exact ⟨o.abs, by simp [arun], List.Perm.refl _⟩
  | cons a as ih =>
    intro o o' ev hi hside hr
    simp only [runObj] at hr
    cases hs : stepObj n o a with
    | none => simp [hs] at hr
    | some r =>
      obtain ⟨o1, ev1⟩ := r
      simp only [hs] at hr
      cases hr2 : runObj n o1 as with
      | none => simp [hr2] at hr
      | some r2 =>
        simp [hr2] at hr
        obtain ⟨rfl, rfl⟩ := hr
        obtain ⟨hi1, hsz⟩ := stepObj_inv n o o1 a ev1 hi hs
        simp only [AllSide, hs] at hside
        obtain ⟨m, hm, hpm⟩ := sim_obj n o o1 a ev1 hi hside.1 hs
        obtain ⟨h', hh', hp'⟩ := ih o1 r2.1 r2.2 hi1 hside.2 hr2
        rw [hsz] at hh'
        obtain ⟨h2, hh2, hp2⟩ := arun_perm o.size r2.2 o1.abs m h' hpm.symm hh'
        refine ⟨h2, ?_, hp2.symm.trans hp'⟩
        rw [arun_append o.size ev1 r2.2 o.abs m hm]
        exact hh2

/-- consequence: free capacity is always size minus live keys — conservation under every schedule -/
theorem runObj_inv (n : Str) : ∀ (as : List Act) (o o' : Obj) (ev : List AOp),
    ObjInv o → runObj n o as = some (o', ev) → ObjInv o' ∧ o'.size = o.size := by
  intro as
  induction as with
  | nil => intro o o' ev hi hr; simp [runObj] at hr; rw [← hr.1]; exact ⟨hi, rfl⟩
  | cons a as ih =>
    intro o o' ev hi hr
    simp only [runObj] at hr
    cases hs : stepObj n o a with
    | none => simp [hs] at hr
    | some r =>
      obtain ⟨o1, ev1⟩ := r
      simp only [hs] at hr
      cases hr2 : runObj n o1 as with
      | none => simp [hr2] at hr
      | some r2 =>
        simp [hr2] at hr
        obtain ⟨rfl, _⟩ := hr
        obtain ⟨hi1, hsz⟩ := stepObj_inv n o o1 a ev1 hi hs
        obtain ⟨hi2, hsz2⟩ := ih o1 r2.1 r2.2 hi1 hr2
        exact ⟨hi2, by rw [hsz2, hsz]⟩

end Ldlm.Table
