/-!
M7 — the state file under a kill at any instant (C09).

The bookkeeping and its file: `sessionManager` changes its map and rewrites the whole file inside one
critical section (`AddLock` / `RemoveLock` / `DestroySession` → `Save` → `store.Write`), and
`store.Write` is `Truncate(0)`, `Seek(0)`, `Write(d)`, `Sync()` (pinned to its source text).  A kill
can hit between any two of those file operations, and between any two manager calls of the
server-level threads (table first, bookkeeping second, answer last — `server.go`).

A session end (`LockServer.DestroySession`) is bookkeeping first (`destroy`: the whole entry at once, one rewrite), table
second (`tableDel` per hold) - the other way round from Unlock and the lease callback.

One model step = one file operation or one manager call; a crash point = any reachable state.
Process-kill model: what has been written stays (page cache survives); no power loss.
-/
namespace Ldlm.Crash

abbrev Pair := Nat × Nat          -- (lock name, key), abstract

inductive FileImg
  | table (hs : List Pair)        -- the file holds the encoding of this bookkeeping table
  | empty                         -- after `Truncate(0)`, before `Write`
deriving DecidableEq, Repr

structure St where
  held     : List Pair            -- lock table
  book     : List Pair            -- in-memory bookkeeping
  file     : FileImg
  unsaved  : Bool                 -- the bookkeeping changed and the rewrite has not finished (inside the critical section)
  ackGrant : List Pair            -- grants that have been answered
  ackRel   : List Pair            -- releases that have been answered
  ended    : List Pair            -- ghost: holds that have left the lock table (keys are never reused)
  booked   : List Pair            -- ghost: holds that have ever been recorded (AddLock runs once per granted key)
  expiring : List Pair            -- ghost: holds whose lease timer has fired (the callback releases them)
  dying    : List Pair            -- ghost: holds of ended sessions (`DestroySession` took them out of the bookkeeping; its loop releases them)
deriving DecidableEq, Repr

inductive Act
  | tableAdd (p : Pair)           -- G1: `lockMgr.TryLock/Lock` succeeds
  | tableDel (p : Pair)           -- U1 / C1 / D2: `lockMgr.Unlock` succeeds
  | bookAdd (p : Pair)            -- G2: `AddLock` (in-memory part)
  | bookDel (p : Pair)            -- U2 / C2: `RemoveLock` (in-memory part)
  | truncate                      -- `fh.Truncate(0)`
  | write                         -- `fh.Write(d)` (+ `Sync`)
  | answerGrant (p : Pair)        -- the Lock/TryLock response leaves the server
  | answerRelease (p : Pair)      -- the Unlock response leaves the server
  | expire (p : Pair)             -- the lease timer of a live hold fires (its callback: tableDel, then bookDel)
  | destroy (ps : List Pair)      -- D1: `sessionManager.DestroySession` (in-memory part): the session's entry, with its holds `ps`,
                                  --     leaves the bookkeeping; the loop of `LockServer.DestroySession` then releases them (tableDel)
deriving DecidableEq, Repr

def step (s : St) : Act → Option St
  | .tableAdd p => if p ∈ s.held ∨ p ∈ s.ended then none else some { s with held := p :: s.held }
  | .tableDel p => if p ∈ s.held then some { s with held := s.held.filter (· ≠ p), ended := p :: s.ended } else none
  | .bookAdd p =>
    -- needs the session-table mutex: no rewrite in progress; the grant holds the unit already
    if s.unsaved ∨ p ∉ s.held ∨ p ∈ s.book ∨ p ∈ s.booked then none
    else some { s with book := s.book ++ [p], booked := p :: s.booked, unsaved := true }
  | .bookDel p =>
    -- after the table released the unit (Unlock, lease callback) - or, on Unlock's "lease timer already
    -- fired" path, while the callback has not released it yet (found by the trace validation, as for M3a)
    if s.unsaved ∨ (p ∈ s.held ∧ p ∉ s.expiring) then none else some { s with book := s.book.filter (· ≠ p), unsaved := true }
  | .truncate => if s.unsaved ∧ s.file ≠ .empty then some { s with file := .empty } else none
  | .write => if s.unsaved ∧ s.file = .empty then some { s with file := .table s.book, unsaved := false } else none
  | .answerGrant p =>
    -- `server.go` answers after `AddLock` (+Save) has returned
    if p ∈ s.book ∧ ¬ s.unsaved then some { s with ackGrant := p :: s.ackGrant } else none
  | .answerRelease p =>
    -- … and after `RemoveLock` (+Save) has returned
    if p ∉ s.book ∧ p ∈ s.booked ∧ (p ∈ s.ended ∨ p ∈ s.expiring) ∧ ¬ s.unsaved then some { s with ackRel := p :: s.ackRel } else none
  | .expire p => if p ∈ s.held then some { s with expiring := p :: s.expiring } else none
  | .destroy ps =>
    -- needs the session-table mutex; the entry lists holds that are recorded; the file is rewritten even for an empty entry
    if s.unsaved ∨ ¬ (∀ p ∈ ps, p ∈ s.book) then none
    else some { s with book := s.book.filter (· ∉ ps), dying := ps ++ s.dying, unsaved := true }

def init : St := { held := [], book := [], file := .table [], unsaved := false, ackGrant := [], ackRel := [], ended := [],
                   booked := [], expiring := [], dying := [] }

def run : St → List Act → Option St
  | s, [] => some s
  | s, a :: as => match step s a with
    | none => none
    | some s' => run s' as

/-- what a new server restores from the file left behind (an empty file loads as "no holds") -/
def recovered (s : St) : List Pair :=
  match s.file with
  | .table hs => hs
  | .empty => []

/-- the kill hit inside a rewrite, between `Truncate` and `Write` -/
def inRewrite (s : St) : Prop := s.file = .empty

end Ldlm.Crash
