import Ldlm.Generated.Facts
/-!
Source fingerprints for C13: the functions of /repo its models were written against (verifcfg.FPMAP).
`Facts.fp_*` is regenerated from the working tree by every check (first 16 hex digits of SHA-256 of the
normalised signature and body); the right-hand sides were copied from a reviewed tree by tools/mkfp.py and
are NOT regenerated. A pin that no longer checks = this function changed since the models were written.
-/
namespace Ldlm.Pins.FP.C13
open Ldlm

/-- lock/manager.go: Manager.lockGc -/
theorem fp_lock_manager_Manager_lockGc : Facts.fp_lock_manager_Manager_lockGc = "1c709ed55fdf0790" := rfl
/-- lock/manager.go: Manager.getLock -/
theorem fp_lock_manager_Manager_getLock : Facts.fp_lock_manager_Manager_getLock = "89b7e22ffc6b733b" := rfl
/-- lock/manager.go: Manager.getShard -/
theorem fp_lock_manager_Manager_getShard : Facts.fp_lock_manager_Manager_getShard = "a1f596a6c73b1b1f" := rfl
/-- lock/manager.go: NewManagedLock -/
theorem fp_lock_manager_NewManagedLock : Facts.fp_lock_manager_NewManagedLock = "c3cfd87364aceaf2" := rfl
/-- lock/manager.go: NewManager -/
theorem fp_lock_manager_NewManager : Facts.fp_lock_manager_NewManager = "fe1b5f8139f55162" := rfl
/-- lock/manager.go: Manager.Lock -/
theorem fp_lock_manager_Manager_Lock : Facts.fp_lock_manager_Manager_Lock = "b3a78f0a87d5a3ad" := rfl
/-- lock/manager.go: Manager.TryLock -/
theorem fp_lock_manager_Manager_TryLock : Facts.fp_lock_manager_Manager_TryLock = "3c861dc7cc9f73de" := rfl
/-- lock/manager.go: Manager.Unlock -/
theorem fp_lock_manager_Manager_Unlock : Facts.fp_lock_manager_Manager_Unlock = "e1e8415d8eb20442" := rfl

end Ldlm.Pins.FP.C13
