package stack

// C15 on the real binary: "any sequence of lock (TryLock), unlock and renew requests produces the same
// responses - granted/refused, key validity, error codes - whether it is sent through the REST gateway or
// over gRPC". The in-process REST streams call the gRPC SERVICE object directly; whatever the listener set
// up by net/grpc.Run adds in front of it (server options, interceptors) is only in play over the wire. Here
// one server process gets the same battery of requests, valid and invalid, once over a real gRPC connection
// and once through a REST session, on names of their own; the answers are compared field by field.

import (
	"fmt"
	"testing"

	"verif/harness/common"
)

type c15step struct {
	what string
	o    obs
}

// c15battery runs the battery for one transport on names prefixed by pfx.
func c15battery(T transport, pfx string) []c15step {
	var out []c15step
	add := func(what string, o obs) obs { out = append(out, c15step{what, o}); return o }
	n := func(s string) string { return pfx + "-" + s }
	// plain life cycle
	a := add("TryLock(a)", T.tryLock(lockArgs{name: n("a")}))
	add("TryLock(a) again: refused", T.tryLock(lockArgs{name: n("a")}))
	add("Renew(a) of a hold without lease", T.renew(n("a"), a.Key, 5))
	add("Unlock(a, wrong key)", T.unlock(n("a"), "not-the-key"))
	add("Unlock(a)", T.unlock(n("a"), a.Key))
	add("Unlock(a) again", T.unlock(n("a"), a.Key))
	add("Unlock(unknown name)", T.unlock(n("never-locked"), "k"))
	add("Unlock(a, empty key)", T.unlock(n("a"), ""))
	// leases
	b := add("TryLock(b, lock_timeout 60)", T.tryLock(lockArgs{name: n("b"), lockTO: i32(60)}))
	add("Renew(b, 30)", T.renew(n("b"), b.Key, 30))
	add("Renew(b, 0)", T.renew(n("b"), b.Key, 0))
	add("Renew(b, -1)", T.renew(n("b"), b.Key, -1))
	add("Renew(b, wrong key)", T.renew(n("b"), "not-the-key", 30))
	add("Renew(unknown name)", T.renew(n("never-locked"), "k", 30))
	add("Unlock(b)", T.unlock(n("b"), b.Key))
	add("Renew(b) after Unlock", T.renew(n("b"), b.Key, 30))
	// parameters
	add("TryLock(empty name)", T.tryLock(lockArgs{name: ""}))
	add("TryLock(c, lock_timeout -1)", T.tryLock(lockArgs{name: n("c"), lockTO: i32(-1)}))
	add("TryLock(c, lock_timeout 0)", T.tryLock(lockArgs{name: n("c"), lockTO: i32(0)}))
	add("TryLock(d, size 0)", T.tryLock(lockArgs{name: n("d"), size: i32(0)}))
	add("TryLock(d, size -1)", T.tryLock(lockArgs{name: n("d"), size: i32(-1)}))
	e1 := add("TryLock(e, size 2)", T.tryLock(lockArgs{name: n("e"), size: i32(2)}))
	add("TryLock(e, size 3): mismatch", T.tryLock(lockArgs{name: n("e"), size: i32(3)}))
	e2 := add("TryLock(e, size 2) second unit", T.tryLock(lockArgs{name: n("e"), size: i32(2)}))
	add("TryLock(e, size 2) third: refused", T.tryLock(lockArgs{name: n("e"), size: i32(2)}))
	add("TryLock(e) size absent on a size-2 lock", T.tryLock(lockArgs{name: n("e")}))
	add("Unlock(e, first key)", T.unlock(n("e"), e1.Key))
	add("Unlock(e, second key)", T.unlock(n("e"), e2.Key))
	return out
}

func c15canon(o obs) string {
	te := "-"
	if o.TransportErr != "" {
		te = "transport-error"
	}
	return fmt.Sprintf("transport=%s flag=%v key=%v error=%v code=%s", te, o.Flag, o.Key != "", o.HasErr, o.Code)
}

func runC15(t *testing.T, res *common.Result, rng *common.Rng) {
	res.Rule = "one real server process (gRPC and REST listeners); a battery of 28 requests - TryLock/Unlock/Renew life cycles with and without lease, wrong and empty keys, unknown names, empty name, negative and zero timeouts, sizes 0 and -1, size mismatch, a counting lock filled and refused - sent once over a real gRPC connection and once through a REST session, on names of their own; compared per step: transport-level failure or not, locked/unlocked flag, whether a key came back, whether an error came back and its code. distinct = step; non-trivial = the step carries an error or a refusal on the gRPC side"
	for _, extra := range [][]string{nil, {"--no_clear_on_disconnect"}} {
		srv := startServer(t, srvCfg{rest: true, extra: extra})
		if !srv.started {
			t.Fatalf("server did not start: %v", srv.logTail(40))
		}
		g := &grpcT{g: dialGrpc(t, srv.grpcAddr, nil)}
		rc := newRestClient(srv.restAddr, nil)
		if r := rc.createSession(); r.Status != 201 {
			t.Fatalf("cannot create a REST session: %+v", r)
		}
		pfx := randName(rng, "eq")
		gs := c15battery(g, pfx+"-g")
		rs := c15battery(&restT{c: rc}, pfx+"-r")
		for i := range gs {
			res.Count("c15-wire-step")
			res.Eval(fmt.Sprintf("c15wire|%v|%s", extra, gs[i].what), gs[i].o.HasErr || !gs[i].o.Flag)
			cg, cr := c15canon(gs[i].o), c15canon(rs[i].o)
			if cg != cr {
				res.Find(common.Finding{Kind: "violation", Property: "C15", Signature: "stack:equiv:" + gs[i].o.Rpc + ":wire",
					What: fmt.Sprintf("step %d, %s: over gRPC the server answered {%s} (%s), through the REST gateway {%s} (%s)", i+1, gs[i].what, cg, gs[i].o.Msg, cr, rs[i].o.Raw),
					Replay: map[string]any{"server_flags": srv.args, "step": gs[i].what, "grpc": gs[i].o, "rest": rs[i].o, "battery_so_far": func() []string {
						l := []string{}
						for j := 0; j <= i; j++ {
							l = append(l, fmt.Sprintf("%s | grpc: %s | rest: %s", gs[j].what, c15canon(gs[j].o), c15canon(rs[j].o)))
						}
						return l
					}()}})
			}
		}
		g.g.close()
		rc.closeIdle()
		srv.kill()
	}
}
