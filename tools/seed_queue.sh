#!/bin/sh
# seed_queue.sh: serially process the lines "<id> <prop> [<prop>...]" appended to /tmp/wt/queue: confirm the
# change in its worktree, run its demo with and without it, then run the named checks on /repo with the
# change applied (tools/trymutant.sh). One at a time, because trymutant patches /repo itself.
touch /tmp/wt/queue /tmp/wt/queue.done
while true; do
  [ -f /tmp/wt/queue.stop ] && exit 0
  line=$(grep -vxFf /tmp/wt/queue.done /tmp/wt/queue | head -1)
  if [ -z "$line" ]; then sleep 5; continue; fi
  set -- $line; id=$1; shift
  if [ ! -f /tmp/wt/out/$id/confirm.log ]; then sh /verif/tools/process_seeded.sh $id > /tmp/wt/out/$id/process.log 2>&1; fi
  sh /verif/tools/trymutant.sh $id /tmp/wt/out/$id/patch.diff "$@" > /tmp/wt/out/$id/try.log 2>&1
  echo "$line" >> /tmp/wt/queue.done
done
