import Ldlm.Generated.Facts
/-!
Source fingerprints for C12: the functions of /repo its models were written against (verifcfg.FPMAP).
`Facts.fp_*` is regenerated from the working tree by every check (first 16 hex digits of SHA-256 of the
normalised signature and body); the right-hand sides were copied from a reviewed tree by tools/mkfp.py and
are NOT regenerated. A pin that no longer checks = this function changed since the models were written.
-/
namespace Ldlm.Pins.FP.C12
open Ldlm

/-- server/server.go: LockServer.Lock -/
theorem fp_server_server_LockServer_Lock : Facts.fp_server_server_LockServer_Lock = "5d4c78175f668159" := rfl
/-- server/server.go: LockServer.TryLock -/
theorem fp_server_server_LockServer_TryLock : Facts.fp_server_server_LockServer_TryLock = "0ae939aca2e2a058" := rfl
/-- server/server.go: LockServer.Renew -/
theorem fp_server_server_LockServer_Renew : Facts.fp_server_server_LockServer_Renew = "ec4eb8cf57e4c2a1" := rfl
/-- lock/manager.go: Manager.getLock -/
theorem fp_lock_manager_Manager_getLock : Facts.fp_lock_manager_Manager_getLock = "89b7e22ffc6b733b" := rfl
/-- lock/manager.go: Manager.getShard -/
theorem fp_lock_manager_Manager_getShard : Facts.fp_lock_manager_Manager_getShard = "a1f596a6c73b1b1f" := rfl
/-- lock/manager.go: NewManagedLock -/
theorem fp_lock_manager_NewManagedLock : Facts.fp_lock_manager_NewManagedLock = "c3cfd87364aceaf2" := rfl
/-- lock/manager.go: NewManager -/
theorem fp_lock_manager_NewManager : Facts.fp_lock_manager_NewManager = "fe1b5f8139f55162" := rfl
/-- net/grpc/grpc.go: Service.Lock -/
theorem fp_net_grpc_grpc_Service_Lock : Facts.fp_net_grpc_grpc_Service_Lock = "39132fa414ac5180" := rfl
/-- net/grpc/grpc.go: Service.Unlock -/
theorem fp_net_grpc_grpc_Service_Unlock : Facts.fp_net_grpc_grpc_Service_Unlock = "ffa33f17adce51a7" := rfl
/-- net/grpc/grpc.go: Service.TryLock -/
theorem fp_net_grpc_grpc_Service_TryLock : Facts.fp_net_grpc_grpc_Service_TryLock = "5e23c58e7e30fa90" := rfl
/-- net/grpc/grpc.go: Service.Renew -/
theorem fp_net_grpc_grpc_Service_Renew : Facts.fp_net_grpc_grpc_Service_Renew = "d5bbb46706d86bd2" := rfl
/-- net/grpc/grpc.go: lockErrToProtoBuffErr -/
theorem fp_net_grpc_grpc_lockErrToProtoBuffErr : Facts.fp_net_grpc_grpc_lockErrToProtoBuffErr = "15bd3af5d2e0d8ac" := rfl

end Ldlm.Pins.FP.C12
