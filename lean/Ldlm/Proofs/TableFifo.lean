import Ldlm.Proofs.Table
/-! M1: service in arrival order, for every schedule.  (1) while somebody is queued, the only grant a
critical section can make goes to the HEAD of the queue (`no_overtaking`); (2) the queue only ever
loses elements and gains them at the tail, so the waiters present at any two instants keep their
relative order and stay ahead of every later arrival (`queue_order`, lifted to schedules). -/
namespace Ldlm.Table
open Ldlm

/-- with a non-empty queue no TryLock succeeds, no Lock takes the fast path, and a released unit is
handed to the head waiter and nobody else -/
theorem no_overtaking (n : Str) (o o' : Obj) (a : Act) (ev : List AOp) (w : Tid × Str) (q' : List (Tid × Str))
    (hq : o.q = w :: q') (hs : stepObj n o a = some (o', ev)) :
    ∀ op ∈ ev, (∀ m k, op ≠ .try m k true) ∧ (∀ m k, op = .grant m k → k = w.2 ∧ w ∈ o'.acq ∧ o'.q = q') := by
  cases a with
  | tryAcquire t m k =>
    simp only [stepObj] at hs
    split at hs
    · cases hs
    · split at hs
      · rename_i h; simp [hq] at h
      · simp at hs; obtain ⟨-, rfl⟩ := hs
        intro op hop; simp at hop; subst hop; simp
  | acquire t m k =>
    simp only [stepObj] at hs
    split at hs
    · cases hs
    · split at hs
      · rename_i h; simp [hq] at h
      · simp at hs; obtain ⟨-, rfl⟩ := hs
        intro op hop; simp at hop
  | addKey t m k =>
    simp only [stepObj] at hs
    split at hs
    · simp at hs; obtain ⟨-, rfl⟩ := hs; intro op hop; simp at hop
    · cases hs
  | handBack t m k =>
    simp only [stepObj] at hs
    split at hs
    · simp [Obj.freeUnit, hq] at hs
      obtain ⟨rfl, rfl⟩ := hs
      intro op hop
      simp at hop
      rcases hop with rfl | rfl <;> simp
    · cases hs
  | cancel t m k =>
    simp only [stepObj] at hs
    split at hs
    · simp at hs; obtain ⟨-, rfl⟩ := hs; intro op hop; simp at hop
    · cases hs
  | unlock t m k =>
    simp only [stepObj] at hs
    split at hs
    · cases hs
    · split at hs
      · simp [Obj.freeUnit, hq] at hs
        obtain ⟨rfl, rfl⟩ := hs
        intro op hop
        simp at hop
        rcases hop with rfl | rfl <;> simp
      · simp at hs; obtain ⟨-, rfl⟩ := hs
        intro op hop; simp at hop; subst hop; simp
  | decref t m =>
    simp only [stepObj] at hs
    split at hs
    · simp at hs; obtain ⟨-, rfl⟩ := hs; intro op hop; simp at hop
    · cases hs
  | getCreate _ _ _ => simp [stepObj] at hs
  | getExisting _ _ => simp [stepObj] at hs
  | gc _ => simp [stepObj] at hs

/-- the queue after a run: some of the old waiters, in their old order, followed by new arrivals -/
def QueueOrder (q q' : List (Tid × Str)) : Prop := ∃ keep add, q' = keep ++ add ∧ keep.Sublist q

theorem QueueOrder.refl (q : List (Tid × Str)) : QueueOrder q q := ⟨q, [], by simp, List.Sublist.refl q⟩

theorem QueueOrder.trans {q1 q2 q3 : List (Tid × Str)} (h12 : QueueOrder q1 q2) (h23 : QueueOrder q2 q3) :
    QueueOrder q1 q3 := by
  obtain ⟨k1, a1, rfl, hk1⟩ := h12
  obtain ⟨k2, a2, rfl, hk2⟩ := h23
  obtain ⟨l1, l2, rfl, hl1, hl2⟩ := List.sublist_append_iff.mp hk2
  exact ⟨l1, l2 ++ a2, by simp, hl1.trans hk1⟩

theorem queue_order_step (n : Str) (o o' : Obj) (a : Act) (ev : List AOp)
    (hs : stepObj n o a = some (o', ev)) : QueueOrder o.q o'.q := by
  cases a with
  | tryAcquire t m k =>
    simp only [stepObj] at hs
    split at hs
    · cases hs
    · split at hs <;> simp at hs <;> obtain ⟨rfl, -⟩ := hs <;> exact QueueOrder.refl _
  | acquire t m k =>
    simp only [stepObj] at hs
    split at hs
    · cases hs
    · split at hs <;> simp at hs <;> obtain ⟨rfl, -⟩ := hs
      · exact QueueOrder.refl _
      · exact ⟨o.q, [(t, k)], rfl, List.Sublist.refl _⟩
  | addKey t m k =>
    simp only [stepObj] at hs
    split at hs
    · simp at hs; obtain ⟨rfl, -⟩ := hs; exact QueueOrder.refl _
    · cases hs
  | handBack t m k =>
    simp only [stepObj] at hs
    split at hs
    · cases hq : o.q with
      | nil => simp [Obj.freeUnit, hq] at hs; obtain ⟨rfl, -⟩ := hs; simp [hq]; exact QueueOrder.refl _
      | cons w q' =>
        simp [Obj.freeUnit, hq] at hs; obtain ⟨rfl, -⟩ := hs
        exact ⟨q', [], by simp, List.sublist_cons_self w q'⟩
    · cases hs
  | cancel t m k =>
    simp only [stepObj] at hs
    split at hs
    · simp at hs; obtain ⟨rfl, -⟩ := hs
      exact ⟨o.q.erase (t, k), [], by simp, List.erase_sublist⟩
    · cases hs
  | unlock t m k =>
    simp only [stepObj] at hs
    split at hs
    · cases hs
    · split at hs
      · cases hq : o.q with
        | nil => simp [Obj.freeUnit, hq] at hs; obtain ⟨rfl, -⟩ := hs; simp [hq]; exact QueueOrder.refl _
        | cons w q' =>
          simp [Obj.freeUnit, hq] at hs; obtain ⟨rfl, -⟩ := hs
          exact ⟨q', [], by simp, List.sublist_cons_self w q'⟩
      · simp at hs; obtain ⟨rfl, -⟩ := hs; exact QueueOrder.refl _
  | decref t m =>
    simp only [stepObj] at hs
    split at hs
    · simp at hs; obtain ⟨rfl, -⟩ := hs; exact QueueOrder.refl _
    · cases hs
  | getCreate _ _ _ => simp [stepObj] at hs
  | getExisting _ _ => simp [stepObj] at hs
  | gc _ => simp [stepObj] at hs

/-- **every schedule**: the waiters still queued keep their order and stay ahead of later arrivals -/
theorem queue_order (n : Str) : ∀ (as : List Act) (o o' : Obj) (ev : List AOp),
    runObj n o as = some (o', ev) → QueueOrder o.q o'.q := by
  intro as
  induction as with
  | nil => intro o o' ev hr; simp [runObj] at hr; rw [← hr.1]; exact QueueOrder.refl _
  | cons a as ih =>
    intro o o' ev hr
    simp only [runObj] at hr
    cases hs : stepObj n o a with
    | none => simp [hs] at hr
    | some r =>
      obtain ⟨o1, ev1⟩ := r
      simp only [hs] at hr
      cases hr2 : runObj n o1 as with
      | none => simp [hr2] at hr
      | some r2 =>
        simp [hr2] at hr
        obtain ⟨rfl, -⟩ := hr
        exact (queue_order_step n o o1 a ev1 hs).trans (ih o1 r2.1 r2.2 hr2)

end Ldlm.Table
