import Ldlm.Generated.Facts
/-!
Source fingerprints for C18: the functions of /repo its models were written against (verifcfg.FPMAP).
`Facts.fp_*` is regenerated from the working tree by every check (first 16 hex digits of SHA-256 of the
normalised signature and body); the right-hand sides were copied from a reviewed tree by tools/mkfp.py and
are NOT regenerated. A pin that no longer checks = this function changed since the models were written.
-/
namespace Ldlm.Pins.FP.C18
open Ldlm

/-- server/ipc/ipc.go: IPC.Unlock -/
theorem fp_server_ipc_ipc_IPC_Unlock : Facts.fp_server_ipc_ipc_IPC_Unlock = "f20ecad63ca6b4b7" := rfl
/-- server/ipc/ipc.go: IPC.ListLocks -/
theorem fp_server_ipc_ipc_IPC_ListLocks : Facts.fp_server_ipc_ipc_IPC_ListLocks = "20f4de1cdfc40a66" := rfl
/-- server/ipc/server.go: setUp -/
theorem fp_server_ipc_server_setUp : Facts.fp_server_ipc_server_setUp = "47aa9c3530bbc5c2" := rfl
/-- server/ipc/server.go: Run -/
theorem fp_server_ipc_server_Run : Facts.fp_server_ipc_server_Run = "22e26c857abefc05" := rfl
/-- server/ipc/server.go: socketPathExists -/
theorem fp_server_ipc_server_socketPathExists : Facts.fp_server_ipc_server_socketPathExists = "cc8313c5c9d485f4" := rfl
/-- cmd/lock/cmd_list.go: ListArgsAndFlags.Run -/
theorem fp_cmd_lock_cmd_list_ListArgsAndFlags_Run : Facts.fp_cmd_lock_cmd_list_ListArgsAndFlags_Run = "84135c6dc6ba6cfb" := rfl
/-- cmd/lock/cmd_unlock.go: UnlockArgsAndFlags.Run -/
theorem fp_cmd_lock_cmd_unlock_UnlockArgsAndFlags_Run : Facts.fp_cmd_lock_cmd_unlock_UnlockArgsAndFlags_Run = "c1cd60ff2063f1d1" := rfl
/-- cmd/lock/main.go: newClient -/
theorem fp_cmd_lock_main_newClient : Facts.fp_cmd_lock_main_newClient = "23b8991e235a1fd0" := rfl
/-- cmd/lock/main.go: main -/
theorem fp_cmd_lock_main_main : Facts.fp_cmd_lock_main_main = "15629b3342836146" := rfl
/-- server/server.go: LockServer.Locks -/
theorem fp_server_server_LockServer_Locks : Facts.fp_server_server_LockServer_Locks = "8fdbab2ce5539956" := rfl
/-- server/server.go: LockServer.Unlock -/
theorem fp_server_server_LockServer_Unlock : Facts.fp_server_server_LockServer_Unlock = "b03d29042086a906" := rfl
/-- server/server.go: New -/
theorem fp_server_server_New : Facts.fp_server_server_New = "2983141b82215c42" := rfl
/-- server/session/session.go: NewManager -/
theorem fp_server_session_session_NewManager : Facts.fp_server_session_session_NewManager = "5ca359a0b1c682f8" := rfl
/-- server/session/session.go: sessionManager.Locks -/
theorem fp_server_session_session_sessionManager_Locks : Facts.fp_server_session_session_sessionManager_Locks = "67493f071b8eb610" := rfl
/-- server/session/session.go: sessionManager.SetStore -/
theorem fp_server_session_session_sessionManager_SetStore : Facts.fp_server_session_session_sessionManager_SetStore = "97625d34a6f05b7f" := rfl
/-- server/session/session.go: sessionManager.Load -/
theorem fp_server_session_session_sessionManager_Load : Facts.fp_server_session_session_sessionManager_Load = "bbd42fe66f815d45" := rfl
/-- server/session/session.go: sessionManager.Save -/
theorem fp_server_session_session_sessionManager_Save : Facts.fp_server_session_session_sessionManager_Save = "9404ce9805d10d3e" := rfl
/-- server/session/session.go: sessionManager.RemoveLock -/
theorem fp_server_session_session_sessionManager_RemoveLock : Facts.fp_server_session_session_sessionManager_RemoveLock = "412eef7bf932a6d8" := rfl
/-- server/session/session.go: sessionManager.AddLock -/
theorem fp_server_session_session_sessionManager_AddLock : Facts.fp_server_session_session_sessionManager_AddLock = "436f7ec5c8000602" := rfl
/-- server/session/session.go: sessionManager.CreateSession -/
theorem fp_server_session_session_sessionManager_CreateSession : Facts.fp_server_session_session_sessionManager_CreateSession = "c21a993e958869ee" := rfl
/-- server/session/session.go: sessionManager.DestroySession -/
theorem fp_server_session_session_sessionManager_DestroySession : Facts.fp_server_session_session_sessionManager_DestroySession = "bb064f981806fa92" := rfl

end Ldlm.Pins.FP.C18
