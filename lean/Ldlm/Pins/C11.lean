import Ldlm.Generated.Facts
/-!
Pins: the normalised source text of the small decision functions the hand-written models M4/M6/M7
were written against.  `Generated/Facts.lean` is regenerated from /repo on every run; each `pin_*`
theorem below breaks when the function's text changes (comment-only and whitespace-only edits do
not change the normalised text).  A broken pin is a broken proof obligation: the models may no
longer describe the code, and the check then searches the implementation for a failing input.
This file is written by hand (copied from the facts at the time the models were written) and is
NOT regenerated.

This file: the functions the models of C11 are written against. A change to one of them breaks
exactly the checks of the properties that pin it.
-/
namespace Ldlm.Pins.C11
open Ldlm

def expectedDestroySession : String := "{ sessionId = ctx.Value(sessionCtxKey).(string) if l.isShutdown.Load() { return } ctxLog := log.FromContextOrDefault(ctx) ctxLog.Info(\"Session ended\") locks := l.sessionMgr.DestroySession(sessionId) if l.noClearOnDisconnect || len(locks) == 0 { return } ctxLog.Info(\"Client session cleanup\", \"num_locks\", len(locks), ) for _, lk := range locks { if unlocked, err := l.lockMgr.Unlock(lk.Name(), lk.Key()); err != nil || !unlocked { ctxLog.Error( \"Error unlocking lock during client session cleanup\", \"lock\", lk.Name(), \"key\", lk.Key(), \"error\", err, ) } else { ctxLog.Info( \"Unlocked during client session cleanup\", \"lock\", lk.Name(), ) l.lockTimerMgr.Remove(lockTimerKey(lk.Name(), lk.Key())) } } return }"

theorem pin_DestroySession : Facts.bodyDestroySession = expectedDestroySession := rfl

end Ldlm.Pins.C11
