// Package restc drives the REST gateway of /repo (net/rest + the generated grpc-gateway handlers)
// in process and in virtual time (testing/synctest): no listener, no real sleep. Requests go through
// srv.Handler.ServeHTTP with hand-built JSON bodies; the gRPC side is the same *grpc.Service object
// called directly under a context produced by its own connection tagger.
//
//	TestRest      VERIF_PROP=C15  REST ≡ gRPC (paired servers, and both transports on one server)
//	TestRest      VERIF_PROP=C20  REST session life cycle, sequential histories
//	TestRestConc  (C20, build tag verifconc, instrumented overlay)  request ‖ DELETE ‖ idle timer
package restc

import (
	"sync/atomic"
	"context"
	"fmt"
	"net"
	"net/http"
	"net/http/httptest"
	"sort"
	"strconv"
	"strings"
	"sync"

	"verif/harness/common"
	"time"

	ldlmgrpc "github.com/imoore76/ldlm/net/grpc"
	"github.com/imoore76/ldlm/net/rest"
	"github.com/imoore76/ldlm/net/security"
	"github.com/imoore76/ldlm/server"
	"google.golang.org/grpc/stats"

	_ "verif/harness/impl" // silences the repo logger
)

const cookieName = "ldlm-session"

// deco is the service object handed to NewRestServer: the real *grpc.Service, with the two
// connection hooks observed (which lock-server session a TagConn created, how many ConnEnd events
// each session received). Everything is delegated unchanged.
type deco struct {
	*ldlmgrpc.Service
	ls      *server.LockServer
	mu      sync.Mutex
	tagged  []string       // lock-server session ids in TagConn order
	connEnd map[string]int // lock-server session id -> ConnEnd deliveries
	ends    []string       // session ids in ConnEnd order
	onEnd   func(id string) // optional observer of ConnEnd deliveries (event log of the M4c validation)
}

func (d *deco) TagConn(ctx context.Context, st *stats.ConnTagInfo) context.Context {
	ctx = d.Service.TagConn(ctx, st)
	id, _ := d.ls.SessionId(ctx)
	d.mu.Lock()
	d.tagged = append(d.tagged, id)
	d.mu.Unlock()
	return ctx
}

func (d *deco) HandleConn(ctx context.Context, st stats.ConnStats) {
	if _, ok := st.(*stats.ConnEnd); ok {
		id, _ := d.ls.SessionId(ctx)
		d.mu.Lock()
		d.connEnd[id]++
		d.ends = append(d.ends, id)
		f := d.onEnd
		d.mu.Unlock()
		if f != nil {
			f(id)
		}
	}
	d.Service.HandleConn(ctx, st)
}

func (d *deco) lastTagged() string {
	d.mu.Lock()
	defer d.mu.Unlock()
	if len(d.tagged) == 0 {
		return ""
	}
	return d.tagged[len(d.tagged)-1]
}

func (d *deco) ended(id string) int {
	d.mu.Lock()
	defer d.mu.Unlock()
	return d.connEnd[id]
}

func (d *deco) totalEnds() int {
	d.mu.Lock()
	defer d.mu.Unlock()
	return len(d.ends)
}

// side is one lock server with its service object and (optionally) a REST gateway in front of it.
type side struct {
	ls        *server.LockServer
	lsClose   func()
	svc       *deco
	srv       *http.Server
	restClose func()
	nreq      atomic.Int64 // requests sent (each from its own connection and source address)
}

func newSide(withRest bool, sessionTimeout time.Duration) (*side, error) {
	wdReset()
	cfg := &server.LockServerConfig{Shards: 4, LockGcInterval: 1000 * time.Hour, LockGcMinIdle: 5 * time.Minute, DefaultLockTimeout: 10 * time.Minute}
	cfg.IPCSocketFile = ""
	cfg.StateFile = ""
	ls, closer, err := server.New(cfg)
	if err != nil {
		if closer != nil {
			closer()
		}
		return nil, err
	}
	s := &side{ls: ls, lsClose: closer}
	s.svc = &deco{Service: ldlmgrpc.NewService(ls), ls: ls, connEnd: map[string]int{}}
	if withRest {
		srv, rc, err := rest.NewRestServer(s.svc, &rest.RestConfig{RestSessionTimeout: sessionTimeout}, &security.SecurityConfig{})
		if err != nil {
			closer()
			return nil, err
		}
		s.srv, s.restClose = srv, rc
	}
	return s, nil
}

func (s *side) close() {
	if s.restClose != nil {
		s.restClose()
	}
	s.lsClose()
}

// grpcConn is what a gRPC connection is to the service: the context its TagConn returned.
func (s *side) grpcConn(n int) context.Context {
	return s.svc.TagConn(context.Background(), &stats.ConnTagInfo{RemoteAddr: &net.TCPAddr{IP: net.IPv4(10, 0, 0, byte(1+n)), Port: 40000 + n}})
}

func (s *side) grpcEnd(ctx context.Context) { s.svc.HandleConn(ctx, &stats.ConnEnd{}) }

type httpResp struct {
	Code    int
	Body    string
	Cookie  *http.Cookie // the ldlm-session cookie of the response, if any
	NCookie int
	Panic   string
}

func (r httpResp) short() map[string]any {
	m := map[string]any{"status": r.Code, "body": strings.TrimSpace(r.Body)}
	if r.Panic != "" {
		m["panic"] = r.Panic
	}
	return m
}

// do sends one request through the gateway's handler. cookie nil = no cookie header. The request
// context is cancelled when the handler returns, as net/http does for a served request (the REST
// session context is derived from the POST /session request's context).
func (s *side) do(method, path string, cookie *string, body string) (r httpResp) {
	ctx, cancel := context.WithCancel(context.Background())
	defer cancel()
	var req *http.Request
	if body == "" && method != http.MethodPost {
		req = httptest.NewRequest(method, path, nil)
	} else {
		req = httptest.NewRequest(method, path, strings.NewReader(body))
		req.Header.Set("Content-Type", "application/json")
	}
	req = req.WithContext(ctx)
	// every request arrives on a new TCP connection, and a client's connections do not all come from one
	// source address (multi-homed hosts, NAT pools, proxies), while different clients often share one (a NAT
	// gateway): the cookie alone identifies the session
	nr := s.nreq.Add(1)
	req.RemoteAddr = fmt.Sprintf("%s:%d", []string{"10.0.0.9", "10.0.0.9", "10.0.1.9", "10.0.0.9", "192.168.7.3"}[nr%5], 50000+nr%10000)
	if cookie != nil {
		req.Header.Set("Cookie", cookieName+"="+*cookie)
	}
	rec := httptest.NewRecorder()
	wdNote(method + " " + path + " " + body)
	func() {
		defer func() {
			if p := recover(); p != nil {
				r.Panic = fmt.Sprint(p)
			}
		}()
		s.srv.Handler.ServeHTTP(rec, req)
	}()
	wdTick()
	r.Code, r.Body = rec.Code, rec.Body.String()
	for _, c := range rec.Result().Cookies() {
		if c.Name == cookieName {
			r.NCookie++
			r.Cookie = c
		}
	}
	return r
}

// locksCanon is the server's hold listing: sorted "name/size/key" (withKeys) or "name/size".
func locksCanon(ls *server.LockServer, withKeys bool) []string {
	out := []string{}
	for _, l := range ls.Locks() {
		s := strconv.Quote(l.Name()) + "/" + strconv.Itoa(int(l.Size()))
		if withKeys {
			s += "/" + l.Key()
		}
		out = append(out, s)
	}
	sort.Strings(out)
	return out
}

// stateCanon is everything a request could have changed: holds (with keys), the lock table and
// the set of armed lease timers.
func stateCanon(ls *server.LockServer) string {
	tm := ls.VerifTimerKeys()
	sort.Strings(tm)
	tbl := []string{}
	for _, l := range ls.VerifManager().VerifTable() {
		ks := append([]string{}, l.Keys...)
		sort.Strings(ks)
		tbl = append(tbl, fmt.Sprintf("%q:%d:%v", l.Name, l.Size, ks))
	}
	sort.Strings(tbl)
	return strings.Join(locksCanon(ls, true), ",") + " | " + strings.Join(tbl, ",") + " | " + strings.Join(tm, ",")
}

func p32(v int32) *int32 { return &v }

func optS(p *int32) string {
	if p == nil {
		return "-"
	}
	return strconv.Itoa(int(*p))
}


// ---- watchdog (common.Watchdog): the REST calls of the current history, for the replay of a call
// that never returns

var (
	wdTick  = func() {}
	wdMu    sync.Mutex
	wdCalls []string
)

func wdNote(call string) {
	wdMu.Lock()
	if len(wdCalls) > 200 {
		wdCalls = wdCalls[100:]
	}
	wdCalls = append(wdCalls, call)
	wdMu.Unlock()
}

func wdReset() {
	wdMu.Lock()
	wdCalls = nil
	wdMu.Unlock()
	wdTick()
}

// startWatchdog: call once per test function, outside any synctest bubble.
func startWatchdog(res *common.Result) {
	wdTick = common.Watchdog(res, common.Prop(), "rest:deadlock:call-never-returns", 60*time.Second, func() any {
		wdMu.Lock()
		defer wdMu.Unlock()
		return map[string]any{"rest_calls_of_the_current_history_last_one_never_returned_or_the_snapshot_after_it": append([]string{}, wdCalls...)}
	})
}
