import Ldlm.Model.Codec
/-! Round-trip lemmas for M0: every decoder, started at offset `n` of a buffer whose suffix from `n`
begins with an encoding, returns the encoded value and the offset just behind it. -/
namespace Ldlm.Codec

theorem bind_ok {α β} (x : Out α) (f : α → Out β) (p p' : Nat) (a : α) (h : x p = (.ok a, p')) :
    (x >>= f) p = f a p' := by
  show Out.bind x f p = _
  unfold Out.bind; rw [h]

theorem ok_eq {α} {a b : Nat} {x : α} {p : Nat} (h : a = b) :
    ((Res.ok (a, x), p) : Res (Nat × α) × Nat) = (Res.ok (b, x), p) := by rw [h]

theorem encUvarint_length_pos (v : Nat) : 0 < (encUvarint v).length := by
  unfold encUvarint; split <;> simp

theorem encUvarint_ne_nil (v : Nat) : encUvarint v ≠ [] := by
  intro h; have := encUvarint_length_pos v; rw [h] at this; simp at this

theorem decUvarintAux_enc (k : Nat) : ∀ (v i x m pos f : Nat) (rest : Bytes) (p : Nat),
    v < 128 ^ (k+1) → i + k ≤ 8 → k + 1 ≤ f →
    decUvarintAux f i x m (encUvarint v ++ rest) pos p
      = (.ok (pos + (encUvarint v).length, x + v * m), p) := by
  induction k with
  | zero =>
    intro v i x m pos f rest p hv hik hf
    have hv' : v < 128 := by simpa using hv
    cases f with
    | zero => omega
    | succ f =>
      have hi : ¬ i = 10 := by omega
      have hi9 : ¬ (i = 9 ∧ v > 1) := by omega
      unfold encUvarint
      simp [hv', decUvarintAux, hi, hi9, Out.ok]
  | succ k ih =>
    intro v i x m pos f rest p hv hik hf
    cases f with
    | zero => omega
    | succ f =>
      have hi : ¬ i = 10 := by omega
      by_cases hlt : v < 128
      · have hi9 : ¬ (i = 9 ∧ v > 1) := by omega
        unfold encUvarint
        simp [hlt, decUvarintAux, hi, hi9, Out.ok]
      · have h2 : ¬ (v % 128 + 128 < 128) := by omega
        rw [encUvarint]
        simp only [hlt, dite_false, List.cons_append, decUvarintAux, hi, h2, if_false]
        rw [ih (v / 128) (i+1) _ _ (pos+1) f rest p
              (by rw [Nat.pow_succ] at hv; omega) (by omega) (by omega)]
        have e1 : (v % 128 + 128) % 128 = v % 128 := by omega
        have e2 : v % 128 * m + v / 128 * (m * 128) = v * m := by
          have := Nat.div_add_mod v 128
          calc v % 128 * m + v / 128 * (m * 128)
              = (128 * (v / 128) + v % 128) * m := by
                rw [Nat.add_mul, Nat.add_comm]; congr 1
                rw [Nat.mul_comm m 128, ← Nat.mul_assoc, Nat.mul_comm (v/128) 128]
            _ = v * m := by rw [this]
        simp only [List.length_cons, e1]
        have e3 : pos + 1 + (encUvarint (v / 128)).length = pos + ((encUvarint (v / 128)).length + 1) := by omega
        have e4 : x + v % 128 * m + v / 128 * (m * 128) = x + v * m := by omega
        rw [e3, e4]

theorem two63_eq : two63 = 128 ^ 9 := by decide

theorem drop_add_of_drop_eq {b x rest : Bytes} {n : Nat} (h : b.drop n = x ++ rest) :
    b.drop (n + x.length) = rest := by
  rw [← List.drop_drop, h, List.drop_left]

theorem length_of_drop_eq {b x rest : Bytes} {n : Nat} (h : b.drop n = x ++ rest) (hx : x ≠ []) :
    n + x.length + rest.length = b.length := by
  have hl := congrArg List.length h
  simp at hl
  have : 0 < x.length := List.length_pos_iff.mpr hx
  omega

theorem decUvarint_enc (st : Bool) (b rest : Bytes) (n v p : Nat)
    (h : b.drop n = encUvarint v ++ rest) (hv : v < two63) :
    decUvarint st n b p = (.ok (n + (encUvarint v).length, v), p) := by
  have hl := length_of_drop_eq h (encUvarint_ne_nil v)
  unfold decUvarint
  have hn : ¬ n > b.length := by omega
  simp only [hn, if_false]
  rw [h, decUvarintAux_enc 8 v 0 0 1 n 11 rest p (by rw [← two63_eq]; exact hv) (by omega) (by omega)]
  simp

theorem decString_enc (st : Bool) (b rest s : Bytes) (n p : Nat)
    (h : b.drop n = encString s ++ rest) (hs : s.length < two63) :
    decString st n b p = (.ok (n + (encString s).length, s), p) := by
  unfold encString at h ⊢
  rw [List.append_assoc] at h
  have hl := length_of_drop_eq h (encUvarint_ne_nil _)
  have hd := drop_add_of_drop_eq h
  unfold decString
  rw [bind_ok _ _ p p _ (decUvarint_enc st b (s ++ rest) n s.length p h hs)]
  simp only [List.length_append] at hl ⊢
  have h1 : ¬ s.length ≥ two63 := by omega
  have h2 : ¬ b.length - (n + (encUvarint s.length).length) < s.length := by omega
  simp only [h1, h2, if_false, hd, List.take_left, Out.ok]
  exact ok_eq (by omega)

def int32 (v : Int) : Prop := -2147483648 ≤ v ∧ v < 2147483648

theorem encInt32_length (v : Int) : (encInt32 v).length = 4 := by simp [encInt32]

theorem int32_bytes (v : Int) (hv : int32 v) :
    let u := (v % 4294967296).toNat
    let w := u % 256 + u / 256 % 256 * 256 + u / 65536 % 256 * 65536 + u / 16777216 % 256 * 16777216
    (if w ≥ 2147483648 then (w : Int) - 4294967296 else (w : Int)) = v := by
  intro u w
  obtain ⟨hlo, hhi⟩ := hv
  have hu0 : (0 : Int) ≤ v % 4294967296 := Int.emod_nonneg _ (by decide)
  have hu1 : v % 4294967296 < 4294967296 := Int.emod_lt_of_pos _ (by decide)
  have hu2 : (u : Int) = v % 4294967296 := Int.toNat_of_nonneg hu0
  have hlt : u < 4294967296 := by omega
  have hre : w = u := by show u % 256 + u / 256 % 256 * 256 + u / 65536 % 256 * 65536 + u / 16777216 % 256 * 16777216 = u; omega
  rw [hre]
  split <;> omega

theorem decInt32_enc (b rest : Bytes) (n p : Nat) (v : Int)
    (h : b.drop n = encInt32 v ++ rest) (hv : int32 v) :
    decInt32 n b p = (.ok (n + 4, v), p) := by
  have hl := length_of_drop_eq h (by simp [encInt32])
  rw [encInt32_length] at hl
  unfold decInt32
  have h1 : ¬ n > b.length := by omega
  have h2 : ¬ b.length - n < 4 := by omega
  simp only [h1, h2, if_false, h]
  have := int32_bytes v hv
  simp only at this
  simp only [encInt32, List.cons_append, List.nil_append, Out.ok, this]

def wfHold (h : Hold) : Prop := h.name.length < two63 ∧ h.key.length < two63 ∧ int32 h.size

theorem encHold_ne_nil (h : Hold) : encHold h ≠ [] := by
  simp [encHold, encInt32]

theorem decHold_enc (st : Bool) (b rest : Bytes) (n p : Nat) (h : Hold)
    (hd : b.drop n = encHold h ++ rest) (hw : wfHold h) :
    decHold st n b p = (.ok (n + (encHold h).length, h), p) := by
  obtain ⟨h1, h2, h3⟩ := hw
  unfold encHold at hd ⊢
  simp only [List.append_assoc] at hd
  have d1 := drop_add_of_drop_eq hd
  have d2 := drop_add_of_drop_eq d1
  unfold decHold
  rw [bind_ok _ _ p p _ (decString_enc st b _ h.name n p hd h1)]
  simp only
  rw [bind_ok _ _ p p _ (decString_enc st b _ h.key _ p d1 h2)]
  simp only
  rw [bind_ok _ _ p p _ (decInt32_enc b rest _ p h.size d2 h3)]
  simp only [Out.ok, List.length_append, encInt32_length]
  exact ok_eq (by omega)

theorem decHolds_enc (st : Bool) (hs : List Hold) : ∀ (b rest : Bytes) (n p : Nat),
    b.drop n = encHolds hs ++ rest → (∀ h ∈ hs, wfHold h) →
    decHolds st hs.length n b p = (.ok (n + (encHolds hs).length, hs), p) := by
  induction hs with
  | nil => intro b rest n p _ _; simp [decHolds, encHolds, Out.ok]
  | cons h hs ih =>
    intro b rest n p hd hw
    simp only [encHolds, List.map_cons, List.flatten_cons, List.append_assoc] at hd
    have d1 := drop_add_of_drop_eq hd
    simp only [List.length_cons, decHolds]
    rw [bind_ok _ _ p p _ (decHold_enc st b _ n p h hd (hw h (by simp)))]
    simp only
    rw [bind_ok _ _ p p _ (ih b rest _ p d1 (fun x hx => hw x (by simp [hx])))]
    simp only [Out.ok, encHolds, List.map_cons, List.flatten_cons, List.length_append]
    exact ok_eq (by omega)

theorem encHold_length_ge (h : Hold) : 6 ≤ (encHold h).length := by
  have := encUvarint_length_pos h.name.length
  have := encUvarint_length_pos h.key.length
  simp [encHold, encString, encInt32_length]; omega

theorem encHolds_length_ge (hs : List Hold) : 6 * hs.length ≤ (encHolds hs).length := by
  induction hs with
  | nil => simp [encHolds]
  | cons h hs ih =>
    have := encHold_length_ge h
    simp only [encHolds, List.map_cons, List.flatten_cons, List.length_append, List.length_cons] at ih ⊢
    omega

def wfSlice (hs : List Hold) : Prop := hs.length * holdBytes ≤ maxAlloc ∧ ∀ h ∈ hs, wfHold h

theorem encSlice_ne_nil (hs : List Hold) : encSlice hs ≠ [] := by
  intro h; simp [encSlice] at h; exact encUvarint_ne_nil _ h.1

theorem decSlice_enc (st : Bool) (b rest : Bytes) (n p : Nat) (hs : List Hold)
    (hd : b.drop n = encSlice hs ++ rest) (hw : wfSlice hs) :
    decSlice st n b p = (.ok (n + (encSlice hs).length, hs), max p (hs.length * holdBytes)) := by
  obtain ⟨hcnt, hw⟩ := hw
  unfold encSlice at hd ⊢
  simp only [List.append_assoc] at hd
  have hl := length_of_drop_eq hd (encUvarint_ne_nil _)
  have d1 := drop_add_of_drop_eq hd
  have hlt : hs.length < two63 := by
    unfold holdBytes maxAlloc at hcnt; unfold two63; omega
  have hge := encHolds_length_ge hs
  unfold decSlice
  rw [bind_ok _ _ p p _ (decUvarint_enc st b _ n hs.length p hd hlt)]
  have c1 : ¬ (hs.length ≥ two63 ∨ hs.length * holdBytes > maxAlloc) := by omega
  have c2 : ¬ (st = true ∧ hs.length > b.length - (n + (encUvarint hs.length).length)) := by
    simp only [List.length_append] at hl; omega
  simp only [c1, c2, if_false]
  rw [bind_ok _ _ p (max p (hs.length * holdBytes)) () (by simp [Out.request])]
  rw [bind_ok _ _ _ _ _ (decHolds_enc st hs b _ _ _ d1 hw)]
  simp only [Out.ok, List.length_append, term, List.length_cons, List.length_nil]
  exact ok_eq (by omega)

def wfEntry (kv : Bytes × List Hold) : Prop := kv.1.length < two63 ∧ wfSlice kv.2

theorem encEntry_length_ge (kv : Bytes × List Hold) : 6 ≤ (encEntry kv).length := by
  have := encUvarint_length_pos kv.1.length
  have := encUvarint_length_pos kv.2.length
  simp [encEntry, encString, encSlice, term]; omega

theorem encEntries_length_ge (m : List (Bytes × List Hold)) : 6 * m.length ≤ (encEntries m).length := by
  induction m with
  | nil => simp [encEntries]
  | cons kv m ih =>
    have := encEntry_length_ge kv
    simp only [encEntries, List.map_cons, List.flatten_cons, List.length_append, List.length_cons] at ih ⊢
    omega

theorem decEntries_enc (st : Bool) (m : List (Bytes × List Hold)) : ∀ (b rest : Bytes) (n p : Nat),
    b.drop n = encEntries m ++ rest → (∀ kv ∈ m, wfEntry kv) →
    ∃ p', decEntries st m.length n b p = (.ok (n + (encEntries m).length, m), p') ∧ p ≤ p' := by
  induction m with
  | nil => intro b rest n p _ _; exact ⟨p, by simp [decEntries, encEntries, Out.ok], Nat.le_refl _⟩
  | cons kv m ih =>
    intro b rest n p hd hw
    obtain ⟨hk, hv⟩ := hw kv (by simp)
    simp only [encEntries, List.map_cons, List.flatten_cons, List.append_assoc, encEntry] at hd
    have d1 := drop_add_of_drop_eq hd
    have d2 := drop_add_of_drop_eq d1
    obtain ⟨p', hp', hle⟩ := ih b rest _ (max p (kv.2.length * holdBytes)) d2
      (fun x hx => hw x (by simp [hx]))
    refine ⟨p', ?_, by omega⟩
    simp only [List.length_cons, decEntries]
    rw [bind_ok _ _ p p _ (decString_enc st b _ kv.1 n p hd hk)]
    simp only
    rw [bind_ok _ _ _ _ _ (decSlice_enc st b _ _ p kv.2 d1 hv)]
    simp only
    rw [bind_ok _ _ _ _ _ hp']
    simp only [Out.ok, encEntries, List.map_cons, List.flatten_cons, List.length_append, encEntry]
    exact ok_eq (by omega)

/-- a map as `store.Write` can be handed one: string lengths and counts a Go `len` can produce, int32 sizes -/
def wfMap (m : List (Bytes × List Hold)) : Prop := m.length < two63 ∧ ∀ kv ∈ m, wfEntry kv

theorem decMap_enc (st : Bool) (m : List (Bytes × List Hold)) (p : Nat) (hw : wfMap m) :
    ∃ p', decMap st (encMap m) p = (.ok m, p') := by
  obtain ⟨hcnt, hw⟩ := hw
  have hd : (encMap m).drop 0 = encUvarint m.length ++ (encEntries m ++ term) := by
    simp [encMap]
  have d1 := drop_add_of_drop_eq hd
  have hge := encEntries_length_ge m
  obtain ⟨p', hp', _⟩ := decEntries_enc st m (encMap m) term _ (max p (m.length * mapEntryBytes)) d1 hw
  refine ⟨p', ?_⟩
  unfold decMap
  rw [bind_ok _ _ p p _ (decUvarint_enc st _ _ 0 m.length p hd hcnt)]
  have c0 : ¬ m.length ≥ two63 := by omega
  simp only [c0, if_false]
  have c1 : ¬ (st = true ∧ m.length > (encMap m).length) := by
    simp only [encMap, List.length_append]; omega
  simp only [c1, if_false]
  rw [bind_ok _ _ p (max p (m.length * mapEntryBytes)) () (by simp [Out.request])]
  rw [bind_ok _ _ _ _ _ hp']
  have : 0 + (encUvarint m.length).length + (encEntries m).length + 4 = (encMap m).length := by
    simp [encMap, term]; omega
  simp only [Nat.zero_add] at this
  simp only [Nat.zero_add, this, ne_eq, not_true_eq_false, if_false, Out.ok]

end Ldlm.Codec
