import Ldlm.Proofs.CoreRestart
/-!
A session end in M2 (C06, sequential): `step (.disconnect sid)` with clearing on
  * takes every hold the session had out of the lock table (`disconnect_releases_all`), and
  * leaves every hold of every other session booked and held (`disconnect_keeps_others`).

The first is tracked through the clean-up loop by `allKeys` (keys and queued keys of a record), which
the loop only ever shrinks or permutes; the second by the session table, which the loop only extends
(a waiter that is handed a unit gets booked).
-/
namespace Ldlm.Core
open Ldlm.AMap

variable {M : Type} {o : MapOps M} {c : Cfg}

/-- keys and queued keys of the record of `n` -/
def akeys (o : MapOps M) (s : St M) (n : Str) : List Str :=
  match o.get s.locks n with
  | some r => allKeys r
  | none => []

def NodupInv (o : MapOps M) (s : St M) : Prop := ∀ n r, o.get s.locks n = some r → (allKeys r).Nodup

theorem allKeys_handOverRec (r : LockRec) : allKeys (handOverRec r) = allKeys r := by
  unfold handOverRec allKeys
  split
  · rfl
  · rename_i p q' hq
    simp [hq]

theorem akeys_of_locks {s s' : St M} (h : s'.locks = s.locks) (n : Str) : akeys o s' n = akeys o s n := by
  unfold akeys; rw [h]

theorem akeys_set (ho : o.Lawful) {s s' : St M} {n : Str} {r : LockRec} (h : s'.locks = o.set s.locks n r) (n' : Str) :
    akeys o s' n' = if n = n' then allKeys r else akeys o s n' := by
  unfold akeys
  rw [h, ho.get_set]
  by_cases e : n = n' <;> simp [e]

/-- what `mgrUnlock` does to the records, in terms of `allKeys` and `keys` -/
theorem mgrUnlock_cases (ho : o.Lawful) (s : St M) (n k : Str) :
    (o.get s.locks n = none ∧ (mgrUnlock o s n k).1 = s) ∨
    (∃ r, o.get s.locks n = some r ∧ k ∈ r.keys ∧
      (mgrUnlock o s n k).1.locks = o.set s.locks n (handOverRec { r with lastAccessed := s.now, keys := r.keys.erase k })) ∨
    (∃ r, o.get s.locks n = some r ∧ k ∉ r.keys ∧
      (mgrUnlock o s n k).1.locks = o.set s.locks n { r with lastAccessed := s.now }) := by
  unfold mgrUnlock
  cases hg : o.get s.locks n with
  | none => left; exact ⟨rfl, rfl⟩
  | some r =>
    right
    simp only
    by_cases hk : k ∈ r.keys
    · left
      refine ⟨r, rfl, hk, ?_⟩
      rw [if_pos (by exact hk)]
      simp only
      rw [handOver_locks]
    · right
      refine ⟨r, rfl, hk, ?_⟩
      rw [if_neg (by exact hk)]

/-- `mgrUnlock` never adds to `allKeys` of any record -/
theorem mgrUnlock_akeys_sub (ho : o.Lawful) (s : St M) (n k n' k' : Str)
    (h : k' ∈ akeys o (mgrUnlock o s n k).1 n') : k' ∈ akeys o s n' := by
  rcases mgrUnlock_cases ho s n k with ⟨_, e⟩ | ⟨r, hg, hk, e⟩ | ⟨r, hg, hk, e⟩
  · rw [e] at h; exact h
  · rw [akeys_set ho e] at h
    by_cases en : n = n'
    · subst en
      simp only [if_true, allKeys_handOverRec] at h
      unfold akeys; rw [hg]
      unfold allKeys at h ⊢
      simp only [List.mem_append] at h ⊢
      rcases h with h | h
      · exact Or.inl (List.mem_of_mem_erase h)
      · exact Or.inr h
    · simpa [en] using h
  · rw [akeys_set ho e] at h
    by_cases en : n = n'
    · subst en
      simp only [if_true] at h
      unfold akeys; rw [hg]; exact h
    · simpa [en] using h

theorem mgrUnlock_nodup (ho : o.Lawful) {s : St M} (h : NodupInv o s) (n k : Str) :
    NodupInv o (mgrUnlock o s n k).1 := by
  intro n' r' hg'
  rcases mgrUnlock_cases ho s n k with ⟨_, e⟩ | ⟨r, hg, hk, e⟩ | ⟨r, hg, hk, e⟩
  · rw [e] at hg'; exact h n' r' hg'
  · rw [e, ho.get_set] at hg'
    by_cases en : n = n'
    · subst en
      simp only [if_true, Option.some.injEq] at hg'
      rw [← hg', allKeys_handOverRec]
      have := h n r hg
      unfold allKeys at this ⊢
      exact List.Nodup.sublist (List.Sublist.append (List.erase_sublist) (List.Sublist.refl _)) this
    · simp only [en, if_false] at hg'; exact h n' r' hg'
  · rw [e, ho.get_set] at hg'
    by_cases en : n = n'
    · subst en
      simp only [if_true, Option.some.injEq] at hg'
      rw [← hg']; exact h n r hg
    · simp only [en, if_false] at hg'; exact h n' r' hg'

/-- after `mgrUnlock n k` the key is in neither the key list nor the queue of `n` … -/
theorem mgrUnlock_released (ho : o.Lawful) {s : St M} (h : NodupInv o s) (n k : Str)
    (hin : held o s n k ∨ k ∉ akeys o s n) :
    k ∉ akeys o (mgrUnlock o s n k).1 n := by
  rcases hin with ⟨r0, hg0, hin⟩ | hin
  · rcases mgrUnlock_cases ho s n k with ⟨hg, _⟩ | ⟨r, hg, hk, e⟩ | ⟨r, hg, hk, e⟩
    · rw [hg] at hg0; cases hg0
    · rw [akeys_set ho e]
      simp only [if_true, allKeys_handOverRec]
      have hnd := h n r hg
      unfold allKeys at hnd ⊢
      simp only [List.mem_append, not_or]
      have hnd' := List.nodup_append.mp hnd
      refine ⟨?_, ?_⟩
      · intro hm
        exact (List.Nodup.mem_erase_iff hnd'.1).mp hm |>.1 rfl
      · intro hm
        exact hnd'.2.2 k hk k hm rfl
    · rw [hg] at hg0; cases hg0; exact absurd hin hk
  · intro hm; exact hin (mgrUnlock_akeys_sub ho s n k n k hm)

/-- … and a key of another hold that is in its key list stays there -/
theorem mgrUnlock_keeps_key (ho : o.Lawful) (s : St M) (n k n' k' : Str) (hne : (n, k) ≠ (n', k'))
    (hin : held o s n' k') : held o (mgrUnlock o s n k).1 n' k' := by
  obtain ⟨r', hg', hk'⟩ := hin
  rcases mgrUnlock_cases ho s n k with ⟨_, e⟩ | ⟨r, hg, hk, e⟩ | ⟨r, hg, hk, e⟩
  · rw [e]; exact ⟨r', hg', hk'⟩
  · unfold held
    rw [e, ho.get_set]
    by_cases en : n = n'
    · subst en
      rw [hg] at hg'; cases hg'
      simp only [if_true]
      refine ⟨_, rfl, ?_⟩
      have hkk : k' ≠ k := fun e' => hne (by rw [e'])
      have : k' ∈ r'.keys.erase k := (List.mem_erase_of_ne hkk).mpr hk'
      unfold handOverRec
      split
      · exact this
      · simp only [List.mem_append]; exact Or.inl this
    · simp only [en, if_false]; exact ⟨r', hg', hk'⟩
  · unfold held
    rw [e, ho.get_set]
    by_cases en : n = n'
    · subst en
      rw [hg] at hg'; cases hg'
      simp only [if_true]
      exact ⟨_, rfl, hk'⟩
    · simp only [en, if_false]; exact ⟨r', hg', hk'⟩

/-- the session table only grows under `mgrUnlock` (a waiter that gets the unit is booked) -/
theorem mgrUnlock_booked_mono (s : St M) (n k : Str) (sid : Sid) (x : Hold) (hb : booked s sid x) :
    booked (mgrUnlock o s n k).1 sid x := by
  unfold mgrUnlock
  split
  · exact hb
  · simp only
    split
    · unfold handOver
      split
      · exact hb
      · simp only
        rw [booked_book]
        left; exact hb
    · exact hb

/-- one round of the clean-up loop -/
def clearOne (o : MapOps M) (s : St M) (x : Hold) : St M :=
  let m := mgrUnlock o s x.name x.key
  if m.2.1 then { m.1 with timers := del m.1.timers (tkey x.name x.key) } else m.1

theorem clearOne_locks (s : St M) (x : Hold) : (clearOne o s x).locks = (mgrUnlock o s x.name x.key).1.locks := by
  unfold clearOne; simp only; split <;> rfl

theorem clearOne_sessions (s : St M) (x : Hold) : (clearOne o s x).sessions = (mgrUnlock o s x.name x.key).1.sessions := by
  unfold clearOne; simp only; split <;> rfl

theorem clearHolds_eq (hs : List Hold) : ∀ (s : St M) (ev : List Event),
    (hs.foldl (fun (acc : St M × List Event) h =>
      let (s', ok, _, ev) := mgrUnlock o acc.1 h.name h.key
      let s' := if ok then { s' with timers := del s'.timers (tkey h.name h.key) } else s'
      (s', acc.2 ++ ev)) (s, ev)).1 = hs.foldl (clearOne o) s := by
  induction hs with
  | nil => intro s ev; rfl
  | cons x hs ih =>
    intro s ev
    simp only [List.foldl_cons]
    rw [ih]
    rfl

theorem clearLoop_akeys_sub (ho : o.Lawful) (hs : List Hold) : ∀ (s : St M) (n' k' : Str),
    k' ∈ akeys o (hs.foldl (clearOne o) s) n' → k' ∈ akeys o s n' := by
  induction hs with
  | nil => intro s n' k' h; exact h
  | cons x hs ih =>
    intro s n' k' h
    simp only [List.foldl_cons] at h
    have := ih _ n' k' h
    rw [akeys_of_locks (clearOne_locks s x)] at this
    exact mgrUnlock_akeys_sub ho s x.name x.key n' k' this

theorem clearLoop_booked_mono (hs : List Hold) : ∀ (s : St M) (sid : Sid) (y : Hold),
    booked s sid y → booked (hs.foldl (clearOne o) s) sid y := by
  induction hs with
  | nil => intro s sid y h; exact h
  | cons x hs ih =>
    intro s sid y h
    simp only [List.foldl_cons]
    apply ih
    rw [booked_congr (clearOne_sessions s x)]
    exact mgrUnlock_booked_mono s x.name x.key sid y h

/-- the loop takes every listed hold out of the table (keys and queues) -/
theorem clearLoop_releases (ho : o.Lawful) (hs : List Hold) : ∀ (s : St M), NodupInv o s → (hs.map pairOf).Nodup →
    (∀ x ∈ hs, held o s x.name x.key ∨ x.key ∉ akeys o s x.name) →
    ∀ x ∈ hs, x.key ∉ akeys o (hs.foldl (clearOne o) s) x.name := by
  induction hs with
  | nil => intro s _ _ _ x hx; cases hx
  | cons y hs ih =>
    intro s hnd hp hin x hx
    simp only [List.foldl_cons]
    rw [List.map_cons, List.nodup_cons] at hp
    have hnd1 : NodupInv o (clearOne o s y) := by
      intro n r hg
      rw [clearOne_locks] at hg
      exact mgrUnlock_nodup ho hnd y.name y.key n r hg
    have hy : y.key ∉ akeys o (clearOne o s y) y.name := by
      rw [akeys_of_locks (clearOne_locks s y)]
      exact mgrUnlock_released ho hnd y.name y.key (hin y (List.mem_cons_self ..))
    have hrest : ∀ z ∈ hs, held o (clearOne o s y) z.name z.key ∨ z.key ∉ akeys o (clearOne o s y) z.name := by
      intro z hz
      rcases hin z (List.mem_cons_of_mem _ hz) with hh | hh
      · left
        rw [held_congr (clearOne_locks s y)]
        apply mgrUnlock_keeps_key ho s y.name y.key z.name z.key ?_ hh
        intro e
        apply hp.1
        have : pairOf z = pairOf y := by unfold pairOf; rw [← e]
        rw [← this]
        exact List.mem_map.mpr ⟨z, hz, rfl⟩
      · right
        rw [akeys_of_locks (clearOne_locks s y)]
        intro hm; exact hh (mgrUnlock_akeys_sub ho s y.name y.key z.name z.key hm)
    rcases List.mem_cons.mp hx with e | hx'
    · subst e
      intro hm
      exact hy (clearLoop_akeys_sub ho hs _ _ _ hm)
    · exact ih _ hnd1 hp.2 hrest x hx'

/-! ### the cancelled waiters of the session: queues shrink, nothing else moves -/

theorem abandon_sessions (s : St M) (p : Pending) (e : Err) : (abandon o s p e).1.sessions = s.sessions := rfl

theorem abandon_held (ho : o.Lawful) (s : St M) (p : Pending) (e : Err) (n k : Str) :
    held o (abandon o s p e).1 n k ↔ held o s n k := by
  unfold abandon held
  simp only
  cases hg : o.get s.locks p.name with
  | none => simp
  | some r =>
    simp only
    rw [ho.get_set]
    by_cases en : p.name = n
    · subst en
      simp only [if_true, Option.some.injEq, hg]
      constructor
      · rintro ⟨r', e1, hk⟩; rw [← e1] at hk; exact ⟨r, rfl, hk⟩
      · rintro ⟨r', e1, hk⟩; rw [← e1] at hk; exact ⟨_, rfl, hk⟩
    · simp only [en, if_false]

theorem abandon_nodup (ho : o.Lawful) {s : St M} (h : NodupInv o s) (p : Pending) (e : Err) :
    NodupInv o (abandon o s p e).1 := by
  intro n r hg
  unfold abandon at hg
  simp only at hg
  cases hgp : o.get s.locks p.name with
  | none => rw [hgp] at hg; exact h n r hg
  | some r0 =>
    rw [hgp] at hg
    simp only at hg
    rw [ho.get_set] at hg
    by_cases en : p.name = n
    · subst en
      simp only [if_true, Option.some.injEq] at hg
      rw [← hg]
      have := h p.name r0 hgp
      unfold allKeys at this ⊢
      exact List.Nodup.sublist (List.Sublist.append (List.Sublist.refl _) (List.Sublist.map _ List.filter_sublist)) this
    · simp only [en, if_false] at hg; exact h n r hg

theorem abandonAll_facts (ho : o.Lawful) (ps : List Pending) (e : Err) : ∀ (s : St M) (ev : List Event),
    NodupInv o s →
    let t := (ps.foldl (fun (acc : St M × List Event) p =>
      let (s', ev) := abandon o acc.1 p e
      (s', acc.2 ++ ev)) (s, ev)).1
    NodupInv o t ∧ t.sessions = s.sessions ∧ ∀ n k, held o t n k ↔ held o s n k := by
  induction ps with
  | nil => intro s ev h; exact ⟨h, rfl, fun _ _ => Iff.rfl⟩
  | cons p ps ih =>
    intro s ev h
    simp only [List.foldl_cons]
    obtain ⟨i1, i2, i3⟩ := ih (abandon o s p e).1 (ev ++ (abandon o s p e).2) (abandon_nodup ho h p e)
    refine ⟨i1, ?_, ?_⟩
    · rw [i2, abandon_sessions]
    · intro n k; rw [i3, abandon_held ho]

theorem inv_nodup {s : St M} (h : Inv' o c s) : NodupInv o s := fun n r hg => (h.recs n r hg).nodup

theorem held_of_not_akeys {s : St M} {n k : Str} (h : k ∉ akeys o s n) : ¬ held o s n k := by
  rintro ⟨r, hg, hk⟩
  apply h
  unfold akeys allKeys; rw [hg]
  exact List.mem_append_left _ hk

/-- the state after the session end, as the clean-up loop from the state with the entry deleted -/
theorem disconnect_state (s : St M) (sid : Sid) (hs : List Hold) (hnc : c.noClear = false) (hne : hs ≠ [])
    (hg : get s.sessions sid = some hs) :
    let s1 := (abandonAll o s (s.pending.filter (fun p => p.sid = sid)) .canceled).1
    s1.sessions = s.sessions →
    (step o c s (.disconnect sid)).1 = hs.foldl (clearOne o) (save { s1 with sessions := del s1.sessions sid }) := by
  intro s1 hs1
  simp only [step]
  unfold destroy
  have : get s1.sessions sid = some hs := by rw [hs1, hg]
  simp only [s1] at this
  rw [this]
  simp only [hnc, hne, Bool.false_eq_true, or_self, if_false]
  unfold clearHolds
  rw [clearHolds_eq]

/-- **a session end takes every hold the session had out of the lock table** -/
theorem disconnect_releases_all (ho : o.Lawful) {s : St M} (h : Inv' o c s) (hnc : c.noClear = false)
    (sid : Sid) (x : Hold) (hb : booked s sid x) :
    ¬ held o (step o c s (.disconnect sid)).1 x.name x.key := by
  obtain ⟨hs, hg, hx⟩ := hb
  have hne : hs ≠ [] := fun e => by rw [e] at hx; cases hx
  have hf := abandonAll_facts ho (s.pending.filter (fun p => p.sid = sid)) .canceled s [] (inv_nodup h)
  simp only at hf
  obtain ⟨f1, f2, f3⟩ := hf
  have hst := disconnect_state (o := o) (c := c) s sid hs hnc hne hg f2
  rw [hst]
  apply held_of_not_akeys
  refine clearLoop_releases ho hs _ ?_ (h.u2 sid hs hg) ?_ x hx
  · intro n r hgl; exact f1 n r hgl
  · intro y hy
    left
    rcases h.bh sid y ⟨hs, hg, hy⟩ with ⟨r, hgl, hk, _⟩ | hxb
    · have : held o s y.name y.key := ⟨r, hgl, hk⟩
      exact (f3 y.name y.key).mpr this
    · cases hxb

/-- **and leaves every hold of every other session booked** (hence held, by the invariant) -/
theorem disconnect_keeps_booked (ho : o.Lawful) (s : St M) (sid sid' : Sid) (hne : sid' ≠ sid) (y : Hold)
    (hb : booked s sid' y) : booked (step o c s (.disconnect sid)).1 sid' y := by
  have hf := abandonAll_facts ho (s.pending.filter (fun p => p.sid = sid)) .canceled s []
  simp only [step]
  have hs1 : (abandonAll o s (s.pending.filter (fun p => p.sid = sid)) .canceled).1.sessions = s.sessions := by
    -- sessions are untouched by the cancellations whatever the records look like
    unfold abandonAll
    generalize (s.pending.filter (fun p => p.sid = sid)) = ps
    have : ∀ (ps : List Pending) (s : St M) (ev : List Event),
        (ps.foldl (fun (acc : St M × List Event) p =>
          let (s', ev) := abandon o acc.1 p .canceled
          (s', acc.2 ++ ev)) (s, ev)).1.sessions = s.sessions := by
      intro ps
      induction ps with
      | nil => intro s ev; rfl
      | cons p ps ih => intro s ev; simp only [List.foldl_cons]; rw [ih]; rfl
    exact this ps s []
  generalize abandonAll o s (s.pending.filter (fun p => p.sid = sid)) .canceled = a at hs1 ⊢
  obtain ⟨s1, ev1⟩ := a
  simp only at hs1 ⊢
  have hb1 : booked s1 sid' y := (booked_congr hs1 sid' y).mpr hb
  unfold destroy
  cases hg : get s1.sessions sid with
  | none => exact hb1
  | some hs =>
    simp only
    have hb2 : booked (save { s1 with sessions := del s1.sessions sid }) sid' y :=
      (booked_delSession s1 sid sid' y).mpr ⟨fun e => hne e.symm, hb1⟩
    split
    · exact hb2
    · unfold clearHolds
      rw [clearHolds_eq]
      exact clearLoop_booked_mono hs _ sid' y hb2

end Ldlm.Core
