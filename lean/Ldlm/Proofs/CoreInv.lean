import Ldlm.Proofs.CoreBlocks
import Ldlm.Proofs.CoreLock
/-! The main M2 invariant (Parts B–F): key freshness and uniqueness, "lease timer ⇒ live hold",
"booked ⇒ held" (always) and "held ⇒ booked" (unless no-clear-on-disconnect), bookkeeping
uniqueness, and the file/session-table relation.  Stated pointwise; proved block by block. -/
namespace Ldlm.Core

variable {M : Type} (o : MapOps M) (c : Cfg)

def held (s : St M) (n k : Str) : Prop := ∃ r, o.get s.locks n = some r ∧ k ∈ r.keys

/-- session `sid`'s bookkeeping entry lists hold `h` -/
def booked (s : St M) (sid : Sid) (h : Hold) : Prop := ∃ hs, AMap.get s.sessions sid = some hs ∧ h ∈ hs

def allKeys (r : LockRec) : List Str := r.keys ++ r.q.map (·.key)

structure RecOk (nreq : Nat) (r : LockRec) : Prop where
  nodup : (allKeys r).Nodup
  fresh : ∀ k ∈ allKeys r, ∃ i, i < nreq ∧ k = c.genKey i

def pairOf (h : Hold) : Str × Str := (h.name, h.key)

structure Inv (s : St M) : Prop where
  recs  : ∀ n r, o.get s.locks n = some r → RecOk c s.nreq r
  timer : ∀ tk tm, (tk, tm) ∈ s.timers → tk = tkey tm.name tm.key ∧ held o s tm.name tm.key
  bh    : ∀ sid h, booked s sid h → ∃ r, o.get s.locks h.name = some r ∧ h.key ∈ r.keys ∧ r.size = h.size
  u1    : ∀ sid1 sid2 h1 h2, booked s sid1 h1 → booked s sid2 h2 → pairOf h1 = pairOf h2 → sid1 = sid2
  u2    : ∀ sid hs, AMap.get s.sessions sid = some hs → (hs.map pairOf).Nodup
  hb    : c.noClear = false → ∀ n r k, o.get s.locks n = some r → k ∈ r.keys → ∃ sid, booked s sid ⟨n, k, r.size⟩
  fs    : ∀ sid, AMap.get s.file sid = AMap.get s.sessions sid ∨
                 (AMap.get s.file sid = none ∧ AMap.get s.sessions sid = some [])

variable {o} {c}

/-! ### effects on `booked` -/

theorem booked_addBook (s : St M) (sid : Sid) (h : Hold) (sid' : Sid) (h' : Hold) :
    booked (addBook s sid h) sid' h' ↔ booked s sid' h' ∨ (sid' = sid ∧ h' = h) := by
  unfold booked addBook save
  simp only
  by_cases e : sid = sid'
  · subst e
    simp only [AMap.get_set_eq, Option.some.injEq, exists_eq_left', List.mem_append, List.mem_singleton, true_and]
    cases hg : AMap.get s.sessions sid with
    | none => simp
    | some hs => simp
  · rw [AMap.get_set_ne _ _ _ _ e]
    constructor
    · intro h1; exact Or.inl h1
    · rintro (h1 | ⟨e', _⟩)
      · exact h1
      · exact absurd e'.symm e

theorem booked_removeBook (s : St M) (n k : Str) (sid : Sid) (h : Hold) :
    booked (removeBook s n k) sid h ↔ booked s sid h ∧ ¬ (h.name = n ∧ h.key = k) := by
  unfold booked removeBook save
  simp only [AMap.get_mapv]
  cases hg : AMap.get s.sessions sid with
  | none => simp
  | some hs =>
    simp [sameHold]
    intro _
    by_cases e1 : h.name = n <;> simp [e1]

theorem sessions_arm (s : St M) (n k : Str) (sid : Sid) (lt : Option Int) :
    (arm s n k sid lt).sessions = s.sessions := by
  unfold arm; split
  · split <;> rfl
  · rfl

theorem booked_arm (s : St M) (n k : Str) (sid : Sid) (lt : Option Int) (sid' : Sid) (h : Hold) :
    booked (arm s n k sid lt) sid' h ↔ booked s sid' h := by
  unfold booked; rw [sessions_arm]

theorem booked_congr {s s' : St M} (e : s'.sessions = s.sessions) (sid : Sid) (h : Hold) :
    booked s' sid h ↔ booked s sid h := by unfold booked; rw [e]

theorem held_congr {s s' : St M} (e : s'.locks = s.locks) (n k : Str) : held o s' n k ↔ held o s n k := by
  unfold held; rw [e]

/-- the timers `arm` leaves behind -/
theorem mem_arm {s : St M} {n k : Str} {sid : Sid} {lt : Option Int} {e : Str × Timer}
    (h : e ∈ (arm s n k sid lt).timers) :
    e ∈ s.timers ∨ (e.1 = tkey n k ∧ e.2.name = n ∧ e.2.key = k) := by
  unfold arm at h
  split at h
  · split at h
    · rcases mem_set h with h' | h'
      · right; rw [h']; simp
      · left; exact h'
    · left; exact h
  · left; exact h

end Ldlm.Core

namespace Ldlm.Core
variable {M : Type} {o : MapOps M} {c : Cfg}

/-! ### the relaxed invariant: `xb` may be booked without being held, `xt` may have a lease timer
without being held, the pairs in `xh` may be held without being booked (and are not booked) -/

structure InvX (o : MapOps M) (c : Cfg) (xb xt : Option (Str × Str)) (xh : List (Str × Str)) (s : St M) : Prop where
  tu    : AMap.Uniq s.timers
  recs  : ∀ n r, o.get s.locks n = some r → RecOk c s.nreq r
  qsize : ∀ n r, o.get s.locks n = some r → ∀ p ∈ r.q, p.size = r.size
  timer : ∀ tk tm, (tk, tm) ∈ s.timers →
            tk = tkey tm.name tm.key ∧ (held o s tm.name tm.key ∨ xt = some (tm.name, tm.key))
  bh    : ∀ sid h, booked s sid h →
            (∃ r, o.get s.locks h.name = some r ∧ h.key ∈ r.keys ∧ r.size = h.size) ∨ xb = some (pairOf h)
  u1    : ∀ sid1 sid2 h1 h2, booked s sid1 h1 → booked s sid2 h2 → pairOf h1 = pairOf h2 → sid1 = sid2
  u2    : ∀ sid hs, AMap.get s.sessions sid = some hs → (hs.map pairOf).Nodup
  hb    : c.noClear = false → ∀ n r k, o.get s.locks n = some r → k ∈ r.keys →
            (∃ sid, booked s sid ⟨n, k, r.size⟩) ∨ (n, k) ∈ xh
  xhfree : ∀ p ∈ xh, ∀ sid h, booked s sid h → pairOf h ≠ p
  xhheld : ∀ p ∈ xh, held o s p.1 p.2
  fs    : ∀ sid, AMap.get s.file sid = AMap.get s.sessions sid ∨
                 (AMap.get s.file sid = none ∧ AMap.get s.sessions sid = some [])

/-- same state up to the representation of the lock table -/
structure Equiv (o : MapOps M) (s s' : St M) : Prop where
  locks    : ∀ n, o.get s'.locks n = o.get s.locks n
  timers   : s'.timers = s.timers
  sessions : s'.sessions = s.sessions
  file     : s'.file = s.file
  nreq     : s'.nreq = s.nreq

theorem InvX.congr {xb xt xh} {s s' : St M} (h : InvX o c xb xt xh s) (e : Equiv o s s') : InvX o c xb xt xh s' := by
  have hheld : ∀ n k, held o s' n k ↔ held o s n k := by intro n k; unfold held; rw [e.locks]
  have hbook : ∀ sid x, booked s' sid x ↔ booked s sid x := fun sid x => booked_congr e.sessions sid x
  refine ⟨?_, ?_, ?_, ?_, ?_, ?_, ?_, ?_, ?_, ?_, ?_⟩
  · rw [e.timers]; exact h.tu
  · intro n r hg; rw [e.locks] at hg; rw [e.nreq]; exact h.recs n r hg
  · intro n r hg; rw [e.locks] at hg; exact h.qsize n r hg
  · intro tk tm hm; rw [e.timers] at hm; rw [hheld]; exact h.timer tk tm hm
  · intro sid x hb; rw [hbook] at hb; simp only [e.locks]; exact h.bh sid x hb
  · intro a b x y h1 h2; rw [hbook] at h1 h2; exact h.u1 a b x y h1 h2
  · intro sid hs hg; rw [e.sessions] at hg; exact h.u2 sid hs hg
  · intro hn n r k hg hk; rw [e.locks] at hg; simp only [hbook]; exact h.hb hn n r k hg hk
  · intro p hp sid x hb; rw [hbook] at hb; exact h.xhfree p hp sid x hb
  · intro p hp; rw [hheld]; exact h.xhheld p hp
  · intro sid; rw [e.file, e.sessions]; exact h.fs sid

/-- weakening the exemptions -/
theorem InvX.weaken_t {xb xt xh} {s : St M} (h : InvX o c xb none xh s) : InvX o c xb xt xh s :=
  ⟨h.tu, h.recs, h.qsize,
   fun tk tm hm => ⟨(h.timer tk tm hm).1, (h.timer tk tm hm).2.elim Or.inl (fun x => by cases x)⟩,
   h.bh, h.u1, h.u2, h.hb, h.xhfree, h.xhheld, h.fs⟩

theorem InvX.weaken_b {xb xt xh} {s : St M} (h : InvX o c none xt xh s) : InvX o c xb xt xh s :=
  ⟨h.tu, h.recs, h.qsize, h.timer,
   fun sid x hbk => (h.bh sid x hbk).elim Or.inl (fun x => by cases x),
   h.u1, h.u2, h.hb, h.xhfree, h.xhheld, h.fs⟩

/-! ### frame: fields no component reads -/

theorem InvX.frame {xb xt xh} {s s' : St M} (h : InvX o c xb xt xh s)
    (e1 : s'.locks = s.locks) (e2 : s'.timers = s.timers) (e3 : s'.sessions = s.sessions)
    (e4 : s'.file = s.file) (e5 : s.nreq ≤ s'.nreq) : InvX o c xb xt xh s' := by
  have hheld : ∀ n k, held o s' n k ↔ held o s n k := fun n k => held_congr e1 n k
  have hbook : ∀ sid x, booked s' sid x ↔ booked s sid x := fun sid x => booked_congr e3 sid x
  refine ⟨?_, ?_, ?_, ?_, ?_, ?_, ?_, ?_, ?_, ?_, ?_⟩
  · rw [e2]; exact h.tu
  · intro n r hg; rw [e1] at hg
    have := h.recs n r hg
    exact ⟨this.nodup, fun k hk => by obtain ⟨i, hi, e⟩ := this.fresh k hk; exact ⟨i, by omega, e⟩⟩
  · intro n r hg; rw [e1] at hg; exact h.qsize n r hg
  · intro tk tm hm; rw [e2] at hm; rw [hheld]; exact h.timer tk tm hm
  · intro sid x hb; rw [hbook] at hb; rw [e1]; exact h.bh sid x hb
  · intro a b x y h1 h2; rw [hbook] at h1 h2; exact h.u1 a b x y h1 h2
  · intro sid hs hg; rw [e3] at hg; exact h.u2 sid hs hg
  · intro hn n r k hg hk; rw [e1] at hg; simp only [hbook]; exact h.hb hn n r k hg hk
  · intro p hp sid x hb; rw [hbook] at hb; exact h.xhfree p hp sid x hb
  · intro p hp; rw [hheld]; exact h.xhheld p hp
  · intro sid; rw [e4, e3]; exact h.fs sid

end Ldlm.Core

namespace Ldlm.Core
variable {M : Type} {o : MapOps M} {c : Cfg}

theorem booked_book (s : St M) (sid : Sid) (n k : Str) (sz : Int) (lt : Option Int) (sid' : Sid) (h' : Hold) :
    booked (book s sid n k sz lt) sid' h' ↔ booked s sid' h' ∨ (sid' = sid ∧ h' = ⟨n, k, sz⟩) := by
  unfold book; rw [booked_arm, booked_addBook]

theorem RecOk.mono {a b : Nat} {r : LockRec} (h : RecOk c a r) (hab : a ≤ b) : RecOk c b r :=
  ⟨h.nodup, fun k hk => by obtain ⟨i, hi, e⟩ := h.fresh k hk; exact ⟨i, by omega, e⟩⟩

theorem held_set (ho : o.Lawful) {s s1 : St M} {n : Str} {r' : LockRec} (hl : s1.locks = o.set s.locks n r')
    (n' k' : Str) : held o s1 n' k' ↔ (if n = n' then k' ∈ r'.keys else held o s n' k') := by
  unfold held; rw [hl, ho.get_set]
  by_cases e : n = n' <;> simp [e]

theorem file_book (s : St M) (sid : Sid) (n k : Str) (sz : Int) (lt : Option Int) :
    (book s sid n k sz lt).file = (book s sid n k sz lt).sessions := by
  unfold book; rw [sessions_arm]
  unfold arm; split
  · split <;> rfl
  · rfl

theorem nreq_book (s : St M) (sid : Sid) (n k : Str) (sz : Int) (lt : Option Int) :
    (book s sid n k sz lt).nreq = s.nreq := by
  unfold book arm; split
  · split <;> rfl
  · rfl

theorem sessions_book (s : St M) (sid : Sid) (n k : Str) (sz : Int) (lt : Option Int) :
    (book s sid n k sz lt).sessions =
      AMap.set s.sessions sid (((AMap.get s.sessions sid).getD []) ++ [⟨n, k, sz⟩]) := by
  unfold book; rw [sessions_arm]; rfl

theorem uniq_timers_book (s : St M) (sid : Sid) (n k : Str) (sz : Int) (lt : Option Int)
    (h : AMap.Uniq s.timers) : AMap.Uniq (book s sid n k sz lt).timers := by
  unfold book arm
  split
  · split
    · exact AMap.uniq_set _ _ _ h
    · exact h
  · exact h

/-- granting key `k` of lock `n` (new request or queued call): write the record with the key
appended, book it, arm the lease -/
theorem InvX.grant (ho : o.Lawful) {xb xt xh} {s s1 : St M} (h : InvX o c xb xt xh s)
    {n k : Str} {r' : LockRec} {rk : List Str}
    (hl : s1.locks = o.set s.locks n r') (ht : s1.timers = s.timers) (hs : s1.sessions = s.sessions)
    (hf : s1.file = s.file) (hn : s.nreq ≤ s1.nreq)
    (hk : r'.keys = rk ++ [k]) (hheld : ∀ k', held o s n k' ↔ k' ∈ rk)
    (hsz : ∀ r0, o.get s.locks n = some r0 → r0.size = r'.size)
    (hok : RecOk c s1.nreq r') (hq : ∀ p ∈ r'.q, p.size = r'.size)
    (hxb : xb ≠ some (n, k)) (hxh : (n, k) ∉ xh) (sid : Sid) (lt : Option Int) :
    InvX o c xb xt xh (book s1 sid n k r'.size lt) := by
  have hknew : k ∉ rk := by
    have := hok.nodup
    unfold allKeys at this
    rw [hk] at this
    have := (List.nodup_append.mp this).1
    rw [List.nodup_append] at this
    intro hm
    exact this.2.2 k hm k (by simp) rfl
  have hlocks : (book s1 sid n k r'.size lt).locks = o.set s.locks n r' := by simp [hl]
  have hheld' : ∀ n' k', held o (book s1 sid n k r'.size lt) n' k' ↔ (if n = n' then k' ∈ r'.keys else held o s n' k') :=
    fun n' k' => held_set ho hlocks n' k'
  have hbk : ∀ sid' h', booked (book s1 sid n k r'.size lt) sid' h' ↔
      booked s sid' h' ∨ (sid' = sid ∧ h' = ⟨n, k, r'.size⟩) := by
    intro sid' h'; rw [booked_book, booked_congr hs]
  have hmono : ∀ n' k', held o s n' k' → held o (book s1 sid n k r'.size lt) n' k' := by
    intro n' k' hh
    rw [hheld']
    by_cases e : n = n'
    · subst e; simp only [if_true, hk]; exact List.mem_append_left _ ((hheld k').mp hh)
    · simp [e, hh]
  -- an already booked hold never carries the pair (n, k)
  have hnotbooked : ∀ sid' h', booked s sid' h' → pairOf h' ≠ (n, k) := by
    intro sid' h' hb' hp
    rcases h.bh sid' h' hb' with ⟨r0, hg, hkk, _⟩ | hx
    · have e1 : h'.name = n := congrArg Prod.fst hp
      have e2 : h'.key = k := congrArg Prod.snd hp
      rw [e1] at hg; rw [e2] at hkk
      exact hknew ((hheld k).mp ⟨r0, hg, hkk⟩)
    · rw [hp] at hx; exact hxb hx
  refine ⟨?_, ?_, ?_, ?_, ?_, ?_, ?_, ?_, ?_, ?_, ?_⟩
  · exact uniq_timers_book _ _ _ _ _ _ (by rw [ht]; exact h.tu)
  · intro n' r hg
    rw [nreq_book]
    rw [hlocks] at hg
    rcases get_set_cases ho hg with ⟨_, e⟩ | hg'
    · rw [e]; exact hok
    · exact (h.recs n' r hg').mono hn
  · intro n' r hg
    rw [hlocks] at hg
    rcases get_set_cases ho hg with ⟨_, e⟩ | hg'
    · rw [e]; exact hq
    · exact h.qsize n' r hg'
  · intro tk tm hm
    unfold book at hm
    rcases mem_arm hm with hm' | ⟨e1, e2, e3⟩
    · have hm'' : (tk, tm) ∈ s.timers := by rw [← ht]; exact hm'
      obtain ⟨e, hh⟩ := h.timer tk tm hm''
      exact ⟨e, hh.elim (fun x => Or.inl (hmono _ _ x)) Or.inr⟩
    · simp only at e1 e2 e3
      refine ⟨by rw [e1, e2, e3], Or.inl ?_⟩
      rw [hheld', e2, e3]; simp [hk]
  · intro sid' h' hb'
    rw [hbk] at hb'
    rcases hb' with hb' | ⟨_, e⟩
    · rcases h.bh sid' h' hb' with ⟨r0, hg, hkk, hsz0⟩ | hx
      · left
        by_cases e : n = h'.name
        · refine ⟨r', by rw [hlocks, ho.get_set]; simp [e], ?_, ?_⟩
          · rw [hk]; apply List.mem_append_left; apply (hheld _).mp; exact ⟨r0, by rw [e]; exact hg, hkk⟩
          · rw [← hsz r0 (by rw [e]; exact hg)]; exact hsz0
        · exact ⟨r0, by rw [hlocks, ho.get_set]; simp [e, hg], hkk, hsz0⟩
      · exact Or.inr hx
    · left; rw [e]
      exact ⟨r', by rw [hlocks, ho.get_set]; simp, by simp [hk], rfl⟩
  · intro a b x y h1 h2 hp
    rw [hbk] at h1 h2
    rcases h1 with h1 | ⟨ea, ex⟩ <;> rcases h2 with h2 | ⟨eb, ey⟩
    · exact h.u1 a b x y h1 h2 hp
    · exfalso; rw [ey] at hp; exact hnotbooked a x h1 hp
    · exfalso; rw [ex] at hp; exact hnotbooked b y h2 hp.symm
    · rw [ea, eb]
  · intro sid' hs' hg
    rw [sessions_book, hs] at hg
    by_cases e : sid = sid'
    · subst e
      rw [AMap.get_set_eq] at hg
      have e := Option.some.inj hg
      rw [← e, List.map_append, List.nodup_append]
      refine ⟨?_, by simp, ?_⟩
      · cases hg0 : AMap.get s.sessions sid with
        | none => simp
        | some l => simpa using h.u2 sid l hg0
      · intro p hp q hq' hpq
        simp at hq'
        obtain ⟨x, hx, hxp⟩ := List.mem_map.mp hp
        cases hg0 : AMap.get s.sessions sid with
        | none => simp [hg0] at hx
        | some l =>
          simp [hg0] at hx
          apply hnotbooked sid x ⟨l, hg0, hx⟩
          rw [hxp, hpq, hq']; rfl
    · rw [AMap.get_set_ne _ _ _ _ e] at hg
      exact h.u2 sid' hs' hg
  · intro hnc n' r k' hg hk'
    rw [hlocks] at hg
    simp only [hbk]
    rcases get_set_cases ho hg with ⟨en, er⟩ | hg'
    · subst en; rw [er] at hk' ⊢
      rw [hk] at hk'
      rcases List.mem_append.mp hk' with hk'' | hk''
      · obtain ⟨r0, hg0, hk0⟩ := (hheld k').mpr hk''
        rcases h.hb hnc n r0 k' hg0 hk0 with ⟨sid', hb'⟩ | hx
        · left; exact ⟨sid', Or.inl (by rw [← hsz r0 hg0]; exact hb')⟩
        · exact Or.inr hx
      · simp at hk''; left; exact ⟨sid, Or.inr ⟨rfl, by rw [hk'']⟩⟩
    · rcases h.hb hnc n' r k' hg' hk' with ⟨sid', hb'⟩ | hx
      · left; exact ⟨sid', Or.inl hb'⟩
      · exact Or.inr hx
  · intro p hp sid' h' hb'
    rw [hbk] at hb'
    rcases hb' with hb' | ⟨_, e⟩
    · exact h.xhfree p hp sid' h' hb'
    · rw [e]; intro hpe; apply hxh; rw [← hpe] at hp; exact hp
  · intro p hp; exact hmono _ _ (h.xhheld p hp)
  · intro sid'; left; rw [file_book]

end Ldlm.Core

namespace Ldlm.Core
variable {M : Type} {o : MapOps M} {c : Cfg}

theorem mem_filter_ne {xh : List (Str × Str)} {p q : Str × Str} :
    p ∈ xh.filter (· ≠ q) ↔ p ∈ xh ∧ p ≠ q := by
  rw [List.mem_filter]; simp

/-- replacing the record of `n` by one with the same key set and size (idle-clock update, creation
of an empty record, enqueue, dequeue) -/
theorem InvX.setSame (ho : o.Lawful) {xb xt xh} {s s1 : St M} (h : InvX o c xb xt xh s)
    {n : Str} {r' : LockRec}
    (hl : s1.locks = o.set s.locks n r') (ht : s1.timers = s.timers) (hs : s1.sessions = s.sessions)
    (hf : s1.file = s.file) (hn : s.nreq ≤ s1.nreq)
    (hkeys : ∀ k', held o s n k' ↔ k' ∈ r'.keys)
    (hsz : ∀ r0, o.get s.locks n = some r0 → r0.size = r'.size)
    (hok : RecOk c s1.nreq r') (hq : ∀ p ∈ r'.q, p.size = r'.size) : InvX o c xb xt xh s1 := by
  have hheld' : ∀ n' k', held o s1 n' k' ↔ held o s n' k' := by
    intro n' k'
    rw [held_set ho hl]
    by_cases e : n = n'
    · subst e; simp [hkeys]
    · simp [e]
  have hbk : ∀ sid x, booked s1 sid x ↔ booked s sid x := fun sid x => booked_congr hs sid x
  refine ⟨?_, ?_, ?_, ?_, ?_, ?_, ?_, ?_, ?_, ?_, ?_⟩
  · rw [ht]; exact h.tu
  · intro n' r hg; rw [hl] at hg
    rcases get_set_cases ho hg with ⟨_, e⟩ | hg'
    · rw [e]; exact hok
    · exact (h.recs n' r hg').mono hn
  · intro n' r hg; rw [hl] at hg
    rcases get_set_cases ho hg with ⟨_, e⟩ | hg'
    · rw [e]; exact hq
    · exact h.qsize n' r hg'
  · intro tk tm hm; rw [ht] at hm; rw [hheld']; exact h.timer tk tm hm
  · intro sid x hb'
    rw [hbk] at hb'
    rcases h.bh sid x hb' with ⟨r0, hg, hkk, hsz0⟩ | hx
    · left
      by_cases e : n = x.name
      · refine ⟨r', by rw [hl, ho.get_set]; simp [e], ?_, ?_⟩
        · apply (hkeys _).mp; exact ⟨r0, by rw [e]; exact hg, hkk⟩
        · rw [← hsz r0 (by rw [e]; exact hg)]; exact hsz0
      · exact ⟨r0, by rw [hl, ho.get_set]; simp [e, hg], hkk, hsz0⟩
    · exact Or.inr hx
  · intro a b x y h1 h2; rw [hbk] at h1 h2; exact h.u1 a b x y h1 h2
  · intro sid hs' hg; rw [hs] at hg; exact h.u2 sid hs' hg
  · intro hnc n' r k' hg hk'
    rw [hl] at hg
    simp only [hbk]
    rcases get_set_cases ho hg with ⟨en, er⟩ | hg'
    · subst en; rw [er] at hk' ⊢
      obtain ⟨r0, hg0, hk0⟩ := (hkeys k').mpr hk'
      rw [← hsz r0 hg0]; exact h.hb hnc n r0 k' hg0 hk0
    · exact h.hb hnc n' r k' hg' hk'
  · intro p hp sid x hb'; rw [hbk] at hb'; exact h.xhfree p hp sid x hb'
  · intro p hp; rw [hheld']; exact h.xhheld p hp
  · intro sid; rw [hf, hs]; exact h.fs sid

/-- removing key `k` from lock `n` (the atomic decision point of `Unlock`): afterwards the pair is
a zombie for the bookkeeping and for its lease timer until those are cleaned up -/
theorem InvX.unkey (ho : o.Lawful) {xb' xt' xh} {s s1 : St M} (h : InvX o c none none xh s)
    {n k : Str} {r0 r' : LockRec} (hg0 : o.get s.locks n = some r0) (hk0 : k ∈ r0.keys)
    (hl : s1.locks = o.set s.locks n r') (ht : s1.timers = s.timers) (hs : s1.sessions = s.sessions)
    (hf : s1.file = s.file) (hn : s1.nreq = s.nreq)
    (hkeys : r'.keys = r0.keys.erase k) (hsz : r'.size = r0.size) (hq : r'.q = r0.q)
    (hxb : xb' = some (n, k) ∨ (n, k) ∈ xh)
    (hxt : xt' = some (n, k) ∨ ∀ tk tm, (tk, tm) ∈ s.timers → (tm.name, tm.key) ≠ (n, k)) :
    InvX o c xb' xt' (xh.filter (· ≠ (n, k))) s1 ∧ ¬ held o s1 n k := by
  have hnd : r0.keys.Nodup := by
    have := (h.recs n r0 hg0).nodup; unfold allKeys at this; exact (List.nodup_append.mp this).1
  have hmem : ∀ k', k' ∈ r'.keys ↔ (k' ∈ r0.keys ∧ k' ≠ k) := by
    intro k'; rw [hkeys, hnd.mem_erase_iff]; exact And.comm
  have hheld' : ∀ n' k', held o s1 n' k' ↔ (held o s n' k' ∧ (n', k') ≠ (n, k)) := by
    intro n' k'
    rw [held_set ho hl]
    by_cases e : n = n'
    · subst e
      simp only [if_true, hmem]
      constructor
      · rintro ⟨h1, h2⟩; exact ⟨⟨r0, hg0, h1⟩, fun hp => h2 (congrArg Prod.snd hp)⟩
      · rintro ⟨⟨r1, hg1, h1⟩, h2⟩
        rw [hg0] at hg1; cases hg1
        exact ⟨h1, fun e => h2 (by rw [e])⟩
    · simp only [e, if_false]
      constructor
      · intro hh; exact ⟨hh, fun hp => e (congrArg Prod.fst hp).symm⟩
      · exact fun hh => hh.1
  have hbk : ∀ sid x, booked s1 sid x ↔ booked s sid x := fun sid x => booked_congr hs sid x
  have hok' : RecOk c s.nreq r' := by
    have hr0 := h.recs n r0 hg0
    have hsub : (allKeys r').Sublist (allKeys r0) := by
      unfold allKeys; rw [hkeys, hq]; exact List.Sublist.append (List.erase_sublist) (List.Sublist.refl _)
    exact ⟨hr0.nodup.sublist hsub, fun k' hk' => hr0.fresh k' (hsub.subset hk')⟩
  refine ⟨⟨?_, ?_, ?_, ?_, ?_, ?_, ?_, ?_, ?_, ?_, ?_⟩, ?_⟩
  · rw [ht]; exact h.tu
  · intro n' r hg; rw [hl] at hg; rw [hn]
    rcases get_set_cases ho hg with ⟨_, e⟩ | hg'
    · rw [e]; exact hok'
    · exact h.recs n' r hg'
  · intro n' r hg; rw [hl] at hg
    rcases get_set_cases ho hg with ⟨_, e⟩ | hg'
    · rw [e, hq, hsz]; exact h.qsize n r0 hg0
    · exact h.qsize n' r hg'
  · intro tk tm hm; rw [ht] at hm
    obtain ⟨e, hh⟩ := h.timer tk tm hm
    refine ⟨e, ?_⟩
    rcases hh with hh | hx
    · by_cases ep : (tm.name, tm.key) = (n, k)
      · rcases hxt with hxt | hxt
        · right; rw [hxt, ep]
        · exact absurd ep (hxt tk tm hm)
      · left; rw [hheld']; exact ⟨hh, ep⟩
    · cases hx
  · intro sid x hb'
    rw [hbk] at hb'
    rcases h.bh sid x hb' with ⟨r1, hg, hkk, hsz0⟩ | hx
    · by_cases ep : pairOf x = (n, k)
      · rcases hxb with hxb | hxb
        · right; rw [hxb, ep]
        · exact absurd ep (h.xhfree (n, k) hxb sid x hb')
      · left
        by_cases e : n = x.name
        · have hg' : o.get s.locks n = some r1 := by rw [e]; exact hg
          rw [hg0] at hg'; cases hg'
          refine ⟨r', by rw [hl, ho.get_set]; simp [e], ?_, by rw [hsz]; exact hsz0⟩
          rw [hmem]; exact ⟨hkk, fun ek => ep (by unfold pairOf; rw [← e, ek])⟩
        · exact ⟨r1, by rw [hl, ho.get_set]; simp [e, hg], hkk, hsz0⟩
    · cases hx
  · intro a b x y h1 h2; rw [hbk] at h1 h2; exact h.u1 a b x y h1 h2
  · intro sid hs' hg; rw [hs] at hg; exact h.u2 sid hs' hg
  · intro hnc n' r k' hg hk'
    rw [hl] at hg
    simp only [hbk]
    rcases get_set_cases ho hg with ⟨en, er⟩ | hg'
    · subst en; rw [er] at hk' ⊢
      obtain ⟨hk1, hk2⟩ := (hmem k').mp hk'
      rw [hsz]
      rcases h.hb hnc n r0 k' hg0 hk1 with hb' | hx
      · exact Or.inl hb'
      · right; exact mem_filter_ne.mpr ⟨hx, fun ep => hk2 (congrArg Prod.snd ep)⟩
    · rcases h.hb hnc n' r k' hg' hk' with hb' | hx
      · exact Or.inl hb'
      · right
        by_cases ep : (n', k') = (n, k)
        · -- then n' = n, and the record of n in s is r0, so this is the first case
          exfalso
          have en : n' = n := congrArg Prod.fst ep
          rw [ho.get_set] at hg
          simp [en] at hg
          subst en
          rw [← hg] at hk'
          exact ((hmem k').mp hk').2 (congrArg Prod.snd ep)
        · exact mem_filter_ne.mpr ⟨hx, ep⟩
  · intro p hp sid x hb'; rw [hbk] at hb'
    exact h.xhfree p (mem_filter_ne.mp hp).1 sid x hb'
  · intro p hp
    obtain ⟨hp1, hp2⟩ := mem_filter_ne.mp hp
    rw [hheld']; exact ⟨h.xhheld p hp1, hp2⟩
  · intro sid; rw [hf, hs]; exact h.fs sid
  · rw [hheld']; exact fun hh => hh.2 rfl

/-- `RemoveLock(n, k)` + `Save` -/
theorem InvX.removeBook {xb xt xh} {s : St M} (h : InvX o c xb xt xh s) {n k : Str}
    (hxb : ∀ p, xb = some p → p = (n, k)) (hnh : ¬ held o s n k) :
    InvX o c none xt xh (removeBook s n k) := by
  have hbk : ∀ sid x, booked (Ldlm.Core.removeBook s n k) sid x ↔ booked s sid x ∧ ¬ (x.name = n ∧ x.key = k) :=
    fun sid x => booked_removeBook s n k sid x
  refine ⟨h.tu, h.recs, h.qsize, ?_, ?_, ?_, ?_, ?_, ?_, h.xhheld, ?_⟩
  · intro tk tm hm; exact h.timer tk tm hm
  · intro sid x hb'
    rw [hbk] at hb'
    rcases h.bh sid x hb'.1 with hh | hx
    · exact Or.inl hh
    · exfalso
      have := hxb _ hx
      exact hb'.2 ⟨congrArg Prod.fst this, congrArg Prod.snd this⟩
  · intro a b x y h1 h2; rw [hbk] at h1 h2; exact h.u1 a b x y h1.1 h2.1
  · intro sid hs' hg
    simp only [Ldlm.Core.removeBook, save, AMap.get_mapv] at hg
    cases hg0 : AMap.get s.sessions sid with
    | none => simp [hg0] at hg
    | some l =>
      simp only [hg0, Option.map_some, Option.some.injEq] at hg
      rw [← hg]
      exact (h.u2 sid l hg0).sublist (List.filter_sublist.map _)
  · intro hnc n' r k' hg hk'
    rcases h.hb hnc n' r k' hg hk' with ⟨sid, hb'⟩ | hx
    · left; refine ⟨sid, (hbk _ _).mpr ⟨hb', ?_⟩⟩
      rintro ⟨e1, e2⟩
      simp only at e1 e2
      subst e1; subst e2
      exact hnh ⟨r, hg, hk'⟩
    · exact Or.inr hx
  · intro p hp sid x hb'; rw [hbk] at hb'; exact h.xhfree p hp sid x hb'.1
  · intro sid; left; rfl

/-- `timermap.Remove(tk)` -/
theorem InvX.delTimer {xb xt xh} {s : St M} (h : InvX o c xb xt xh s) (tk : Str)
    (hxt : ∀ p, xt = some p → tkey p.1 p.2 = tk) :
    InvX o c xb none xh { s with timers := AMap.del s.timers tk } := by
  refine ⟨AMap.uniq_del _ _ h.tu, h.recs, h.qsize, ?_, h.bh, h.u1, h.u2, h.hb, h.xhfree, h.xhheld, h.fs⟩
  intro tk' tm hm
  obtain ⟨hm', hne⟩ := mem_del hm
  obtain ⟨e, hh⟩ := h.timer tk' tm hm'
  refine ⟨e, Or.inl ?_⟩
  rcases hh with hh | hx
  · exact hh
  · exfalso; apply hne; simp only; rw [e]; exact hxt _ hx

theorem InvX.drop_xh {xb xt xh} {s : St M} (h : InvX o c xb xt xh s) (hnc : c.noClear = true) :
    InvX o c xb xt [] s :=
  ⟨h.tu, h.recs, h.qsize, h.timer, h.bh, h.u1, h.u2,
   (fun hf => by rw [hnc] at hf; cases hf),
   (fun p hp => by cases hp), (fun p hp => by cases hp), h.fs⟩

end Ldlm.Core
