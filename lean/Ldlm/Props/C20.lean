import Ldlm.Proofs.Rest
import Ldlm.Proofs.RestConcProgress
/-!
C20 — REST sessions live exactly while active and end exactly once.

Sequential semantics: model M4 (`Ldlm.Rest`), tied to the gateway by the `restmodel` stream.
* `bad_cookie_refused` — a request with a missing, unknown or ended cookie answers 401 and changes
  nothing (server, session table, counters).
* `valid_cookie_accepted` — a request with a valid cookie is not refused and re-arms the idle
  deadline to now + timeout.
* `survives_short_gaps` — a session whose deadline lies after the target instant survives any
  advance of the clock to it, with its deadline unchanged: consecutive requests less than the
  timeout apart keep the session valid for ever (`valid_cookie_accepted` re-arms).
* `idle_session_gone` — after an advance (no tie reported) no session with a deadline ≤ the new
  clock is left: invalid promptly after a full timeout of idleness.
* `expired_sessions_ended` — the sessions an advance reports as ended were valid before and are
  invalid after.
* `ends_exactly_once` — for EVERY history: a cookie has at most one connection-end delivery, has
  exactly one iff it was created and is no longer valid, and none while valid.
* `delete_ends` — DELETE of a valid session ends it (200), of an unknown one answers 409, without
  cookie 500; afterwards the cookie is invalid.

Races: model M4c (`Ldlm.RestConc`), one step per lock acquisition of `rest.go` (bodies pinned:
`Pins.C20.pin_ValidateSession`, `pin_RestDestroySession`, `pin_RestCreateSession`, `pin_RestOnTimeout`, `pin_ServeHTTP`, `pin_TimerAdd`, `pin_TimerRemove`, `pin_TimerReset`), any
number of sessions, requests, DELETEs and timer callbacks, any schedule; tied to the code by the
instrumented interleaving stream `restconc`.
* `conc_ends_once` — in every reachable state every session has had 0 or 1 connection-end
  deliveries, 0 while its entry exists; `conc_ended_when_quiet` — once its threads have finished, a
  session without entry has had exactly one.
* `conc_no_late_service` — no request is ever served after its session's connection-end.
* `conc_no_crash` — `ValidateSession` never dereferences a missing table entry.
* `conc_refused_after_end` — once the entry is gone every new request is refused.
* `conc_deadlock_free` — in every reachable state with an unfinished thread or a held lock, some
  thread can take a step.
-/
namespace Ldlm.Props.C20
open Ldlm.Core Ldlm.Rest Ldlm.AMap

section seq
variable {M : Type} (o : MapOps M) (c : Cfg) (rc : RCfg)

theorem bad_cookie_refused (s : RSt M) (ck : Option Str) (r : Option Req)
    (h : ck = none ∨ ∃ k, ck = some k ∧ get s.rs k = none) :
    rstep o c rc s (.req ck r) = (s, { http := 401 }) := by
  rcases h with rfl | ⟨k, rfl, hk⟩
  · rfl
  · simp [rstep, hk]

theorem valid_cookie_accepted (s : RSt M) (ck : Str) (sid : Sid) (d : Nat) (r : Option Req)
    (hv : get s.rs ck = some (sid, d)) :
    (rstep o c rc s (.req (some ck) r)).2.http ≠ 401 ∧
    get (rstep o c rc s (.req (some ck) r)).1.rs ck = some (sid, s.core.now + rc.timeout) := by
  cases r <;> simp [rstep, hv, get_set]

theorem survives_short_gaps (s : RSt M) (hu : Uniq s.rs) (ck : Str) (v : Sid × Nat) (dt : Nat)
    (hv : get s.rs ck = some v) (hd : s.core.now + dt < v.2) :
    get (rstep o c rc s (.adv dt)).1.rs ck = some v := by
  simp only [rstep]
  exact radv_keeps_later _ ck v hd _ s hu hv

theorem idle_session_gone (s : RSt M) (dt : Nat) (hnt : (rstep o c rc s (.adv dt)).2.tie = false) :
    ∀ e ∈ (rstep o c rc s (.adv dt)).1.rs, s.core.now + dt < e.2.2 := by
  simp only [rstep] at hnt ⊢
  exact radv_prompt _ _ s hnt

theorem expired_sessions_ended (s : RSt M) (hu : Uniq s.rs) (dt : Nat) :
    ∀ ck ∈ (rstep o c rc s (.adv dt)).2.ended,
      get (rstep o c rc s (.adv dt)).1.rs ck = none ∧ get s.rs ck ≠ none := by
  simp only [rstep]
  exact radv_ended_removed _ _ s hu

theorem ends_exactly_once (hinj : ∀ i j, rc.genCookie i = rc.genCookie j → i = j) (ops : List ROp) (ck : Str) :
    let s := rrun o c rc (Rest.init o c) ops
    (get s.ends ck = none ∨ get s.ends ck = some 1) ∧
    (get s.rs ck ≠ none → get s.ends ck = none) ∧
    (∀ i, i < s.nrest → get s.rs (rc.genCookie i) = none → get s.ends (rc.genCookie i) = some 1) := by
  intro s
  have h : RInv rc s := rrun_inv hinj ops _ init_inv
  refine ⟨?_, ?_, ?_⟩
  · cases he : get s.ends ck with
    | none => exact Or.inl rfl
    | some n => right; rw [(h.once ck n he).1]
  · intro hv
    cases he : get s.ends ck with
    | none => rfl
    | some n => exact absurd (h.once ck n he).2 hv
  · intro i hi hn
    rcases h.acct i hi with h1 | h1
    · exact absurd hn h1
    · exact h1

theorem delete_ends (s : RSt M) (ck : Str) :
    (get s.rs ck = none → rstep o c rc s (.delete (some ck)) = (s, { http := 409 })) ∧
    (∀ v, get s.rs ck = some v → (rstep o c rc s (.delete (some ck))).2.http = 200 ∧
        get (rstep o c rc s (.delete (some ck))).1.rs ck = none) ∧
    rstep o c rc s (.delete none) = (s, { http := 500 }) := by
  refine ⟨?_, ?_, rfl⟩
  · intro h; simp [rstep, h]
  · intro v h
    obtain ⟨sid, d⟩ := v
    simp [rstep, h, endSession, get_del]

end seq

section conc
open Ldlm.RestConc

theorem conc_reachable (as : List Act) (s : St) (hr : run RestConc.init as = some s) : Inv s :=
  run_inv as _ s RestConc.init_inv hr

theorem conc_ends_once (as : List Act) (s : St) (hr : run RestConc.init as = some s) (j : Nat) :
    (s.sess j).ends ≤ 1 ∧ ((s.sess j).entry = true → (s.sess j).ends = 0) := by
  have h := (conc_reachable as s hr).ok j
  refine ⟨?_, fun he => (h.a he).2.2.2.2.2⟩
  cases he : (s.sess j).entry with
  | true => have := (h.a he).2.2.2.2.2; omega
  | false => have := h.b he; omega

theorem conc_ended_when_quiet (as : List Act) (s : St) (hr : run RestConc.init as = some s) (j : Nat)
    (hq : ¬ (s.sess j).busy) (he : (s.sess j).entry = false) : (s.sess j).ends = 1 := by
  have h := (conc_reachable as s hr).ok j
  have hb := h.b he
  unfold Sess.busy at hq
  have h1 : (s.sess j).nD3 = 0 := by omega
  have h2 : (s.sess j).mtx = none := by
    cases hm : (s.sess j).mtx with
    | none => rfl
    | some k => exact absurd (Or.inr (Or.inr (Or.inr (Or.inl (by simp [hm]))))) hq
  have h3 : (s.sess j).cb ≠ .t2 := fun e => hq (by simp [e])
  simp [h1, h2, h3] at hb
  exact hb

theorem conc_no_late_service (as : List Act) (s : St) (hr : run RestConc.init as = some s) (j : Nat) :
    (s.sess j).lateServe = false := ((conc_reachable as s hr).ok j).i

theorem conc_no_crash (as : List Act) (s : St) (hr : run RestConc.init as = some s) : s.crashed = false :=
  (conc_reachable as s hr).nc

theorem conc_refused_after_end (as : List Act) (s : St) (hr : run RestConc.init as = some s) (j : Nat)
    (he : (s.sess j).entry = false) (ht : s.tbl = none) (hn : (s.sess j).nR1 > 0) :
    ∃ s', step s (.reqLock j) = some s' ∧ (s'.sess j).refused = (s.sess j).refused + 1 ∧
      (s'.sess j).served = (s.sess j).served := by
  have h := (conc_reachable as s hr).ok j
  have hna : (s.sess j).timer ≠ .armed := by
    intro ha; have := (h.d ha).1; rw [he] at this; cases this
  have : (s.sess j).nR1 ≠ 0 := by omega
  have hs : RestConc.step s (.reqLock j) = some (upd s j { s.sess j with nR1 := (s.sess j).nR1 - 1, refused := (s.sess j).refused + 1 }) := by
    simp only [RestConc.step, ht, this, hna, ne_eq, not_true_eq_false, or_self, if_false]
  exact ⟨_, hs, by simp [upd], by simp [upd]⟩

theorem conc_deadlock_free (as : List Act) (s : St) (hr : run RestConc.init as = some s)
    (hb : s.tbl ≠ none ∨ ∃ j, (s.sess j).busy) : ∃ a, a.isThread = true ∧ step s a ≠ none :=
  progress s (conc_reachable as s hr) hb

/-! non-vacuity: a DELETE and the idle timer race on session 0 while a request is being served —
the schedule runs, ends the session exactly once, serves the request, refuses a later one -/
def sched : List Act := [.spawnReq 0, .reqLock 0, .reqMtx 0, .spawnDel 0, .fire 0, .delLock 0, .cbLock 0,
  .reqServe 0, .delMtx 0, .delEnd 0, .cbClean 0, .spawnReq 0, .reqLock 0]
example : (run RestConc.init sched).map (fun s => ((s.sess 0).ends, (s.sess 0).served, (s.sess 0).refused, (s.sess 0).entry))
    = some (1, 1, 1, false) := by decide

end conc
end Ldlm.Props.C20
