import Ldlm.Proofs.Table
import Ldlm.Proofs.CoreMain
/-!
C13 — Garbage collection of idle locks is invisible to clients.

Interleaved (M1, every schedule, GC steps anywhere, any idle-clock reading):
* `gc_never_removes_busy` — a GC step that deletes a lock object deletes one that nobody holds, nobody
                            is acquiring, nobody waits on and no in-flight call has fetched (the
                            reference count added by the `fix:` for D8), and whose semaphore is free.
* `gc_frame`              — a GC step on one name leaves every other lock object exactly as it was.
* `gc_keeps_invariant`    — the table invariant (capacity, conservation, no lost wake-up) holds in
                            every state of every schedule with GC steps interleaved: GC cannot make
                            a later request misbehave.  The model has no panic branch because with
                            the reference count no call ever holds a deleted object: `gc_never_removes_busy`
                            is exactly the statement that the code's "Tried to lock deleted lock" panic
                            and its `deleted` checks are unreachable.
Sequential (M2):
* `gc_pass_keeps_held`    — a GC pass removes no record that has a key (nor, by C01's
                            `waiter_implies_full`, one that is waited on), for any min-idle.
* `gc_only_effect_is_recreation` — after a GC pass every lock that still has a record has it unchanged;
                            a removed record was unheld and idle longer than min-idle: the next
                            creating request may give it another size.
Known finding K11 (stated, not hidden): a FAILING Unlock with a stale key answers InvalidLockKey
while the idle record exists and LockDoesNotExist once it is collected — `gc_changes_failing_unlock_code`.
-/
namespace Ldlm.Props.C13
open Ldlm.Table

theorem gc_never_removes_busy (s s' : St) (n : Str) (o : Obj) (h : TableInv s) (hg : AMap.get s n = some o)
    (hs : step s (.gc n) = some (s', [])) (hdel : AMap.get s' n = none) :
    o.keys = [] ∧ o.acq = [] ∧ o.q = [] ∧ o.plain = 0 ∧ o.cur = 0 :=
  gc_safe s s' n o h hg hs hdel

theorem gc_frame (s s' : St) (n n' : Str) (hs : step s (.gc n) = some (s', [])) (hne : n ≠ n') :
    AMap.get s' n' = AMap.get s n' :=
  Ldlm.Table.gc_frame s s' n n' hs hne

theorem gc_keeps_invariant (as : List Act) (s' : St) (ev : List AOp) (hr : run [] as = some (s', ev)) :
    TableInv s' :=
  run_inv as [] s' ev empty_inv hr

/-! ### sequential -/
open Ldlm.Core

variable {M : Type} {o : MapOps M} {c : Cfg}

theorem gc_pass_keeps_held (ho : o.Lawful) (s : Core.St M) (mi : Nat) (n : Core.Str) (r : LockRec)
    (hg : o.get s.locks n = some r) (hk : r.keys ≠ []) : o.get (gcPass o s mi).locks n = some r := by
  simp [gcPass, ho.get_filter, hg, Option.filter, hk]

theorem gc_only_effect_is_recreation (ho : o.Lawful) (s : Core.St M) (mi : Nat) (n : Core.Str) :
    o.get (gcPass o s mi).locks n = o.get s.locks n ∨
    (o.get (gcPass o s mi).locks n = none ∧
      ∃ r, o.get s.locks n = some r ∧ r.keys = [] ∧ s.now - r.lastAccessed > mi) := by
  simp only [gcPass, ho.get_filter]
  cases hg : o.get s.locks n with
  | none => left; rfl
  | some r =>
    simp only [Option.filter]
    by_cases hc : r.keys = [] ∧ s.now - r.lastAccessed > mi
    · right; simp [hc]
    · left; simp [hc]

/-- GC touches nothing but the lock table -/
theorem gc_pass_frame (s : Core.St M) (mi : Nat) :
    (gcPass o s mi).timers = s.timers ∧ (gcPass o s mi).sessions = s.sessions ∧
    (gcPass o s mi).file = s.file ∧ (gcPass o s mi).pending = s.pending := ⟨rfl, rfl, rfl, rfl⟩

/-! ### K11: the one extra visible effect (refutation of strict invisibility) -/
def cfg0 : Cfg := { gcInterval := 0, gcMinIdle := 0, dlt := 600 * sec, noClear := false, hasFile := true,
                    genKey := fun n => 75 :: natDigits n }
def s1 : Core.Str := [115, 49]
def pre : List Op := [.connect s1, .tryLock (some s1) [97] none none, .unlock (some s1) [97] (cfg0.genKey 0), .advance 5]

theorem gc_changes_failing_unlock_code :
    (step flatOps cfg0 (Core.run flatOps cfg0 pre) (.unlock (some s1) [97] (cfg0.genKey 0))).2.err = some .badKey ∧
    (step flatOps cfg0 (Core.run flatOps cfg0 (pre ++ [.gc 1])) (.unlock (some s1) [97] (cfg0.genKey 0))).2.err = some .noLock := by
  decide

end Ldlm.Props.C13
