import Ldlm.Model.Core
/-! `tkey` (the timer-map key after F3: decimal byte length of the name, ':', name, key) is injective. -/
namespace Ldlm.Core

theorem char_toNat_inj {a b : Char} (h : a.toNat = b.toNat) : a = b := by
  apply Char.ext
  apply UInt32.toNat_inj.mp
  exact h

theorem map_toNat_inj : ∀ (l m : List Char), l.map Char.toNat = m.map Char.toNat → l = m := by
  intro l
  induction l with
  | nil => intro m h; cases m <;> simp_all
  | cons a l ih =>
    intro m h
    cases m with
    | nil => simp at h
    | cons b m =>
      simp only [List.map_cons, List.cons.injEq] at h
      rw [char_toNat_inj h.1, ih m h.2]

theorem natDigits_inj {a b : Nat} (h : natDigits a = natDigits b) : a = b := by
  unfold natDigits at h
  have h' : Nat.toDigits 10 a = Nat.toDigits 10 b := map_toNat_inj _ _ h
  have := congrArg (fun l => Nat.ofDigitChars 10 l 0) h'
  simpa [Nat.ofDigitChars_ten_toDigits] using this

theorem colon_not_mem_natDigits (n : Nat) : 58 ∉ natDigits n := by
  unfold natDigits
  intro h
  obtain ⟨c, hc, he⟩ := List.mem_map.mp h
  have hd := Nat.isDigit_of_mem_toDigits (by decide) (by decide) hc
  have : c = ':' := char_toNat_inj (by simpa using he)
  subst this
  simp [Char.isDigit] at hd

/-- splitting at the first separator is unique -/
theorem split_unique : ∀ (a b x y : List Nat) (sep : Nat), sep ∉ a → sep ∉ b →
    a ++ sep :: x = b ++ sep :: y → a = b ∧ x = y := by
  intro a
  induction a with
  | nil =>
    intro b x y sep _ hb h
    cases b with
    | nil => simpa using h
    | cons c b => simp at h; simp [h.1] at hb
  | cons d a ih =>
    intro b x y sep ha hb h
    cases b with
    | nil => simp at h; simp [h.1] at ha
    | cons c b =>
      simp at h
      have := ih b x y sep (fun m => ha (List.mem_cons_of_mem _ m)) (fun m => hb (List.mem_cons_of_mem _ m)) h.2
      exact ⟨by rw [h.1, this.1], this.2⟩

theorem tkey_injective {n k n' k' : Str} (h : tkey n k = tkey n' k') : n = n' ∧ k = k' := by
  unfold tkey at h
  simp only [List.append_assoc, List.singleton_append] at h
  obtain ⟨h1, h2⟩ := split_unique _ _ _ _ 58 (colon_not_mem_natDigits _) (colon_not_mem_natDigits _) h
  have hl : n.length = n'.length := natDigits_inj h1
  exact List.append_inj h2 hl

end Ldlm.Core
