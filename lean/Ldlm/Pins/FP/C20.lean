import Ldlm.Generated.Facts
/-!
Source fingerprints for C20: the functions of /repo its models were written against (verifcfg.FPMAP).
`Facts.fp_*` is regenerated from the working tree by every check (first 16 hex digits of SHA-256 of the
normalised signature and body); the right-hand sides were copied from a reviewed tree by tools/mkfp.py and
are NOT regenerated. A pin that no longer checks = this function changed since the models were written.
-/
namespace Ldlm.Pins.FP.C20
open Ldlm

/-- net/rest/rest.go: restHandler.ServeHTTP -/
theorem fp_net_rest_rest_restHandler_ServeHTTP : Facts.fp_net_rest_rest_restHandler_ServeHTTP = "0b151c3347286669" := rfl
/-- net/rest/rest.go: restHandler.ValidatePassword -/
theorem fp_net_rest_rest_restHandler_ValidatePassword : Facts.fp_net_rest_rest_restHandler_ValidatePassword = "469970c23cce8baf" := rfl
/-- net/rest/rest.go: restHandler.ValidateSession -/
theorem fp_net_rest_rest_restHandler_ValidateSession : Facts.fp_net_rest_rest_restHandler_ValidateSession = "fa29095bb900f082" := rfl
/-- net/rest/rest.go: restHandler.DestroySession -/
theorem fp_net_rest_rest_restHandler_DestroySession : Facts.fp_net_rest_rest_restHandler_DestroySession = "3317c9596c7327eb" := rfl
/-- net/rest/rest.go: restHandler.CreateSession -/
theorem fp_net_rest_rest_restHandler_CreateSession : Facts.fp_net_rest_rest_restHandler_CreateSession = "20c49babc91e330c" := rfl
/-- net/rest/rest.go: restHandler.onTimeoutFunc -/
theorem fp_net_rest_rest_restHandler_onTimeoutFunc : Facts.fp_net_rest_rest_restHandler_onTimeoutFunc = "b520532daf0b7ddc" := rfl
/-- net/rest/rest.go: Run -/
theorem fp_net_rest_rest_Run : Facts.fp_net_rest_rest_Run = "7444684083624d1f" := rfl
/-- net/rest/rest.go: NewRestServer -/
theorem fp_net_rest_rest_NewRestServer : Facts.fp_net_rest_rest_NewRestServer = "0e5e4a42d37dd44d" := rfl
/-- timermap/timermap.go: New -/
theorem fp_timermap_timermap_New : Facts.fp_timermap_timermap_New = "7bfa6bb474b5152d" := rfl
/-- timermap/timermap.go: TimerMap.Add -/
theorem fp_timermap_timermap_TimerMap_Add : Facts.fp_timermap_timermap_TimerMap_Add = "d8c62d0874a15c32" := rfl
/-- timermap/timermap.go: TimerMap.Remove -/
theorem fp_timermap_timermap_TimerMap_Remove : Facts.fp_timermap_timermap_TimerMap_Remove = "ce8fae6c7455bbd4" := rfl
/-- timermap/timermap.go: TimerMap.Reset -/
theorem fp_timermap_timermap_TimerMap_Reset : Facts.fp_timermap_timermap_TimerMap_Reset = "6e63112ea24222fa" := rfl
/-- timermap/timermap.go: TimerMap.shutdown -/
theorem fp_timermap_timermap_TimerMap_shutdown : Facts.fp_timermap_timermap_TimerMap_shutdown = "c7c679c3e023a667" := rfl

end Ldlm.Pins.FP.C20
