#!/usr/bin/env python3
"""keep_seeded.py <ledger.json>: for every entry of the ledger (id, property, change, first, strengthening)
copy the confirmed seeded change from /tmp/wt/out/<id> to /verif/seeded/<id>/ (patch.diff, demo/, meta.json).
The checks_run block is parsed from /tmp/wt/out/<id>/try*.log (written by tools/trymutant.sh)."""
import json, os, re, shutil, sys, glob
ledger = json.load(open(sys.argv[1]))
for e in ledger:
    mid = e['id']; src = '/tmp/wt/out/' + mid; dst = '/verif/seeded/' + mid
    if not os.path.exists(src + '/patch.diff'):
        print(mid, 'no patch'); continue
    os.makedirs(dst + '/demo', exist_ok=True)
    shutil.copy(src + '/patch.diff', dst + '/patch.diff')
    where = []
    for f in sorted(os.listdir(src)):
        p = src + '/' + f
        if not os.path.isfile(p) or f.startswith('.') or f in ('patch.diff', 'process.log') or f.startswith('try') or f.startswith('suite'):
            continue
        if f.endswith('_test.go'):
            first = open(p).readline().strip()
            shutil.copy(p, dst + '/demo/' + f + '.txt')
            where.append('%s: %s' % (f, first))
        else:
            shutil.copy(p, dst + '/demo/' + f)
    open(dst + '/demo/WHERE.txt', 'w').write(
        'The demonstration is a Go test file (stored here with the extra suffix .txt so that it is not compiled as part of /verif).\n'
        'Its first line says in which package directory of the repository it goes (as verifdemo_test.go):\n  ' + '\n  '.join(where) +
        '\nthen run  go test -count=1 -vet=off -run VerifDemo <that package>\nIt fails with patch.diff applied and passes without it.\n')
    conf = open(src + '/process.log').read() if os.path.exists(src + '/process.log') else ''
    m1 = re.search(r'suite: (\d+) ok, (\d+) fail', conf); m2 = re.search(r'changed-tree FAIL lines=(\d+); original FAIL lines=(\d+) ok lines=(\d+)', conf)
    results = []
    for t in sorted(glob.glob(src + '/try*.log'), key=os.path.getmtime):
        cur = None
        for line in open(t):
            m = re.match(r'== (\S+) (\S+) rc=(\d+) :: (.*)', line)
            if m:
                res = re.search(r'(C\d\d (HELD|VIOLATED)[^\n]*)', m.group(4))
                cur = dict(check=m.group(2), exit_code=int(m.group(3)), result=(res.group(1).strip() if res else m.group(4).strip()), violations=[], log=os.path.basename(t))
                results.append(cur)
            elif cur is not None and line.startswith('  '):
                cur['violations'].append(line.strip()[:400])
    final = {}
    for r in results:
        final[r['check']] = r   # the last run of each check counts
    meta = dict(
        id=mid, property=e['property'], change=e['change'],
        needs_to_manifest=e.get('needs', "see demo/notes.md (section on what it needs to show)"),
        produced_by="fresh sub-agent given only the property text (with a one-sentence pointer to a clause of that text to prefer and a list of edits of earlier rounds not to repeat; seeded/PROMPT-round7.txt, seeded/angles-round7.json) and its own scratch worktree of /repo under /tmp; nothing from /verif",
        demo_location="demo/ (see WHERE.txt; the sub-agent's own write-up is demo/notes.md)",
        confirmed=dict(
            by="me, in the scratch worktree, independently of the sub-agent's report (tools/confirm_seeded.sh, tools/demo_seeded.sh; logs in demo/confirm.log and demo/demo.log)",
            commands=["go build ./...", "go test -count=1 -vet=off ./...  (demo file moved out of the tree)",
                      "go test -count=1 -vet=off -run VerifDemo <demo package>  (with the change)",
                      "git apply -R patch.diff; same demo command (without the change); git apply patch.diff"],
            build_with_change_ok=True,
            suite_with_change=("%s packages ok, %s failure lines" % (m1.group(1), m1.group(2))) if m1 else "?",
            demo_with_change_fail_lines=int(m2.group(1)) if m2 else None,
            demo_without_change=("%s ok, %s failures" % (m2.group(3), m2.group(2))) if m2 else "?",
            verdict="suite passes with the change; demo fails with it; demo passes without it" if (m1 and m2 and m1.group(2) == '0' and int(m2.group(1)) > 0 and m2.group(2) == '0') else "NOT CONFIRMED"),
        first_result_before_strengthening=e['first'],
        strengthening=e.get('strengthening', 'none needed'),
        checks_run=dict(how="git -C /repo apply seeded/%s/patch.diff; ./check <prop> (quick tier, seed 1); git -C /repo checkout -- .   (tools/trymutant.sh; the last run of each check is listed)" % mid,
                        results=[dict(check=r['check'], exit_code=r['exit_code'], result=r['result'], violations=r['violations'][:4]) for r in final.values()]))
    json.dump(meta, open(dst + '/meta.json', 'w'), indent=1)
    print(mid, e['property'], meta['confirmed']['verdict'], [(r['check'], r['exit_code']) for r in final.values()])
