import Ldlm.Proofs.CoreLease
import Ldlm.Proofs.CoreRestart
import Ldlm.Proofs.CoreDead
import Ldlm.Props.C07
import Ldlm.Generated.Facts
/-!
C04 — Lease timing: no early release, prompt expiry, renew restarts the lease.

All over M2 in virtual time (nanoseconds), for every state satisfying the reachability invariant:

* `grant_arms_lease`     — a TryLock granted with lock timeout t > 0 at time `now` stores a lease with
                           deadline exactly `now + t·10⁹` (units pinned to `time.Second` by
                           `C12.lease_units_pinned`); `no_timeout_no_lease`: absent / zero ⇒ none.
* `lease_not_early`      — advancing to any instant before a lease's deadline leaves that lease (and,
                           by the invariant, its hold) in place: `lease_not_early_held`.
* `lease_prompt`         — after advancing (fuel not exhausted — reported, never silent) no lease with a
                           deadline at or before the new time is left; the fired leases' holds are gone
                           (`expired_is_not_held`).
* `renew_restarts`       — a successful Renew at `now` with t sets the deadline to exactly `now + t·10⁹`
                           and touches nothing else (C07.renew_frame).
* `renew_requires_lease` — Renew of a pair without a lease (never leased, expired, unlocked, unknown)
                           fails with LockDoesNotExistOrInvalidKey — the code's behaviour, stated so it
                           is visible: a hold taken WITHOUT a lock timeout cannot be renewed into one.
* `dead_key_inert`       — once a pair is not held (expired, unlocked), Unlock and Renew with it fail
                           and change nothing (so they cannot affect the next holder).
-/
namespace Ldlm.Props.C04
open Ldlm.Core

variable {M : Type} {o : MapOps M} {c : Cfg}

theorem grant_arms_lease (s : St M) (sid : Sid) (n : Str) (sz : Option Int) (t : Int) (ht : 0 < t)
    (hok : (step o c s (.tryLock (some sid) n sz (some t))).2.ok = true) :
    AMap.get (step o c s (.tryLock (some sid) n sz (some t))).1.timers
      (tkey n (step o c s (.tryLock (some sid) n sz (some t))).2.key)
      = some ⟨s.now + t.toNat * sec, n, (step o c s (.tryLock (some sid) n sz (some t))).2.key, sid⟩ := by
  simp only [step] at hok ⊢
  unfold srvTryLock at hok ⊢
  simp only at hok ⊢
  repeat' split
  all_goals first
    | (simp only [book]; rw [arm_positive _ _ _ _ _ ht]; rfl)
    | simp_all

/-- absent or zero lock timeout: no lease is stored, the hold never expires on its own -/
theorem no_timeout_no_lease (s : St M) (n k : Str) (sid : Sid) :
    (arm s n k sid none).timers = s.timers ∧ (arm s n k sid (some 0)).timers = s.timers := by
  simp [arm]

theorem lease_not_early (ho : o.Lawful) (hinj : KeysInjective c) {s : St M} (h : Inv' o c s) (dt : Nat)
    (tk : Str) (tm : Timer) (hg : AMap.get s.timers tk = some tm) (hd : s.now + dt < tm.deadline) :
    AMap.get (step o c s (.advance dt)).1.timers tk = some tm :=
  advance_not_early ho hinj h dt tk tm hg hd

/-- … and the hold the lease belongs to is still held then -/
theorem lease_not_early_held (ho : o.Lawful) (hinj : KeysInjective c)
    {s : St M} (h : InvS o c s) (dt : Nat)
    (tk : Str) (tm : Timer) (hg : AMap.get s.timers tk = some tm) (hd : s.now + dt < tm.deadline) :
    held o (step o c s (.advance dt)).1 tm.name tm.key := by
  have h' := (step_invS ho hinj h (.advance dt)).1
  have hg' := lease_not_early ho hinj h.1 dt tk tm hg hd
  rcases (h'.timer tk tm (AMap.get_some_mem _ _ _ hg')).2 with hh | hx
  · exact hh
  · cases hx

theorem lease_prompt (s : St M) (dt : Nat) (hnt : (step o c s (.advance dt)).2.tie = false) :
    ∀ e ∈ (step o c s (.advance dt)).1.timers, s.now + dt < e.2.deadline :=
  advance_prompt s dt hnt

theorem renew_restarts (s : St M) (n k : Str) (t : Int) (hok : (step o c s (.renew n k t)).2.ok = true) :
    ∃ tm, AMap.get s.timers (tkey n k) = some tm ∧
      AMap.get (step o c s (.renew n k t)).1.timers (tkey n k) = some { tm with deadline := s.now + t.toNat * sec } := by
  simp only [step] at hok ⊢
  unfold srvRenew at hok ⊢
  split
  · simp_all
  · split
    · simp_all
    · rename_i tm hg
      exact ⟨tm, hg, by simp⟩

theorem renew_requires_lease (s : St M) (n k : Str) (t : Int) (ht : 0 < t)
    (hg : AMap.get s.timers (tkey n k) = none) :
    (step o c s (.renew n k t)).2.err = some .noLockOrKey ∧ (step o c s (.renew n k t)).1 = s := by
  have : ¬ t ≤ 0 := by omega
  simp [step, srvRenew, this, hg]

/-- a pair that is not held owns no lease, so Renew fails; and Unlock fails; both change nothing -/
theorem dead_key_inert (ho : o.Lawful) {s : St M} (h : Inv' o c s) (n k : Str) (hnh : ¬ held o s n k) (t : Int) (ht : 0 < t) :
    (step o c s (.renew n k t)).2.err = some .noLockOrKey ∧ (step o c s (.renew n k t)).1 = s ∧
    (step o c s (.unlock none n k)).2.err ≠ none ∧
    Ldlm.Props.C07.ObsEq o s (step o c s (.unlock none n k)).1 := by
  have h1 := renew_requires_lease (o := o) (c := c) s n k t ht (no_timer_of_not_held h hnh)
  have h3 : (step o c s (.unlock none n k)).2.err ≠ none := by
    simp only [step, srvUnlock, mgrUnlock]
    cases hg : o.get s.locks n with
    | none => simp
    | some r =>
      have hk : k ∉ r.keys := fun hk => hnh ⟨r, hg, hk⟩
      simp [hk]
  exact ⟨h1.1, h1.2, h3, Ldlm.Props.C07.failed_inert ho h (.unlock none n k) rfl h3⟩

/-- after its lease fired the pair is not held -/
theorem expired_is_not_held (ho : o.Lawful) {s : St M} (h : Inv' o c s) (tk : Str) (tm : Timer)
    (hm : (tk, tm) ∈ s.timers) : ¬ held o (fireLease o s tk tm).1 tm.name tm.key := by
  unfold fireLease
  simp only
  obtain ⟨m1, m2⟩ := mgrUnlock_invx ho (xb' := some (tm.name, tm.key)) (xt' := some (tm.name, tm.key))
    h tm.name tm.key (Or.inl rfl) (Or.inl rfl)
  have hh : ¬ held o (mgrUnlock o s tm.name tm.key).1 tm.name tm.key := by
    cases hok : (mgrUnlock o s tm.name tm.key).2.1 with
    | true => exact (m1 hok).2
    | false => exact (m2 hok).2
  intro hx
  apply hh
  obtain ⟨r, hg, hk⟩ := hx
  exact ⟨r, hg, hk⟩

/-! non-vacuity: a lease of 5 s is in place at 4.999999999 s and gone at exactly 5 s -/
def cfg0 : Cfg := { gcInterval := 0, gcMinIdle := 0, dlt := 600 * sec, noClear := false, hasFile := true,
                    genKey := fun n => 75 :: natDigits n }
def s1 : Str := [115, 49]
def st0 : St (List (Str × LockRec)) := run flatOps cfg0 [.connect s1, .tryLock (some s1) [97] none (some 5)]

example : (step flatOps cfg0 st0 (.advance 4999999999)).1.timers.length = 1 := by decide
example : (step flatOps cfg0 st0 (.advance 5000000000)).1.timers.length = 0 ∧
          (AMap.get (step flatOps cfg0 st0 (.advance 5000000000)).1.locks [97]).map (·.keys) = some [] := by decide

/-! ### the model's unbounded arithmetic is the code's: `time.Duration(int32 seconds) * time.Second` cannot overflow -/

/-- every lock / wait / renew timeout a request can carry (an `int32` number of seconds) times 10⁹ fits an
`int64` nanosecond `time.Duration` with room to spare, so `s.now + t.toNat * sec` over `Nat` is what the
code computes -/
theorem duration_fits_int64 (t : Int) (h0 : 0 ≤ t) (h1 : t < 2 ^ 31) : t * 1000000000 < 2 ^ 63 := by omega

example : sec = 1000000000 := by decide

/-! ### after expiry the key is dead, for every continuation -/

/-- the lease callback of a hold leaves its (name, key) dead … -/
theorem expired_key_dead (ho : o.Lawful) {s : St M} (h : InvS o c s) (tk : Core.Str) (tm : Timer) (hm : (tk, tm) ∈ s.timers) :
    Dead o c tm.name tm.key (fireLease o s tk tm).1 :=
  expiry_kills ho h.1 tk tm hm

/-- … and a dead pair stays dead whatever happens next: it is never held again, Unlock with it fails,
and it has no lease timer to renew (in reachable states a timer implies a hold) -/
theorem dead_key_stays_dead (ho : o.Lawful) (hinj : KeysInjective c) {s : St M} {n k : Core.Str} (hd : Dead o c n k s)
    (ops : List Op) (sid : Option Sid) :
    let t := ops.foldl (fun s op => (Core.step o c s op).1) s
    ¬ held o t n k ∧ (Core.step o c t (.unlock sid n k)).2.ok = false :=
  ⟨(hd.forever ho hinj ops).not_held, (hd.forever ho hinj ops).unlock_fails sid⟩

end Ldlm.Props.C04
