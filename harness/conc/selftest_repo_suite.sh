#!/bin/sh
# Instrumenter self-test: the repository's OWN test suite must pass on the instrumented overlay
# build with the scheduler off (yields, verifrt mutexes and Recover must be behaviour-preserving).
# usage: selftest_repo_suite.sh [outdir]   (default: a temp dir on tmpfs, removed afterwards)
set -e
export GOFLAGS=-mod=mod GOPROXY=off GOSUMDB=off GOTOOLCHAIN=local CGO_ENABLED=0
here=$(cd "$(dirname "$0")" && pwd)
verif=$(cd "$here/../.." && pwd)
repo=${VERIF_REPO:-/repo}
if [ -n "$1" ]; then out=$1; else out=$(mktemp -d -p /dev/shm verif-ov.XXXXXX 2>/dev/null || mktemp -d); trap 'rm -rf "$out"' EXIT; fi
mkdir -p "$verif/tools/bin"
(cd "$verif/tools/instr" && go1.26.8 build -o "$verif/tools/bin/instr" .)
"$verif/tools/bin/instr" -repo "$repo" -out "$out" -yields "${VERIF_YIELDS:-filtered}" \
	-rt "$verif/harness/verifrt_src/rt.go" -exports "$verif/harness/overlay/exports.json"
cd "$repo"
go1.26.8 test -overlay "$out/overlay.json" -vet=off -count=1 ./...
