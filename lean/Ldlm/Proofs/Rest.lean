import Ldlm.Model.Rest
import Ldlm.Proofs.CoreNow
/-! M4: what the gateway's session table does, for every state and every history. -/
namespace Ldlm.Rest
open Ldlm Ldlm.Core Ldlm.AMap
variable {M : Type} {o : MapOps M} {c : Cfg} {rc : RCfg}

theorem earliest_none {rs : List (Str × (Sid × Nat))} (h : earliest rs = none) : rs = [] := by
  cases rs with
  | nil => rfl
  | cons e rest =>
    simp only [earliest] at h
    split at h
    · cases h
    · split at h <;> cases h

theorem earliest_mem : ∀ {rs : List (Str × (Sid × Nat))} {e}, earliest rs = some e → e ∈ rs := by
  intro rs
  induction rs with
  | nil => intro e h; cases h
  | cons x rest ih =>
    intro e h
    simp only [earliest] at h
    split at h
    · cases h; simp
    · rename_i a ha
      split at h
      · cases h; exact List.mem_cons_of_mem _ (ih ha)
      · cases h; simp

theorem earliest_le : ∀ {rs : List (Str × (Sid × Nat))} {e}, earliest rs = some e → ∀ x ∈ rs, e.2.2 ≤ x.2.2 := by
  intro rs
  induction rs with
  | nil => intro e h; cases h
  | cons y rest ih =>
    intro e h x hx
    simp only [earliest] at h
    split at h
    · rename_i hn
      cases h
      have := earliest_none hn
      subst this
      simp at hx; subst hx; exact Nat.le_refl _
    · rename_i a ha
      have hle := ih ha
      split at h
      · cases h
        rcases List.mem_cons.mp hx with rfl | hx
        · omega
        · exact hle x hx
      · cases h
        rcases List.mem_cons.mp hx with rfl | hx
        · exact Nat.le_refl _
        · have := hle x hx; omega

/-! ### `radv`: what an advance of the clock does to the session table -/

theorem endSession_rs (s : RSt M) (ck : Str) (sid : Sid) : (endSession o c s ck sid).rs = del s.rs ck := rfl

/-- a session whose idle deadline lies after the target instant is untouched -/
theorem radv_keeps_later (target : Nat) (ck : Str) (v : Sid × Nat) (hv : target < v.2) :
    ∀ (fuel : Nat) (s : RSt M), Uniq s.rs → get s.rs ck = some v →
      get (radv o c target fuel s).1.rs ck = some v := by
  intro fuel
  induction fuel with
  | zero => intro s _ h; exact h
  | succ f ih =>
    intro s hu h
    unfold radv
    split
    · exact h
    · rename_i ck' sid' d' he
      split
      · exact h
      · rename_i hd
        simp only
        apply ih
        · rw [endSession_rs]; exact uniq_del _ _ hu
        · rw [endSession_rs, get_del]
          have hm := earliest_mem he
          have hne : ck' ≠ ck := by
            intro heq
            subst heq
            have := uniq_get_of_mem _ _ _ hu hm
            rw [this] at h
            cases h
            simp at hd hv
            omega
          simp [hne, h]

/-- after an advance that reports no tie (and so did not run out of fuel) every remaining session
has its idle deadline after the target instant: an idle session is gone promptly -/
theorem radv_prompt (target : Nat) : ∀ (fuel : Nat) (s : RSt M),
    (radv o c target fuel s).2.2 = false → ∀ e ∈ (radv o c target fuel s).1.rs, target < e.2.2 := by
  intro fuel
  induction fuel with
  | zero => intro s h; simp [radv] at h
  | succ f ih =>
    intro s h
    unfold radv at h ⊢
    split
    · rename_i hn
      have := earliest_none hn
      intro e he; rw [this] at he; cases he
    · rename_i ck' sid' d' he
      split
      · rename_i hd
        intro e hm
        have := earliest_le he e hm
        simp at this
        omega
      · rename_i hd
        simp only [he, hd, if_false] at h
        simp only
        apply ih
        rw [Bool.or_eq_false_iff] at h
        exact h.2

/-- an advance never adds a session -/
theorem radv_keeps_none (target : Nat) (ck : Str) : ∀ (fuel : Nat) (s : RSt M), get s.rs ck = none →
    get (radv o c target fuel s).1.rs ck = none := by
  intro fuel
  induction fuel with
  | zero => intro s h; exact h
  | succ f ih =>
    intro s h
    unfold radv
    split
    · exact h
    · split
      · exact h
      · simp only
        apply ih
        rw [endSession_rs, get_del]
        split
        · rfl
        · exact h

/-- sessions ended by an advance are exactly removed from the table, each once -/
theorem radv_ended_removed (target : Nat) : ∀ (fuel : Nat) (s : RSt M), Uniq s.rs →
    ∀ ck ∈ (radv o c target fuel s).2.1, get (radv o c target fuel s).1.rs ck = none ∧ get s.rs ck ≠ none := by
  intro fuel
  induction fuel with
  | zero => intro s _ ck h; simp [radv] at h
  | succ f ih =>
    intro s hu ck h
    unfold radv at h ⊢
    split
    · rename_i hn; simp [hn] at h
    · rename_i ck' sid' d' he
      simp only [he] at h
      split
      · rename_i hd; simp [hd] at h
      · rename_i hd
        simp only [hd, if_false] at h ⊢
        have hu' : Uniq (endSession o c { s with core := (Core.step o c s.core (.advance (d' - s.core.now))).1 } ck' sid').rs := by
          rw [endSession_rs]; exact uniq_del _ _ hu
        have hm := earliest_mem he
        rcases List.mem_cons.mp h with rfl | h
        · refine ⟨?_, ?_⟩
          · apply radv_keeps_none
            rw [endSession_rs, get_del]; simp
          · rw [uniq_get_of_mem _ _ _ hu hm]; simp
        · have := ih _ hu' ck h
          refine ⟨this.1, ?_⟩
          have h2 := this.2
          rw [endSession_rs, get_del] at h2
          split at h2
          · exact absurd rfl h2
          · exact h2

/-! ### every REST session ends exactly once -/

/-- ties the session table to the ghost count of connection-end deliveries -/
structure RInv (rc : RCfg) (s : RSt M) : Prop where
  uniq  : Uniq s.rs
  fresh : ∀ ck, (get s.rs ck ≠ none ∨ get s.ends ck ≠ none) → ∃ i, i < s.nrest ∧ ck = rc.genCookie i
  once  : ∀ ck n, get s.ends ck = some n → n = 1 ∧ get s.rs ck = none
  acct  : ∀ i, i < s.nrest → get s.rs (rc.genCookie i) ≠ none ∨ get s.ends (rc.genCookie i) = some 1

theorem RInv.core {s : RSt M} (h : RInv rc s) (core' : St M) : RInv rc { s with core := core' } :=
  ⟨h.uniq, h.fresh, h.once, h.acct⟩

theorem endSession_inv {s : RSt M} (h : RInv rc s) (ck : Str) (sid : Sid) (hv : get s.rs ck ≠ none) :
    RInv rc (endSession o c s ck sid) := by
  have hen : get s.ends ck = none := by
    cases he : get s.ends ck with
    | none => rfl
    | some n => exact absurd (h.once ck n he).2 hv
  refine ⟨uniq_del _ _ h.uniq, ?_, ?_, ?_⟩
  · intro ck' hc
    apply h.fresh
    simp only [endSession, bump, get_del, get_set] at hc
    by_cases e : ck = ck'
    · subst e; exact Or.inl hv
    · simp only [e, if_false] at hc; exact hc
  · intro ck' n hn
    simp only [endSession, bump, get_del, get_set] at hn ⊢
    by_cases e : ck = ck'
    · subst e
      simp [hen] at hn
      exact ⟨hn.symm, by simp⟩
    · simp only [e, if_false] at hn ⊢
      exact h.once ck' n hn
  · intro i hi
    simp only [endSession, bump, get_del, get_set]
    by_cases e : ck = rc.genCookie i
    · right; simp [e.symm, hen]
    · simp only [e, if_false]; exact h.acct i hi

theorem radv_inv (target : Nat) : ∀ (fuel : Nat) (s : RSt M), RInv rc s → RInv rc (radv o c target fuel s).1 := by
  intro fuel
  induction fuel with
  | zero => intro s h; exact h
  | succ f ih =>
    intro s h
    unfold radv
    split
    · exact h.core _
    · rename_i ck' sid' d' he
      split
      · exact h.core _
      · simp only
        apply ih
        apply endSession_inv (h.core _)
        have := uniq_get_of_mem _ _ _ h.uniq (earliest_mem he)
        simp [this]

theorem rstep_inv (hinj : ∀ i j, rc.genCookie i = rc.genCookie j → i = j) {s : RSt M} (h : RInv rc s) (op : ROp) :
    RInv rc (rstep o c rc s op).1 := by
  cases op with
  | create =>
    simp only [rstep]
    refine ⟨uniq_set _ _ _ h.uniq, ?_, ?_, ?_⟩
    · intro ck hc
      simp only [get_set] at hc
      by_cases e : rc.genCookie s.nrest = ck
      · exact ⟨s.nrest, Nat.lt_succ_self _, e.symm⟩
      · simp only [e, if_false] at hc
        obtain ⟨i, hi, hck⟩ := h.fresh ck hc
        exact ⟨i, Nat.lt_succ_of_lt hi, hck⟩
    · intro ck n hn
      refine ⟨(h.once ck n hn).1, ?_⟩
      obtain ⟨i, hi, hck⟩ := h.fresh ck (Or.inr (by simp [hn]))
      simp only [get_set]
      have : rc.genCookie s.nrest ≠ ck := by
        intro e; rw [hck] at e; have := hinj _ _ e; omega
      simp only [this, if_false]
      exact (h.once ck n hn).2
    · intro i hi
      simp only [get_set]
      by_cases e : rc.genCookie s.nrest = rc.genCookie i
      · left; simp [e]
      · simp only [e, if_false]
        have hi' : i < s.nrest + 1 := hi
        have : i < s.nrest := by
          rcases Nat.lt_or_ge i s.nrest with h1 | h1
          · exact h1
          · have : i = s.nrest := by omega
            subst this; exact absurd rfl e
        exact h.acct i this
  | delete ck =>
    cases ck with
    | none => exact h
    | some ck =>
      simp only [rstep]
      split
      · exact h
      · rename_i sid d hg
        exact endSession_inv h ck sid (by simp [hg])
  | req ck r =>
    cases ck with
    | none => exact h
    | some ck =>
      simp only [rstep]
      split
      · exact h
      · rename_i sid d hg
        have h1 : RInv rc { s with rs := set s.rs ck (sid, s.core.now + rc.timeout) } := by
          refine ⟨uniq_set _ _ _ h.uniq, ?_, ?_, ?_⟩
          · intro ck' hc
            apply h.fresh
            simp only [get_set] at hc
            by_cases e : ck = ck'
            · subst e; left; simp [hg]
            · simp only [e, if_false] at hc; exact hc
          · intro ck' n hn
            refine ⟨(h.once ck' n hn).1, ?_⟩
            simp only [get_set]
            by_cases e : ck = ck'
            · subst e; have := (h.once ck n hn).2; rw [hg] at this; cases this
            · simp only [e, if_false]; exact (h.once ck' n hn).2
          · intro i hi
            simp only [get_set]
            by_cases e : ck = rc.genCookie i
            · left; simp [e]
            · simp only [e, if_false]; exact h.acct i hi
        cases r with
        | none => exact h1
        | some q => exact h1.core _
  | gconnect => exact ⟨h.uniq, h.fresh, h.once, h.acct⟩
  | greq sid q => exact h.core _
  | gend sid => exact h.core _
  | adv dt =>
    simp only [rstep]
    exact radv_inv _ _ s h

theorem init_inv : RInv rc (init o c : RSt M) := by
  refine ⟨by simp [init, Uniq], ?_, ?_, ?_⟩
  · intro ck h; simp [init, AMap.get] at h
  · intro ck n h; simp [init, AMap.get] at h
  · intro i h; simp [init] at h

theorem rrun_inv (hinj : ∀ i j, rc.genCookie i = rc.genCookie j → i = j) (ops : List ROp) :
    ∀ (s : RSt M), RInv rc s → RInv rc (rrun o c rc s ops) := by
  unfold rrun
  induction ops with
  | nil => intro s h; exact h
  | cons op ops ih => intro s h; exact ih _ (rstep_inv hinj h op)

end Ldlm.Rest
