import Ldlm.Proofs.CoreSize
import Ldlm.Proofs.CoreRepr
/-!
Garbage collection is invisible (C13), as a lock-step simulation at the level of M2.

`noGc o` is the lock table `o` with a collector that deletes nothing (`filter` is only used by
`gcPass`).  `G s s'` relates a state `s` of the server (collector on) to a state `s'` of the same
server with `noGc`: every field equal, and the table of `s` is the table of `s'` minus some records
that have no key and no waiter.  Every block of `step` preserves `G` and gives the same outputs, with
two exceptions that are exactly the ones C13 names:
  * a creating request on a collected record whose requested size differs (the GC side creates, the
    other side answers size mismatch) — the simulation stops there;
  * a failing Unlock on a collected record answers `noLock` instead of `badKey` (K11) — both fail, `G` stays.
-/
namespace Ldlm.Core
open Ldlm.AMap

variable {M : Type} {o : MapOps M} {c : Cfg}

/-- the same table with a collector that deletes nothing -/
def noGc (o : MapOps M) : MapOps M := { o with filter := fun _ m => m }

def GL (o : MapOps M) (m m' : M) : Prop :=
  ∀ n, o.get m n = o.get m' n ∨ (o.get m n = none ∧ ∃ r', o.get m' n = some r' ∧ r'.keys = [] ∧ r'.q = [])

structure G (o : MapOps M) (s s' : St M) : Prop where
  now : s'.now = s.now
  timers : s'.timers = s.timers
  sessions : s'.sessions = s.sessions
  file : s'.file = s.file
  pending : s'.pending = s.pending
  gcNext : s'.gcNext = s.gcNext
  nreq : s'.nreq = s.nreq
  locks : GL o s.locks s'.locks

theorem GL.refl (m : M) : GL o m m := fun _ => Or.inl rfl

theorem G.refl (s : St M) : G o s s := ⟨rfl, rfl, rfl, rfl, rfl, rfl, rfl, GL.refl _⟩

theorem G.eq {s s' : St M} (h : G o s s') : s' = { s with locks := s'.locks } := by
  obtain ⟨h1, h2, h3, h4, h5, h6, h7, _⟩ := h
  cases s; cases s'
  simp only at h1 h2 h3 h4 h5 h6 h7
  subst h1 h2 h3 h4 h5 h6 h7
  rfl

theorem G.of_locks (s : St M) (m' : M) (h : GL o s.locks m') : G o s { s with locks := m' } :=
  ⟨rfl, rfl, rfl, rfl, rfl, rfl, rfl, h⟩

/-- both sides write the same record -/
theorem GL.set (ho : o.Lawful) {m m' : M} (h : GL o m m') (n : Str) (r : LockRec) :
    GL o (o.set m n r) (o.set m' n r) := by
  intro n'
  rw [ho.get_set, ho.get_set]
  by_cases e : n = n'
  · simp [e]
  · simp only [e, if_false]; exact h n'

/-- only the `noGc` side writes, and what it writes is an empty record where the other side has none -/
theorem GL.set_right (ho : o.Lawful) {m m' : M} (h : GL o m m') {n : Str} (hn : o.get m n = none)
    {r : LockRec} (hk : r.keys = []) (hq : r.q = []) : GL o m (o.set m' n r) := by
  intro n'
  rw [ho.get_set]
  by_cases e : n = n'
  · subst e; simp only [if_true]; right; exact ⟨hn, r, rfl, hk, hq⟩
  · simp only [e, if_false]; exact h n'

/-! ### blocks that do not look at the table commute with replacing it -/

theorem arm_withLocks (s : St M) (m : M) (n k : Str) (sid : Sid) (lt : Option Int) :
    arm { s with locks := m } n k sid lt = { arm s n k sid lt with locks := m } := by
  unfold arm
  split
  · split <;> rfl
  · rfl

theorem book_withLocks (s : St M) (m : M) (sid : Sid) (n k : Str) (sz : Int) (lt : Option Int) :
    book { s with locks := m } sid n k sz lt = { book s sid n k sz lt with locks := m } := by
  unfold book
  have : addBook { s with locks := m } sid ⟨n, k, sz⟩ = { addBook s sid ⟨n, k, sz⟩ with locks := m } := rfl
  rw [this, arm_withLocks]

theorem G.cases {s s' : St M} (h : G o s s') : ∃ m', s' = { s with locks := m' } ∧ GL o s.locks m' :=
  ⟨s'.locks, h.eq, h.locks⟩

theorem G_book {s s' : St M} (h : G o s s') (sid : Sid) (n k : Str) (sz : Int) (lt : Option Int) :
    G o (book s sid n k sz lt) (book s' sid n k sz lt) := by
  obtain ⟨m', rfl, hl⟩ := h.cases
  rw [book_withLocks s m']
  refine G.of_locks _ _ ?_
  rw [book_locks]
  exact hl

theorem G_removeBook {s s' : St M} (h : G o s s') (n k : Str) : G o (removeBook s n k) (removeBook s' n k) := by
  obtain ⟨m', rfl, hl⟩ := h.cases
  exact G.of_locks (removeBook s n k) m' hl

/-- pairs (state, output): related states, equal outputs -/
def Rel {α : Type} (o : MapOps M) (x x' : St M × α) : Prop := G o x.1 x'.1 ∧ x.2 = x'.2

theorem handOver_rel (ho : o.Lawful) {s s' : St M} (h : G o s s') (n : Str) (r : LockRec) :
    Rel o (handOver o s n r) (handOver o s' n r) := by
  obtain ⟨m', rfl, hl⟩ := h.cases
  unfold handOver
  split
  · exact ⟨G.of_locks { s with locks := o.set s.locks n r } _ (GL.set ho hl n r), rfl⟩
  · rename_i p q' _
    refine ⟨?_, rfl⟩
    simp only
    apply G_book
    exact ⟨rfl, rfl, rfl, rfl, rfl, rfl, rfl, GL.set ho hl n _⟩

/-- `mgrUnlock`: same result and events; the error code differs only on a collected record (K11) -/
theorem mgrUnlock_rel (ho : o.Lawful) {s s' : St M} (h : G o s s') (n k : Str) :
    G o (mgrUnlock o s n k).1 (mgrUnlock o s' n k).1 ∧
    (mgrUnlock o s n k).2.1 = (mgrUnlock o s' n k).2.1 ∧
    (mgrUnlock o s n k).2.2.2 = (mgrUnlock o s' n k).2.2.2 ∧
    ((mgrUnlock o s n k).2.2.1 = (mgrUnlock o s' n k).2.2.1 ∨
      ((mgrUnlock o s n k).2.2.1 = some .noLock ∧ (mgrUnlock o s' n k).2.2.1 = some .badKey ∧
        (mgrUnlock o s n k).2.1 = false ∧ o.get s.locks n = none)) := by
  rcases h.locks n with heq | ⟨hn, r', hr', hk, hq⟩
  · unfold mgrUnlock
    rw [← heq]
    cases hg : o.get s.locks n with
    | none => exact ⟨h, rfl, rfl, Or.inl rfl⟩
    | some r =>
      simp only [h.now]
      split
      · have := handOver_rel ho h n { r with lastAccessed := s.now, keys := ({ r with lastAccessed := s.now } : LockRec).keys.erase k }
        exact ⟨this.1, rfl, this.2, Or.inl rfl⟩
      · refine ⟨?_, rfl, rfl, Or.inl rfl⟩
        obtain ⟨m', rfl, hl⟩ := h.cases
        exact G.of_locks { s with locks := o.set s.locks n _ } _ (GL.set ho hl n _)
  · have e1 : mgrUnlock o s n k = (s, false, some .noLock, []) := by
      unfold mgrUnlock; rw [hn]
    have e2 : mgrUnlock o s' n k = ({ s' with locks := o.set s'.locks n { r' with lastAccessed := s'.now } }, false, some .badKey, []) := by
      unfold mgrUnlock; rw [hr']; simp only [hk, List.not_mem_nil, if_false]
    rw [e1, e2]
    refine ⟨?_, rfl, rfl, Or.inr ⟨rfl, rfl, rfl, hn⟩⟩
    obtain ⟨m', rfl, hl⟩ := h.cases
    exact G.of_locks s _ (GL.set_right ho hl hn hk hq)

/-- responses agree, up to the error code of a failing Unlock on a collected record (K11) -/
def REq (a a' : Resp) : Prop :=
  a.ok = a'.ok ∧ a.key = a'.key ∧ a.pending = a'.pending ∧ a.events = a'.events ∧ a.tie = a'.tie ∧
  (a.err = a'.err ∨ (a.err = some .noLock ∧ a'.err = some .badKey ∧ a.ok = false))

theorem REq.refl (a : Resp) : REq a a := ⟨rfl, rfl, rfl, rfl, rfl, Or.inl rfl⟩

theorem srvUnlock_rel (ho : o.Lawful) {s s' : St M} (h : G o s s') (n k : Str) :
    G o (srvUnlock o s n k).1 (srvUnlock o s' n k).1 ∧ REq (srvUnlock o s n k).2 (srvUnlock o s' n k).2 := by
  unfold srvUnlock
  have h0 : G o { s with timers := del s.timers (tkey n k) } { s' with timers := del s'.timers (tkey n k) } := by
    obtain ⟨m', rfl, hl⟩ := h.cases
    exact ⟨rfl, rfl, rfl, rfl, rfl, rfl, rfl, hl⟩
  have hm := mgrUnlock_rel ho h0 n k
  simp only
  generalize mgrUnlock o { s with timers := del s.timers (tkey n k) } n k = m1 at hm ⊢
  generalize mgrUnlock o { s' with timers := del s'.timers (tkey n k) } n k = m2 at hm ⊢
  obtain ⟨s1, ok1, err1, ev1⟩ := m1
  obtain ⟨s2, ok2, err2, ev2⟩ := m2
  simp only at hm
  obtain ⟨hg, hok, hev, herr⟩ := hm
  subst hok hev
  refine ⟨?_, rfl, rfl, rfl, rfl, rfl, ?_⟩
  · cases ok1
    · simpa using hg
    · simpa using G_removeBook hg n k
  · rcases herr with e | ⟨e1, e2, e3, _⟩
    · exact Or.inl e
    · exact Or.inr ⟨e1, e2, e3⟩

/-- the creating lookup: same answer, unless the GC side has collected a record whose size differs -/
theorem getLockCreate_rel {s s' : St M} (h : G o s s') (n : Str) (sz : Int) :
    getLockCreate o s' n sz = getLockCreate o s n sz ∨
    (o.get s.locks n = none ∧ ∃ r', o.get s'.locks n = some r' ∧ r'.keys = [] ∧ r'.q = [] ∧ sz ≠ r'.size ∧ 0 < sz ∧
      getLockCreate o s' n sz = .error .sizeMismatch) := by
  unfold getLockCreate
  by_cases hsz : sz ≤ 0
  · simp [hsz]
  · simp only [hsz, if_false]
    rcases h.locks n with heq | ⟨hn, r', hr', hk, hq⟩
    · left; rw [← heq, h.now]
    · rw [hn, hr']
      by_cases hne : sz ≠ r'.size
      · right
        refine ⟨rfl, r', rfl, hk, hq, hne, by omega, ?_⟩
        simp [hne]
      · left
        have e : sz = r'.size := by simpa using hne
        simp only [hne, if_false, h.now]
        congr 1
        cases r'
        simp only at hk hq e
        subst hk hq e
        rfl

/-- what the theorem excludes: the request would re-create a collected lock with another size -/
def Recreates (o : MapOps M) (s s' : St M) (n : Str) (sz : Int) : Prop :=
  o.get s.locks n = none ∧ ∃ r', o.get s'.locks n = some r' ∧ r'.keys = [] ∧ r'.q = [] ∧ sz ≠ r'.size ∧ 0 < sz

theorem srvTryLock_rel (ho : o.Lawful) {s s' : St M} (h : G o s s') (sid : Option Sid) (n : Str) (sz lt : Option Int) :
    (G o (srvTryLock o c s sid n sz lt).1 (srvTryLock o c s' sid n sz lt).1 ∧
      (srvTryLock o c s sid n sz lt).2 = (srvTryLock o c s' sid n sz lt).2) ∨
    (Recreates o s s' n (sz.getD 1) ∧ (srvTryLock o c s' sid n sz lt).2.err = some .sizeMismatch ∧
      (srvTryLock o c s sid n sz lt).2.ok = true) := by
  obtain ⟨m', rfl, hl⟩ := h.cases
  unfold srvTryLock
  simp only
  cases sid with
  | none => left; exact ⟨⟨rfl, rfl, rfl, rfl, rfl, rfl, rfl, hl⟩, rfl⟩
  | some sid =>
    simp only
    split
    · left; exact ⟨⟨rfl, rfl, rfl, rfl, rfl, rfl, rfl, hl⟩, rfl⟩
    · split
      · left; exact ⟨⟨rfl, rfl, rfl, rfl, rfl, rfl, rfl, hl⟩, rfl⟩
      · have h1 : G o { s with nreq := s.nreq + 1 } { ({ s with locks := m' } : St M) with nreq := s.nreq + 1 } :=
          ⟨rfl, rfl, rfl, rfl, rfl, rfl, rfl, hl⟩
        rcases getLockCreate_rel h1 n (sz.getD 1) with e | ⟨hn, r', hr', hk, hq, hne, hpos, e⟩
        · left
          rw [e]
          cases hglc : getLockCreate o { s with nreq := s.nreq + 1 } n (sz.getD 1) with
          | error er => exact ⟨⟨rfl, rfl, rfl, rfl, rfl, rfl, rfl, hl⟩, rfl⟩
          | ok r =>
            simp only
            split
            · refine ⟨?_, rfl⟩
              apply G_book
              exact ⟨rfl, rfl, rfl, rfl, rfl, rfl, rfl, GL.set ho hl n _⟩
            · exact ⟨⟨rfl, rfl, rfl, rfl, rfl, rfl, rfl, GL.set ho hl n _⟩, rfl⟩
        · right
          refine ⟨⟨hn, r', hr', hk, hq, hne, hpos⟩, ?_, ?_⟩
          · rw [e]
          · have : getLockCreate o { s with nreq := s.nreq + 1 } n (sz.getD 1) =
                .ok { size := sz.getD 1, keys := [], q := [], lastAccessed := s.now } := by
              unfold getLockCreate
              have hn' : o.get s.locks n = none := hn
              simp [hn', show ¬ (sz.getD 1 ≤ 0) by omega]
            rw [this]
            simp only [List.length_nil, and_true]
            rw [if_pos (by exact_mod_cast hpos)]

theorem srvLock_rel (ho : o.Lawful) {s s' : St M} (h : G o s s') (sid : Option Sid) (n : Str) (sz lt wt : Option Int) :
    (G o (srvLock o c s sid n sz lt wt).1 (srvLock o c s' sid n sz lt wt).1 ∧
      (srvLock o c s sid n sz lt wt).2 = (srvLock o c s' sid n sz lt wt).2) ∨
    (Recreates o s s' n (sz.getD 1) ∧ (srvLock o c s' sid n sz lt wt).2.err = some .sizeMismatch ∧
      (srvLock o c s sid n sz lt wt).2.ok = true) := by
  obtain ⟨m', rfl, hl⟩ := h.cases
  unfold srvLock
  simp only
  cases sid with
  | none => left; exact ⟨⟨rfl, rfl, rfl, rfl, rfl, rfl, rfl, hl⟩, rfl⟩
  | some sid =>
    simp only
    split
    · left; exact ⟨⟨rfl, rfl, rfl, rfl, rfl, rfl, rfl, hl⟩, rfl⟩
    · split
      · left; exact ⟨⟨rfl, rfl, rfl, rfl, rfl, rfl, rfl, hl⟩, rfl⟩
      · split
        · left; exact ⟨⟨rfl, rfl, rfl, rfl, rfl, rfl, rfl, hl⟩, rfl⟩
        · have h1 : G o { s with nreq := s.nreq + 1 } { ({ s with locks := m' } : St M) with nreq := s.nreq + 1 } :=
            ⟨rfl, rfl, rfl, rfl, rfl, rfl, rfl, hl⟩
          rcases getLockCreate_rel h1 n (sz.getD 1) with e | ⟨hn, r', hr', hk, hq, hne, hpos, e⟩
          · left
            rw [e]
            cases hglc : getLockCreate o { s with nreq := s.nreq + 1 } n (sz.getD 1) with
            | error er => exact ⟨⟨rfl, rfl, rfl, rfl, rfl, rfl, rfl, hl⟩, rfl⟩
            | ok r =>
              simp only
              split
              · refine ⟨?_, rfl⟩
                apply G_book
                exact ⟨rfl, rfl, rfl, rfl, rfl, rfl, rfl, GL.set ho hl n _⟩
              · exact ⟨⟨rfl, rfl, rfl, rfl, rfl, rfl, rfl, GL.set ho hl n _⟩, rfl⟩
          · right
            refine ⟨⟨hn, r', hr', hk, hq, hne, hpos⟩, ?_, ?_⟩
            · rw [e]
            · have : getLockCreate o { s with nreq := s.nreq + 1 } n (sz.getD 1) =
                  .ok { size := sz.getD 1, keys := [], q := [], lastAccessed := s.now } := by
                unfold getLockCreate
                have hn' : o.get s.locks n = none := hn
                simp [hn', show ¬ (sz.getD 1 ≤ 0) by omega]
              rw [this]
              simp only [List.length_nil, and_true]
              rw [if_pos (by exact_mod_cast hpos)]

theorem srvRenew_rel {s s' : St M} (h : G o s s') (n k : Str) (t : Int) :
    G o (srvRenew s n k t).1 (srvRenew s' n k t).1 ∧ (srvRenew s n k t).2 = (srvRenew s' n k t).2 := by
  obtain ⟨m', rfl, hl⟩ := h.cases
  unfold srvRenew
  split
  · exact ⟨⟨rfl, rfl, rfl, rfl, rfl, rfl, rfl, hl⟩, rfl⟩
  · simp only
    split
    · exact ⟨⟨rfl, rfl, rfl, rfl, rfl, rfl, rfl, hl⟩, rfl⟩
    · exact ⟨⟨rfl, rfl, rfl, rfl, rfl, rfl, rfl, hl⟩, rfl⟩

theorem abandon_rel (ho : o.Lawful) {s s' : St M} (h : G o s s') (p : Pending) (e : Err) :
    Rel o (abandon o s p e) (abandon o s' p e) := by
  obtain ⟨m', rfl, hl⟩ := h.cases
  unfold abandon
  refine ⟨?_, rfl⟩
  simp only
  rcases hl p.name with heq | ⟨hn, r', hr', hk, hq⟩
  · rw [← heq]
    cases hg : o.get s.locks p.name with
    | none => exact ⟨rfl, rfl, rfl, rfl, rfl, rfl, rfl, hl⟩
    | some r => exact ⟨rfl, rfl, rfl, rfl, rfl, rfl, rfl, GL.set ho hl _ _⟩
  · rw [hn, hr']
    refine ⟨rfl, rfl, rfl, rfl, rfl, rfl, rfl, ?_⟩
    exact GL.set_right ho hl hn hk (by simp [hq])

theorem abandonAll_rel (ho : o.Lawful) (ps : List Pending) (e : Err) : ∀ {s s' : St M} (ev : List Event),
    G o s s' → Rel o
      (ps.foldl (fun (acc : St M × List Event) p =>
        let (s', ev) := abandon o acc.1 p e
        (s', acc.2 ++ ev)) (s, ev))
      (ps.foldl (fun (acc : St M × List Event) p =>
        let (s', ev) := abandon o acc.1 p e
        (s', acc.2 ++ ev)) (s', ev)) := by
  induction ps with
  | nil => intro s s' ev h; exact ⟨h, rfl⟩
  | cons p ps ih =>
    intro s s' ev h
    simp only [List.foldl_cons]
    have ha := abandon_rel ho h p e
    obtain ⟨hg, hev⟩ := ha
    rw [← hev]
    exact ih _ hg

theorem fireLease_rel (ho : o.Lawful) {s s' : St M} (h : G o s s') (tk : Str) (tm : Timer) :
    Rel o (fireLease o s tk tm) (fireLease o s' tk tm) := by
  unfold fireLease
  have hm := mgrUnlock_rel ho h tm.name tm.key
  simp only
  generalize mgrUnlock o s tm.name tm.key = m1 at hm ⊢
  generalize mgrUnlock o s' tm.name tm.key = m2 at hm ⊢
  obtain ⟨s1, ok1, err1, ev1⟩ := m1
  obtain ⟨s2, ok2, err2, ev2⟩ := m2
  simp only at hm
  obtain ⟨hg, _, hev, _⟩ := hm
  subst hev
  refine ⟨?_, rfl⟩
  have h2 := G_removeBook hg tm.name tm.key
  obtain ⟨m', e', hl⟩ := h2.cases
  simp only
  rw [e']
  exact ⟨rfl, rfl, rfl, rfl, rfl, rfl, rfl, hl⟩

theorem clearHolds_rel (ho : o.Lawful) (hs : List Hold) : ∀ {s s' : St M} (ev : List Event),
    G o s s' → Rel o
      (hs.foldl (fun (acc : St M × List Event) h =>
        let (s', ok, _, ev) := mgrUnlock o acc.1 h.name h.key
        let s' := if ok then { s' with timers := del s'.timers (tkey h.name h.key) } else s'
        (s', acc.2 ++ ev)) (s, ev))
      (hs.foldl (fun (acc : St M × List Event) h =>
        let (s', ok, _, ev) := mgrUnlock o acc.1 h.name h.key
        let s' := if ok then { s' with timers := del s'.timers (tkey h.name h.key) } else s'
        (s', acc.2 ++ ev)) (s', ev)) := by
  induction hs with
  | nil => intro s s' ev h; exact ⟨h, rfl⟩
  | cons x hs ih =>
    intro s s' ev h
    simp only [List.foldl_cons]
    have hm := mgrUnlock_rel ho h x.name x.key
    generalize mgrUnlock o s x.name x.key = m1 at hm ⊢
    generalize mgrUnlock o s' x.name x.key = m2 at hm ⊢
    obtain ⟨s1, ok1, err1, ev1⟩ := m1
    obtain ⟨s2, ok2, err2, ev2⟩ := m2
    simp only at hm
    obtain ⟨hg, hok, hev, _⟩ := hm
    subst hok hev
    simp only
    apply ih
    cases ok1
    · simpa using hg
    · simp only [if_true]
      obtain ⟨m', e', hl⟩ := hg.cases
      rw [e']
      exact ⟨rfl, rfl, rfl, rfl, rfl, rfl, rfl, hl⟩

theorem destroy_rel (ho : o.Lawful) {s s' : St M} (h : G o s s') (sid : Sid) :
    Rel o (destroy o c s sid) (destroy o c s' sid) := by
  obtain ⟨m', rfl, hl⟩ := h.cases
  unfold destroy
  simp only
  cases hg : get s.sessions sid with
  | none => exact ⟨⟨rfl, rfl, rfl, rfl, rfl, rfl, rfl, hl⟩, rfl⟩
  | some hs =>
    simp only
    split
    · exact ⟨⟨rfl, rfl, rfl, rfl, rfl, rfl, rfl, hl⟩, rfl⟩
    · exact clearHolds_rel ho hs [] ⟨rfl, rfl, rfl, rfl, rfl, rfl, rfl, hl⟩

/-- a collection pass on the GC side only: what it removes has no key, hence (Part A, positive sizes) no waiter -/
theorem gcPass_G (ho : o.Lawful) {s s' : St M} (h : G o s s') (hr : RecInv o s) (mi : Nat) :
    G o (gcPass o s mi) s' := by
  obtain ⟨m', rfl, hl⟩ := h.cases
  refine ⟨rfl, rfl, rfl, rfl, rfl, rfl, rfl, ?_⟩
  intro n
  simp only [gcPass, ho.get_filter]
  rcases hl n with heq | ⟨hn, r', hr', hk, hq⟩
  · cases hg : o.get s.locks n with
    | none => left; rw [← heq, hg]; rfl
    | some r =>
      simp only [Option.filter]
      split
      · left; rw [← heq, hg]
      · rename_i hc
        right
        have hc' : r.keys = [] := by
          have : r.keys = [] ∧ mi + r.lastAccessed < s.now := by simpa using hc
          exact this.1
        refine ⟨rfl, r, ?_, hc', hr.no_waiter hg hc'⟩
        rw [← heq, hg]
  · right
    rw [hn]
    exact ⟨rfl, r', hr', hk, hq⟩

/-! ### `noGc o` runs the same blocks (only `gcPass` looks at `filter`) -/

theorem noGc_fireLease (s : St M) (tk : Str) (tm : Timer) : fireLease (noGc o) s tk tm = fireLease o s tk tm := rfl
theorem noGc_abandon (s : St M) (p : Pending) (e : Err) : abandon (noGc o) s p e = abandon o s p e := rfl
theorem noGc_gcPass (s : St M) (mi : Nat) : gcPass (noGc o) s mi = s := rfl
theorem noGc_srvTryLock (s : St M) (sid : Option Sid) (n : Str) (sz lt : Option Int) :
    srvTryLock (noGc o) c s sid n sz lt = srvTryLock o c s sid n sz lt := rfl
theorem noGc_srvLock (s : St M) (sid : Option Sid) (n : Str) (sz lt wt : Option Int) :
    srvLock (noGc o) c s sid n sz lt wt = srvLock o c s sid n sz lt wt := rfl
theorem noGc_srvUnlock (s : St M) (n k : Str) : srvUnlock (noGc o) s n k = srvUnlock o s n k := rfl
theorem noGc_destroy (s : St M) (sid : Sid) : destroy (noGc o) c s sid = destroy o c s sid := rfl
theorem noGc_abandonAll (s : St M) (ps : List Pending) (e : Err) : abandonAll (noGc o) s ps e = abandonAll o s ps e := rfl
theorem noGc_restoreAll (s : St M) (m : List (Sid × List Hold)) : restoreAll (noGc o) c s m = restoreAll o c s m := rfl

theorem evAt_rel (ho : o.Lawful) {s s' : St M} (h : G o s s') (hr : RecInv o s) (t : Nat) (tl tw : Option Nat) :
    Rel o (evAt o c s t tl tw) (evAt (noGc o) c s' t tl tw) := by
  unfold evAt
  have e1 : earliestLease s' = earliestLease s := by unfold earliestLease; rw [h.timers]
  have e2 : earliestWait s' = earliestWait s := by unfold earliestWait; rw [h.pending]
  rw [e1, e2]
  split
  · split
    · rw [noGc_fireLease]; exact fireLease_rel ho h _ _
    · exact ⟨h, rfl⟩
  · split
    · split
      · rw [noGc_abandon]; exact abandon_rel ho h _ _
      · exact ⟨h, rfl⟩
    · refine ⟨?_, rfl⟩
      rw [noGc_gcPass]
      have hg := gcPass_G ho h hr c.gcMinIdle
      obtain ⟨m', e', hl⟩ := hg.cases
      simp only
      rw [e']
      exact ⟨rfl, rfl, rfl, rfl, rfl, rfl, rfl, hl⟩

theorem evAt_recInv (ho : o.Lawful) {s : St M} (hr : RecInv o s) (t : Nat) (tl tw : Option Nat) :
    RecInv o (evAt o c s t tl tw).1 := by
  have b := recInv_blocks (c := c) ho
  unfold evAt
  split
  · split
    · rename_i tk tm he
      exact b.fire s tk tm (earliestLease_mem he) hr
    · exact hr
  · split
    · split
      · exact b.abandon s _ _ hr
      · exact hr
    · exact b.gc s c.gcMinIdle _ hr

/-- the whole time loop, in lock step: same events, same tie flag, same fuel verdict -/
theorem advanceTo_rel (ho : o.Lawful) (target : Nat) : ∀ (fuel : Nat) {s s' : St M}, G o s s' → RecInv o s →
    Rel o (advanceTo o c target fuel s) (advanceTo (noGc o) c target fuel s') := by
  intro fuel
  induction fuel with
  | zero =>
    intro s s' h _
    obtain ⟨m', rfl, hl⟩ := h.cases
    exact ⟨⟨rfl, rfl, rfl, rfl, rfl, rfl, rfl, hl⟩, rfl⟩
  | succ f ih =>
    intro s s' h hr
    obtain ⟨m', rfl, hl⟩ := h.cases
    rw [advanceTo_evAt, advanceTo_evAt]
    have e1 : earliestLease ({ s with locks := m' } : St M) = earliestLease s := rfl
    have e2 : earliestWait ({ s with locks := m' } : St M) = earliestWait s := rfl
    rw [e1, e2]
    have e3 : ({ s with locks := m' } : St M).gcNext = s.gcNext := rfl
    rw [e3]
    split
    · exact ⟨⟨rfl, rfl, rfl, rfl, rfl, rfl, rfl, hl⟩, rfl⟩
    · rename_i t _
      split
      · exact ⟨⟨rfl, rfl, rfl, rfl, rfl, rfl, rfl, hl⟩, rfl⟩
      · have h0 : G o { s with now := max s.now t } { ({ s with locks := m' } : St M) with now := max ({ s with locks := m' } : St M).now t } :=
          ⟨rfl, rfl, rfl, rfl, rfl, rfl, rfl, hl⟩
        have hr0 : RecInv o { s with now := max s.now t } := ⟨LockInv.same hr.1 rfl, SizeInv.same hr.2 rfl⟩
        have he := evAt_rel (c := c) ho h0 hr0 t ((earliestLease s).map (·.2.deadline)) ((earliestWait s).map (·.2))
        have hri := evAt_recInv (c := c) ho hr0 t ((earliestLease s).map (·.2.deadline)) ((earliestWait s).map (·.2))
        have hrec := ih he.1 hri
        unfold Rel at hrec he ⊢
        simp only
        refine ⟨hrec.1, ?_⟩
        rw [he.2, hrec.2]

theorem abandonAll_rel' (ho : o.Lawful) {s s' : St M} (h : G o s s') (ps : List Pending) (e : Err) :
    Rel o (abandonAll o s ps e) (abandonAll o s' ps e) := by
  unfold abandonAll
  exact abandonAll_rel ho ps e [] h

/-- a restart rebuilds the table from the file: both sides end in the same state -/
theorem restart_rel (ho : o.Lawful) {s s' : St M} (h : G o s s') :
    Rel o (restart o c s) (restart (noGc o) c s') := by
  have e0 : restart (noGc o) c s' = restart o c s' := rfl
  rw [e0]
  unfold restart
  have hp : s'.pending = s.pending := h.pending
  rw [hp]
  have ha := abandonAll_rel' ho h s.pending .canceled
  generalize abandonAll o s s.pending .canceled = a1 at ha ⊢
  generalize abandonAll o s' s.pending .canceled = a2 at ha ⊢
  obtain ⟨t1, ev1⟩ := a1
  obtain ⟨t2, ev2⟩ := a2
  obtain ⟨hg, hev⟩ := ha
  simp only at hg hev
  subst hev
  simp only
  rw [hg.now, hg.file, hg.nreq]
  exact ⟨G.refl _, rfl⟩

/-- what the simulation excludes, per operation -/
def RecreatesOp (o : MapOps M) (s s' : St M) : Op → Prop
  | .tryLock _ n sz _ => Recreates o s s' n (sz.getD 1)
  | .lock _ n sz _ _ => Recreates o s s' n (sz.getD 1)
  | _ => False

/-- One operation, in lock step.  `op` is not an explicit GC pass (those exist on the GC side only:
`gcPass_G`).  Either the two servers answer alike (up to K11's error code) and stay related, or the
request re-creates a collected lock with another size: then the server without GC answers size mismatch
and the server with GC grants. -/
theorem step_rel (ho : o.Lawful) {s s' : St M} (h : G o s s') (hr : RecInv o s) (op : Op)
    (hop : ∀ mi, op ≠ .gc mi) :
    (G o (step o c s op).1 (step (noGc o) c s' op).1 ∧ REq (step o c s op).2 (step (noGc o) c s' op).2) ∨
    (RecreatesOp o s s' op ∧ (step (noGc o) c s' op).2.err = some .sizeMismatch ∧ (step o c s op).2.ok = true) := by
  cases op with
  | connect sid =>
    left
    obtain ⟨m', rfl, hl⟩ := h.cases
    simp only [step]
    refine ⟨?_, REq.refl _⟩
    split
    · exact ⟨rfl, rfl, rfl, rfl, rfl, rfl, rfl, hl⟩
    · exact ⟨rfl, rfl, rfl, rfl, rfl, rfl, rfl, hl⟩
  | disconnect sid =>
    left
    simp only [step]
    have hp : s'.pending = s.pending := h.pending
    rw [hp]
    have ha := abandonAll_rel' ho h (s.pending.filter (fun p => p.sid = sid)) .canceled
    rw [noGc_abandonAll]
    generalize abandonAll o s (s.pending.filter (fun p => p.sid = sid)) .canceled = a1 at ha ⊢
    generalize abandonAll o s' (s.pending.filter (fun p => p.sid = sid)) .canceled = a2 at ha ⊢
    obtain ⟨t1, ev1⟩ := a1
    obtain ⟨t2, ev2⟩ := a2
    obtain ⟨hg, hev⟩ := ha
    simp only at hg hev
    subst hev
    simp only
    rw [noGc_destroy]
    have hd := destroy_rel (c := c) ho hg sid
    generalize destroy o c t1 sid = d1 at hd ⊢
    generalize destroy o c t2 sid = d2 at hd ⊢
    obtain ⟨u1, ew1⟩ := d1
    obtain ⟨u2, ew2⟩ := d2
    obtain ⟨hg2, hev2⟩ := hd
    simp only at hg2 hev2
    subst hev2
    exact ⟨hg2, REq.refl _⟩
  | tryLock sid n sz lt =>
    simp only [step, noGc_srvTryLock]
    rcases srvTryLock_rel (c := c) ho h sid n sz lt with ⟨hg, he⟩ | hx
    · left; rw [← he]; exact ⟨hg, REq.refl _⟩
    · right; exact hx
  | lock sid n sz lt wt =>
    simp only [step, noGc_srvLock]
    rcases srvLock_rel (c := c) ho h sid n sz lt wt with ⟨hg, he⟩ | hx
    · left; rw [← he]; exact ⟨hg, REq.refl _⟩
    · right; exact hx
  | unlock sid n k =>
    left
    simp only [step, noGc_srvUnlock]
    exact srvUnlock_rel ho h n k
  | renew n k t =>
    left
    simp only [step]
    have := srvRenew_rel h n k t
    rw [← this.2]
    exact ⟨this.1, REq.refl _⟩
  | advance dt =>
    left
    simp only [step]
    have e1 : s'.now = s.now := h.now
    have e2 : s'.timers = s.timers := h.timers
    have e3 : s'.pending = s.pending := h.pending
    rw [e1, e2, e3]
    have ha := advanceTo_rel (c := c) ho (s.now + dt) (4 * (s.timers.length + s.pending.length) + 100000) h hr
    generalize advanceTo o c (s.now + dt) (4 * (s.timers.length + s.pending.length) + 100000) s = a1 at ha ⊢
    generalize advanceTo (noGc o) c (s.now + dt) (4 * (s.timers.length + s.pending.length) + 100000) s' = a2 at ha ⊢
    obtain ⟨t1, ev1, tie1, out1⟩ := a1
    obtain ⟨t2, ev2, tie2, out2⟩ := a2
    obtain ⟨hg, he⟩ := ha
    simp only at hg he
    cases he
    exact ⟨hg, REq.refl _⟩
  | gc mi => exact absurd rfl (hop mi)
  | restart =>
    left
    simp only [step]
    have ha := restart_rel (c := c) ho h
    generalize restart o c s = a1 at ha ⊢
    generalize restart (noGc o) c s' = a2 at ha ⊢
    obtain ⟨t1, ev1⟩ := a1
    obtain ⟨t2, ev2⟩ := a2
    obtain ⟨hg, he⟩ := ha
    simp only at hg he
    subst he
    exact ⟨hg, REq.refl _⟩
  | ipcUnlock n k ch =>
    left
    simp only [step, noGc_srvUnlock]
    have e : ipcPick s' n ch = ipcPick s n ch := by unfold ipcPick; rw [h.sessions]
    rw [e]
    split
    · exact ⟨h, REq.refl _⟩
    · exact srvUnlock_rel ho h n _
  | cancel req =>
    left
    simp only [step]
    have e : s'.pending = s.pending := h.pending
    rw [e]
    split
    · exact ⟨h, REq.refl _⟩
    · rw [noGc_abandon]
      have ha := abandon_rel ho h (by assumption) Err.canceled
      rename_i p _
      generalize abandon o s p .canceled = a1 at ha ⊢
      generalize abandon o s' p .canceled = a2 at ha ⊢
      obtain ⟨t1, ev1⟩ := a1
      obtain ⟨t2, ev2⟩ := a2
      obtain ⟨hg, he⟩ := ha
      simp only at hg he
      subst he
      exact ⟨hg, REq.refl _⟩

/-! ### whole histories -/

def isGcOp : Op → Bool
  | .gc _ => true
  | _ => false

/-- the answers of a history, explicit GC passes (which answer nothing) left out -/
def respsSkip (o : MapOps M) (c : Cfg) : St M → List Op → List Resp
  | _, [] => []
  | s, op :: ops =>
    if isGcOp op then respsSkip o c (step o c s op).1 ops
    else (step o c s op).2 :: respsSkip o c (step o c s op).1 ops

/-- two answer lists of the same length, pairwise `REq` -/
inductive RespsEq : List Resp → List Resp → Prop
  | nil : RespsEq [] []
  | cons {a b : Resp} {as bs : List Resp} (h : REq a b) (t : RespsEq as bs) : RespsEq (a :: as) (b :: bs)

theorem step_recInv (ho : o.Lawful) {s : St M} (h : RecInv o s) (op : Op) : RecInv o (step o c s op).1 :=
  (recInv_blocks (c := c) ho).step (fun s h => recInv_restart ho s h) h op

/-- **GC is invisible along every history** in which the server without GC never answers
"size mismatch": the server with GC (ticks of any interval, explicit passes with any minimum idle time,
anywhere in the history) gives the same answers, events and tie flags, request by request — up to the
error code of a failing Unlock on a collected lock (K11). -/
theorem gc_sim_run (ho : o.Lawful) (ops : List Op) : ∀ {s s' : St M}, G o s s' → RecInv o s →
    (∀ r ∈ resps (noGc o) c s' (ops.filter (fun op => !isGcOp op)), r.err ≠ some .sizeMismatch) →
    RespsEq (respsSkip o c s ops) (resps (noGc o) c s' (ops.filter (fun op => !isGcOp op))) := by
  induction ops with
  | nil => intro s s' _ _ _; exact RespsEq.nil
  | cons op ops ih =>
    intro s s' h hr hno
    by_cases hgc : isGcOp op = true
    · -- an explicit pass: only the GC side moves
      cases op with
      | gc mi =>
        simp only [respsSkip, isGcOp, if_true, List.filter, Bool.not_true]
        have hg : G o (step o c s (.gc mi)).1 s' := by
          simp only [step]; exact gcPass_G ho h hr mi
        apply ih hg (step_recInv ho hr _)
        intro r hrm
        apply hno r
        simpa [List.filter, isGcOp] using hrm
      | _ => simp [isGcOp] at hgc
    · have hgc' : isGcOp op = false := by simpa using hgc
      have hop : ∀ mi, op ≠ .gc mi := by
        intro mi e; subst e; simp [isGcOp] at hgc'
      have hf : (op :: ops).filter (fun op => !isGcOp op) = op :: ops.filter (fun op => !isGcOp op) := by
        simp [List.filter, hgc']
      rw [hf] at hno ⊢
      simp only [respsSkip, hgc', Bool.false_eq_true, if_false, resps]
      rcases step_rel (c := c) ho h hr op hop with ⟨hg, hre⟩ | ⟨_, herr, _⟩
      · refine RespsEq.cons hre ?_
        apply ih hg (step_recInv ho hr _)
        intro r hrm
        apply hno r
        simp only [resps, List.mem_cons]
        exact Or.inr hrm
      · exfalso
        apply hno (step (noGc o) c s' op).2
        · simp only [resps, List.mem_cons, true_or]
        · exact herr

/-- from the initial state -/
theorem gc_invisible (ho : o.Lawful) (ops : List Op)
    (hno : ∀ r ∈ resps (noGc o) c (init (noGc o) c) (ops.filter (fun op => !isGcOp op)), r.err ≠ some .sizeMismatch) :
    RespsEq (respsSkip o c (init o c) ops)
      (resps (noGc o) c (init (noGc o) c) (ops.filter (fun op => !isGcOp op))) := by
  have e : (init (noGc o) c : St M) = init o c := rfl
  rw [e] at hno ⊢
  exact gc_sim_run ho ops (G.refl _) (recInv_init ho) hno

end Ldlm.Core
