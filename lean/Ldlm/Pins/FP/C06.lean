import Ldlm.Generated.Facts
/-!
Source fingerprints for C06: the functions of /repo its models were written against (verifcfg.FPMAP).
`Facts.fp_*` is regenerated from the working tree by every check (first 16 hex digits of SHA-256 of the
normalised signature and body); the right-hand sides were copied from a reviewed tree by tools/mkfp.py and
are NOT regenerated. A pin that no longer checks = this function changed since the models were written.
-/
namespace Ldlm.Pins.FP.C06
open Ldlm

/-- server/server.go: LockServer.CreateSession -/
theorem fp_server_server_LockServer_CreateSession : Facts.fp_server_server_LockServer_CreateSession = "a5cc599441e28bb4" := rfl
/-- server/server.go: LockServer.DestroySession -/
theorem fp_server_server_LockServer_DestroySession : Facts.fp_server_server_LockServer_DestroySession = "8239f3a4034818b5" := rfl
/-- server/server.go: LockServer.SessionId -/
theorem fp_server_server_LockServer_SessionId : Facts.fp_server_server_LockServer_SessionId = "e573c920d6f35761" := rfl
/-- server/server.go: LockServer.SetShuttingDown -/
theorem fp_server_server_LockServer_SetShuttingDown : Facts.fp_server_server_LockServer_SetShuttingDown = "54b9721d804e9da3" := rfl
/-- server/server.go: LockServer.Lock -/
theorem fp_server_server_LockServer_Lock : Facts.fp_server_server_LockServer_Lock = "5d4c78175f668159" := rfl
/-- server/server.go: LockServer.TryLock -/
theorem fp_server_server_LockServer_TryLock : Facts.fp_server_server_LockServer_TryLock = "0ae939aca2e2a058" := rfl
/-- server/server.go: LockServer.Unlock -/
theorem fp_server_server_LockServer_Unlock : Facts.fp_server_server_LockServer_Unlock = "b03d29042086a906" := rfl
/-- server/server.go: LockServer.onTimeoutFunc -/
theorem fp_server_server_LockServer_onTimeoutFunc : Facts.fp_server_server_LockServer_onTimeoutFunc = "ee575fb2d063557f" := rfl
/-- server/session/session.go: NewManager -/
theorem fp_server_session_session_NewManager : Facts.fp_server_session_session_NewManager = "5ca359a0b1c682f8" := rfl
/-- server/session/session.go: sessionManager.Locks -/
theorem fp_server_session_session_sessionManager_Locks : Facts.fp_server_session_session_sessionManager_Locks = "67493f071b8eb610" := rfl
/-- server/session/session.go: sessionManager.SetStore -/
theorem fp_server_session_session_sessionManager_SetStore : Facts.fp_server_session_session_sessionManager_SetStore = "97625d34a6f05b7f" := rfl
/-- server/session/session.go: sessionManager.Load -/
theorem fp_server_session_session_sessionManager_Load : Facts.fp_server_session_session_sessionManager_Load = "bbd42fe66f815d45" := rfl
/-- server/session/session.go: sessionManager.Save -/
theorem fp_server_session_session_sessionManager_Save : Facts.fp_server_session_session_sessionManager_Save = "9404ce9805d10d3e" := rfl
/-- server/session/session.go: sessionManager.RemoveLock -/
theorem fp_server_session_session_sessionManager_RemoveLock : Facts.fp_server_session_session_sessionManager_RemoveLock = "412eef7bf932a6d8" := rfl
/-- server/session/session.go: sessionManager.AddLock -/
theorem fp_server_session_session_sessionManager_AddLock : Facts.fp_server_session_session_sessionManager_AddLock = "436f7ec5c8000602" := rfl
/-- server/session/session.go: sessionManager.CreateSession -/
theorem fp_server_session_session_sessionManager_CreateSession : Facts.fp_server_session_session_sessionManager_CreateSession = "c21a993e958869ee" := rfl
/-- server/session/session.go: sessionManager.DestroySession -/
theorem fp_server_session_session_sessionManager_DestroySession : Facts.fp_server_session_session_sessionManager_DestroySession = "bb064f981806fa92" := rfl
/-- net/grpc/grpc.go: Service.HandleConn -/
theorem fp_net_grpc_grpc_Service_HandleConn : Facts.fp_net_grpc_grpc_Service_HandleConn = "0c63abb89aee0537" := rfl
/-- net/grpc/grpc.go: Service.TagConn -/
theorem fp_net_grpc_grpc_Service_TagConn : Facts.fp_net_grpc_grpc_Service_TagConn = "8947419221fab913" := rfl
/-- net/grpc/grpc.go: Service.TagRPC -/
theorem fp_net_grpc_grpc_Service_TagRPC : Facts.fp_net_grpc_grpc_Service_TagRPC = "cfb1a4a6cd69527c" := rfl
/-- net/grpc/grpc.go: Service.HandleRPC -/
theorem fp_net_grpc_grpc_Service_HandleRPC : Facts.fp_net_grpc_grpc_Service_HandleRPC = "9fe8322a320257b0" := rfl
/-- net/grpc/grpc.go: NewService -/
theorem fp_net_grpc_grpc_NewService : Facts.fp_net_grpc_grpc_NewService = "762bb49eac2c081a" := rfl
/-- net/rest/rest.go: restHandler.ValidateSession -/
theorem fp_net_rest_rest_restHandler_ValidateSession : Facts.fp_net_rest_rest_restHandler_ValidateSession = "fa29095bb900f082" := rfl
/-- net/rest/rest.go: restHandler.DestroySession -/
theorem fp_net_rest_rest_restHandler_DestroySession : Facts.fp_net_rest_rest_restHandler_DestroySession = "3317c9596c7327eb" := rfl
/-- net/rest/rest.go: restHandler.onTimeoutFunc -/
theorem fp_net_rest_rest_restHandler_onTimeoutFunc : Facts.fp_net_rest_rest_restHandler_onTimeoutFunc = "b520532daf0b7ddc" := rfl
/-- lock/lock.go: NewLock -/
theorem fp_lock_lock_NewLock : Facts.fp_lock_lock_NewLock = "d4400d5fa3fae080" := rfl
/-- lock/lock.go: Lock.Lock -/
theorem fp_lock_lock_Lock_Lock : Facts.fp_lock_lock_Lock_Lock = "24c6305c7d07f030" := rfl
/-- lock/lock.go: Lock.TryLock -/
theorem fp_lock_lock_Lock_TryLock : Facts.fp_lock_lock_Lock_TryLock = "e86ae14f06c9bef9" := rfl
/-- lock/lock.go: Lock.Unlock -/
theorem fp_lock_lock_Lock_Unlock : Facts.fp_lock_lock_Lock_Unlock = "fa37302972cb0b09" := rfl
/-- lock/lock.go: Lock.addKey -/
theorem fp_lock_lock_Lock_addKey : Facts.fp_lock_lock_Lock_addKey = "98ebde1fa6b9a35a" := rfl
/-- lock/lock.go: Lock.Keys -/
theorem fp_lock_lock_Lock_Keys : Facts.fp_lock_lock_Lock_Keys = "7071540bc534505b" := rfl

end Ldlm.Pins.FP.C06
