import Ldlm.Generated.Facts
/-!
Pins: the normalised source text of the small decision functions the hand-written models M4/M6/M7
were written against.  `Generated/Facts.lean` is regenerated from /repo on every run; each `pin_*`
theorem below breaks when the function's text changes (comment-only and whitespace-only edits do
not change the normalised text).  A broken pin is a broken proof obligation: the models may no
longer describe the code, and the check then searches the implementation for a failing input.
This file is written by hand (copied from the facts at the time the models were written) and is
NOT regenerated.

This file: the functions the models of C19 are written against. A change to one of them breaks
exactly the checks of the properties that pin it.
-/
namespace Ldlm.Pins.C19
open Ldlm

def expectedRenewerStart : String := "{ var interval int32 if r.lockTimeoutSeconds <= 30 { interval = MinRenewSeconds } else { interval = max(r.lockTimeoutSeconds-30, MinRenewSeconds) } go func() { defer close(r.done) for { t := time.NewTimer(time.Duration(interval) * time.Second) select { case <-r.client.ctx.Done(): t.Stop() return case <-r.stop: t.Stop() return case <-t.C: select { case <-r.stop: return default: } if _, err := r.client.Renew(r.name, r.key, r.lockTimeoutSeconds); err != nil { panic(\"error renewing lock \" + r.name + \" \" + err.Error()) } } } }() }"

theorem pin_RenewerStart : Facts.bodyRenewerStart = expectedRenewerStart := rfl

def expectedRenewerStop : String := "{ r.stopOnce.Do(func() { close(r.stop) }) <-r.done }"

theorem pin_RenewerStop : Facts.bodyRenewerStop = expectedRenewerStop := rfl

def expectedClientUnlock : String := "{ c.maybeRemoveRenewer(name) r, err := rpcWithRetry( c.maxRetries, func() (*pb.UnlockResponse, error) { return c.pbc.Unlock(c.ctx, &pb.UnlockRequest{ Name: name, Key: key, }) }, ) if err != nil { return false, err } return r.Unlocked, rpcErrorToError(r.Error) }"

theorem pin_ClientUnlock : Facts.bodyClientUnlock = expectedClientUnlock := rfl

def expectedClientClose : String := "{ c.renewMap.Range(func(k, v interface{}) bool { renewer := v.(*renewer) renewer.Stop() return true }) return c.conn.Close() }"

theorem pin_ClientClose : Facts.bodyClientClose = expectedClientClose := rfl

def expectedClientRenew : String := "{ r, err := rpcWithRetry( c.maxRetries, func() (*pb.LockResponse, error) { return c.pbc.Renew(c.ctx, &pb.RenewRequest{ Name: name, Key: key, LockTimeoutSeconds: lockTimeoutSeconds, }) }, ) if err != nil { return nil, err } return &Lock{Name: name, Key: r.Key, Locked: r.Locked, client: c}, rpcErrorToError(r.Error) }"

theorem pin_ClientRenew : Facts.bodyClientRenew = expectedClientRenew := rfl

def expectedMaybeCreateRenewer : String := "{ if !r.Locked || c.noAutoRenew || lockTimeoutSeconds == 0 { return } rFresher := newRenewer(c, r.Name, r.Key, lockTimeoutSeconds) if _, loaded := c.renewMap.LoadOrStore(r.Name, rFresher); loaded { panic(\"client out of sync - lock already exists in renew map\") } }"

theorem pin_MaybeCreateRenewer : Facts.bodyMaybeCreateRenewer = expectedMaybeCreateRenewer := rfl

def expectedMaybeRemoveRenewer : String := "{ if c.noAutoRenew { return } r, ok := c.renewMap.LoadAndDelete(name) if ok { r.(*renewer).Stop() } }"

theorem pin_MaybeRemoveRenewer : Facts.bodyMaybeRemoveRenewer = expectedMaybeRemoveRenewer := rfl

def expectedRpcWithRetry : String := "{ var retries int = 0 for { r, err := f() if err != nil { if st, ok := status.FromError(err); ok && st.Code() == codes.Unavailable { if retries >= maxRetries { return r, err } retries++ time.Sleep(time.Duration(RetryDelaySeconds) * time.Second) continue } else { return r, err } } else { return r, nil } } }"

theorem pin_RpcWithRetry : Facts.bodyRpcWithRetry = expectedRpcWithRetry := rfl

end Ldlm.Pins.C19
