// Added to package timermap through `go test -overlay` by /verif (guard "verif"); never part of /repo.
package timermap

func (m *TimerMap) VerifKeys() []string {
	m.timersMtx.RLock()
	defer m.timersMtx.RUnlock()
	out := make([]string, 0, len(m.timers))
	for k := range m.timers {
		out = append(out, k)
	}
	return out
}
