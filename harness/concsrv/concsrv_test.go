// Package concsrv: small concurrent programs on the instrumented real LockServer under controlled
// interleaving (concdiff, DESIGN §5.3). Every schedule = fresh bubble + fresh server. The monitors
// here are direct predicates on what the implementation did; they do not consult a model.
package concsrv

import (
	"os/exec"
	"context"
	"fmt"
	"os"
	"path/filepath"
	"sort"
	"strings"
	"sync"
	"testing"
	"testing/synctest"
	"time"

	"verif/harness/common"
	"verif/harness/conc"
	"verif/harness/impl"

	"github.com/imoore76/ldlm/server"
	cl "github.com/imoore76/ldlm/server/clientlock"
	"github.com/imoore76/ldlm/server/session/store"
	"github.com/imoore76/ldlm/verifrt"
)

func p32(v int32) *int32 { return &v }

// ---------------------------------------------------------------- world

type call struct {
	Thread string
	Kind   string
	Name   string
	Key    string // key used (unlock/renew) or granted (lock/trylock)
	Ok     bool
	Err    string
	Start  int64 // virtual ns
	End    int64
	Done   bool
	Seq0   int // logical clock at invocation / return (for linearizability)
	Seq1   int
}

type world struct {
	ls2     *server.LockServer // the server started by restart()
	closer2 func()
	t       *testing.T
	cfg     impl.Cfg
	dir     string
	ls      *server.LockServer
	closer  func()
	start   time.Time
	sess    map[string]context.Context
	cancel  map[string]context.CancelFunc
	keys    map[string]string // label → real key
	mu      sync.Mutex
	calls   []*call
	clock   int
	images  map[string]string // crash images: file bytes → first yield label
	acks    []ackSnap
	snapOn  bool
	viol    []vio
	statePath string
	mgr     []string // manager-call trace of the hold under observation (traceHold), one line per event
	smgr    map[string][]string // per observed lock name (traceNames): header, then one line per event
	thist   []string            // per observed lock name: the Lock/TryLock/Unlock calls as a history for the threaded model M1t
	cev     []string            // crash templates: manager calls, file-image changes and answers as a history for M7 (driver lincrash)
	cpair   map[string]int      // "name/key" -> pair number of that history
	cempty  bool                // the file image was empty at the last snapshot
	reqCancel map[string]context.CancelFunc // per-request contexts (newReq / lockReq) by label
	reqCtx    map[string]context.Context
}

// traceNames does the same for every hold of the given lock names (one hold per name in the C06
// templates) plus the session manager's DestroySession, for the model M3b (driver linsess).
// hdr[name] is the history header: "lease=<0|1> granted=<0|1>".
func (w *world) traceNames(hdr map[string]string) {
	w.smgr = map[string][]string{}
	for n, h := range hdr {
		w.smgr[n] = []string{"hist " + h}
	}
	mine := map[int][]string{}
	w.ls.VerifTrace(func(e server.VerifMgrEvent) {
		w.mu.Lock()
		defer w.mu.Unlock()
		if e.Phase == "inv" {
			var to []string
			for n := range hdr {
				if e.Method == "sess.DestroySession" || e.Name == n && e.Method != "timer.Add" && !strings.HasPrefix(e.Method, "timer.") ||
					strings.HasPrefix(e.Method, "timer.") && strings.HasPrefix(e.Key, server.VerifTimerKey(n, "")) {
					to = append(to, n)
				}
			}
			if len(to) == 0 {
				return
			}
			mine[e.Id] = to
			th := verifrt.Name()
			if th == "" {
				th = "anon"
			}
			for _, n := range to {
				w.smgr[n] = append(w.smgr[n], fmt.Sprintf("inv %d %s %s", e.Id, th, e.Method))
			}
			return
		}
		ok, er := 0, 0
		if e.Ok {
			ok = 1
		}
		if e.Err != "" {
			er = 1
		}
		for _, n := range mine[e.Id] {
			w.smgr[n] = append(w.smgr[n], fmt.Sprintf("ret %d %d %d", e.Id, ok, er))
		}
	})
}

// traceHold starts reporting every call the lock server makes into its managers that concerns the
// hold (name, key label) — the steps of the interleaving models — as lines
// "inv <id> <thread> <method>" / "ret <id> <ok> <err?>".
func (w *world) traceHold(name, label string) {
	key := w.keys[label]
	tk := server.VerifTimerKey(name, key)
	mine := map[int]bool{}
	w.ls.VerifTrace(func(e server.VerifMgrEvent) {
		w.mu.Lock()
		defer w.mu.Unlock()
		if e.Phase == "inv" {
			if !(e.Key == key && e.Name == name || e.Key == tk) {
				return
			}
			mine[e.Id] = true
			th := verifrt.Name()
			if th == "" {
				th = "anon"
			}
			w.mgr = append(w.mgr, fmt.Sprintf("inv %d %s %s", e.Id, th, e.Method))
			return
		}
		if !mine[e.Id] {
			return
		}
		ok, er := 0, 0
		if e.Ok {
			ok = 1
		}
		if e.Err != "" {
			er = 1
		}
		w.mgr = append(w.mgr, fmt.Sprintf("ret %d %d %d", e.Id, ok, er))
	})
}

type vio struct{ sig, what string }

type ackSnap struct {
	label    string
	rewriting string // label of a thread parked inside store.Write at that instant ("" = none)
	bytes    string
	live     []string // name/key acknowledged granted and not acknowledged released at that instant
	released []string
}

func newWorld(t *testing.T, cfg impl.Cfg, sessions ...string) *world {
	w := &world{t: t, cfg: cfg, start: time.Now(), sess: map[string]context.Context{}, cancel: map[string]context.CancelFunc{},
		keys: map[string]string{}, images: map[string]string{}}
	if cfg.File {
		w.dir = common.TempDir()
		w.statePath = filepath.Join(w.dir, "state")
	}
	sc := w.serverConfig()
	ls, closer, err := server.New(sc)
	if err != nil {
		panic(err)
	}
	w.ls, w.closer = ls, closer
	for _, s := range sessions {
		ctx, cancel := context.WithCancel(context.Background())
		_, sctx := ls.CreateSession(ctx, nil)
		w.sess[s], w.cancel[s] = sctx, cancel
	}
	return w
}

func (w *world) serverConfig() *server.LockServerConfig {
	cfg := w.cfg
	sc := &server.LockServerConfig{Shards: cfg.Shards, LockGcInterval: cfg.GcInt, LockGcMinIdle: cfg.GcIdle,
		DefaultLockTimeout: cfg.Dlt, NoClearOnDisconnect: cfg.NoClear}
	sc.IPCSocketFile = ""
	if cfg.File {
		sc.StateFile = w.statePath
	}
	return sc
}

// restart starts a second server on the state file the first one has written, as the next start after a
// kill does (the first server object is simply abandoned). What it restored is kept for the monitors.
func (w *world) restart(th string) {
	c := w.begin(th, "restart", "", "")
	ls2, closer2, err := server.New(w.serverConfig())
	w.mu.Lock()
	w.ls2, w.closer2 = ls2, closer2
	w.mu.Unlock()
	w.end(c, err == nil, "", err)
}

func (w *world) now() int64 { return int64(time.Since(w.start)) }

func (w *world) begin(thread, kind, name, key string) *call {
	w.mu.Lock()
	defer w.mu.Unlock()
	w.clock++
	c := &call{Thread: thread, Kind: kind, Name: name, Key: key, Start: w.now(), Seq0: w.clock}
	w.calls = append(w.calls, c)
	return c
}
func (w *world) end(c *call, ok bool, key string, err error) {
	w.mu.Lock()
	defer w.mu.Unlock()
	w.clock++
	c.Ok, c.Err, c.End, c.Done, c.Seq1 = ok, impl.ErrName(err), w.now(), true, w.clock
	if key != "" {
		c.Key = key
	}
	if w.cev != nil && ok {
		switch c.Kind {
		case "trylock", "lock":
			w.cev = append(w.cev, fmt.Sprintf("ack grant %d", w.pairLocked(c.Name, c.Key)))
		case "unlock":
			w.cev = append(w.cev, fmt.Sprintf("ack release %d", w.pairLocked(c.Name, c.Key)))
		}
	}
}

// pairLocked numbers the (name, key) pairs of the M7 history by first appearance (w.mu held)
func (w *world) pairLocked(name, key string) int {
	k := name + "/" + key
	if n, ok := w.cpair[k]; ok {
		return n
	}
	n := len(w.cpair)
	w.cpair[k] = n
	return n
}

func (w *world) tryLock(th, sid, name string, size, lt *int32, label string) {
	c := w.begin(th, "trylock", name, "")
	lk, err := w.ls.TryLock(w.sess[sid], name, size, lt)
	ok, key := lk != nil && lk.Locked, ""
	if ok {
		key = lk.Key
		w.mu.Lock()
		w.keys[label] = key
		w.mu.Unlock()
	}
	w.end(c, ok, key, err)
}
func (w *world) lock(th, sid, name string, size, lt, wt *int32, label string) {
	c := w.begin(th, "lock", name, "")
	lk, err := w.ls.Lock(w.sess[sid], name, size, lt, wt)
	ok, key := lk != nil && lk.Locked, ""
	if ok {
		key = lk.Key
		w.mu.Lock()
		w.keys[label] = key
		w.mu.Unlock()
	}
	w.end(c, ok, key, err)
}
// lockReq is a blocking Lock whose REQUEST context (a child of the session's context, as over gRPC)
// can be cancelled on its own by cancelReq(label) while the session stays connected.
func (w *world) newReqDeadline(label, sid string, d time.Duration) {
	rc, cancel := context.WithTimeout(w.sess[sid], d)
	if w.reqCancel == nil {
		w.reqCancel, w.reqCtx = map[string]context.CancelFunc{}, map[string]context.Context{}
	}
	w.reqCancel[label], w.reqCtx[label] = cancel, rc
}
func (w *world) newReq(label, sid string) {
	rc, cancel := context.WithCancel(w.sess[sid])
	if w.reqCancel == nil {
		w.reqCancel, w.reqCtx = map[string]context.CancelFunc{}, map[string]context.Context{}
	}
	w.reqCancel[label], w.reqCtx[label] = cancel, rc
}
func (w *world) lockReq(th, sid, name string, size, lt, wt *int32, label string) {
	w.mu.Lock()
	rc := w.reqCtx[label]
	w.mu.Unlock()
	gone := rc.Err() != nil // the caller gave up before the request reached the server
	c := w.begin(th, "lock", name, "")
	lk, err := w.ls.Lock(rc, name, size, lt, wt)
	ok, key := lk != nil && lk.Locked, ""
	if gone && ok {
		w.v("conc:waiter:granted-after-giving-up", "blocking Lock of %q was granted (key %s) although its caller had gone away before the call: a waiter that gives up is never granted the lock afterwards", name, lk.Key)
	}
	if ok {
		key = lk.Key
		w.mu.Lock()
		w.keys[label] = key
		w.mu.Unlock()
	}
	w.end(c, ok, key, err)
}
func (w *world) cancelReq(label string) {
	w.mu.Lock()
	cancel := w.reqCancel[label]
	w.mu.Unlock()
	if cancel != nil {
		cancel()
	}
}
func (w *world) unlock(th, sid, name, label string) {
	w.mu.Lock()
	key := w.keys[label]
	w.mu.Unlock()
	c := w.begin(th, "unlock", name, key)
	ok, err := w.ls.Unlock(w.sess[sid], name, key)
	w.end(c, ok, "", err)
}
func (w *world) renew(th, name, label string, t int32) {
	w.mu.Lock()
	key := w.keys[label]
	w.mu.Unlock()
	c := w.begin(th, "renew", name, key)
	lk, err := w.ls.Renew(context.Background(), name, key, t)
	w.end(c, lk != nil && lk.Locked, "", err)
}
func (w *world) disconnect(th, sid string) {
	c := w.begin(th, "disconnect", sid, "")
	w.cancel[sid]()
	w.ls.DestroySession(w.sess[sid])
	w.end(c, true, "", nil)
}

// setup helpers run with the scheduler off
func (w *world) mustTry(sid, name string, size, lt *int32, label string) {
	lk, err := w.ls.TryLock(w.sess[sid], name, size, lt)
	if err != nil || !lk.Locked {
		panic(fmt.Sprintf("setup trylock %s failed: %v", name, err))
	}
	w.keys[label] = lk.Key
}

func (w *world) callsOf(kind string) []*call {
	out := []*call{}
	for _, c := range w.calls {
		if c.Kind == kind {
			out = append(out, c)
		}
	}
	return out
}

func (w *world) tableKeys(name string) (int32, []string, bool) {
	for _, l := range w.ls.VerifManager().VerifTable() {
		if l.Name == name {
			return l.Size, l.Keys, true
		}
	}
	return 0, nil, false
}

// probeFree counts how many further TryLocks of name succeed right now (and undoes them).
func (w *world) probeFree(name string, size *int32) int {
	ctx := context.Background()
	_, pctx := w.ls.CreateSession(ctx, nil)
	n := 0
	keys := []string{}
	for i := 0; i < 8; i++ {
		lk, err := w.ls.TryLock(pctx, name, size, nil)
		if err != nil || !lk.Locked {
			break
		}
		n++
		keys = append(keys, lk.Key)
	}
	for _, k := range keys {
		w.ls.Unlock(pctx, name, k)
	}
	w.ls.DestroySession(pctx)
	return n
}

func (w *world) listing() []string {
	out := []string{}
	for _, l := range w.ls.Locks() {
		out = append(out, l.Name()+"/"+w.label(l.Key()))
	}
	sort.Strings(out)
	return out
}

func (w *world) label(key string) string {
	for l, k := range w.keys {
		if k == key {
			return l
		}
	}
	return "?"
}

func (w *world) v(sig, format string, a ...any) { w.viol = append(w.viol, vio{sig, fmt.Sprintf(format, a...)}) }

func (w *world) close() {
	for _, c := range w.cancel {
		c()
	}
	synctest.Wait()
	if w.closer != nil {
		w.closer()
	}
	if w.closer2 != nil {
		w.closer2()
	}
	synctest.Wait()
	if w.dir != "" {
		os.RemoveAll(w.dir)
	}
}

func (w *world) summary() string {
	parts := []string{}
	for _, c := range w.calls {
		st := "…"
		if c.Done {
			st = fmt.Sprintf("%v/%s", c.Ok, c.Err)
		}
		parts = append(parts, fmt.Sprintf("%s.%s(%s)=%s", c.Thread, c.Kind, c.Name, st))
	}
	sort.Strings(parts)
	return strings.Join(parts, " ")
}

// crash snapshots: the raw file bytes at every yield, with the acknowledged sets at that instant
func (w *world) enableSnapshots() {
	if !w.cfg.File {
		return
	}
	// the M7 history: the holds of the set-up are granted, recorded and in the file
	w.cpair = map[string]int{}
	held := []string{}
	for _, l := range common.SortedKeys(w.keys) {
		for _, lk := range w.ls.Locks() {
			if lk.Key() == w.keys[l] {
				held = append(held, fmt.Sprint(w.pairLocked(lk.Name(), lk.Key())))
			}
		}
	}
	hs := "-"
	if len(held) > 0 {
		hs = strings.Join(held, ",")
	}
	w.cev = []string{"hist held=" + hs}
	mine := map[int]bool{}
	w.ls.VerifTrace(func(e server.VerifMgrEvent) {
		m := map[string]string{"lock.TryLock": "lock.Grant", "lock.Lock": "lock.Grant", "lock.Unlock": "lock.Unlock", "sess.AddLock": "sess.AddLock", "sess.RemoveLock": "sess.RemoveLock"}[e.Method]
		w.mu.Lock()
		defer w.mu.Unlock()
		if e.Method == "sess.DestroySession" {
			// the session's entry leaves the bookkeeping; which holds it listed is known when the call returns
			if e.Phase == "inv" {
				w.cev = append(w.cev, fmt.Sprintf("inv %d sess.DestroySession -", e.Id))
				return
			}
			ps := []string{}
			for _, l := range e.Locks {
				ps = append(ps, fmt.Sprint(w.pairLocked(l[0], l[1])))
			}
			if len(ps) == 0 {
				ps = []string{"-"}
			}
			w.cev = append(w.cev, fmt.Sprintf("ret %d 1 %s", e.Id, strings.Join(ps, ",")))
			return
		}
		if e.Phase == "inv" {
			if m == "" {
				return
			}
			mine[e.Id] = true
			w.cev = append(w.cev, fmt.Sprintf("inv %d %s %d", e.Id, m, w.pairLocked(e.Name, e.Key)))
			return
		}
		if mine[e.Id] {
			ok := 0
			if e.Ok {
				ok = 1
			}
			w.cev = append(w.cev, fmt.Sprintf("ret %d %d", e.Id, ok))
		}
	})
	verifrt.SnapHook = func(label string) {
		b, err := os.ReadFile(w.statePath)
		if err != nil {
			return
		}
		w.mu.Lock()
		defer w.mu.Unlock()
		if e := len(b) == 0; e != w.cempty {
			w.cempty = e
			if e {
				w.cev = append(w.cev, "trunc")
			} else {
				w.cev = append(w.cev, "write")
			}
		}
		s := ackSnap{label: label, bytes: string(b)}
		// another thread may be parked in the middle of the file rewrite at this instant
		for _, n := range verifrt.Runnable() {
			if at := verifrt.Where(n); strings.Contains(at, "store/store.go") {
				s.rewriting = at
			}
		}
		rel := map[string]bool{}
		for _, c := range w.calls {
			if c.Done && c.Ok && c.Kind == "unlock" {
				rel[c.Name+"/"+c.Key] = true
				s.released = append(s.released, c.Name+"/"+c.Key)
			}
		}
		for _, c := range w.calls {
			if c.Done && c.Ok && (c.Kind == "trylock" || c.Kind == "lock") && !rel[c.Name+"/"+c.Key] {
				// an unlock of it that is still in flight may go either way: not "live acknowledged"
				inflight := false
				for _, u := range w.calls {
					if u.Kind == "unlock" && !u.Done && u.Name == c.Name && u.Key == c.Key {
						inflight = true
					}
				}
				if !inflight {
					s.live = append(s.live, c.Name+"/"+c.Key)
				}
			}
		}
		w.acks = append(w.acks, s)
	}
}

// ---------------------------------------------------------------- templates

type template struct {
	name  string
	props []string
	prog  func(t *testing.T) conc.Program
	bound int
}

func cfgGc0() impl.Cfg {
	return impl.Cfg{Shards: 4, GcInt: 1000 * time.Hour, GcIdle: 0, Dlt: 10 * time.Minute}
}
func cfgFile() impl.Cfg {
	c := cfgGc0()
	c.File = true
	c.GcIdle = time.Hour
	return c
}

func finish(w *world, extra func()) conc.Outcome {
	verifrt.SnapHook = nil
	if extra != nil {
		// the monitors probe the real server (TryLock / Unlock); a server that panics in a probe has
		// corrupted its own capacity accounting: that is the finding, not the end of the stream
		func() {
			defer func() {
				if r := recover(); r != nil {
					w.v("conc:capacity:free-units:probe-panicked", "after all calls returned, a probe of the server (TryLock/Unlock from a fresh session) panicked: %v", r)
				}
			}()
			extra()
		}()
	}
	// C14: "successful responses never carry an error, and responses that carry an error never report
	// locked or unlocked as true" - for every call of every schedule
	for _, c := range w.calls {
		if c.Done && c.Ok && c.Err != "-" && c.Err != "" {
			w.v("conc:code:success-with-error", "%s %s(%s) answered locked/unlocked=true together with the error %s", c.Thread, c.Kind, c.Name, c.Err)
		}
	}
	key := w.summary()
	det := map[string]any{"calls": w.calls}
	vs := []map[string]string{}
	for _, v := range w.viol {
		vs = append(vs, map[string]string{"sig": v.sig, "what": v.what})
	}
	det["violations"] = vs
	det["acks"] = w.acks
	det["mgrtrace"] = append([]string{}, w.mgr...)
	det["threadhist"] = append([]string{}, w.thist...)
	if w.cev != nil {
		det["crashhist"] = strings.Join(w.cev, "\n")
	}
	if w.smgr != nil {
		st := []string{}
		for _, n := range common.SortedKeys(w.smgr) {
			st = append(st, strings.Join(w.smgr[n], "\n"))
		}
		det["sesstrace"] = st
	}
	w.close()
	return conc.Outcome{Key: key, Detail: det}
}

// grants acknowledged and not released by an acknowledged unlock, per name
func (w *world) ackedLive(name string) int {
	n := 0
	for _, c := range w.calls {
		if c.Name != name || !c.Done || !c.Ok {
			continue
		}
		switch c.Kind {
		case "trylock", "lock":
			n++
		case "unlock":
			n--
		}
	}
	return n
}

func capacityMonitor(w *world, name string, size int, base int) {
	live := base + w.ackedLive(name)
	if live > size {
		w.v("conc:capacity:acked-holders", "lock %q of size %d has %d acknowledged live holders", name, size, live)
	}
	if sz, keys, ok := w.tableKeys(name); ok && len(keys) > int(sz) {
		w.v("conc:capacity:table", "lock %q of size %d has %d keys in the table", name, sz, len(keys))
	}
	free := w.probeFree(name, p32(int32(size)))
	if live >= 0 && live <= size && free != size-live {
		w.v("conc:capacity:free-units", "lock %q of size %d has %d acknowledged live holders but %d further TryLocks succeed", name, size, live, free)
	}
}

// unackedHoldMonitor: once every call has returned, each key in the lock table was handed to a caller by
// a successful Lock/TryLock answer ("a lock of size N is held by at most N keys" counts keys that were
// granted: a unit taken for a request that was answered with an error is capacity nobody can give back).
func unackedHoldMonitor(w *world, name string) {
	_, keys, ok := w.tableKeys(name)
	if !ok {
		return
	}
	granted := map[string]bool{}
	for _, k := range w.keys {
		granted[k] = true
	}
	for _, c := range w.calls {
		if c.Done && c.Ok && c.Key != "" {
			granted[c.Key] = true
		}
	}
	for _, k := range keys {
		if !granted[k] {
			w.v("conc:capacity:free-units:unacknowledged-hold", "lock %q: after every call has returned the table holds a key that no successful Lock/TryLock answer carried (%s): the unit is taken and no client can release it", name, w.summary())
		}
	}
}

// heldMonitor: a hold that was granted and never unlocked, whose session is alive and which has no
// lease, is still in the table and its key still unlocks it ("each granted key can be unlocked
// successfully exactly once").
func heldMonitor(w *world, sid, name, label string) {
	key := w.keys[label]
	_, keys, ok := w.tableKeys(name)
	if !ok || !containsStr(keys, key) {
		w.v("conc:nonlinearizable:granted-hold-vanished", "hold %s/%s of the live session %s was granted, never unlocked and has no lease, but is not in the lock table any more", name, label, sid)
		return
	}
	if un, err := w.ls.Unlock(w.sess[sid], name, key); err != nil || !un {
		w.v("conc:nonlinearizable:granted-key-refused", "Unlock of %s/%s by its holder answered unlocked=%v err=%v although the key was granted and never unlocked", name, label, un, err)
	}
}

func templates() []template {
	reqCancelled := func(name string, noClear bool) template {
		return template{name: name, props: []string{"C02", "C03"}, bound: 2, prog: func(t *testing.T) conc.Program {
			return conc.Program{
				Setup: func() any {
					cfg := cfgFile()
					cfg.NoClear = noClear
					w := newWorld(t, cfg, "s1", "s2")
					w.mustTry("s1", "x", nil, nil, "h")
					w.mustTry("s2", "m", nil, nil, "mh")
					w.newReq("l", "s2")
					return w
				},
				Threads: []conc.Thread{
					{Name: "L", Run: func(c any) { c.(*world).lockReq("L", "s2", "x", nil, nil, nil, "l") }},
					{Name: "U", Run: func(c any) { c.(*world).unlock("U", "s1", "x", "h") }},
					{Name: "C", Run: func(c any) { c.(*world).cancelReq("l") }},
				},
				Finish: func(c any) conc.Outcome {
					w := c.(*world)
					return finish(w, func() {
						capacityMonitor(w, "x", 1, 1)
						linearizable(w, "x", 1, []string{w.keys["h"]})
						heldMonitor(w, "s2", "m", "mh")
					})
				},
			}
		}}
	}
	return []template{
		{name: "lock(wt5,request-deadline-2s)||+2s||+3s", props: []string{"C03"}, bound: 1, prog: func(t *testing.T) conc.Program {
			// the caller's own deadline (a gRPC per-call deadline) ends a blocked Lock before its wait
			// timeout: the call may fail, but not with LockWaitTimeout - that error is never earlier than the timeout
			return conc.Program{
				Setup: func() any {
					w := newWorld(t, cfgGc0(), "s1", "s2")
					w.mustTry("s1", "x", nil, nil, "h")
					w.newReqDeadline("l", "s2", 2*time.Second)
					return w
				},
				Threads: []conc.Thread{
					{Name: "L", Run: func(c any) { c.(*world).lockReq("L", "s2", "x", nil, nil, p32(5), "l") }},
				},
				Ticks: []time.Duration{2 * time.Second, 3 * time.Second},
				Finish: func(c any) conc.Outcome {
					w := c.(*world)
					return finish(w, func() {
						earlyTimeout(w, map[string]int64{"L": int64(5 * time.Second)})
						capacityMonitor(w, "x", 1, 1)
						threadHistory(w, "x", 1, []string{w.keys["h"]})
					})
				},
			}
		}},
		{name: "lock(wt5);unlock||lock;unlock||unlock||+5s", props: []string{"C03", "C01"}, bound: 2, prog: func(t *testing.T) conc.Program {
			// two waiters; the head waiter's wait timeout may run out just as the holder's Unlock hands it the
			// unit: "a release is never lost while someone waits", "a waiter that gives up does not delay the
			// waiters behind it" - whoever is granted unlocks again, so in the end nobody may be left blocked
			lockThenUnlock := func(th, sid string, wt *int32, label string) func(any) {
				return func(c any) {
					w := c.(*world)
					w.lock(th, sid, "x", nil, nil, wt, label)
					w.mu.Lock()
					_, got := w.keys[label]
					w.mu.Unlock()
					if got {
						w.unlock(th, sid, "x", label)
					}
				}
			}
			return conc.Program{
				Setup: func() any {
					w := newWorld(t, cfgGc0(), "s1", "s2", "s3")
					w.mustTry("s1", "x", nil, nil, "h")
					return w
				},
				Threads: []conc.Thread{
					{Name: "W", Run: lockThenUnlock("W", "s2", p32(5), "w")},
					{Name: "V", Run: lockThenUnlock("V", "s3", nil, "v")},
					{Name: "U", Run: func(c any) { c.(*world).unlock("U", "s1", "x", "h") }},
				},
				Ticks: []time.Duration{5 * time.Second},
				Finish: func(c any) conc.Outcome {
					w := c.(*world)
					return finish(w, func() {
						for _, cl := range w.calls {
							if cl.Kind == "lock" && cl.Thread == "V" && cl.Done && !cl.Ok {
								w.v("conc:waiter:lost-release", "V's blocking Lock without a wait timeout returned without the lock (%s) although the holder and every other grantee released \"x\"", w.summary())
							}
						}
						capacityMonitor(w, "x", 1, 1)
					})
				},
			}
		}},
		reqCancelled("lock(request-cancelled)||unlock", false),
		reqCancelled("lock(request-cancelled)||unlock [no-clear]", true),
		{name: "lock||unlock||trylock(size2);trylock(size2)", props: []string{"C01", "C12"}, bound: 2, prog: func(t *testing.T) conc.Program {
			return conc.Program{
				Setup: func() any {
					w := newWorld(t, cfgGc0(), "s1", "s2", "s3")
					w.mustTry("s1", "x", nil, nil, "h")
					return w
				},
				Threads: []conc.Thread{
					{Name: "W", Run: func(c any) { c.(*world).lock("W", "s2", "x", nil, nil, p32(5), "w") }},
					{Name: "U", Run: func(c any) { c.(*world).unlock("U", "s1", "x", "h") }},
					{Name: "B", Run: func(c any) {
						w := c.(*world)
						w.tryLock("B", "s3", "x", p32(2), nil, "b")
						w.tryLock("B", "s3", "x", p32(2), nil, "b2")
					}},
				},
				Ticks: []time.Duration{5 * time.Second},
				Finish: func(c any) conc.Outcome {
					w := c.(*world)
					return finish(w, func() {
						capacityMonitor(w, "x", 1, 1)
						threadHistory(w, "x", 1, []string{w.keys["h"]})
					})
				},
			}
		}},
		{name: "trylock||trylock||gc0||+1ns", props: []string{"C01", "C13"}, bound: 1, prog: func(t *testing.T) conc.Program {
			return conc.Program{
				Setup: func() any { return newWorld(t, cfgGc0(), "s1", "s2") },
				Threads: []conc.Thread{
					{Name: "A", Run: func(c any) { c.(*world).tryLock("A", "s1", "x", nil, nil, "a") }},
					{Name: "B", Run: func(c any) { c.(*world).tryLock("B", "s2", "x", nil, nil, "b") }},
					{Name: "G", Run: func(c any) { c.(*world).ls.VerifManager().VerifGc(0) }},
				},
				Ticks: []time.Duration{1},
				Finish: func(c any) conc.Outcome {
					w := c.(*world)
					return finish(w, func() { capacityMonitor(w, "x", 1, 0); threadHistory(w, "x", 1, nil) })
				},
			}
		}},
		{name: "lock||gc0||unlock||+1ns", props: []string{"C13", "C01"}, bound: 1, prog: func(t *testing.T) conc.Program {
			return conc.Program{
				Setup: func() any {
					w := newWorld(t, cfgGc0(), "s1", "s2")
					w.mustTry("s1", "x", nil, nil, "h")
					return w
				},
				Threads: []conc.Thread{
					{Name: "L", Run: func(c any) { c.(*world).lock("L", "s2", "x", nil, nil, p32(5), "l") }},
					{Name: "U", Run: func(c any) { c.(*world).unlock("U", "s1", "x", "h") }},
					{Name: "G", Run: func(c any) { c.(*world).ls.VerifManager().VerifGc(0) }},
				},
				Ticks: []time.Duration{1},
				Finish: func(c any) conc.Outcome {
					w := c.(*world)
					return finish(w, func() {
						capacityMonitor(w, "x", 1, 1)
						threadHistory(w, "x", 1, []string{w.keys["h"]})
						for _, cl := range w.calls {
							if cl.Done && cl.Err != "-" && cl.Err != "LockWaitTimeout" {
								w.v("conc:gc:request-failed", "%s %s(%s) failed with %s while only a GC pass ran concurrently", cl.Thread, cl.Kind, cl.Name, cl.Err)
							}
						}
					})
				},
			}
		}},
		{name: "unlock||unlock;trylock", props: []string{"C02", "C01"}, bound: 2, prog: func(t *testing.T) conc.Program {
			return conc.Program{
				Setup: func() any {
					w := newWorld(t, cfgFile(), "s1", "s2")
					w.mustTry("s1", "x", nil, nil, "h")
					return w
				},
				Threads: []conc.Thread{
					{Name: "A", Run: func(c any) { c.(*world).unlock("A", "s1", "x", "h") }},
					{Name: "B", Run: func(c any) {
						w := c.(*world)
						w.unlock("B", "s2", "x", "h")
						w.tryLock("B", "s2", "x", nil, nil, "b")
					}},
				},
				Finish: func(c any) conc.Outcome {
					w := c.(*world)
					return finish(w, func() {
						capacityMonitor(w, "x", 1, 1)
						linearizable(w, "x", 1, []string{w.keys["h"]})
					})
				},
			}
		}},
		{name: "unlock||unlock;trylock(leased-hold)", props: []string{"C02"}, bound: 2, prog: func(t *testing.T) conc.Program {
			return conc.Program{
				Setup: func() any {
					w := newWorld(t, cfgFile(), "s1", "s2")
					w.mustTry("s1", "x", nil, p32(60), "h")
					return w
				},
				Threads: []conc.Thread{
					{Name: "A", Run: func(c any) { c.(*world).unlock("A", "s1", "x", "h") }},
					{Name: "B", Run: func(c any) {
						w := c.(*world)
						w.unlock("B", "s2", "x", "h")
						w.tryLock("B", "s2", "x", nil, nil, "b")
					}},
				},
				Finish: func(c any) conc.Outcome {
					w := c.(*world)
					return finish(w, func() {
						capacityMonitor(w, "x", 1, 1)
						linearizable(w, "x", 1, []string{w.keys["h"]})
					})
				},
			}
		}},
		{name: "lock||unlock||trylock", props: []string{"C02", "C01", "C03"}, bound: 2, prog: func(t *testing.T) conc.Program {
			return conc.Program{
				Setup: func() any {
					w := newWorld(t, cfgFile(), "s1", "s2", "s3")
					w.mustTry("s1", "x", nil, nil, "h")
					return w
				},
				Threads: []conc.Thread{
					{Name: "L", Run: func(c any) { c.(*world).lock("L", "s2", "x", nil, nil, p32(3), "l") }},
					{Name: "U", Run: func(c any) { c.(*world).unlock("U", "s1", "x", "h") }},
					{Name: "T", Run: func(c any) { c.(*world).tryLock("T", "s3", "x", nil, nil, "t") }},
				},
				Ticks: []time.Duration{3 * time.Second},
				Finish: func(c any) conc.Outcome {
					w := c.(*world)
					return finish(w, func() {
						capacityMonitor(w, "x", 1, 1)
						linearizable(w, "x", 1, []string{w.keys["h"]})
						waiterMonitor(w, "x", 1)
					})
				},
			}
		}},
		{name: "trylock||trylock||lock(fresh-name)", props: []string{"C02", "C01"}, bound: 2, prog: func(t *testing.T) conc.Program {
			return conc.Program{
				Setup: func() any { return newWorld(t, cfgFile(), "s1", "s2", "s3") },
				Threads: []conc.Thread{
					{Name: "A", Run: func(c any) { c.(*world).tryLock("A", "s1", "x", nil, nil, "a") }},
					{Name: "B", Run: func(c any) { c.(*world).tryLock("B", "s2", "x", nil, nil, "b") }},
					{Name: "L", Run: func(c any) { c.(*world).lock("L", "s3", "x", nil, nil, p32(2), "l") }},
				},
				Ticks: []time.Duration{2 * time.Second},
				Finish: func(c any) conc.Outcome {
					w := c.(*world)
					return finish(w, func() {
						capacityMonitor(w, "x", 1, 0)
						linearizable(w, "x", 1, nil)
						waiterMonitor(w, "x", 1)
					})
				},
			}
		}},
		{name: "lock(wt5)||lock||unlock||+5s", props: []string{"C03", "C01"}, bound: 2, prog: func(t *testing.T) conc.Program {
			return conc.Program{
				Setup: func() any {
					w := newWorld(t, cfgGc0(), "s1", "s2", "s3")
					w.mustTry("s1", "x", nil, nil, "h")
					return w
				},
				Threads: []conc.Thread{
					{Name: "W", Run: func(c any) { c.(*world).lock("W", "s2", "x", nil, nil, p32(5), "w") }},
					{Name: "V", Run: func(c any) { c.(*world).lock("V", "s3", "x", nil, nil, p32(9), "v") }},
					{Name: "U", Run: func(c any) { c.(*world).unlock("U", "s1", "x", "h") }},
				},
				Ticks: []time.Duration{5 * time.Second},
				Finish: func(c any) conc.Outcome {
					w := c.(*world)
					return finish(w, func() {
						waiterMonitor(w, "x", 1)
						capacityMonitor(w, "x", 1, 1)
						threadHistory(w, "x", 1, []string{w.keys["h"]})
					})
				},
			}
		}},
		{name: "unlock||renew||expiry", props: []string{"C05", "C14", "C04", "C02"}, bound: 2, prog: func(t *testing.T) conc.Program {
			return conc.Program{
				Setup: func() any {
					w := newWorld(t, cfgFile(), "s1", "s2")
					w.mustTry("s1", "x", nil, p32(5), "h")
					w.traceHold("x", "h")
					return w
				},
				Threads: []conc.Thread{
					{Name: "U", Run: func(c any) { c.(*world).unlock("U", "s1", "x", "h") }},
					{Name: "R", Run: func(c any) { c.(*world).renew("R", "x", "h", 100) }},
				},
				Ticks: []time.Duration{5 * time.Second},
				Finish: func(c any) conc.Outcome {
					w := c.(*world)
					return finish(w, func() { truthMonitor(w, "x", "h", 100) })
				},
			}
		}},
		{name: "disconnect;renew||expiry [no-clear]", props: []string{"C05", "C06"}, bound: 2, prog: func(t *testing.T) conc.Program {
			// no-clear-on-disconnect: the session ends, its leased hold stays; a reconnecting client renews it by
			// key. A Renew answered true means the hold lasts for the renewed lease - the lease it had before the
			// session ended must not run out underneath it
			return conc.Program{
				Setup: func() any {
					cfg := cfgFile()
					cfg.NoClear = true
					w := newWorld(t, cfg, "s1", "s2")
					w.mustTry("s1", "x", nil, p32(5), "h")
					return w
				},
				Threads: []conc.Thread{
					{Name: "A", Run: func(c any) {
						w := c.(*world)
						w.disconnect("A", "s1")
						w.renew("A", "x", "h", 100)
					}},
				},
				Ticks: []time.Duration{5 * time.Second},
				Finish: func(c any) conc.Outcome {
					w := c.(*world)
					return finish(w, func() { truthMonitor(w, "x", "h", 100) })
				},
			}
		}},
		{name: "renew||renew||expiry", props: []string{"C05"}, bound: 2, prog: func(t *testing.T) conc.Program {
			return conc.Program{
				Setup: func() any {
					w := newWorld(t, cfgFile(), "s1", "s2")
					w.mustTry("s1", "x", nil, p32(5), "h")
					w.traceHold("x", "h")
					return w
				},
				Threads: []conc.Thread{
					{Name: "R", Run: func(c any) { c.(*world).renew("R", "x", "h", 100) }},
					{Name: "Q", Run: func(c any) { c.(*world).renew("Q", "x", "h", 100) }},
				},
				Ticks: []time.Duration{5 * time.Second},
				Finish: func(c any) conc.Outcome {
					w := c.(*world)
					return finish(w, func() { truthMonitor(w, "x", "h", 100) })
				},
			}
		}},
		{name: "unlock||renew(before-deadline)", props: []string{"C05"}, bound: 2, prog: func(t *testing.T) conc.Program {
			return conc.Program{
				Setup: func() any {
					w := newWorld(t, cfgFile(), "s1", "s2")
					w.mustTry("s1", "x", nil, p32(5), "h")
					w.traceHold("x", "h")
					return w
				},
				Threads: []conc.Thread{
					{Name: "U", Run: func(c any) { c.(*world).unlock("U", "s1", "x", "h") }},
					{Name: "R", Run: func(c any) { c.(*world).renew("R", "x", "h", 100) }},
					{Name: "Q", Run: func(c any) { c.(*world).renew("Q", "x", "h", 50) }},
				},
				Finish: func(c any) conc.Outcome {
					w := c.(*world)
					return finish(w, func() { truthMonitor(w, "x", "h", 100) })
				},
			}
		}},
		{name: "unlock||trylock;renew(old-key)", props: []string{"C05"}, bound: 2, prog: func(t *testing.T) conc.Program {
			// a second client takes the lock as soon as the Unlock has freed it and then presents the OLD
			// key to Renew: "a hold reported renewed is not already gone" - the capacity is provably the
			// second client's at that instant, whether or not the Unlock call has returned yet
			return conc.Program{
				Setup: func() any {
					w := newWorld(t, cfgFile(), "s1", "s2")
					w.mustTry("s1", "x", nil, p32(5), "h")
					return w
				},
				Threads: []conc.Thread{
					{Name: "U", Run: func(c any) { c.(*world).unlock("U", "s1", "x", "h") }},
					{Name: "B", Run: func(c any) {
						w := c.(*world)
						w.tryLock("B", "s2", "x", nil, nil, "b")
						w.mu.Lock()
						_, got := w.keys["b"]
						w.mu.Unlock()
						if got {
							w.renew("B", "x", "h", 100)
						}
					}},
				},
				Finish: func(c any) conc.Outcome {
					w := c.(*world)
					return finish(w, func() {
						for _, c := range w.calls {
							if c.Kind == "renew" && c.Done && c.Ok {
								w.v("conc:truth:renewed-after-handover", "Renew with the old key answered locked=true after another client had been granted the size-1 lock %q: the hold reported renewed was already gone", "x")
							}
						}
					})
				},
			}
		}},
		{name: "destroy||trylock(same-session)", props: []string{"C06"}, bound: 2, prog: func(t *testing.T) conc.Program {
			return conc.Program{
				Setup: func() any {
					w := newWorld(t, cfgFile(), "s1", "s2")
					w.mustTry("s1", "x", nil, p32(60), "h1")
					w.mustTry("s2", "z", nil, p32(60), "h2")
					w.traceNames(map[string]string{"x": "lease=1 granted=1", "y": "lease=1 granted=0"})
					return w
				},
				Threads: []conc.Thread{
					{Name: "D", Run: func(c any) { c.(*world).disconnect("D", "s1") }},
					{Name: "T", Run: func(c any) { c.(*world).tryLock("T", "s1", "y", nil, p32(60), "t") }},
				},
				Finish: func(c any) conc.Outcome {
					w := c.(*world)
					return finish(w, func() { sessionEndMonitor(w, "s1", []string{"x", "y"}, map[string]string{"z": "h2"}, "grant-in-flight") })
				},
			}
		}},
		{name: "destroy||unlock||expiry(same-session)", props: []string{"C06"}, bound: 2, prog: func(t *testing.T) conc.Program {
			return conc.Program{
				Setup: func() any {
					w := newWorld(t, cfgFile(), "s1", "s2")
					w.mustTry("s1", "x", nil, p32(5), "h1")
					w.mustTry("s1", "y", nil, nil, "h3")
					w.mustTry("s2", "z", nil, p32(60), "h2")
					w.traceNames(map[string]string{"x": "lease=1 granted=1", "y": "lease=0 granted=1"})
					return w
				},
				Threads: []conc.Thread{
					{Name: "D", Run: func(c any) { c.(*world).disconnect("D", "s1") }},
					{Name: "U", Run: func(c any) { c.(*world).unlock("U", "s1", "y", "h3") }},
				},
				Ticks: []time.Duration{5 * time.Second},
				Finish: func(c any) conc.Outcome {
					w := c.(*world)
					return finish(w, func() { sessionEndMonitor(w, "s1", []string{"x", "y"}, map[string]string{"z": "h2"}, "release-in-flight") })
				},
			}
		}},
		{name: "destroy||expiry(first-of-two-holds)", props: []string{"C06"}, bound: 2, prog: func(t *testing.T) conc.Program {
			return conc.Program{
				Setup: func() any {
					w := newWorld(t, cfgFile(), "s1", "s2")
					w.mustTry("s1", "x", nil, p32(5), "h1")
					w.mustTry("s1", "y", nil, nil, "h3")
					w.mustTry("s1", "v", nil, p32(60), "h4")
					w.mustTry("s2", "z", nil, p32(60), "h2")
					w.traceNames(map[string]string{"x": "lease=1 granted=1", "y": "lease=0 granted=1", "v": "lease=1 granted=1"})
					return w
				},
				Threads: []conc.Thread{
					{Name: "D", Run: func(c any) { c.(*world).disconnect("D", "s1") }},
				},
				Ticks: []time.Duration{5 * time.Second},
				Finish: func(c any) conc.Outcome {
					w := c.(*world)
					return finish(w, func() {
						sessionEndMonitor(w, "s1", []string{"x", "y", "v"}, map[string]string{"z": "h2"}, "release-in-flight")
						if tm := w.ls.VerifTimerKeys(); len(tm) != 1 {
							w.v("conc:session-end:lease-left:release-in-flight", "after session s1 ended %d lease timers exist, expected only the other session's", len(tm))
						}
					})
				},
			}
		}},
		{name: "destroy;lock(free-lock,ended-session)", props: []string{"C06"}, bound: 1, prog: func(t *testing.T) conc.Program {
			// a blocking Lock of the session that reaches the server only after the session has ended (its
			// request context is cancelled): it must not be granted a hold nobody will ever release
			return conc.Program{
				Setup: func() any {
					w := newWorld(t, cfgFile(), "s1", "s2")
					w.mustTry("s1", "x", nil, p32(60), "h1")
					w.mustTry("s2", "z", nil, p32(60), "h2")
					return w
				},
				Threads: []conc.Thread{
					{Name: "D", Run: func(c any) {
						w := c.(*world)
						w.disconnect("D", "s1")
						w.lock("D", "s1", "y", nil, nil, nil, "late")
					}},
				},
				Finish: func(c any) conc.Outcome {
					w := c.(*world)
					return finish(w, func() { sessionEndMonitor(w, "s1", []string{"x", "y"}, map[string]string{"z": "h2"}, "request-after-end") })
				},
			}
		}},
		{name: "destroy||blocked-lock(same-session)||unlock(other)", props: []string{"C06", "C03", "C02"}, bound: 2, prog: func(t *testing.T) conc.Program {
			return conc.Program{
				Setup: func() any {
					w := newWorld(t, cfgFile(), "s1", "s2")
					w.mustTry("s2", "x", nil, nil, "h2")
					return w
				},
				Threads: []conc.Thread{
					{Name: "L", Run: func(c any) { c.(*world).lock("L", "s1", "x", nil, nil, nil, "l") }},
					{Name: "D", Run: func(c any) { c.(*world).disconnect("D", "s1") }},
					{Name: "U", Run: func(c any) { c.(*world).unlock("U", "s2", "x", "h2") }},
				},
				Finish: func(c any) conc.Outcome {
					w := c.(*world)
					return finish(w, func() {
						sessionEndMonitor(w, "s1", []string{"x"}, map[string]string{}, "grant-in-flight")
						unackedHoldMonitor(w, "x")
					})
				},
			}
		}},
		{name: "shutdown||unlock||trylock(state file)", props: []string{"C11"}, bound: 2, prog: func(t *testing.T) conc.Program {
			// main.go's shutdown sequence (SetShuttingDown; the network closer ends the sessions; the lock
			// server's closer) racing with requests still in flight: what the state file says afterwards
			return conc.Program{
				Setup: func() any {
					w := newWorld(t, cfgFile(), "s1", "s2")
					w.mustTry("s1", "x", nil, nil, "h1")
					w.mustTry("s2", "y", nil, p32(60), "h2")
					w.mustTry("s1", "z", p32(2), nil, "h3")
					return w
				},
				Threads: []conc.Thread{
					{Name: "S", Run: func(c any) {
						w := c.(*world)
						w.ls.SetShuttingDown()
						w.disconnect("S", "s1") // the network layer going down ends every session
						w.disconnect("S", "s2")
						cl := w.closer
						w.closer = nil
						cl()
					}},
					{Name: "U", Run: func(c any) { c.(*world).unlock("U", "s1", "x", "h1") }},
					{Name: "T", Run: func(c any) { c.(*world).tryLock("T", "s2", "z", p32(2), nil, "t") }},
				},
				Finish: func(c any) conc.Outcome {
					w := c.(*world)
					return finish(w, func() { shutdownFileMonitor(w) })
				},
			}
		}},
		{name: "expiry||trylock (crash images)", props: []string{"C09", "C01"}, bound: 2, prog: func(t *testing.T) conc.Program {
			return conc.Program{
				Setup: func() any {
					w := newWorld(t, cfgFile(), "s1", "s2")
					w.mustTry("s1", "x", nil, p32(5), "h")
					w.calls = append(w.calls, &call{Thread: "setup", Kind: "trylock", Name: "x", Key: w.keys["h"], Ok: true, Done: true, Err: "-"})
					w.enableSnapshots()
					return w
				},
				Threads: []conc.Thread{
					{Name: "T", Run: func(c any) { c.(*world).tryLock("T", "s2", "x", nil, nil, "t") }},
				},
				Ticks: []time.Duration{5 * time.Second},
				Finish: func(c any) conc.Outcome {
					w := c.(*world)
					return finish(w, func() { crashMonitor(w, map[string]int{"x": 1}, true) })
				},
			}
		}},
		{name: "expiry||unlock (crash images)", props: []string{"C09", "C14", "C04", "C02"}, bound: 2, prog: func(t *testing.T) conc.Program {
			// an Unlock racing the lease callback of the same hold: whichever answers, the file must not
			// record the hold once the release is acknowledged
			return conc.Program{
				Setup: func() any {
					w := newWorld(t, cfgFile(), "s1", "s2")
					w.mustTry("s1", "x", nil, p32(5), "h")
					w.mustTry("s2", "z", nil, nil, "h2")
					w.calls = append(w.calls, &call{Thread: "setup", Kind: "trylock", Name: "x", Key: w.keys["h"], Ok: true, Done: true, Err: "-"},
						&call{Thread: "setup", Kind: "trylock", Name: "z", Key: w.keys["h2"], Ok: true, Done: true, Err: "-"})
					w.enableSnapshots()
					return w
				},
				Threads: []conc.Thread{
					{Name: "U", Run: func(c any) { c.(*world).unlock("U", "s1", "x", "h") }},
				},
				Ticks: []time.Duration{5 * time.Second},
				Finish: func(c any) conc.Outcome {
					w := c.(*world)
					return finish(w, func() {
						crashMonitor(w, map[string]int{"x": 1, "z": 1}, true)
						// the hold on x has ended one way or the other (Unlock answered, or its lease ran out): its unit is free
						if p := common.Prop(); p == "C02" || p == "C04" {
							time.Sleep(10 * time.Second)
							synctest.Wait()
							if free := w.probeFree("x", p32(1)); free != 1 {
								w.v("conc:capacity:free-units", "lock \"x\" (size 1): its only hold was unlocked (answer: %s) and its 5 s lease has run out, but %d further TryLocks succeed instead of 1", w.summary(), free)
							}
						}
					})
				},
			}
		}},
		{name: "destroy||blocked-lock(other session) (crash images)", props: []string{"C09", "C06"}, bound: 2, prog: func(t *testing.T) conc.Program {
			// a session ends while another session's Lock waits for one of its holds: the clean-up hands the unit
			// over, the waiter's grant is recorded and acknowledged - at no instant may the file list both holds
			return conc.Program{
				Setup: func() any {
					w := newWorld(t, cfgFile(), "s1", "s2")
					w.mustTry("s1", "x", nil, nil, "h")
					w.mustTry("s1", "y", nil, nil, "hy")
					w.enableSnapshots()
					return w
				},
				Threads: []conc.Thread{
					{Name: "L", Run: func(c any) { c.(*world).lock("L", "s2", "x", nil, nil, nil, "l") }},
					{Name: "D", Run: func(c any) { c.(*world).disconnect("D", "s1") }},
				},
				Finish: func(c any) conc.Outcome {
					w := c.(*world)
					return finish(w, func() {
						crashMonitor(w, map[string]int{"x": 1, "y": 1}, false)
						sessionEndMonitor(w, "s1", []string{"x", "y"}, map[string]string{"x": "l"}, "waiter-behind-ended-session")
					})
				},
			}
		}},
		{name: "restart (crash images)", props: []string{"C09"}, bound: 1, prog: func(t *testing.T) conc.Program {
			// the next start after a kill is itself a process that can be killed at any instant: while it
			// restores the holds, the file must keep describing every acknowledged hold
			return conc.Program{
				Setup: func() any {
					w := newWorld(t, cfgFile(), "s1", "s2")
					w.mustTry("s1", "x", nil, nil, "h")
					w.mustTry("s1", "y", p32(2), nil, "hy")
					w.mustTry("s2", "y", p32(2), p32(60), "hy2")
					w.mustTry("s2", "z", nil, nil, "hz")
					for _, h := range [][2]string{{"x", "h"}, {"y", "hy"}, {"y", "hy2"}, {"z", "hz"}} {
						w.calls = append(w.calls, &call{Thread: "setup", Kind: "trylock", Name: h[0], Key: w.keys[h[1]], Ok: true, Done: true, Err: "-"})
					}
					w.enableSnapshots()
					return w
				},
				Threads: []conc.Thread{
					{Name: "R", Run: func(c any) { c.(*world).restart("R") }},
				},
				Finish: func(c any) conc.Outcome {
					w := c.(*world)
					return finish(w, func() {
						crashMonitor(w, map[string]int{"x": 1, "y": 2, "z": 1}, false)
						if w.ls2 == nil {
							w.v("conc:crash:restart-failed", "the next start on the state file of a running server failed (%s)", w.summary())
							return
						}
						for _, h := range [][2]string{{"x", "h"}, {"y", "hy"}, {"y", "hy2"}, {"z", "hz"}} {
							found := false
							for _, lk := range w.ls2.Locks() {
								found = found || lk.Name() == h[0] && lk.Key() == w.keys[h[1]]
							}
							if !found {
								w.v("conc:crash:restart-lost-hold", "the next start did not restore the acknowledged live hold %s/%s", h[0], h[1])
							}
						}
					})
				},
			}
		}},
		{name: "trylock||unlock (crash images)", props: []string{"C09"}, bound: 2, prog: func(t *testing.T) conc.Program {
			return conc.Program{
				Setup: func() any {
					w := newWorld(t, cfgFile(), "s1", "s2")
					w.mustTry("s1", "x", nil, nil, "h")
					w.calls = append(w.calls, &call{Thread: "setup", Kind: "trylock", Name: "x", Key: w.keys["h"], Ok: true, Done: true, Err: "-"})
					w.enableSnapshots()
					return w
				},
				Threads: []conc.Thread{
					{Name: "T", Run: func(c any) { c.(*world).tryLock("T", "s2", "y", p32(2), nil, "t") }},
					{Name: "U", Run: func(c any) { c.(*world).unlock("U", "s1", "x", "h") }},
				},
				Finish: func(c any) conc.Outcome {
					w := c.(*world)
					return finish(w, func() { crashMonitor(w, map[string]int{"x": 1, "y": 2}, false) })
				},
			}
		}},
	}
}

// ---------------------------------------------------------------- monitors

// truthMonitor (C05): every answer of Unlock / Renew on hold (name,label) must be true at quiescence.
func truthMonitor(w *world, name, label string, renewT int64) {
	key := w.keys[label]
	_, keys, _ := w.tableKeys(name)
	held := false
	for _, k := range keys {
		held = held || k == key
	}
	unlocked, renewed := false, false
	for _, c := range w.calls {
		if c.Done && c.Ok && c.Kind == "unlock" {
			unlocked = true
		}
		if c.Done && c.Ok && c.Kind == "renew" {
			renewed = true
		}
	}
	expired := w.now() >= int64(5*time.Second)
	if unlocked && held {
		w.v("conc:truth:unlocked-but-held", "Unlock answered unlocked=true but the hold still occupies lock %q at quiescence (renewed=%v)", name, renewed)
	}
	if unlocked {
		if free := w.probeFree(name, nil); free != 1 {
			w.v("conc:truth:unlocked-but-busy", "Unlock answered unlocked=true but a TryLock of %q is refused at quiescence", name)
		}
	}
	if renewed && !unlocked && !held {
		w.v("conc:truth:renewed-but-gone", "Renew answered locked=true but the hold is gone at quiescence although nobody unlocked it (lease deadline passed: %v)", expired)
	}
	if !unlocked && !renewed && !expired && !held {
		w.v("conc:truth:lost-hold", "nobody released the hold and its lease has not expired, yet it is gone")
	}
	// nothing may resurrect or linger past the longest lease
	time.Sleep(time.Duration(renewT+1) * time.Second)
	synctest.Wait()
	if _, keys, _ := w.tableKeys(name); len(keys) > 0 {
		w.v("conc:truth:held-past-horizon", "hold of %q still present after every lease has run out", name)
	}
}

// sessionEndMonitor (C06): after the session has ended and every in-flight call has returned, no
// hold of that session remains, other sessions' holds are untouched, nothing panicked.
func sessionEndMonitor(w *world, sid string, names []string, others map[string]string, class string) {
	for _, n := range names {
		_, keys, _ := w.tableKeys(n)
		for _, k := range keys {
			l := w.label(k)
			for _, c := range w.calls {
				if c.Key == k && (c.Kind == "trylock" || c.Kind == "lock") && c.Thread != "setup" || (l == "h1" || l == "h3") && c.Key == k {
					_ = c
				}
			}
			owner := ""
			for _, c := range w.calls {
				if c.Done && c.Ok && c.Key == k && (c.Kind == "trylock" || c.Kind == "lock") {
					owner = c.Thread
				}
			}
			// holds of other sessions on these names are passed in `others`
			foreign := false
			for on, ol := range others {
				if on == n && w.keys[ol] == k {
					foreign = true
				}
			}
			if !foreign {
				w.v("conc:session-end:hold-left:"+class, "after session %s ended and all its calls returned, lock %q is still held with key %s (granted to thread %q)", sid, n, l, owner)
				// K2 leaves such a hold LISTED (the late AddLock re-creates the session entry). A hold that
				// stays in the lock table and is in no session's listing either is a different defect: nobody,
				// not even the admin tool by name, can find it
				listed := false
				for _, lk := range w.ls.Locks() {
					listed = listed || lk.Name() == n && lk.Key() == k
				}
				if !listed {
					w.v("conc:session-end:hold-left-unlisted:"+class, "after session %s ended and all its calls returned, lock %q is still held with key %s (granted to thread %q) and no session's listing shows it", sid, n, l, owner)
				}
			}
		}
	}
	for n, l := range others {
		_, keys, _ := w.tableKeys(n)
		ok := false
		for _, k := range keys {
			ok = ok || k == w.keys[l]
		}
		if !ok {
			w.v("conc:session-end:other-session-affected", "hold %s of another session on %q disappeared when session %s ended", l, n, sid)
		}
	}
	for _, e := range w.listing() {
		for _, n := range names {
			if strings.HasPrefix(e, n+"/") {
				foreign := false
				for on := range others {
					foreign = foreign || on == n
				}
				if !foreign {
					w.v("conc:session-end:listed-after-end:"+class, "after session %s ended the admin listing still shows %s", sid, e)
				}
			}
		}
	}
}

// waiterMonitor (C03): no lost wake-up, no early time-out, a waiter that gave up holds nothing.
func waiterMonitor(w *world, name string, size int) {
	_, keys, _ := w.tableKeys(name)
	blocked := 0
	for _, c := range w.callsOf("lock") {
		if !c.Done {
			blocked++
		}
		if c.Done && c.Err == "LockWaitTimeout" {
			if c.Ok {
				w.v("conc:waiter:timeout-with-hold", "Lock returned LockWaitTimeout together with locked=true")
			}
		}
		if c.Done && !c.Ok {
			for _, k := range keys {
				if k == c.Key && c.Key != "" {
					w.v("conc:waiter:gave-up-but-holds", "a Lock call that returned without the lock is a holder of %q", name)
				}
			}
		}
	}
	if blocked > 0 && len(keys) < size {
		w.v("conc:waiter:lost-wakeup", "%d Lock call(s) are still blocked on %q although %d of %d units are free", blocked, name, size-len(keys), size)
	}
}

func (w *world) lockWaitStart(c *call) int64 { return c.Start }

// earlyTimeout is checked by the caller with the wait time-out it used.
func earlyTimeout(w *world, wt map[string]int64) {
	for _, c := range w.callsOf("lock") {
		if d, ok := wt[c.Thread]; ok && c.Done && c.Err == "LockWaitTimeout" && c.End-c.Start < d {
			w.v("conc:waiter:early-timeout", "Lock of thread %s timed out after %d ns, before its wait time-out of %d ns", c.Thread, c.End-c.Start, d)
		}
		if d, ok := wt[c.Thread]; ok && c.Done && c.Err == "LockWaitTimeout" && c.End-c.Start > d {
			w.v("conc:waiter:late-timeout", "Lock of thread %s timed out after %d ns, later than its wait time-out of %d ns", c.Thread, c.End-c.Start, d)
		}
	}
}

// linearizable (C02): is there a sequential order of the completed Lock/TryLock/Unlock calls on one
// lock, consistent with real-time precedence, that a counting lock with keys explains?  Calls that
// did not return may take effect or not. (Brute force: programs have at most 5 calls.)
// threadHistory records the Lock / TryLock / Unlock calls on one lock name as a history for the
// threaded lock-table model M1t (driver linthreads): invocation and return events in the order they
// happened, keys as labels (i<n> initial hold, c<n> key given to call n, u<n> a key nobody holds), the
// result as a class (1, 0, n = lock does not exist, c = gave up, r = refused before the lock object).
func threadHistory(w *world, name string, size int, initial []string) {
	type ev struct {
		seq  int
		line string
	}
	var evs []ev
	label := map[string]string{}
	for i, k := range initial {
		label[k] = fmt.Sprintf("i%d", i)
	}
	id := 0
	var cs []*call
	for _, c := range w.calls {
		if c.Name == name && (c.Kind == "lock" || c.Kind == "trylock" || c.Kind == "unlock") && c.Thread != "setup" {
			cs = append(cs, c)
		}
	}
	if len(cs) == 0 || len(cs) > 8 {
		return
	}
	for i, c := range cs { // keys granted by the calls themselves
		if c.Kind != "unlock" && c.Done && c.Ok && c.Key != "" {
			label[c.Key] = fmt.Sprintf("c%d", i+1)
		}
	}
	for i, c := range cs {
		id = i + 1
		key := fmt.Sprintf("c%d", id)
		if c.Kind == "unlock" {
			if l, ok := label[c.Key]; ok {
				key = l
			} else {
				key = fmt.Sprintf("u%d", id)
			}
		}
		evs = append(evs, ev{c.Seq0, fmt.Sprintf("inv %d %s %s", id, c.Kind, key)})
		if !c.Done {
			continue
		}
		cls := "?"
		switch {
		case c.Ok:
			cls = "1"
		case c.Err == "-" || c.Err == "InvalidLockKey":
			cls = "0"
		case c.Err == "LockDoesNotExist":
			cls = "n"
		case c.Err == "LockWaitTimeout" || c.Err == "Canceled" || c.Err == "ManagerShutdown" || strings.Contains(c.Err, "deadline_exceeded"):
			cls = "c"
		case c.Err == "LockSizeMismatch" || c.Err == "InvalidLockSize":
			cls = "r"
		}
		evs = append(evs, ev{c.Seq1, fmt.Sprintf("ret %d %s", id, cls)})
	}
	sort.Slice(evs, func(i, j int) bool { return evs[i].seq < evs[j].seq })
	ks := "-"
	if len(initial) > 0 {
		ls := []string{}
		for i := range initial {
			ls = append(ls, fmt.Sprintf("i%d", i))
		}
		ks = strings.Join(ls, ",")
	}
	lines := []string{fmt.Sprintf("hist size=%d keys=%s", size, ks)}
	for _, e := range evs {
		lines = append(lines, e.line)
	}
	w.thist = append(w.thist, strings.Join(lines, "\n"))
}

func linearizable(w *world, name string, size int, initial []string) {
	threadHistory(w, name, size, initial)
	var cs []*call
	for _, c := range w.calls {
		if c.Name == name && (c.Kind == "lock" || c.Kind == "trylock" || c.Kind == "unlock") && c.Thread != "setup" {
			cs = append(cs, c)
		}
	}
	n := len(cs)
	if n > 6 {
		return
	}
	used := make([]bool, n)
	var rec func(held map[string]bool, done int) bool
	rec = func(held map[string]bool, done int) bool {
		if done == n {
			return true
		}
		for i, c := range cs {
			if used[i] {
				continue
			}
			// real-time order: every call that returned before c was invoked must already be placed
			ok := true
			for j, d := range cs {
				if !used[j] && j != i && d.Done && d.Seq1 < c.Seq0 {
					ok = false
				}
			}
			if !ok {
				continue
			}
			used[i] = true
			if !c.Done {
				// pending call: may have had no effect
				if rec(held, done+1) {
					used[i] = false
					return true
				}
			}
			switch c.Kind {
			case "trylock":
				if c.Done && c.Ok == (len(held) < size) || !c.Done {
					if c.Ok || !c.Done && len(held) < size {
						held[c.Key+"#"+c.Thread] = true
						if rec(held, done+1) {
							used[i] = false
							return true
						}
						delete(held, c.Key+"#"+c.Thread)
					} else if rec(held, done+1) {
						used[i] = false
						return true
					}
				}
			case "lock":
				if c.Done && c.Ok || !c.Done {
					if len(held) < size {
						held[c.Key+"#"+c.Thread] = true
						if rec(held, done+1) {
							used[i] = false
							return true
						}
						delete(held, c.Key+"#"+c.Thread)
					}
				} else if c.Done && !c.Ok { // timed out / cancelled: no effect; legal only if it could not be served... (a blocking call that fails is always explainable)
					if rec(held, done+1) {
						used[i] = false
						return true
					}
				}
			case "unlock":
				has := ""
				for k := range held {
					if strings.HasPrefix(k, c.Key+"#") {
						has = k
					}
				}
				if c.Done && c.Ok == (has != "") || !c.Done {
					if has != "" {
						delete(held, has)
						if rec(held, done+1) {
							used[i] = false
							return true
						}
						held[has] = true
					} else if rec(held, done+1) {
						used[i] = false
						return true
					}
				}
			}
			used[i] = false
		}
		return false
	}
	held := map[string]bool{}
	for _, k := range initial {
		held[k+"#setup"] = true
	}
	if !rec(held, 0) {
		w.v("conc:nonlinearizable", "no sequential execution of a counting lock of size %d explains: %s", size, w.summary())
	}
}

// crashMonitor (C09): every file image seen at a yield must load, must contain every acknowledged
// live hold, must not contain an acknowledged-released hold, and must respect the sizes.
func crashMonitor(w *world, sizes map[string]int, expiryInPlay bool) {
	seen := map[string]bool{}
	for _, s := range w.acks {
		k := s.bytes + "|" + strings.Join(s.live, ",") + "|" + strings.Join(s.released, ",")
		if seen[k] {
			continue
		}
		seen[k] = true
		where := "outside-rewrite"
		if strings.Contains(s.label, "store/store.go") || s.rewriting != "" {
			where = "in-rewrite"
		}
		m, err := decodeImage(w, []byte(s.bytes))
		if err != "" {
			w.v("conc:crash:unloadable:"+where, "a kill at %s leaves a %d-byte state file that does not load: %s", s.label, len(s.bytes), err)
			continue
		}
		count := map[string]int{}
		has := map[string]bool{}
		for _, ls := range m {
			for _, l := range ls {
				count[l.Name()]++
				has[l.Name()+"/"+l.Key()] = true
			}
		}
		for n, c := range count {
			if sz, ok := sizes[n]; ok && c > sz {
				w.v("conc:crash:file-overcapacity", "a kill at %s leaves a state file listing %d holds of lock %q of size %d", s.label, c, n, sz)
			}
		}
		for _, l := range s.live {
			if !has[l] {
				if expiryInPlay && strings.HasSuffix(l, "/"+w.keys["h"]) && w.now() >= int64(5*time.Second) {
					continue // the lease of the setup hold may have run out: not an acknowledged-live hold any more
				}
				w.v("conc:crash:acked-hold-missing:"+where, "a kill at %s leaves a %d-byte state file without the acknowledged live hold %s", s.label, len(s.bytes), w.pretty(l))
			}
		}
		for _, l := range s.released {
			if has[l] {
				w.v("conc:crash:released-hold-present:"+where, "a kill at %s leaves a state file that still lists %s whose release was acknowledged", s.label, w.pretty(l))
			}
		}
	}
}

func (w *world) pretty(nk string) string {
	i := strings.IndexByte(nk, '/')
	return nk[:i] + "/" + w.label(nk[i+1:])
}

// shutdownFileMonitor: after a graceful shutdown the state file records every hold that was
// acknowledged and whose release was not acknowledged (unlocked=true), and nothing whose release was.
func shutdownFileMonitor(w *world) {
	b, err := os.ReadFile(w.statePath)
	if err != nil {
		w.v("conc:shutdown:file-unreadable", "state file after shutdown: %v", err)
		return
	}
	m, es := decodeImage(w, b)
	if es != "" {
		w.v("conc:shutdown:file-unloadable", "the state file left by the shutdown does not load: %s", es)
		return
	}
	in := map[string]bool{}
	for _, ls := range m {
		for _, l := range ls {
			in[l.Name()+"/"+l.Key()] = true
		}
	}
	released := map[string]bool{}
	for _, c := range w.calls {
		if c.Kind == "unlock" && c.Done && c.Ok {
			released[c.Name+"/"+c.Key] = true
		}
	}
	type hd struct{ name, label string }
	live := []hd{{"x", "h1"}, {"y", "h2"}, {"z", "h3"}}
	for _, c := range w.calls {
		if (c.Kind == "trylock" || c.Kind == "lock") && c.Done && c.Ok && c.Thread != "setup" {
			live = append(live, hd{c.Name, w.label(c.Key)})
		}
	}
	for _, h := range live {
		k := h.name + "/" + w.keys[h.label]
		switch {
		case released[k] && in[k]:
			w.v("conc:shutdown:released-hold-in-file", "hold %s of %q was released (unlocked=true acknowledged) but the state file left by the shutdown records it", h.label, h.name)
		case !released[k] && !in[k]:
			w.v("conc:shutdown:live-hold-not-in-file", "hold %s of %q was granted and never acknowledged released, but the state file left by the graceful shutdown does not record it: the next start will not restore it", h.label, h.name)
		}
	}
}

func decodeImage(w *world, b []byte) (m map[string][]cl.Lock, errs string) {
	defer func() {
		if r := recover(); r != nil {
			errs = fmt.Sprint("panic: ", r)
		}
	}()
	p := filepath.Join(w.dir, "image")
	os.WriteFile(p, b, 0o644)
	st, err := store.New(p)
	if err != nil {
		return nil, err.Error()
	}
	defer st.Close()
	m, err = st.Read()
	if err != nil {
		return nil, err.Error()
	}
	return m, ""
}

// ---------------------------------------------------------------- the stream

func TestConc(t *testing.T) {
	prop := common.Prop()
	res := common.NewResult("conc")
	res.Rule = "small concurrent programs (2-4 calls + lease/wait ticks + session end / GC pass) on the instrumented real LockServer; every schedule with at most `bound` preemptions (depth-first, capped) plus PCT-style random schedules; each schedule = fresh bubble and fresh server. distinct = distinct (template, schedule trace); non-trivial = at least one preemption or tick placed between two calls"
	defer func() {
		if err := res.Write(); err != nil {
			t.Fatal(err)
		}
	}()
	maxRuns, nRandom := common.EnvInt("VERIF_CONC_RUNS", 2500), 300
	if common.Thorough() {
		maxRuns, nRandom = common.EnvInt("VERIF_CONC_RUNS", 60000), 20000
	}
	if prop == "C02" && os.Getenv("VERIF_TEMPLATE") == "" {
		handBackProbe(res, prop)
	}
	if prop == "C02" && os.Getenv("VERIF_TEMPLATE") == "" {
		nameIdentityProbe(res, prop)
		freeNeverBusyProbe(res, prop)
	}
	if prop == "C01" && os.Getenv("VERIF_TEMPLATE") == "" {
		parallelCapacityProbe(res, prop)
	}
	rng := common.NewRng(common.Seed())
	only := os.Getenv("VERIF_TEMPLATE")
	for _, tp := range templates() {
		if !containsStr(tp.props, prop) && prop != "" {
			continue
		}
		if only != "" && only != tp.name {
			continue
		}
		prog := tp.prog(t)
		prog.Name = tp.name
		outcomes := map[string]int{}
		traces := map[string]func() map[string]any{}  // distinct manager-call traces -> replay of the first schedule that produced it
		straces := map[string]func() map[string]any{} // the same per observed hold of an ending session (M3b)
		ttraces := map[string]func() map[string]any{} // Lock/TryLock/Unlock call histories per lock name (M1t)
		ctraces := map[string]func() map[string]any{} // manager calls + file-image changes + answers (M7)
		bound := tp.bound
		if common.Thorough() {
			bound++
		}
		visit := func(r conc.RunResult) bool {
			res.Eval(tp.name+"|"+strings.Join(r.Trace, ","), conc.Preemptions(r.Trace, r.Alts) > 0 || strings.Contains(strings.Join(r.Trace, ","), "~T"))
			outcomes[r.Outcome.Key]++
			rp := func() map[string]any {
				return map[string]any{"template": tp.name, "schedule": conc.Compress(r.Trace), "trace": r.Trace, "outcome": r.Outcome.Key,
					"panics": r.Panics, "blocked": r.Blocked, "calls": r.Outcome.Detail["calls"], "model_agrees": true}
			}
			if mt, ok := r.Outcome.Detail["mgrtrace"].([]string); ok && len(mt) > 0 && containsStr(tp.props, "C05") && prop == "C05" {
				k := "hist\n" + strings.Join(mt, "\n")
				if _, seen := traces[k]; !seen {
					traces[k] = rp
				}
			}
			if sts, ok := r.Outcome.Detail["sesstrace"].([]string); ok && prop == "C06" {
				for _, k := range sts {
					if _, seen := straces[k]; !seen {
						straces[k] = rp
					}
				}
			}
			if ths, ok := r.Outcome.Detail["threadhist"].([]string); ok && (prop == "C01" || prop == "C02" || prop == "C03" || prop == "C13") && len(r.Panics) == 0 {
				for _, k := range ths {
					if _, seen := ttraces[k]; !seen {
						ttraces[k] = rp
					}
				}
			}
			if ch, ok := r.Outcome.Detail["crashhist"].(string); ok && prop == "C09" && len(r.Panics) == 0 && !strings.HasSuffix(tp.name, "[open]") {
				if _, seen := ctraces[ch]; !seen {
					ctraces[ch] = rp
				}
			}
			for _, p := range r.Panics {
				res.Find(common.Finding{Kind: "violation", Property: prop, Signature: "conc:panic:" + panicClass(p), What: "a goroutine panicked: " + p, Replay: rp()})
			}
			if r.Deadlock != "" {
				res.Find(common.Finding{Kind: "violation", Property: prop, Signature: "conc:deadlock", What: "goroutines still blocked when everything else had finished: " + r.Deadlock, Replay: rp()})
			}
			if vs, ok := r.Outcome.Detail["violations"].([]map[string]string); ok {
				for _, v := range vs {
					if relevant(prop, v["sig"]) {
						res.Find(common.Finding{Kind: "violation", Property: prop, Signature: v["sig"] + "@" + strings.TrimSuffix(tp.name, " [open]"), What: v["what"], Replay: rp()})
					}
				}
			}
			return true
		}
		runs, exhausted := conc.ExploreDFS(t, prog, bound, maxRuns, visit)
		conc.ExploreRandom(t, prog, nRandom, rng.Fork(uint64(len(tp.name))), visit)
		// second pass with yields live INSIDE critical sections too (the mutexes still exclude): shows
		// accesses one side makes outside the mutex the other side holds
		open := prog
		setup := prog.Setup
		open.Setup = func() any { c := setup(); verifrt.SetNoSuppress(true); return c }
		orig := tp.name
		tp.name = orig + " [open]"
		r2, _ := conc.ExploreDFS(t, open, bound, maxRuns/2, visit)
		conc.ExploreRandom(t, open, nRandom, rng.Fork(uint64(len(tp.name))+7), visit)
		tp.name = orig
		runs += r2 + nRandom
		res.CountN("schedules:"+tp.name, runs+nRandom)
		if exhausted {
			res.Count("dfs-exhausted:" + tp.name)
		}
		validateTraces(t, res, prop, tp.name, traces, "linlease", "lease", "the lease model M3a")
		validateTraces(t, res, prop, tp.name, straces, "linsess", "session-end", "the session-end model M3b")
		validateTraces(t, res, prop, tp.name, ttraces, "linthreads", "threads", "the threaded lock-table model M1t")
		validateTraces(t, res, prop, tp.name, ctraces, "lincrash", "crash", "the crash model M7")
		res.CountN("distinct-outcomes:"+tp.name, len(outcomes))
		ks := common.SortedKeys(outcomes)
		if len(ks) > 0 {
			res.Sample(map[string]any{"template": tp.name, "bound": bound, "schedules": runs + nRandom, "outcomes": ks[:min(len(ks), 6)]})
		}
	}
}

func containsStr(xs []string, x string) bool {
	for _, y := range xs {
		if x == y {
			return true
		}
	}
	return false
}

func panicClass(p string) string {
	for _, k := range []string{"Tried to lock deleted lock", "has no session entry", "nil pointer", "semaphore: released more than held", "close of closed channel", "send on closed channel"} {
		if strings.Contains(p, k) {
			return strings.ReplaceAll(k, " ", "-")
		}
	}
	f := strings.Fields(p)
	if len(f) > 6 {
		f = f[:6]
	}
	return strings.Join(f, "-")
}

// which monitor classes count for which property
func relevant(prop, sig string) bool {
	switch prop {
	case "C01":
		return strings.HasPrefix(sig, "conc:capacity")
	case "C02":
		return strings.HasPrefix(sig, "conc:nonlinearizable") || strings.HasPrefix(sig, "conc:capacity:free-units")
	case "C03":
		return strings.HasPrefix(sig, "conc:waiter")
	case "C05":
		return strings.HasPrefix(sig, "conc:truth")
	case "C06":
		return strings.HasPrefix(sig, "conc:session-end")
	case "C09":
		return strings.HasPrefix(sig, "conc:crash")
	case "C11":
		return strings.HasPrefix(sig, "conc:shutdown")
	case "C13":
		return strings.HasPrefix(sig, "conc:gc") || strings.HasPrefix(sig, "conc:capacity")
	case "C14":
		return strings.HasPrefix(sig, "conc:code")
	case "C04":
		return strings.HasPrefix(sig, "conc:truth:held-past-horizon") || strings.HasPrefix(sig, "conc:capacity:free-units")
	}
	return true
}

// validateTraces: every distinct manager-call trace of the observed hold must be a run of the
// Lean model M3a (driver linlease: the calls, in some order that respects real time, are the model's
// steps with the model's results). A rejected trace is a model/implementation disagreement.
func validateTraces(t *testing.T, res *common.Result, prop, tpl string, traces map[string]func() map[string]any, mode, tag, model string) {
	if len(traces) == 0 {
		return
	}
	keys := common.SortedKeys(traces)
	var in strings.Builder
	for _, k := range keys {
		in.WriteString(k + "\nend\n")
	}
	cmd := exec.Command(common.LeanDriver(), mode)
	cmd.Stdin = strings.NewReader(in.String())
	cmd.Stderr = os.Stderr
	out, err := cmd.Output()
	if err != nil {
		t.Fatalf("lean driver %s: %v", mode, err)
	}
	lines := strings.Split(strings.TrimRight(string(out), "\n"), "\n")
	if len(lines) != len(keys) {
		t.Fatalf("lean driver %s: %d histories in, %d answers out", mode, len(keys), len(lines))
	}
	res.CountN(tag+"-traces-validated:"+tpl, len(keys))
	for i, k := range keys {
		if lines[i] == "ok" {
			continue
		}
		rp := traces[k]()
		rp["manager_calls"] = strings.Split(k, "\n")
		rp["model"] = lines[i]
		rp["model_agrees"] = false
		res.Find(common.Finding{Kind: "disagreement", Property: prop, Signature: "conc:trace:" + tag + "-model@" + tpl,
			What:   "the calls the server made into its managers for the observed hold are not a run of " + model + ": " + lines[i],
			Replay: rp})
	}
}
