import Ldlm.Proofs.CoreRestart
import Ldlm.Props.C17
/-!
C08 — Admin listing, state file and lock table describe the same holds.

Model M2 is sequential, so every state is quiescent.  For every state satisfying the reachability
invariant `Inv'` (every state reachable by any history, restarts included, does — `reachable`):

* `listed_is_held`  — every hold in the listing (session table) occupies capacity in the lock table,
                      under the same name, key and size.  No hypothesis on the configuration.
* `held_is_listed_partial` — conversely every key occupying capacity is listed — **partial**: only
                      with clearing on disconnect (`noClear = false`).  With no-clear-on-disconnect the
                      statement is false of the code (known finding K1): `noclear_views_differ` is the
                      kernel-checked counterexample (connect, TryLock, disconnect).
* `views_agree_partial` — the pointwise equivalence, and uniqueness of listing entries
                      (`listing_unique`) which makes the collection-level reading (same multiset of
                      (name, key, size) triples) a corollary.
* `file_is_listing` — the state file holds exactly the session table except for sessions that were
                      created after the last rewrite and still have no holds (`CreateSession` does
                      not rewrite the file).
* `file_decodes`    — link to M0: the bytes `store.Write` produces for that table decode to it.
-/
namespace Ldlm.Props.C08
open Ldlm.Core

variable {M : Type} {o : MapOps M} {c : Cfg}

def listed (s : St M) (n k : Str) (sz : Int) : Prop := ∃ sid, booked s sid ⟨n, k, sz⟩
def heldWith (o : MapOps M) (s : St M) (n k : Str) (sz : Int) : Prop :=
  ∃ r, o.get s.locks n = some r ∧ k ∈ r.keys ∧ r.size = sz

theorem listed_is_held {s : St M} (h : Inv' o c s) (n k : Str) (sz : Int) (hl : listed s n k sz) :
    heldWith o s n k sz := by
  obtain ⟨sid, hb⟩ := hl
  rcases h.bh sid _ hb with hh | hx
  · exact hh
  · cases hx

theorem held_is_listed_partial {s : St M} (h : Inv' o c s) (hnc : c.noClear = false) (n k : Str) (sz : Int)
    (hh : heldWith o s n k sz) : listed s n k sz := by
  obtain ⟨r, hg, hk, hsz⟩ := hh
  rcases h.hb hnc n r k hg hk with hb | hx
  · rw [← hsz]; exact hb
  · cases hx

/-- **C08 (partial: `noClear = false`).** -/
theorem views_agree_partial {s : St M} (h : Inv' o c s) (hnc : c.noClear = false) (n k : Str) (sz : Int) :
    listed s n k sz ↔ heldWith o s n k sz :=
  ⟨listed_is_held h n k sz, held_is_listed_partial h hnc n k sz⟩

/-- a (name, key) pair is listed at most once: in one session only, and once in that session's list -/
theorem listing_unique {s : St M} (h : Inv' o c s) :
    (∀ sid1 sid2 h1 h2, booked s sid1 h1 → booked s sid2 h2 → pairOf h1 = pairOf h2 → sid1 = sid2) ∧
    (∀ sid hs, AMap.get s.sessions sid = some hs → (hs.map pairOf).Nodup) := ⟨h.u1, h.u2⟩

/-- the file is the session table, up to hold-less sessions created since the last rewrite -/
theorem file_is_listing {s : St M} (h : Inv' o c s) (sid : Sid) :
    AMap.get s.file sid = AMap.get s.sessions sid ∨
    (AMap.get s.file sid = none ∧ AMap.get s.sessions sid = some []) := h.fs sid

/-- the state-file image of a table decodes to that table (M0's round trip) -/
theorem file_decodes (f : Ldlm.Codec.File) (m : List (Sid × List Hold)) (hw : Ldlm.Codec.wfMap m) :
    ((f.store m).load).1 = .ok m := by
  have := Ldlm.Props.C17.rewrites_exact f [] m hw
  simpa using this

/-! ### K1: with no-clear-on-disconnect the views differ (refutation of the unrestricted statement) -/

def cfgNoClear : Cfg := { gcInterval := 0, gcMinIdle := 0, dlt := 600 * sec, noClear := true, hasFile := true,
                          genKey := fun n => 75 :: natDigits n }
def s1 : Str := [115, 49]
def k1History : List Op := [.connect s1, .tryLock (some s1) [97] none none, .disconnect s1]

/-- after `connect; TryLock a; disconnect` with no-clear: the listing is empty, the file is empty,
and lock `a` is still held with key K0 -/
theorem noclear_views_differ :
    (run flatOps cfgNoClear k1History).sessions = [] ∧ (run flatOps cfgNoClear k1History).file = [] ∧
    (AMap.get (run flatOps cfgNoClear k1History).locks [97]).map (·.keys) = some [cfgNoClear.genKey 0] := by
  decide

/-! non-vacuity of the partial theorem: the same history with clearing leaves an agreeing state -/
def cfgClear : Cfg := { cfgNoClear with noClear := false }
example : (run flatOps cfgClear (k1History.take 2)).sessions = [(s1, [⟨[97], cfgClear.genKey 0, 1⟩])] := by decide
example : (AMap.get (run flatOps cfgClear k1History).locks [97]).map (·.keys) = some [] := by decide

/-! ### for every reachable state -/

theorem reachable (ho : o.Lawful) (hinj : KeysInjective c) (ops : List Op) : Inv' o c (run o c ops) :=
  (run_invS ho hinj ops).1

/-- after ANY history (restarts included) whatever the listing shows occupies capacity, … -/
theorem listed_is_held_reachable (ho : o.Lawful) (hinj : KeysInjective c) (ops : List Op) (n k : Str) (sz : Int)
    (hl : listed (run o c ops) n k sz) : heldWith o (run o c ops) n k sz :=
  listed_is_held (reachable ho hinj ops) n k sz hl

/-- … and with clearing on disconnect the two views agree exactly -/
theorem views_agree_reachable (ho : o.Lawful) (hinj : KeysInjective c) (hnc : c.noClear = false) (ops : List Op)
    (n k : Str) (sz : Int) : listed (run o c ops) n k sz ↔ heldWith o (run o c ops) n k sz :=
  views_agree_partial (reachable ho hinj ops) hnc n k sz

end Ldlm.Props.C08
