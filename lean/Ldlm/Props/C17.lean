import Ldlm.Model.Codec
import Ldlm.Proofs.CodecRoundTrip
import Ldlm.Proofs.CodecSafety
/-!
C17 — State file codec round-trips every map and rejects damaged input safely.

Full-strength statements and their status on the current tree:

* round trip, for every well-formed map and any sequence of rewrites: **proved** (`dec_enc`,
  `rewrite_exact`, `rewrites_exact`);
* decode is total (no hang): the decoder is a structurally recursive Lean function — every `Out`
  computation below is a total function by construction;
* "damaged bytes never panic / never allocate out of proportion": **false of the code**
  (known findings K5–K7); proved instead is `dec_safe_partial`, under the decidable hypothesis that
  none of the four guard positions trips, together with the concrete refutations of the
  unrestricted statement (`dec_panics_neglen`, `dec_panics_past_end`, `dec_panics_makeslice`,
  `dec_overallocates`, `dec_accepts_bad_terminator`).
-/
namespace Ldlm.Props.C17
open Ldlm.Codec

/-- Round trip: whatever `store.Write` emits for a map, `store.Read`'s decoder returns that map
(entries in the order they were written = some iteration order of the Go map). -/
theorem dec_enc (m : List (Bytes × List Hold)) (hw : wfMap m) : (decode (encMap m)).1 = .ok m := by
  obtain ⟨p', h⟩ := decMap_enc false m 0 hw
  simp [decode, h]

/-- One rewrite leaves exactly the new encoding in the file, whatever was there before
(`Truncate(0)`, `Seek(0,0)`, `Write`). -/
theorem rewrite_exact (f : File) (m : List (Bytes × List Hold)) : (f.store m).bytes = encMap m := by
  simp [File.store, File.write, File.truncate0, File.seek0]

/-- Any sequence of rewrites of growing and shrinking length: the file holds the last map. -/
theorem rewrites_exact (f : File) (ms : List (List (Bytes × List Hold))) (m : List (Bytes × List Hold))
    (hw : wfMap m) : ((ms ++ [m]).foldl File.store f).load.1 = .ok m := by
  rw [List.foldl_append]
  simp only [List.foldl_cons, List.foldl_nil, File.load, rewrite_exact]
  have hne : encMap m ≠ [] := by
    intro h; simp [encMap] at h; exact encUvarint_ne_nil _ h.1
  simp only [hne, if_false]
  exact dec_enc m hw

/-- no guard position trips on `b` (decidable: run the guarded decoder) -/
def noGuard (b : Bytes) : Prop := (decMap true b 0).1.isGuard = false

instance (b : Bytes) : Decidable (noGuard b) := by unfold noGuard; infer_instance

/-- C17, second half, **partial**: on inputs on which no length/count read along the decode path
exceeds what the buffer can hold, the real decoder returns a map or an error, never panics, and
never asks for more than 48 bytes per input byte. -/
theorem dec_safe_partial (b : Bytes) (h : noGuard b) :
    (decode b).1.isPanic = false ∧ (decode b).2 ≤ 48 * b.length := by
  have ha : decMap false b 0 = decMap true b 0 := agree_decMap b 0 h
  have hs := safe_decMap b 0
  unfold decode
  rw [ha]
  exact ⟨hs.1, by have := hs.2; omega⟩

/-- every valid encoding satisfies the hypothesis of `dec_safe_partial` (it is not vacuous, and the
files the server writes itself are inside it) -/
theorem noGuard_of_encoding (m : List (Bytes × List Hold)) (hw : wfMap m) : noGuard (encMap m) := by
  obtain ⟨p', h⟩ := decMap_enc true m 0 hw
  simp [noGuard, h, Res.isGuard]

/-! ### non-vacuity: a concrete, non-trivial map satisfies `wfMap` and round-trips -/

def sampleMap : List (Bytes × List Hold) :=
  [([115, 49], [⟨[97], [107, 49], 1⟩, ⟨[], [195, 169], -2147483648⟩]), ([], []), ([115, 50], [⟨[97, 98], [107], 2147483647⟩])]

theorem sampleMap_wf : wfMap sampleMap := by
  refine ⟨by decide, ?_⟩
  intro kv hkv
  simp only [sampleMap, List.mem_cons, List.not_mem_nil, or_false] at hkv
  rcases hkv with h | h | h <;> subst h <;>
    simp [wfEntry, wfSlice, wfHold, int32, two63, holdBytes, maxAlloc]

example : (decode (encMap sampleMap)).1 = .ok sampleMap := dec_enc _ sampleMap_wf

/-! ### refutations of the unrestricted second half (known findings K5, K6, K7) -/

/-- K5a: a string length ≥ 2^63 — `int(us)` is negative, the bound check passes, `b[n:n+s]` panics -/
theorem dec_panics_neglen :
    (decode [1, 128, 128, 128, 128, 128, 128, 128, 128, 128, 1]).1 = .panic .negLength := by decide

/-- K5b: the offset is advanced by 4 past a slice without a bound check; the next `buf[n:]` panics -/
theorem dec_panics_past_end : (decode [2, 0, 0]).1 = .panic .sliceStart := by decide

/-- K5c: a slice count ≥ 2^63 goes to `make` as a negative length -/
theorem dec_panics_makeslice :
    (decode [1, 0, 128, 128, 128, 128, 128, 128, 128, 128, 128, 1]).1 = .panic .makeslice := by decide

/-- K6: 8 bytes that make the decoder request 40 · 2^40 bytes (40 TiB) before it looks at the rest -/
theorem dec_overallocates :
    (decode [1, 0, 128, 128, 128, 128, 128, 32]).2 = 40 * 2 ^ 40 ∧
    ¬ (decode [1, 0, 128, 128, 128, 128, 128, 32]).2 ≤ 48 * 8 := by decide

/-- K7: the four terminator bytes are never compared -/
theorem dec_accepts_bad_terminator : (decode [0, 9, 9, 9, 9]).1 = .ok [] := by decide

/-- none of the witnesses above is inside the hypothesis of `dec_safe_partial`, the last one is
(accepting a wrong terminator is a defect of its own kind, not a safety violation) -/
example : ¬ noGuard [1, 128, 128, 128, 128, 128, 128, 128, 128, 128, 1] := by decide
example : ¬ noGuard [2, 0, 0] := by decide
example : ¬ noGuard [1, 0, 128, 128, 128, 128, 128, 32] := by decide
example : noGuard [0, 9, 9, 9, 9] := by decide

end Ldlm.Props.C17
