import Ldlm.Model.Rest
/-!
M5 — the Go client (`client/client.go`) with auto-renew, over the lock-server model M2.

Sequential semantics in virtual time with zero-latency RPCs: the client owns a map name ↦ renewer
(`renewMap`, keyed by the lock NAME alone); a renewer created at time t for a hold with lock timeout
T sends `Renew(name, key, T)` at t + i, t + 2i, … with i = `interval T`, and panics when a Renew
answers with an error.  `Unlock(name, key)` first removes and stops the renewer registered for
`name`, then sends the RPC.  Every RPC is `Core.step` under the client's connection.

`retry` is `rpcWithRetry` as a function of the outcomes of the successive attempts.
Core Lean only.
-/
namespace Ldlm.Client
open Ldlm Ldlm.Core Ldlm.AMap

/-- `renewer.Start`: seconds between renews for a lock timeout of `lt` seconds -/
def interval (minRenew : Int) (lt : Int) : Int :=
  if lt ≤ 30 then minRenew else max (lt - 30) minRenew

structure Renewer where
  key  : Str
  lt   : Int
  next : Nat          -- instant of the next Renew (ns)
deriving DecidableEq, Repr

structure CCfg where
  minRenew    : Int := 10
  noAutoRenew : Bool := false

/-- one RPC as seen at the transport -/
inductive Rpc
  | tryLock (name : Str) (size lt : Option Int) (ok : Bool) (key : Str) (err : Option Err)
  | renew (name key : Str) (lt : Int) (at_ : Nat) (ok : Bool) (err : Option Err)
  | unlock (name key : Str) (ok : Bool) (err : Option Err)
deriving Repr

inductive Panic
  | outOfSync                 -- "client out of sync - lock already exists in renew map"
  | renewFailed (name : Str)  -- "error renewing lock <name> …"
deriving DecidableEq, Repr

structure CSt (M : Type) where
  srv  : St M
  sid  : Sid
  rs   : List (Str × Renewer)     -- `renewMap`: lock name ↦ renewer
  panicked : Option Panic := none
  closed : Bool := false            -- `Close` was called: every renewer is stopped (its map entry stays)

inductive COp
  | tryLock (name : Str) (size lt : Int)     -- `LockOptions`: 0 = not set
  | unlock (name key : Str)
  | adv (dt : Nat)
  | close
deriving Repr

structure CResp where
  rpcs : List Rpc := []
  ok   : Bool := false
  key  : Str := []
  err  : Option Err := none
  tie  : Bool := false

section
variable {M : Type} (o : MapOps M) (c : Cfg) (cc : CCfg)

def optPos (x : Int) : Option Int := if x > 0 then some x else none

/-- the renewer whose timer fires first -/
def earliest : List (Str × Renewer) → Option (Str × Renewer)
  | [] => none
  | e :: rest => match earliest rest with
    | none => some e
    | some a => if a.2.next < e.2.next then some a else some e

/-- advance to `target`: server events and renewer timers in time order -/
def cadv (target : Nat) : Nat → CSt M → CSt M × List Rpc × Bool
  | 0, s => (s, [], true)
  | fuel+1, s =>
    match (if s.closed then some Panic.outOfSync else s.panicked), earliest s.rs with
    | some _, _ | none, none =>
      let r := Core.step o c s.srv (.advance (target - s.srv.now))
      ({ s with srv := r.1 }, [], r.2.tie)
    | none, some (name, ρ) =>
      if ρ.next > target then
        let r := Core.step o c s.srv (.advance (target - s.srv.now))
        ({ s with srv := r.1 }, [], r.2.tie)
      else
        let r := Core.step o c s.srv (.advance (ρ.next - s.srv.now))
        let tie := r.2.tie || s.srv.timers.any (fun e => e.2.deadline = ρ.next)
                   || (s.rs.filter (fun e => e.2.next = ρ.next)).length > 1
        let q := Core.step o c r.1 (.renew name ρ.key ρ.lt)
        let rpc := Rpc.renew name ρ.key ρ.lt ρ.next q.2.ok q.2.err
        match q.2.err with
        | some _ =>
          -- the renewer goroutine panics (the process dies; the model only lets the clock run on)
          let s1 : CSt M := { s with srv := q.1, panicked := some (.renewFailed name) }
          let (s2, rpcs, tie2) := cadv target fuel s1
          (s2, rpc :: rpcs, tie || tie2)
        | none =>
          let ρ' : Renewer := ⟨ρ.key, ρ.lt, ρ.next + (interval cc.minRenew ρ.lt).toNat * sec⟩
          let s1 : CSt M := { s with srv := q.1, rs := set s.rs name ρ' }
          let (s2, rpcs, tie2) := cadv target fuel s1
          (s2, rpc :: rpcs, tie || tie2)

def cstep (s : CSt M) : COp → CSt M × CResp
  | .tryLock name size lt =>
    let r := Core.step o c s.srv (.tryLock (some s.sid) name (optPos size) (optPos lt))
    let rpc := Rpc.tryLock name (optPos size) (optPos lt) r.2.ok r.2.key r.2.err
    let s1 := { s with srv := r.1 }
    -- `maybeCreateRenewer`
    if r.2.ok ∧ ¬ cc.noAutoRenew ∧ lt ≠ 0 then
      match get s.rs name with
      | some _ => ({ s1 with panicked := some .outOfSync }, { rpcs := [rpc], ok := true, key := r.2.key })
      | none =>
        ({ s1 with rs := set s.rs name ⟨r.2.key, lt, s.srv.now + (interval cc.minRenew lt).toNat * sec⟩ },
         { rpcs := [rpc], ok := true, key := r.2.key, err := r.2.err })
    else (s1, { rpcs := [rpc], ok := r.2.ok, key := r.2.key, err := r.2.err })
  | .unlock name key =>
    -- `maybeRemoveRenewer(name)`: whatever key the registered renewer has
    let rs := if cc.noAutoRenew then s.rs else del s.rs name
    let r := Core.step o c s.srv (.unlock (some s.sid) name key)
    ({ s with srv := r.1, rs := rs }, { rpcs := [.unlock name key r.2.ok r.2.err], ok := r.2.ok, err := r.2.err })
  | .adv dt =>
    let (s', rpcs, tie) := cadv (o := o) (c := c) (cc := cc) (s.srv.now + dt) (4 * ((s.srv.now + dt) / sec + 2) * (s.rs.length + 1)) s
    (s', { rpcs := rpcs, tie := tie })
  | .close => ({ s with closed := true }, {})

def cinit (sid : Sid) : CSt M := { srv := (Core.step o c (Core.init o c) (.connect sid)).1, sid := sid, rs := [] }

end

/-! ### `rpcWithRetry` -/

/-- result of one attempt -/
inductive Attempt
  | ok
  | unavailable          -- gRPC status `Unavailable`
  | failed (code : Nat)  -- any other error (status code ≠ Unavailable, or not a status error)
deriving DecidableEq, Repr

/-- `rpcWithRetry maxRetries f` against the scripted outcomes of the successive attempts: number of
attempts made and the outcome returned (`none`: the script ran out before the call returned) -/
def retry (maxRetries : Nat) : (retries : Nat) → List Attempt → Nat × Option Attempt
  | _, [] => (0, none)
  | retries, a :: rest =>
    if a = .unavailable ∧ retries < maxRetries then
      let r := retry maxRetries (retries + 1) rest
      (r.1 + 1, r.2)
    else (1, some a)

/-- `Config.MaxRetries` is a Go `int`: the test `retries >= maxRetries` with a negative budget ends the loop
after the first attempt, exactly as budget 0 does -/
def retryInt (maxRetries : Int) (outs : List Attempt) : Nat × Option Attempt := retry maxRetries.toNat 0 outs

end Ldlm.Client
