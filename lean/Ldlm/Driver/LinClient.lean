import Ldlm.Model.ClientConc
import Ldlm.Driver.Util
/-!
`driver linclient`: validation of M5c (Unlock / Close racing the renew goroutine of one hold) against
the instrumented Go client.  Input: what one hold's renew goroutine and the Unlock / Close thread did,
as events in the order they happened under a controlled schedule:

    hist
    inv u | inv c            Unlock(x) / Close() was called
    renew                    the goroutine sent a Renew RPC for the hold
    answer <0|1>             the answer to that Renew arrived (1 = locked; 0 = an error, the goroutine panics)
    unlockrpc                the Unlock RPC for the hold was sent
    connclose                Close closed the connection
    ret u | ret c            the call returned
    tick                     the virtual clock was advanced past the renew interval
    quiet <panics>           three lock timeouts of silence have passed; number of goroutine panics seen
    fin

A history is accepted when M5c (`ClientConc.step false`, the repaired `Stop`) has a schedule in which
the goroutine's `gSend` / `gAnswer` steps are exactly the observed `renew` / `answer` events with the observed answers, the
stopper's last step (the RPC / the connection close) is the observed `unlockrpc` / `connclose`, a call
returns only when its thread has finished, the renew timer fires only after a `tick`, and at `quiet` the
goroutine has exited (or panicked, iff a panic was observed).  Output: `ok` or `reject <event>`.
-/
namespace Ldlm.Driver.ClientLin
open Ldlm.ClientConc

structure CCfg where
  st : St
  uOn : Bool            -- Unlock was invoked
  cOn : Bool
  fireOk : Bool
deriving DecidableEq, Repr

def stepM (s : St) (a : Act) : Option St := step false s a

/-- the steps that are not observed events -/
def expand (c : CCfg) : List CCfg :=
  let t := if c.fireOk then (match stepM c.st .gTimer with | some s => [{ c with st := s }] | none => []) else []
  let k := match stepM c.st .gCheck with | some s => [{ c with st := s }] | none => []
  let st := match stepM c.st .gStop with | some s => [{ c with st := s }] | none => []
  -- stopper steps before its last one
  let u := if c.uOn ∧ (c.st.u = .u0 ∨ c.st.u = .u1) then (match stepM c.st .uStep with | some s => [{ c with st := s }] | none => []) else []
  let d := if c.cOn ∧ (c.st.c = .u0 ∨ c.st.c = .u1) then (match stepM c.st .cStep with | some s => [{ c with st := s }] | none => []) else []
  t ++ k ++ st ++ u ++ d

def addNew (acc : List CCfg) (cs : List CCfg) : List CCfg × List CCfg :=
  cs.foldl (fun (p : List CCfg × List CCfg) c => if p.1.contains c then p else (p.1 ++ [c], p.2 ++ [c])) (acc, [])

def closure : Nat → List CCfg → List CCfg → List CCfg
  | 0, acc, _ => acc
  | _, acc, [] => acc
  | fuel+1, acc, frontier =>
    let (acc', fresh) := addNew acc (frontier.flatMap expand)
    closure fuel acc' fresh

def event (cfgs : List CCfg) (ws : List String) : Option (List CCfg) :=
  match ws with
  | ["inv", "u"] => some (cfgs.map fun c => { c with uOn := true })
  | ["inv", "c"] => some (cfgs.map fun c => { c with cOn := true })
  | ["renew"] =>
    let all := closure 64 cfgs cfgs
    some (all.filterMap fun c => (stepM c.st .gSend).map fun s => { c with st := s })
  | ["answer", ok] =>
    let all := closure 64 cfgs cfgs
    some (all.filterMap fun c => (stepM c.st .gAnswer).bind fun s =>
      if decide (s.g = .sel) = (ok == "1") then some { c with st := s } else none)
  | ["unlockrpc"] =>
    let all := closure 64 cfgs cfgs
    some (all.filterMap fun c => if c.uOn ∧ c.st.u = .u2 then (stepM c.st .uStep).map fun s => { c with st := s } else none)
  | ["connclose"] =>
    let all := closure 64 cfgs cfgs
    some (all.filterMap fun c => if c.cOn ∧ c.st.c = .u2 then (stepM c.st .cStep).map fun s => { c with st := s } else none)
  | ["ret", "u"] => some ((closure 64 cfgs cfgs).filter fun c => c.st.u = .u3)
  | ["ret", "c"] => some ((closure 64 cfgs cfgs).filter fun c => c.st.c = .u3)
  | ["tick"] => some (cfgs.map fun c => { c with fireOk := true })
  | ["quiet", p] =>
    let cs := cfgs.map fun c => { c with fireOk := true }
    let all := closure 64 cs cs
    some (all.filter fun c => c.st.g ≠ .inRenew ∧
      (if p = "0" then
        -- nothing panicked: the goroutine has exited if somebody stopped it, else it is parked or about to renew
        c.st.g ≠ .panicked ∧ ((c.st.stopClosed = true) → c.st.g = .exited)
       else c.st.g = .panicked))
  | _ => none

partial def hist (h : IO.FS.Stream) (cfgs : List CCfg) (n : Nat) (bad : Option String) : IO String := do
  let line ← h.getLine
  if line.isEmpty then return "eof"
  let ws := (line.trimAscii.toString.splitOn " ").filter (· ≠ "")
  match ws with
  | ["fin"] =>
    match bad with
    | some b => return b
    | none => return "ok"
  | _ =>
    match bad with
    | some _ => hist h cfgs (n + 1) bad
    | none =>
      match event cfgs ws with
      | none => hist h cfgs (n + 1) (some s!"reject {n}: unknown event {line.trimAscii.toString}")
      | some [] => hist h [] (n + 1) (some s!"reject {n}: after `{line.trimAscii.toString}` no schedule of the model's threads produces the events so far")
      | some cs => hist h cs (n + 1) none

partial def linClientMain : IO Unit := do
  let h ← IO.getStdin
  let out ← IO.getStdout
  let line ← h.getLine
  if line.isEmpty then return ()
  if line.trimAscii.toString = "hist" then
    let r ← hist h [{ st := init, uOn := false, cOn := false, fireOk := false }] 0 none
    out.putStrLn r; out.flush
    linClientMain
  else
    out.putStrLn "bad-hist"; out.flush; linClientMain

end Ldlm.Driver.ClientLin
