#!/usr/bin/env python3
"""mkfp.py: (re)write lean/Ldlm/Pins/FP/Cxx.lean — one `rfl` pin per function a property's models were
written against (mapping FPMAP in verifcfg.py) — from the fingerprints in lean/Ldlm/Generated/Facts.lean.
Run it by hand on a REVIEWED tree (after reading the changed functions and, where needed, adjusting the
models); the checks never run it."""
import os, re, sys
sys.path.insert(0, '/verif')
import verifcfg as V
facts = open('/verif/lean/Ldlm/Generated/Facts.lean').read()
fp = dict(re.findall(r'^def (fp_\w+) : String := "(\w+)"', facts, re.M))
os.makedirs('/verif/lean/Ldlm/Pins/FP', exist_ok=True)
for p in sorted(V.FPMAP):
    lines = ['import Ldlm.Generated.Facts', '/-!',
             'Source fingerprints for %s: the functions of /repo its models were written against (verifcfg.FPMAP).' % p,
             '`Facts.fp_*` is regenerated from the working tree by every check (first 16 hex digits of SHA-256 of the',
             "normalised signature and body); the right-hand sides were copied from a reviewed tree by tools/mkfp.py and",
             'are NOT regenerated. A pin that no longer checks = this function changed since the models were written.',
             '-/', 'namespace Ldlm.Pins.FP.%s' % p, 'open Ldlm', '']
    for t in V.fp_funcs(p):
        i = V.fp_id(t)
        if i not in fp or fp[i] == 'missing':
            sys.exit('no fingerprint for %s (%s)' % (i, t))
        lines.append('/-- %s: %s%s -/' % (t[0], (t[1] + '.') if t[1] else '', t[2]))
        lines.append('theorem %s : Facts.%s = "%s" := rfl' % (i, i, fp[i]))
    lines += ['', 'end Ldlm.Pins.FP.%s' % p, '']
    open('/verif/lean/Ldlm/Pins/FP/%s.lean' % p, 'w').write('\n'.join(lines))
    print(p, len(V.fp_funcs(p)), 'functions')
