/-! Association-list maps with the four rewrite laws every invariant proof needs
(`get_set_eq/ne`, `get_del_eq/ne`). Core Lean only. -/
namespace Ldlm.AMap

def get {α β} [DecidableEq α] : List (α × β) → α → Option β
  | [], _ => none
  | (a, b) :: m, x => if a = x then some b else get m x

def set {α β} [DecidableEq α] : List (α × β) → α → β → List (α × β)
  | [], x, v => [(x, v)]
  | (a, b) :: m, x, v => if a = x then (a, v) :: m else (a, b) :: set m x v

def del {α β} [DecidableEq α] : List (α × β) → α → List (α × β)
  | [], _ => []
  | (a, b) :: m, x => if a = x then del m x else (a, b) :: del m x

/-- keep the entries satisfying `p` -/
def filt {α β} (p : α → β → Bool) : List (α × β) → List (α × β)
  | [] => []
  | (a, b) :: m => if p a b then (a, b) :: filt p m else filt p m

/-- apply `f` to every value -/
def mapv {α β} (f : α → β → β) : List (α × β) → List (α × β)
  | [] => []
  | (a, b) :: m => (a, f a b) :: mapv f m

/-- keys are pairwise distinct -/
def Uniq {α β} (m : List (α × β)) : Prop := (m.map Prod.fst).Nodup

variable {α β} [DecidableEq α]

@[simp] theorem get_nil (x : α) : get ([] : List (α × β)) x = none := rfl

theorem get_cons (a : α) (b : β) (m : List (α × β)) (x : α) :
    get ((a, b) :: m) x = if a = x then some b else get m x := rfl

@[simp] theorem get_set_eq (m : List (α × β)) (x : α) (v : β) : get (set m x v) x = some v := by
  induction m with
  | nil => simp [set, get]
  | cons p m ih =>
    obtain ⟨a, b⟩ := p
    by_cases h : a = x <;> simp [set, get, h, ih]

theorem get_set_ne (m : List (α × β)) (x y : α) (v : β) (h : x ≠ y) : get (set m x v) y = get m y := by
  induction m with
  | nil => simp [set, get, h]
  | cons p m ih =>
    obtain ⟨a, b⟩ := p
    have h' : ¬ y = x := fun e => h e.symm
    by_cases h1 : a = x
    · subst h1; simp [set, get, h]
    · by_cases h2 : a = y
      · subst h2; simp [set, get, h']
      · simp [set, get, h1, h2, ih]

theorem get_set (m : List (α × β)) (x y : α) (v : β) :
    get (set m x v) y = if x = y then some v else get m y := by
  by_cases h : x = y
  · subst h; simp
  · simp [h, get_set_ne _ _ _ _ h]

@[simp] theorem get_del_eq (m : List (α × β)) (x : α) : get (del m x) x = none := by
  induction m with
  | nil => simp [del, get]
  | cons p m ih =>
    obtain ⟨a, b⟩ := p
    by_cases h : a = x <;> simp [del, get, h, ih]

theorem get_del_ne (m : List (α × β)) (x y : α) (h : x ≠ y) : get (del m x) y = get m y := by
  induction m with
  | nil => simp [del, get]
  | cons p m ih =>
    obtain ⟨a, b⟩ := p
    have h' : ¬ y = x := fun e => h e.symm
    by_cases h1 : a = x
    · subst h1; simp [del, get, h, ih]
    · by_cases h2 : a = y
      · subst h2; simp [del, get, h']
      · simp [del, get, h1, h2, ih]

theorem get_del (m : List (α × β)) (x y : α) :
    get (del m x) y = if x = y then none else get m y := by
  by_cases h : x = y
  · subst h; simp
  · simp [h, get_del_ne _ _ _ h]

theorem get_mapv (f : α → β → β) (m : List (α × β)) (x : α) :
    get (mapv f m) x = (get m x).map (f x) := by
  induction m with
  | nil => simp [mapv, get]
  | cons p m ih =>
    obtain ⟨a, b⟩ := p
    by_cases h : a = x
    · subst h; simp [mapv, get]
    · simp [mapv, get, h, ih]

theorem get_some_mem (m : List (α × β)) (x : α) (v : β) (h : get m x = some v) : (x, v) ∈ m := by
  induction m with
  | nil => simp [get] at h
  | cons p m ih =>
    obtain ⟨a, b⟩ := p
    by_cases e : a = x
    · subst e; simp [get] at h; subst h; simp
    · simp [get, e] at h; exact List.mem_cons_of_mem _ (ih h)

theorem keys_set_subset (m : List (α × β)) (k : α) (v : β) :
    ∀ a ∈ (set m k v).map Prod.fst, a = k ∨ a ∈ m.map Prod.fst := by
  induction m with
  | nil => intro a ha; simp [set] at ha; exact Or.inl ha
  | cons e m ih =>
    obtain ⟨x, y⟩ := e
    intro a ha
    by_cases h : x = k
    · simp only [set, h, if_true, List.map_cons, List.mem_cons] at ha ⊢
      rcases ha with ha | ha
      · exact Or.inl ha
      · exact Or.inr (Or.inr ha)
    · simp only [set, h, if_false, List.map_cons, List.mem_cons] at ha ⊢
      rcases ha with ha | ha
      · exact Or.inr (Or.inl ha)
      · rcases ih a ha with h1 | h1
        · exact Or.inl h1
        · exact Or.inr (Or.inr h1)

theorem uniq_set (m : List (α × β)) (k : α) (v : β) (h : Uniq m) : Uniq (set m k v) := by
  unfold Uniq at *
  induction m with
  | nil => simp [set]
  | cons e m ih =>
    obtain ⟨x, y⟩ := e
    simp only [List.map_cons, List.nodup_cons] at h
    by_cases hx : x = k
    · simp only [set, hx, if_true, List.map_cons, List.nodup_cons]
      rw [← hx]; exact h
    · simp only [set, hx, if_false, List.map_cons, List.nodup_cons]
      refine ⟨?_, ih h.2⟩
      intro hm
      rcases keys_set_subset m k v x hm with h1 | h1
      · exact hx h1
      · exact h.1 h1

theorem keys_del_subset (m : List (α × β)) (k : α) : ∀ a ∈ (del m k).map Prod.fst, a ∈ m.map Prod.fst := by
  induction m with
  | nil => intro a ha; simp [del] at ha
  | cons e m ih =>
    obtain ⟨x, y⟩ := e
    intro a ha
    by_cases h : x = k
    · simp only [del, h, if_true] at ha
      exact List.mem_cons_of_mem _ (ih a ha)
    · simp only [del, h, if_false, List.map_cons, List.mem_cons] at ha ⊢
      rcases ha with ha | ha
      · exact Or.inl ha
      · exact Or.inr (ih a ha)

theorem uniq_del (m : List (α × β)) (k : α) (h : Uniq m) : Uniq (del m k) := by
  unfold Uniq at *
  induction m with
  | nil => simp [del]
  | cons e m ih =>
    obtain ⟨x, y⟩ := e
    simp only [List.map_cons, List.nodup_cons] at h
    by_cases hx : x = k
    · simp only [del, hx, if_true]; exact ih h.2
    · simp only [del, hx, if_false, List.map_cons, List.nodup_cons]
      exact ⟨fun hm => h.1 (keys_del_subset m k x hm), ih h.2⟩

theorem uniq_get_of_mem (m : List (α × β)) (k : α) (v : β) (h : Uniq m) (hm : (k, v) ∈ m) : get m k = some v := by
  unfold Uniq at h
  induction m with
  | nil => cases hm
  | cons e m ih =>
    obtain ⟨x, y⟩ := e
    simp only [List.map_cons, List.nodup_cons] at h
    rcases List.mem_cons.mp hm with he | he
    · cases he; simp [get_cons]
    · have hx : x ≠ k := by
        intro e; apply h.1; rw [e]; exact List.mem_map.mpr ⟨(k, v), he, rfl⟩
      simp [get_cons, hx, ih h.2 he]

end Ldlm.AMap
