import Ldlm.Proofs.CoreRestore
/-! The bookkeeping table and the state file never list a session id twice (for every history, restarts included). -/
namespace Ldlm.Core
open Ldlm.AMap
variable {M : Type} {o : MapOps M} {c : Cfg}

theorem keys_mapv {α β : Type} [DecidableEq α] (f : α → β → β) (m : List (α × β)) :
    (mapv f m).map Prod.fst = m.map Prod.fst := by
  induction m with
  | nil => rfl
  | cons e m ih => obtain ⟨a, b⟩ := e; simp [mapv, ih]

theorem uniq_mapv {α β : Type} [DecidableEq α] (f : α → β → β) (m : List (α × β)) (h : Uniq m) : Uniq (mapv f m) := by
  unfold Uniq at *; rw [keys_mapv]; exact h

/-- session ids are unique in the bookkeeping table and in the file -/
def SU (s : St M) : Prop := Uniq s.sessions ∧ Uniq s.file

theorem SU.same {s s' : St M} (h : SU s) (h1 : s'.sessions = s.sessions) (h2 : s'.file = s.file) : SU s' := by
  unfold SU; rw [h1, h2]; exact h

theorem su_removeBook {s : St M} (h : SU s) (n k : Str) : SU (removeBook s n k) :=
  ⟨uniq_mapv _ _ h.1, uniq_mapv _ _ h.1⟩

theorem su_addBook {s : St M} (h : SU s) (sid : Sid) (x : Hold) : SU (addBook s sid x) :=
  ⟨uniq_set _ _ _ h.1, uniq_set _ _ _ h.1⟩

theorem su_arm {s : St M} (h : SU s) (n k : Str) (sid : Sid) (lt : Option Int) : SU (arm s n k sid lt) := by
  unfold arm
  split
  · split
    · exact h.same rfl rfl
    · exact h
  · exact h

theorem su_book {s : St M} (h : SU s) (sid : Sid) (n k : Str) (sz : Int) (lt : Option Int) : SU (book s sid n k sz lt) :=
  su_arm (su_addBook h sid _) n k sid lt

theorem su_handOver {s : St M} (h : SU s) (n : Str) (r : LockRec) : SU (handOver o s n r).1 := by
  unfold handOver
  split
  · exact h.same rfl rfl
  · show SU (book _ _ _ _ _ _)
    apply su_book
    exact h.same rfl rfl

theorem su_mgrUnlock {s : St M} (h : SU s) (n k : Str) : SU (mgrUnlock o s n k).1 := by
  unfold mgrUnlock
  split
  · exact h
  · simp only
    split
    · exact su_handOver h _ _
    · exact h.same rfl rfl

theorem su_restoreOne {s : St M} (h : SU s) (sid : Sid) (x : Hold) : SU (restoreOne o c s sid x) := by
  unfold restoreOne
  simp only
  split
  · exact su_removeBook h _ _
  · split
    · exact h.same rfl rfl
    · exact (su_removeBook h x.name x.key).same rfl rfl

theorem su_clearHolds (hs : List Hold) : ∀ (t : St M) (ev : List Event), SU t →
    SU (hs.foldl (fun (acc : St M × List Event) h =>
      let (s', ok, _, ev) := mgrUnlock o acc.1 h.name h.key
      let s' := if ok then { s' with timers := del s'.timers (tkey h.name h.key) } else s'
      (s', acc.2 ++ ev)) (t, ev)).1 := by
  induction hs with
  | nil => intro t ev ht; exact ht
  | cons x hs ih =>
    intro t ev ht
    simp only [List.foldl_cons]
    apply ih
    have := su_mgrUnlock (o := o) ht x.name x.key
    split
    · exact this.same rfl rfl
    · exact this

theorem su_blocks : Blocks (o := o) (c := c) SU where
  connect := by
    intro s sid h
    simp only [step]
    split
    · exact ⟨uniq_set _ _ _ h.1, h.2⟩
    · exact h
  abandon := by
    intro s p e h
    exact h.same rfl rfl
  destroy := by
    intro s sid h
    unfold destroy
    split
    · exact h
    · simp only
      have h1 : SU (save { s with sessions := del s.sessions sid }) := ⟨uniq_del _ _ h.1, uniq_del _ _ h.1⟩
      split
      · exact h1
      · exact su_clearHolds _ _ [] h1
  tryLock := by
    intro s sid n sz lt h
    unfold srvTryLock
    simp only
    split
    · exact h.same rfl rfl
    · split
      · exact h.same rfl rfl
      · split
        · exact h.same rfl rfl
        · split
          · exact h.same rfl rfl
          · split
            · (apply su_book; exact h.same rfl rfl)
            · exact h.same rfl rfl
  lock := by
    intro s sid n sz lt wt h
    unfold srvLock
    simp only
    split
    · exact h.same rfl rfl
    · split
      · exact h.same rfl rfl
      · split
        · exact h.same rfl rfl
        · split
          · exact h.same rfl rfl
          · split
            · exact h.same rfl rfl
            · split
              · (apply su_book; exact h.same rfl rfl)
              · exact h.same rfl rfl
  unlock := by
    intro s n k h
    unfold srvUnlock
    simp only
    have := su_mgrUnlock (o := o) (h.same (s' := { s with timers := del s.timers (tkey n k) }) rfl rfl) n k
    split
    · exact su_removeBook this _ _
    · exact this
  renew := by
    intro s n k t h
    unfold srvRenew
    split
    · exact h
    · split
      · exact h
      · exact h.same rfl rfl
  tick := by intro s t h; exact h.same rfl rfl
  fire := by
    intro s tk tm _ h
    unfold fireLease
    simp only
    exact (su_removeBook (su_mgrUnlock (o := o) h tm.name tm.key) _ _).same rfl rfl
  gc := by intro s mi g h; exact h.same rfl rfl

theorem su_restart {s : St M} (h : SU s) : SU (restart o c s).1 := by
  unfold restart
  simp only [abandonAll_file]
  apply restoreAll_induct (o := o) (c := c) SU
  · intro t sid x ht; exact su_restoreOne ht sid x
  · by_cases hf : c.hasFile = true
    · simp only [hf, if_true]; exact ⟨h.2, h.2⟩
    · simp only [hf]; exact ⟨by simp [Uniq], by simp [Uniq]⟩

theorem run_su (ops : List Op) : SU (run o c ops) :=
  su_blocks.run (fun s h => su_restart h) ⟨by simp [init, Uniq], by simp [init, Uniq]⟩ ops

end Ldlm.Core
