// Package clientc drives the Go client of /repo (client.Client with auto-renew) in process and in
// virtual time against the real lock server logic: the client is built over an in-process
// pb.LDLMClient that records every RPC and forwards it to the real *grpc.Service under one
// connection context (C19). It must be built with the instrumented overlay (conc/run.sh): the
// renewer goroutine's panics are then recorded by verifrt.Recover instead of killing the binary,
// and part (b) schedules the renewer against Unlock/Close.
//
//	cd /verif/harness && VERIF_PROP=C19 ./conc/run.sh /dev/shm/ov-c19 -count=1 -run '^TestClient$' ./clientc
package clientc

import (
	"context"
	"net"
	"strings"
	"sync"
	"time"

	"github.com/imoore76/ldlm/client"
	ldlmgrpc "github.com/imoore76/ldlm/net/grpc"
	pb "github.com/imoore76/ldlm/protos"
	"github.com/imoore76/ldlm/server"
	"google.golang.org/grpc"
	"google.golang.org/grpc/codes"
	"google.golang.org/grpc/stats"
	"google.golang.org/grpc/status"

	_ "verif/harness/impl" // silences the repo logger
)

// rpcRec is one RPC as seen at the transport.
type rpcRec struct {
	Method string `json:"method"`
	Name   string `json:"name"`
	Key    string `json:"key,omitempty"` // request key (Unlock, Renew) or granted key (Lock, TryLock)
	AtNs   int64  `json:"at_ns"`         // virtual time of the call
	Ok     bool   `json:"ok"`            // locked / unlocked
	Err    string `json:"err,omitempty"` // pb error code name
	Size   *int32 `json:"size,omitempty"`    // request fields (Lock, TryLock)
	Lt     *int32 `json:"lt,omitempty"`
	RenewT int32  `json:"renew_t,omitempty"` // request field (Renew)
}

// transport implements pb.LDLMClient over the real service object: no network, no serialisation.
type transport struct {
	svc   *ldlmgrpc.Service
	conn  context.Context // what TagConn returned for this client's "connection"
	start time.Time
	mu     sync.Mutex
	log    []rpcRec
	closed bool // Close was called on the "connection": every later RPC fails as grpc-go's does
	failUnlock        int  // the next n Unlock RPCs are answered Unavailable (transport failure) ...
	failUnlockApplied bool // ... after the server has applied them (the response is lost), instead of before
	failRenew         int  // the next n Renew RPCs are answered Unavailable before they reach the server
	onEv   func(ev string, name, key string) // optional observer (event log of the M5c validation): renew / answer <0|1> / unlockrpc / connclose
}

func (t *transport) ev(e, name, key string) {
	t.mu.Lock()
	f := t.onEv
	t.mu.Unlock()
	if f != nil {
		f(e, name, key)
	}
}

// Close is what closing the gRPC connection is to the client: RPCs on it fail with Canceled.
func (t *transport) Close() error {
	t.mu.Lock()
	t.closed = true
	t.mu.Unlock()
	t.ev("connclose", "", "")
	return nil
}

func (t *transport) down() error {
	t.mu.Lock()
	defer t.mu.Unlock()
	if t.closed {
		return status.Error(codes.Canceled, "grpc: the client connection is closing")
	}
	return nil
}

func (t *transport) rec(r rpcRec) int {
	t.mu.Lock()
	defer t.mu.Unlock()
	t.log = append(t.log, r)
	return len(t.log) - 1
}

func (t *transport) snapshot() []rpcRec {
	t.mu.Lock()
	defer t.mu.Unlock()
	return append([]rpcRec{}, t.log...)
}

func (t *transport) len() int {
	t.mu.Lock()
	defer t.mu.Unlock()
	return len(t.log)
}

func errCode(e *pb.Error) string {
	if e == nil {
		return ""
	}
	return e.Code.String()
}

func (t *transport) Lock(ctx context.Context, in *pb.LockRequest, _ ...grpc.CallOption) (*pb.LockResponse, error) {
	if err := t.down(); err != nil {
		t.rec(rpcRec{Method: "Lock", Name: in.Name, AtNs: int64(time.Since(t.start)), Err: "(connection closed)"})
		return nil, err
	}
	at := int64(time.Since(t.start))
	m, err := t.svc.Lock(t.conn, in)
	if err == nil {
		t.rec(rpcRec{Method: "Lock", Name: in.Name, Key: m.Key, AtNs: at, Ok: m.Locked, Err: errCode(m.Error)})
	}
	return m, err
}

func (t *transport) TryLock(ctx context.Context, in *pb.TryLockRequest, _ ...grpc.CallOption) (*pb.LockResponse, error) {
	if err := t.down(); err != nil {
		t.rec(rpcRec{Method: "TryLock", Name: in.Name, AtNs: int64(time.Since(t.start)), Err: "(connection closed)"})
		return nil, err
	}
	at := int64(time.Since(t.start))
	m, err := t.svc.TryLock(t.conn, in)
	if err == nil {
		t.rec(rpcRec{Method: "TryLock", Name: in.Name, Key: m.Key, AtNs: at, Ok: m.Locked, Err: errCode(m.Error), Size: in.Size, Lt: in.LockTimeoutSeconds})
	}
	return m, err
}

func (t *transport) Unlock(ctx context.Context, in *pb.UnlockRequest, _ ...grpc.CallOption) (*pb.UnlockResponse, error) {
	if err := t.down(); err != nil {
		t.rec(rpcRec{Method: "Unlock", Name: in.Name, AtNs: int64(time.Since(t.start)), Err: "(connection closed)"})
		return nil, err
	}
	at := int64(time.Since(t.start))
	t.ev("unlockrpc", in.Name, in.Key)
	t.mu.Lock()
	fail := t.failUnlock > 0
	if fail {
		t.failUnlock--
	}
	applied := t.failUnlockApplied
	t.mu.Unlock()
	if fail {
		if applied {
			t.svc.Unlock(t.conn, in)
		}
		t.rec(rpcRec{Method: "Unlock", Name: in.Name, Key: in.Key, AtNs: at, Err: "(unavailable)"})
		return nil, status.Error(codes.Unavailable, "transport is closing")
	}
	m, err := t.svc.Unlock(t.conn, in)
	if err == nil {
		t.rec(rpcRec{Method: "Unlock", Name: in.Name, Key: in.Key, AtNs: at, Ok: m.Unlocked, Err: errCode(m.Error)})
	}
	return m, err
}

func (t *transport) Renew(ctx context.Context, in *pb.RenewRequest, _ ...grpc.CallOption) (*pb.LockResponse, error) {
	if err := t.down(); err != nil {
		t.rec(rpcRec{Method: "Renew", Name: in.Name, AtNs: int64(time.Since(t.start)), Err: "(connection closed)"})
		t.ev("renew", in.Name, in.Key)
		t.ev("answer 0", in.Name, in.Key)
		return nil, err
	}
	at := int64(time.Since(t.start))
	t.mu.Lock()
	failR := t.failRenew > 0
	if failR {
		t.failRenew--
	}
	t.mu.Unlock()
	if failR {
		t.rec(rpcRec{Method: "Renew", Name: in.Name, Key: in.Key, AtNs: at, Err: "(unavailable)", RenewT: in.LockTimeoutSeconds})
		return nil, status.Error(codes.Unavailable, "transport is closing")
	}
	// recorded BEFORE the call: a renew that is in flight when Unlock returns was sent before it
	i := t.rec(rpcRec{Method: "Renew", Name: in.Name, Key: in.Key, AtNs: at, Err: "(in flight)", RenewT: in.LockTimeoutSeconds})
	t.ev("renew", in.Name, in.Key)
	m, err := t.svc.Renew(t.conn, in)
	if err == nil {
		t.mu.Lock()
		t.log[i].Ok, t.log[i].Err = m.Locked, errCode(m.Error)
		t.mu.Unlock()
	}
	if err == nil && m.Locked && m.Error == nil {
		t.ev("answer 1", in.Name, in.Key)
	} else {
		t.ev("answer 0", in.Name, in.Key)
	}
	return m, err
}

// world is one lock server, one service object, one client over the recording transport.
type world struct {
	ls      *server.LockServer
	lsClose func()
	tr      *transport
	c       *client.Client
	cancel  context.CancelFunc
	start   time.Time
}

func newWorld(maxRetries int) (*world, error) {
	cfg := &server.LockServerConfig{Shards: 4, LockGcInterval: 1000 * time.Hour, LockGcMinIdle: 5 * time.Minute, DefaultLockTimeout: 10 * time.Minute}
	cfg.IPCSocketFile = ""
	cfg.StateFile = ""
	ls, closer, err := server.New(cfg)
	if err != nil {
		if closer != nil {
			closer()
		}
		return nil, err
	}
	svc := ldlmgrpc.NewService(ls)
	ctx, cancel := context.WithCancel(context.Background())
	w := &world{ls: ls, lsClose: closer, cancel: cancel, start: time.Now()}
	conn := svc.TagConn(ctx, &stats.ConnTagInfo{RemoteAddr: &net.TCPAddr{IP: net.IPv4(10, 0, 0, 1), Port: 40001}})
	w.tr = &transport{svc: svc, conn: conn, start: w.start}
	w.c = client.VerifNew(ctx, w.tr, false, maxRetries)
	return w, nil
}

func (w *world) now() time.Duration { return time.Since(w.start) }

// held: is (name,key) in the server's hold listing?
func (w *world) held(name, key string) bool {
	for _, l := range w.ls.Locks() {
		if l.Name() == name && l.Key() == key {
			return true
		}
	}
	return false
}

// close ends the world: cancelling the client context stops every renewer that is still alive.
func (w *world) close() {
	w.cancel()
	w.lsClose()
}

// panicClass turns "goroutine spawn1 panicked: error renewing lock x …" into the message and its
// stable class ("error renewing lock", "client out of sync", …).
func panicClass(p string) (msg, class, lockName string) {
	msg = p
	if i := strings.Index(p, "panicked: "); i >= 0 {
		msg = p[i+len("panicked: "):]
	}
	switch {
	case strings.HasPrefix(msg, "error renewing lock "):
		rest := strings.TrimPrefix(msg, "error renewing lock ")
		lockName = strings.SplitN(rest, " ", 2)[0]
		return msg, "error renewing lock", lockName
	case strings.HasPrefix(msg, "client out of sync"):
		return msg, "client out of sync", ""
	case strings.Contains(msg, "send on closed channel"):
		return msg, "send on closed channel", ""
	}
	w := strings.Fields(msg)
	return msg, strings.Join(w[:min(len(w), 4)], " "), ""
}

// renewInterval is the documented rule: 10 s up to a 30 s timeout, else max(T-30, 10).
func renewInterval(T int32) time.Duration {
	if T <= 30 {
		return 10 * time.Second
	}
	return time.Duration(max(T-30, 10)) * time.Second
}
