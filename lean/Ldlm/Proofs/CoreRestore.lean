import Ldlm.Proofs.CoreMain
/-! Restart (`server.New` on the state file): what the restore loop does, by induction over the file. -/
namespace Ldlm.Core
variable {M : Type} {o : MapOps M} {c : Cfg}

/-- a state predicate preserved by `restoreOne` is preserved by the whole restore loop -/
theorem restoreAll_induct (P : St M → Prop) (h1 : ∀ s sid x, P s → P (restoreOne o c s sid x))
    (m : List (Sid × List Hold)) : ∀ s, P s → P (restoreAll o c s m) := by
  unfold restoreAll
  induction m with
  | nil => intro s h; exact h
  | cons e m ih =>
    intro s h
    simp only [List.foldl_cons]
    apply ih
    generalize e.2 = hs
    induction hs generalizing s with
    | nil => exact h
    | cons x hs ih2 => simp only [List.foldl_cons]; exact ih2 _ (h1 s e.1 x h)

/-- the same with the list of entries still to come available to the step -/
theorem restoreOne_now (s : St M) (sid : Sid) (x : Hold) : (restoreOne o c s sid x).now = s.now := by
  unfold restoreOne
  simp only
  split
  · rfl
  · split <;> rfl

theorem restoreOne_nreq (s : St M) (sid : Sid) (x : Hold) : (restoreOne o c s sid x).nreq = s.nreq := by
  unfold restoreOne
  simp only
  split
  · rfl
  · split <;> rfl

theorem restoreOne_pending (s : St M) (sid : Sid) (x : Hold) : (restoreOne o c s sid x).pending = s.pending := by
  unfold restoreOne
  simp only
  split
  · rfl
  · split <;> rfl

/-- timers created by the restore loop carry the default lease and their own pair -/
def TimersDefault (c : Cfg) (t0 : Nat) (s : St M) : Prop :=
  s.now = t0 ∧ ∀ e ∈ s.timers, e.2.deadline = t0 + c.dlt ∧ e.1 = tkey e.2.name e.2.key

theorem restoreOne_timersDefault (t0 : Nat) (s : St M) (sid : Sid) (x : Hold) (h : TimersDefault c t0 s) :
    TimersDefault c t0 (restoreOne o c s sid x) := by
  obtain ⟨hn, ht⟩ := h
  refine ⟨by rw [restoreOne_now]; exact hn, ?_⟩
  unfold restoreOne
  simp only
  split
  · exact ht
  · split
    · intro e he
      rcases mem_set he with h1 | h1
      · rw [h1]; simp [hn]
      · exact ht e h1
    · exact ht

/-- every key in the rebuilt table comes from an entry of the loaded file, under the same name -/
def KeysFromFile (o : MapOps M) (m : List (Sid × List Hold)) (s : St M) : Prop :=
  ∀ n r, o.get s.locks n = some r → ∀ k ∈ r.keys, ∃ e ∈ m, ∃ x ∈ e.2, x.name = n ∧ x.key = k

theorem restoreAll_induct_mem (P : St M → Prop) (m : List (Sid × List Hold))
    (h1 : ∀ s e x, e ∈ m → x ∈ e.2 → P s → P (restoreOne o c s e.1 x)) : ∀ s, P s → P (restoreAll o c s m) := by
  unfold restoreAll
  have key : ∀ (m' : List (Sid × List Hold)), (∀ e ∈ m', e ∈ m) → ∀ s, P s →
      P (m'.foldl (fun s e => e.2.foldl (fun s h => restoreOne o c s e.1 h) s) s) := by
    intro m'
    induction m' with
    | nil => intro _ s h; exact h
    | cons e m' ih =>
      intro hsub s h
      simp only [List.foldl_cons]
      apply ih (fun e' he' => hsub e' (List.mem_cons_of_mem _ he'))
      have hem : e ∈ m := hsub e (by simp)
      have inner : ∀ (hs : List Hold), (∀ x ∈ hs, x ∈ e.2) → ∀ s, P s →
          P (hs.foldl (fun s h => restoreOne o c s e.1 h) s) := by
        intro hs
        induction hs with
        | nil => intro _ s h; exact h
        | cons x hs ih2 =>
          intro hsub2 s h
          simp only [List.foldl_cons]
          exact ih2 (fun y hy => hsub2 y (List.mem_cons_of_mem _ hy)) _ (h1 s e x hem (hsub2 x (by simp)) h)
      exact inner e.2 (fun x hx => hx) s h
  exact key m (fun e he => he)

theorem restoreOne_keysFromFile (ho : o.Lawful) (m : List (Sid × List Hold)) (s : St M) (e : Sid × List Hold) (x : Hold)
    (he : e ∈ m) (hx : x ∈ e.2) (h : KeysFromFile o m s) : KeysFromFile o m (restoreOne o c s e.1 x) := by
  unfold restoreOne
  simp only
  split
  · exact h
  · rename_i r hg
    have hr : ∀ k ∈ r.keys, ∃ e' ∈ m, ∃ y ∈ e'.2, y.name = x.name ∧ y.key = k := by
      rcases getLockCreate_cases hg with ⟨r0, hg0, er, _⟩ | ⟨_, er⟩
      · subst er; exact h x.name r0 hg0
      · subst er; intro k hk; cases hk
    split
    · intro n r' hg' k hk
      simp only [ho.get_set] at hg'
      by_cases en : x.name = n
      · simp [en] at hg'
        rw [← hg'] at hk
        simp at hk
        rcases hk with hk | hk
        · rw [← en]; exact hr k hk
        · exact ⟨e, he, x, hx, en, hk.symm⟩
      · simp [en] at hg'; exact h n r' hg' k hk
    · intro n r' hg' k hk
      simp only [removeBook_locks, ho.get_set] at hg'
      by_cases en : x.name = n
      · simp [en] at hg'
        rw [← hg'] at hk
        rw [← en]; exact hr k hk
      · simp [en] at hg'; exact h n r' hg' k hk

/-- abandoning waiters touches neither the clock nor the file -/
theorem abandonAll_now_file (ps : List Pending) (e : Err) : ∀ (s : St M) (ev : List Event),
    (ps.foldl (fun (acc : St M × List Event) p =>
      let (s', ev) := abandon o acc.1 p e
      (s', acc.2 ++ ev)) (s, ev)).1.now = s.now ∧
    (ps.foldl (fun (acc : St M × List Event) p =>
      let (s', ev) := abandon o acc.1 p e
      (s', acc.2 ++ ev)) (s, ev)).1.file = s.file := by
  induction ps with
  | nil => intro s ev; exact ⟨rfl, rfl⟩
  | cons p ps ih =>
    intro s ev
    simp only [List.foldl_cons]
    have := ih (abandon o s p e).1 (ev ++ (abandon o s p e).2)
    simpa [abandon] using this

/-- every hold in the table after a restart has a lease timer that fires at restart time + default lock timeout -/
def KeysLeased (o : MapOps M) (c : Cfg) (t0 : Nat) (s : St M) : Prop :=
  ∀ n r, o.get s.locks n = some r → ∀ k ∈ r.keys,
    ∃ tm, AMap.get s.timers (tkey n k) = some tm ∧ tm.deadline = t0 + c.dlt

theorem restoreOne_keysLeased (ho : o.Lawful) (t0 : Nat) (s : St M) (sid : Sid) (x : Hold)
    (hn : s.now = t0) (h : KeysLeased o c t0 s) : KeysLeased o c t0 (restoreOne o c s sid x) := by
  unfold restoreOne
  simp only
  split
  · exact h
  · rename_i r hg
    have hr : ∀ k ∈ r.keys, ∃ tm, AMap.get s.timers (tkey x.name k) = some tm ∧ tm.deadline = t0 + c.dlt := by
      rcases getLockCreate_cases hg with ⟨r0, hg0, er, _⟩ | ⟨_, er⟩
      · subst er; exact h x.name r0 hg0
      · subst er; intro k hk; cases hk
    split
    · intro n r' hg' k hk
      simp only [ho.get_set] at hg'
      simp only [AMap.get_set]
      by_cases et : tkey x.name x.key = tkey n k
      · simp [et, hn]
      · simp only [et, if_false]
        by_cases en : x.name = n
        · simp [en] at hg'
          rw [← hg'] at hk
          simp at hk
          rcases hk with hk | hk
          · rw [← en]; exact hr k hk
          · exfalso; apply et; rw [en, hk]
        · simp [en] at hg'; exact h n r' hg' k hk
    · intro n r' hg' k hk
      simp only [removeBook_locks, ho.get_set] at hg'
      show ∃ tm, AMap.get (removeBook s x.name x.key).timers (tkey n k) = some tm ∧ tm.deadline = t0 + c.dlt
      have htm : (removeBook s x.name x.key).timers = s.timers := rfl
      rw [htm]
      by_cases en : x.name = n
      · simp [en] at hg'
        rw [← hg'] at hk
        rw [← en]; exact hr k hk
      · simp [en] at hg'; exact h n r' hg' k hk

theorem abandonAll_now (s : St M) (ps : List Pending) (e : Err) : (abandonAll o s ps e).1.now = s.now :=
  (abandonAll_now_file ps e s []).1
theorem abandonAll_file (s : St M) (ps : List Pending) (e : Err) : (abandonAll o s ps e).1.file = s.file :=
  (abandonAll_now_file ps e s []).2

section restart
variable (o) (c)

theorem restart_now (s : St M) : (restart o c s).1.now = s.now := by
  unfold restart
  simp only [abandonAll_now, abandonAll_file]
  apply restoreAll_induct (o := o) (c := c) (fun t => t.now = s.now)
  · intro t sid x ht; rw [restoreOne_now]; exact ht
  · rfl

theorem restart_timersDefault (s : St M) : TimersDefault c s.now (restart o c s).1 := by
  unfold restart
  simp only [abandonAll_now, abandonAll_file]
  apply restoreAll_induct (o := o) (c := c) (TimersDefault c s.now)
  · intro t sid x ht; exact restoreOne_timersDefault s.now t sid x ht
  · refine ⟨rfl, ?_⟩
    intro e he; cases he

theorem restart_keysLeased (ho : o.Lawful) (s : St M) : KeysLeased o c s.now (restart o c s).1 := by
  unfold restart
  simp only [abandonAll_now, abandonAll_file]
  have := restoreAll_induct (o := o) (c := c) (fun t => t.now = s.now ∧ KeysLeased o c s.now t)
    (fun t sid x ht => ⟨by rw [restoreOne_now]; exact ht.1, restoreOne_keysLeased ho s.now t sid x ht.1 ht.2⟩)
  refine (this _ _ ⟨?_, ?_⟩).2
  · rfl
  · intro n r hg
    simp [ho.get_empty] at hg

theorem restart_keysFromFile (ho : o.Lawful) (s : St M) :
    KeysFromFile o (if c.hasFile then s.file else []) (restart o c s).1 := by
  unfold restart
  simp only [abandonAll_now, abandonAll_file]
  apply restoreAll_induct_mem (o := o) (c := c) (KeysFromFile o (if c.hasFile then s.file else []))
  · intro t e x he hx ht; exact restoreOne_keysFromFile ho _ t e x he hx ht
  · intro n r hg
    simp [ho.get_empty] at hg

end restart

end Ldlm.Core
