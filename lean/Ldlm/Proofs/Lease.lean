import Ldlm.Model.Lease
/-! M3a: the invariant of one leased hold under every schedule of Unlock / Renew / expiry threads. -/
namespace Ldlm.Lease

structure Inv (s : St) : Prop where
  armed : s.timer = .armed → s.held = true ∧ s.cb = .none
  fired : s.timer = .fired → s.cb ≠ .none
  cbDone : (s.cb = .c2 ∨ s.cb = .c3) → s.held = false
  owed  : s.owed = true → s.held = false ∨ s.cb = .c1
  u2    : ∀ t, (t, UPc.u2) ∈ s.unl → s.held = false
  said  : 0 < s.saidUnlocked → s.held = false ∨ s.cb = .c1
  armedU0 : s.timer = .armed → ∀ t pc, (t, pc) ∈ s.unl → pc = .u0
  u2f   : ∀ t, (t, UPc.u2f) ∈ s.unl → s.owed = true

theorem init_inv : Inv init :=
  ⟨fun _ => ⟨rfl, rfl⟩, (fun h => by cases h), (fun h => by rcases h with h | h <;> cases h),
   (fun h => by cases h), (fun t h => by cases h), (fun h => by simp [init] at h), (fun _ t pc h => by cases h),
   (fun t h => by cases h)⟩

theorem mem_filter_of_mem {l : List (Nat × UPc)} {p : Nat × UPc → Bool} {x : Nat × UPc}
    (h : x ∈ l.filter p) : x ∈ l := (List.mem_filter.mp h).1

theorem step_inv (s s' : St) (a : Act) (ans : Ans) (h : Inv s) (hs : step s a = some (s', ans)) : Inv s' := by
  obtain ⟨ha, hf, hc, ho, hu, hsd, hau, huf⟩ := h
  cases a with
  | startUnlock t =>
    simp only [step] at hs
    split at hs
    · cases hs
    · simp at hs; obtain ⟨rfl, _⟩ := hs
      refine ⟨ha, hf, hc, ho, ?_, hsd, ?_, ?_⟩
      · intro t' hm
        simp at hm
        exact hu t' hm
      · intro htm t' pc hm
        simp at hm
        rcases hm with hm | hm
        · exact hau htm t' pc hm
        · exact hm.2
      · intro t' hm
        simp at hm
        exact huf t' hm
  | unlockStep t =>
    simp only [step] at hs
    split at hs
    · cases hs
    · rename_i t0 pc hfind
      cases pc with
      | u0 =>
        simp only at hs
        cases htm : s.timer with
        | fired =>
          simp only [htm] at hs
          simp at hs; obtain ⟨rfl, _⟩ := hs
          have hcb := hf htm
          refine ⟨(fun h => by cases h), (fun h => by cases h), hc, ?_, ?_, hsd, (fun h => by cases h), fun _ _ => rfl⟩
          · intro _
            cases hcbv : s.cb with
            | none => exact absurd hcbv hcb
            | c1 => right; rfl
            | c2 => left; exact hc (Or.inl hcbv)
            | c3 => left; exact hc (Or.inr hcbv)
          · intro t' hm
            rcases List.mem_append.mp hm with h1 | h1
            · exact hu t' (mem_filter_of_mem h1)
            · simp at h1
        | none =>
          simp only [htm] at hs
          simp at hs; obtain ⟨rfl, _⟩ := hs
          refine ⟨(fun h => by cases h), (fun h => by cases h), hc, ho, ?_, hsd, (fun h => by cases h), ?_⟩
          · intro t' hm
            rcases List.mem_append.mp hm with h1 | h1
            · exact hu t' (mem_filter_of_mem h1)
            · simp at h1
          · intro t' hm
            rcases List.mem_append.mp hm with h1 | h1
            · exact huf t' (mem_filter_of_mem h1)
            · simp at h1
        | armed =>
          simp only [htm] at hs
          simp at hs; obtain ⟨rfl, _⟩ := hs
          refine ⟨(fun h => by cases h), (fun h => by cases h), hc, ho, ?_, hsd, (fun h => by cases h), ?_⟩
          · intro t' hm
            rcases List.mem_append.mp hm with h1 | h1
            · exact hu t' (mem_filter_of_mem h1)
            · simp at h1
          · intro t' hm
            rcases List.mem_append.mp hm with h1 | h1
            · exact huf t' (mem_filter_of_mem h1)
            · simp at h1
      | u1 =>
        simp only at hs
        split at hs
        · simp at hs; obtain ⟨rfl, _⟩ := hs
          have hmem : (t0, UPc.u1) ∈ s.unl := List.mem_of_find?_eq_some hfind
          have hna : s.timer ≠ .armed := fun htm => by have := hau htm t0 .u1 hmem; cases this
          refine ⟨fun htm => absurd htm hna, hf, fun _ => rfl, fun _ => Or.inl rfl, fun _ _ => rfl, fun _ => Or.inl rfl,
                  fun htm => absurd htm hna, ?_⟩
          intro t' hm
          rcases List.mem_append.mp hm with h1 | h1
          · exact huf t' (mem_filter_of_mem h1)
          · simp at h1
        · rename_i hh
          simp at hs; obtain ⟨rfl, _⟩ := hs
          exact ⟨ha, hf, hc, ho, fun t' hm => hu t' (mem_filter_of_mem hm), hsd,
                 fun htm t' pc hm => hau htm t' pc (mem_filter_of_mem hm), fun t' hm => huf t' (mem_filter_of_mem hm)⟩
      | u2 =>
        simp only at hs
        simp at hs; obtain ⟨rfl, _⟩ := hs
        have hh : s.held = false := hu t0 (by
          have := List.mem_of_find?_eq_some hfind; exact this)
        exact ⟨ha, hf, hc, ho, fun t' hm => hu t' (mem_filter_of_mem hm), fun _ => Or.inl hh,
               fun htm t' pc hm => hau htm t' pc (mem_filter_of_mem hm), fun t' hm => huf t' (mem_filter_of_mem hm)⟩
      | u2f =>
        simp only at hs
        simp at hs; obtain ⟨rfl, _⟩ := hs
        have hmem : (t0, UPc.u2f) ∈ s.unl := List.mem_of_find?_eq_some hfind
        have how := ho (huf t0 hmem)
        exact ⟨ha, hf, hc, ho, fun t' hm => hu t' (mem_filter_of_mem hm), fun _ => how,
               fun htm t' pc hm => hau htm t' pc (mem_filter_of_mem hm), fun t' hm => huf t' (mem_filter_of_mem hm)⟩
  | renew =>
    simp only [step] at hs
    split at hs <;> simp at hs <;> obtain ⟨rfl, _⟩ := hs
    · exact ⟨ha, hf, hc, ho, hu, hsd, hau, huf⟩
    · exact ⟨ha, hf, hc, ho, hu, hsd, hau, huf⟩
    · exact ⟨ha, hf, hc, ho, hu, hsd, hau, huf⟩
  | fire =>
    simp only [step] at hs
    split at hs
    · rename_i hc0
      simp at hs; obtain ⟨rfl, _⟩ := hs
      refine ⟨(fun h => by cases h), (fun _ => by simp), (fun h => by rcases h with h | h <;> cases h),
              fun _ => Or.inr rfl, hu, fun _ => Or.inr rfl, (fun h => by cases h), huf⟩
    · cases hs
  | cbStep =>
    simp only [step] at hs
    split at hs
    · cases hs
    · rename_i hcb
      simp at hs; obtain ⟨rfl, _⟩ := hs
      refine ⟨?_, (fun h => by simp), fun _ => rfl, fun _ => Or.inl rfl, fun _ _ => rfl, fun _ => Or.inl rfl, hau, huf⟩
      intro htm; have := (ha htm).2; rw [hcb] at this; cases this
    · rename_i hcb
      simp at hs; obtain ⟨rfl, _⟩ := hs
      have hh := hc (Or.inl hcb)
      refine ⟨?_, (fun h => by simp), fun _ => hh, fun _ => Or.inl hh, hu, fun _ => Or.inl hh, hau, huf⟩
      intro htm; have := (ha htm).2; rw [hcb] at this; cases this
    · rename_i hcb
      simp at hs; obtain ⟨rfl, _⟩ := hs
      have hh := hc (Or.inr hcb)
      refine ⟨?_, ?_, (fun h => by rcases h with h | h <;> cases h), fun _ => Or.inl hh, hu, fun _ => Or.inl hh, ?_, huf⟩
      · intro htm
        split at htm
        · cases htm
        · have := (ha htm).2; rw [hcb] at this; cases this
      · intro htm
        split at htm
        · cases htm
        · rename_i hne; exact absurd htm hne
      · intro htm
        split at htm
        · cases htm
        · exact hau htm

end Ldlm.Lease
