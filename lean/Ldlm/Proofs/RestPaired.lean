import Ldlm.Proofs.Rest
/-! M4: the same request sequence through the REST gateway and over gRPC, on two fresh servers. -/
namespace Ldlm.Rest
open Ldlm Ldlm.Core Ldlm.AMap
variable {M : Type} {o : MapOps M} {c : Cfg} {rc : RCfg}

/-- a transport-independent request sequence: session `i` is the i-th one opened -/
inductive Sem
  | opn
  | close (i : Nat)
  | req (i : Nat) (q : Req)
  | gap (dt : Nat)

def restOf (rc : RCfg) : Sem → ROp
  | .opn => .create
  | .close i => .delete (some (rc.genCookie i))
  | .req i q => .req (some (rc.genCookie i)) (some q)
  | .gap dt => .adv dt

def grpcOf (rc : RCfg) : Sem → ROp
  | .opn => .gconnect
  | .close i => .gend (rc.genConn i)
  | .req i q => .greq (rc.genConn i) q
  | .gap dt => .adv dt

/-- total time the sequence takes -/
def total : List Sem → Nat
  | [] => 0
  | .gap dt :: r => dt + total r
  | _ :: r => total r

/-- requests and closes only on sessions that are open (a closed connection sends nothing) -/
def wf : List Nat → Nat → List Sem → Bool
  | _, _, [] => true
  | opn, n, .opn :: r => wf (n :: opn) (n + 1) r
  | opn, n, .close i :: r => decide (i ∈ opn) && wf (opn.erase i) n r
  | opn, n, .req i _ :: r => decide (i ∈ opn) && wf opn n r
  | opn, n, .gap _ :: r => wf opn n r

structure Sim (rc : RCfg) (opn : List Nat) (n : Nat) (sR sG : RSt M) : Prop where
  core  : sR.core = sG.core
  nR    : sR.nconn = n
  nG    : sG.nconn = n
  nrest : sR.nrest = n
  live  : ∀ i ∈ opn, ∃ d, get sR.rs (rc.genCookie i) = some (rc.genConn i, d)
  late  : ∀ e ∈ sR.rs, rc.timeout ≤ e.2.2
  lt    : ∀ i ∈ opn, i < n
  nodup : opn.Nodup
  gEmpty : sG.rs = []

theorem req_now (s : St M) (sid : Sid) (q : Req) : (Core.step o c s (q.op sid)).1.now = s.now := by
  cases q <;> simp [Req.op, Core.step]

/-- with every idle deadline after the target the advance is the lock server's advance -/
theorem radv_no_expiry (s : RSt M) (dt : Nat) (h : ∀ e ∈ s.rs, s.core.now + dt < e.2.2) :
    (rstep o c rc s (.adv dt)).1 = { s with core := (Core.step o c s.core (.advance dt)).1 } ∧
    (rstep o c rc s (.adv dt)).2.resp = none ∧ (rstep o c rc s (.adv dt)).2.ended = [] := by
  have hsub : s.core.now + dt - s.core.now = dt := by omega
  simp only [rstep]
  unfold radv
  split
  · simp [hsub]
  · rename_i ck sid d he
    have := h _ (earliest_mem he)
    simp only at this
    have hd : d > s.core.now + dt := this
    simp [hd, hsub]

theorem sim_step (hinj : ∀ i j, rc.genCookie i = rc.genCookie j → i = j)
    {opn : List Nat} {n : Nat} {sR sG : RSt M} (h : Sim rc opn n sR sG) (x : Sem) (rest : List Sem)
    (hw : wf opn n (x :: rest) = true) (ht : sR.core.now + total (x :: rest) < rc.timeout) :
    ∃ opn' n', Sim rc opn' n' (rstep o c rc sR (restOf rc x)).1 (rstep o c rc sG (grpcOf rc x)).1 ∧
      wf opn' n' rest = true ∧
      (rstep o c rc sR (restOf rc x)).1.core.now + total rest < rc.timeout ∧
      (rstep o c rc sR (restOf rc x)).2.resp = (rstep o c rc sG (grpcOf rc x)).2.resp ∧
      (rstep o c rc sR (restOf rc x)).2.http ≠ 401 ∧ (rstep o c rc sR (restOf rc x)).2.http ≠ 409 := by
  cases x with
  | opn =>
    simp only [wf] at hw
    simp only [total] at ht
    refine ⟨n :: opn, n + 1, ?_, hw, ?_, rfl, by simp [rstep, restOf], by simp [rstep, restOf]⟩
    · simp only [restOf, grpcOf, rstep]
      refine ⟨?_, ?_, ?_, ?_, ?_, ?_, ?_, ?_, h.gEmpty⟩
      · simp only [h.core, h.nR, h.nG]
      · simp only [h.nR]
      · simp only [h.nG]
      · simp only [h.nrest]
      · intro i hi
        simp only [get_set, h.nrest, h.nR]
        rcases List.mem_cons.mp hi with rfl | hi
        · simp
        · have hlt := h.lt i hi
          have : rc.genCookie n ≠ rc.genCookie i := by
            intro e; have := hinj _ _ e; omega
          simp only [this, if_false]
          exact h.live i hi
      · intro e he
        rcases mem_set he with h1 | h1
        · rw [h1]; simp
        · exact h.late e h1
      · intro i hi
        rcases List.mem_cons.mp hi with rfl | hi
        · omega
        · have := h.lt i hi; omega
      · refine List.nodup_cons.mpr ⟨?_, h.nodup⟩
        intro hm; have := h.lt n hm; omega
    · simp only [restOf, rstep, connect_now]; exact ht
  | close i =>
    simp only [wf, Bool.and_eq_true, decide_eq_true_eq] at hw
    simp only [total] at ht
    obtain ⟨d, hg⟩ := h.live i hw.1
    refine ⟨opn.erase i, n, ?_, hw.2, ?_, ?_, ?_, ?_⟩
    · simp only [restOf, grpcOf, rstep, hg]
      refine ⟨?_, h.nR, h.nG, h.nrest, ?_, ?_, ?_, h.nodup.erase i, h.gEmpty⟩
      · simp only [endSession, h.core]
      · intro j hj
        have hj' := (List.Nodup.mem_erase_iff h.nodup).mp hj
        simp only [endSession_rs, get_del]
        have : rc.genCookie i ≠ rc.genCookie j := by
          intro e; exact hj'.1 (hinj _ _ e).symm
        simp only [this, if_false]
        exact h.live j hj'.2
      · intro e he
        exact h.late e (mem_del he).1
      · intro j hj; exact h.lt j (List.mem_of_mem_erase hj)
    · simp only [restOf, rstep, hg, endSession, disconnect_now]; exact ht
    · simp [restOf, grpcOf, rstep, hg]
    · simp [restOf, rstep, hg]
    · simp [restOf, rstep, hg]
  | req i q =>
    simp only [wf, Bool.and_eq_true, decide_eq_true_eq] at hw
    simp only [total] at ht
    obtain ⟨d, hg⟩ := h.live i hw.1
    refine ⟨opn, n, ?_, hw.2, ?_, ?_, ?_, ?_⟩
    · simp only [restOf, grpcOf, rstep, hg]
      refine ⟨?_, h.nR, h.nG, h.nrest, ?_, ?_, h.lt, h.nodup, h.gEmpty⟩
      · simp only [h.core]
      · intro j hj
        simp only [get_set]
        by_cases e : rc.genCookie i = rc.genCookie j
        · have := hinj _ _ e; subst this; simp
        · simp only [e, if_false]; exact h.live j hj
      · intro e he
        rcases mem_set he with h1 | h1
        · rw [h1]; simp
        · exact h.late e h1
    · simp only [restOf, rstep, hg, req_now]; exact ht
    · simp [restOf, grpcOf, rstep, hg, h.core]
    · simp [restOf, rstep, hg]
    · simp [restOf, rstep, hg]
  | gap dt =>
    simp only [wf] at hw
    simp only [total] at ht
    have hR := radv_no_expiry (o := o) (c := c) (rc := rc) sR dt (by
      intro e he; have := h.late e he; omega)
    have hG := radv_no_expiry (o := o) (c := c) (rc := rc) sG dt (by
      intro e he; rw [h.gEmpty] at he; cases he)
    refine ⟨opn, n, ?_, hw, ?_, ?_, ?_, ?_⟩
    · simp only [restOf, grpcOf, hR.1, hG.1]
      exact ⟨by simp only [h.core], h.nR, h.nG, h.nrest, h.live, h.late, h.lt, h.nodup, h.gEmpty⟩
    · simp only [restOf, hR.1, advance_now]; omega
    · simp only [restOf, grpcOf, hR.2.1, hG.2.1]
    · simp [restOf, rstep]
    · simp [restOf, rstep]

/-- **C15 (paired runs)** -/
theorem paired_agree (hinj : ∀ i j, rc.genCookie i = rc.genCookie j → i = j) (sems : List Sem) :
    ∀ {opn : List Nat} {n : Nat} {sR sG : RSt M}, Sim rc opn n sR sG → wf opn n sems = true →
      sR.core.now + total sems < rc.timeout →
      (rrun o c rc sR (sems.map (restOf rc))).core = (rrun o c rc sG (sems.map (grpcOf rc))).core ∧
      (routs o c rc sR (sems.map (restOf rc))).map (·.resp) = (routs o c rc sG (sems.map (grpcOf rc))).map (·.resp) ∧
      ∀ r ∈ routs o c rc sR (sems.map (restOf rc)), r.http ≠ 401 ∧ r.http ≠ 409 := by
  induction sems with
  | nil => intro opn n sR sG h _ _; exact ⟨h.core, rfl, by intro r hr; cases hr⟩
  | cons x rest ih =>
    intro opn n sR sG h hw ht
    obtain ⟨opn', n', hs, hw', ht', hr, h401, h409⟩ := sim_step hinj h x rest hw ht
    obtain ⟨i1, i2, i3⟩ := ih hs hw' ht'
    refine ⟨?_, ?_, ?_⟩
    · simpa [rrun] using i1
    · simp only [List.map_cons, routs, hr, i2]
    · intro r hr'
      simp only [List.map_cons, routs] at hr'
      rcases List.mem_cons.mp hr' with rfl | hr'
      · exact ⟨h401, h409⟩
      · exact i3 r hr'

theorem sim_init : Sim rc [] 0 (init o c : RSt M) (init o c) :=
  ⟨rfl, rfl, rfl, rfl, (by intro i hi; cases hi), (by intro e he; cases he), (by intro i hi; cases hi), List.nodup_nil, rfl⟩

end Ldlm.Rest
