import Ldlm.Model.AMap
/-!
M1 — the lock table under arbitrary interleaving: one model action per critical section of
`lock/lock.go` and `lock/manager.go` (after the repairs: GC skips referenced locks, `Lock.Unlock`
removes the key and releases the unit in ONE critical section), any number of threads, any number
of lock names, GC passes anywhere.

"Pool" form: instead of a program counter per thread the state holds, per lock object, the list of
calls that have acquired a unit but not yet recorded their key (`acq`), the semaphore's FIFO (`q`),
the key list, and the count of in-flight manager calls holding a reference (`refs`).  A schedule is
a `List Act`; a theorem over all `List Act` is a theorem over every schedule of any number of threads.

Every step also EMITS the operations of the atomic specification (a counting lock with keys) that
are linearized at it (`AOp`), so that refinement is a statement about `step` itself.
Core Lean only.
-/
namespace Ldlm.Table
open Ldlm

abbrev Str := List Nat
abbrev Tid := Nat

structure Obj where
  size : Nat
  cur  : Nat                     -- units taken in the semaphore
  q    : List (Tid × Str)        -- waiters, FIFO
  keys : List Str
  acq  : List (Tid × Str)        -- unit taken, key not yet recorded (between Acquire and addKey)
  plain : Nat                    -- in-flight manager calls holding a reference that are neither in `acq` nor in `q`
deriving DecidableEq, Repr

/-- `ManagedLock.users`: every in-flight manager call that fetched the object holds one reference -/
def Obj.refs (o : Obj) : Nat := o.plain + o.acq.length + o.q.length

abbrev St := List (Str × Obj)

inductive Act
  | getCreate (t : Tid) (n : Str) (size : Nat)   -- getLock(create = true): take a reference, creating the object if absent
  | getExisting (t : Tid) (n : Str)              -- getLock(create = false) (Unlock)
  | tryAcquire (t : Tid) (n : Str) (k : Str)     -- semaphore.TryAcquire(1)
  | acquire (t : Tid) (n : Str) (k : Str)        -- semaphore.Acquire: fast path or enqueue
  | addKey (t : Tid) (n : Str) (k : Str)         -- addKey after a successful acquisition
  | handBack (t : Tid) (n : Str) (k : Str)       -- acquired, but the context was already done: give the unit back
  | cancel (t : Tid) (n : Str) (k : Str)         -- a queued waiter gives up (wait timeout, caller cancel, shutdown)
  | unlock (t : Tid) (n : Str) (k : Str)         -- Lock.Unlock: remove key + Release(1) + notifyWaiters, one critical section
  | decref (t : Tid) (n : Str)                   -- the manager call returns: drop the reference
  | gc (n : Str)                                 -- lockGc looks at object n: deletes it iff unheld and unreferenced (idle clock: any)
deriving Repr

/-- operations of the atomic specification, with their results -/
inductive AOp
  | try (n : Str) (k : Str) (ok : Bool)
  | grant (n : Str) (k : Str)               -- a blocking Lock obtains the lock
  | unlock (n : Str) (k : Str) (ok : Bool)
deriving Repr, DecidableEq

/-- `Release(1)` + `notifyWaiters` with unit weights: the unit goes to the head waiter, else it is freed -/
def Obj.freeUnit (n : Str) (o : Obj) : Obj × List AOp :=
  match o.q with
  | w :: q' => ({ o with q := q', acq := w :: o.acq }, [.grant n w.2])
  | []      => ({ o with cur := o.cur - 1 }, [])

/-- one critical section on object `o` of lock `n`; `none` = the action is not enabled (a call
can only touch an object it has fetched, i.e. it holds one of the `plain` references) -/
def stepObj (n : Str) (o : Obj) : Act → Option (Obj × List AOp)
  | .tryAcquire t _ k =>
      if o.plain = 0 then none else
      if o.cur < o.size ∧ o.q = [] then
        some ({ o with cur := o.cur + 1, acq := (t, k) :: o.acq, plain := o.plain - 1 }, [.try n k true])
      else some (o, [.try n k false])
  | .acquire t _ k =>
      if o.plain = 0 then none else
      if o.cur < o.size ∧ o.q = [] then
        some ({ o with cur := o.cur + 1, acq := (t, k) :: o.acq, plain := o.plain - 1 }, [.grant n k])
      else some ({ o with q := o.q ++ [(t, k)], plain := o.plain - 1 }, [])
  | .addKey t _ k =>
      if (t, k) ∈ o.acq then
        some ({ o with acq := o.acq.erase (t, k), keys := o.keys ++ [k], plain := o.plain + 1 }, [])
      else none
  | .handBack t _ k =>
      if (t, k) ∈ o.acq then
        let (o', g) := ({ o with acq := o.acq.erase (t, k), plain := o.plain + 1 }).freeUnit n
        some (o', .unlock n k true :: g)       -- for the spec: granted and immediately released
      else none
  | .cancel t _ k =>
      if (t, k) ∈ o.q then some ({ o with q := o.q.erase (t, k), plain := o.plain + 1 }, []) else none
  | .unlock _ _ k =>
      if o.plain = 0 then none else
      if k ∈ o.keys then
        let (o', g) := ({ o with keys := o.keys.erase k }).freeUnit n
        some (o', .unlock n k true :: g)
      else some (o, [.unlock n k false])
  | .decref _ _ => if 0 < o.plain then some ({ o with plain := o.plain - 1 }, []) else none
  | _ => none

def Act.name : Act → Str
  | .getCreate _ n _ | .getExisting _ n | .tryAcquire _ n _ | .acquire _ n _ | .addKey _ n _
  | .handBack _ n _ | .cancel _ n _ | .unlock _ n _ | .decref _ n | .gc n => n

/-- an action on an existing object -/
def stepOn (s : St) (a : Act) : Option (St × List AOp) :=
  match AMap.get s a.name with
  | some o => (stepObj a.name o a).map (fun r => (AMap.set s a.name r.1, r.2))
  | none => none

def step (s : St) (a : Act) : Option (St × List AOp) :=
  match a with
  | .getCreate _ n size =>
    if size = 0 then some (s, []) else
    match AMap.get s n with
    | some o => if o.size ≠ size then some (s, []) else some (AMap.set s n { o with plain := o.plain + 1 }, [])
    | none => some (AMap.set s n { size := size, cur := 0, q := [], keys := [], acq := [], plain := 1 }, [])
  | .getExisting _ n =>
    match AMap.get s n with
    | some o => some (AMap.set s n { o with plain := o.plain + 1 }, [])
    | none => some (s, [])
  | .gc n =>
    match AMap.get s n with
    | some o => if o.keys = [] ∧ o.refs = 0 then some (AMap.del s n, []) else some (s, [])   -- `len(keys) == 0 && users == 0`
    | none => some (s, [])
  | a => stepOn s a

/-- run a schedule, collecting the emitted specification operations -/
def run : St → List Act → Option (St × List AOp)
  | s, [] => some (s, [])
  | s, a :: as =>
    match step s a with
    | none => none
    | some (s', ev) => (run s' as).map (fun r => (r.1, ev ++ r.2))

/-! ### the atomic specification: a counting lock with keys (per lock name: the list of live keys) -/

def astep (size : Nat) (h : List Str) : AOp → Option (List Str)
  | .try _ k true    => if h.length < size then some (k :: h) else none
  | .try _ _ false   => if h.length < size then none else some h
  | .grant _ k       => if h.length < size then some (k :: h) else none
  | .unlock _ k true  => if k ∈ h then some (h.erase k) else none
  | .unlock _ k false => if k ∈ h then none else some h

def arun (size : Nat) : List Str → List AOp → Option (List Str)
  | h, [] => some h
  | h, a :: as => (astep size h a).bind (fun h' => arun size h' as)

/-- abstraction: every key that currently occupies a unit -/
def Obj.abs (o : Obj) : List Str := o.keys ++ o.acq.map (·.2)

end Ldlm.Table
