/-! Helpers shared by the line-protocol drivers (core Lean only). -/
namespace Ldlm.Driver

def hexVal (c : Char) : Nat :=
  if c.isDigit then c.toNat - 48
  else if c ≥ 'a' ∧ c ≤ 'f' then c.toNat - 87
  else if c ≥ 'A' ∧ c ≤ 'F' then c.toNat - 55 else 0

def parseHex (s : String) : List Nat :=
  let rec go : List Char → List Nat
    | a :: b :: rest => (hexVal a * 16 + hexVal b) :: go rest
    | _ => []
  go s.toList

def hexDigit (n : Nat) : Char := if n < 10 then Char.ofNat (48 + n) else Char.ofNat (87 + n)

def hex (b : List Nat) : String :=
  String.ofList (b.flatMap fun x => [hexDigit (x / 16 % 16), hexDigit (x % 16)])

/-- read stdin line by line until EOF, threading a state -/
partial def lines {σ} (h : IO.FS.Stream) (s : σ) (f : σ → String → IO σ) : IO σ := do
  let line ← h.getLine
  if line.isEmpty then return s
  let s' ← f s (line.trimAscii.toString)
  lines h s' f

end Ldlm.Driver
